(* FrB_witness_proofs.v — refutation witnesses (by computation on the faithful models) for
   the places where the RTU / binary framers violate C03, C06, C11.  Every witness was also
   replayed on the real classes (findings/C*_rtubin.json, replayed on every run). *)
From PM.theories Require Import Base Expr Struct FrBCode Crc FrBCommon FrRtu FrBin FrSpecB.
From PM.Generated Require Import GenFramerB.
Open Scope list_scope.
Open Scope N_scope.

(* a decoder that accepts every PDU; unit filter off *)
Definition cfg_server : fcfg :=
  {| cf_dec := fun _ => DMsg; cf_rules := server_decoder; cf_units := [1%Z]; cf_single := true |}.
Definition cfg_client : fcfg :=
  {| cf_dec := fun _ => DMsg; cf_rules := client_decoder; cf_units := [1%Z]; cf_single := true |}.

(* feed a list of chunks, collecting deliveries and the exits of each call *)
Fixpoint rtu_feed (cfg : fcfg) (st : rstate) (chunks : list bytes) : rstate * list delivered * list fexit :=
  match chunks with
  | [] => (st, [], [])
  | c :: t => let '(st1, ds, x) := rtu_recv cfg st c in
              let '(st2, ds', xs) := rtu_feed cfg st1 t in (st2, ds ++ ds', x :: xs)
  end.

Fixpoint bin_feed (cfg : fcfg) (st : bstate) (chunks : list bytes) : bstate * list delivered * list fexit :=
  match chunks with
  | [] => (st, [], [])
  | c :: t => let '(st1, ds, x) := bin_recv cfg st c in
              let '(st2, ds', xs) := bin_feed cfg st1 t in (st2, ds ++ ds', x :: xs)
  end.

Definition deliveries {S} (r : S * list delivered * list fexit) : list delivered := snd (fst r).
Definition exits {S} (r : S * list delivered * list fexit) : list fexit := snd r.

(* read holding registers 1..2 and write register 5 := 0x1234, unit 1 *)
Definition pdu_a : bytes := [3; 0; 1; 0; 2].
Definition pdu_b : bytes := [6; 0; 5; 18; 52].

(* ---------------------------------------------------------------- C03 *)

(* binary: a register value 0x7B7D is doubled by the sender and never un-doubled; the frame
   on the wire is not the specified one and the receiver delivers nothing *)
Lemma binary_escaping_witness :
  let pdu := [6; 0; 5; 123; 125] in
  exists packet, bin_build 1 6 [0; 5; 123; 125] = Ok packet /\
    packet <> spec_adu_binary 1 pdu /\
    bin_recv cfg_server bin_init packet = (bin_init, [], FOk) /\
    spec_rx_binary (spec_adu_binary 1 pdu) = Some (pdu, 1).
Proof.
  eexists. split; [vm_compute; reflexivity|].
  split; [intro H; vm_compute in H; discriminate|].
  split; vm_compute; reflexivity.
Qed.

(* binary: the unit id / CRC bytes are never escaped: unit 125 ('}') ends the frame early *)
Lemma binary_unit_delim_witness :
  exists packet, bin_build 125 3 [0; 1; 0; 2] = Ok packet /\
    packet <> spec_adu_binary 125 pdu_a /\
    deliveries (bin_feed cfg_server bin_init [packet]) = [].
Proof.
  eexists. split; [vm_compute; reflexivity|].
  split; [intro H; vm_compute in H; discriminate|].
  vm_compute. reflexivity.
Qed.

(* RTU: Return Query Data with two data words is a 10-byte frame; the size oracle says 8,
   the CRC is taken over the wrong span and the frame is dropped *)
Lemma rtu_size_oracle_witness :
  let frame := spec_adu_rtu 1 [8; 0; 0; 0; 1; 0; 2] in
  frame_size (lookup_rule server_decoder 8) frame = Ok 8%Z /\ length frame = 10%nat /\
  crc_ok frame = true /\
  rtu_recv cfg_server rtu_init frame = (rtu_reset rtu_init, [], FOk).
Proof. cbv zeta. repeat split; vm_compute; reflexivity. Qed.

(* ---------------------------------------------------------------- C06 *)

(* RTU (FIXED in /repo: drain loop): two valid frames in one read are both delivered by that call *)
Lemma rtu_pipelined_fixed_witness :
  let fa := spec_adu_rtu 1 pdu_a in let fb := spec_adu_rtu 1 pdu_b in
  deliveries (rtu_feed cfg_server rtu_init [fa; fb]) = [(pdu_a, 1%Z); (pdu_b, 1%Z)] /\
  deliveries (rtu_feed cfg_server rtu_init [fa ++ fb]) = [(pdu_a, 1%Z); (pdu_b, 1%Z)] /\
  deliveries (rtu_feed cfg_server rtu_init [fa ++ firstn 3 fb; skipn 3 fb]) = [(pdu_a, 1%Z); (pdu_b, 1%Z)].
Proof. cbv zeta. repeat split; vm_compute; reflexivity. Qed.

(* RTU (FIXED in /repo): a frame for a unit that is not served is skipped; the frames behind it
   in the same read are delivered *)
Lemma rtu_foreign_unit_skipped_witness :
  let cfg := {| cf_dec := fun _ => DMsg; cf_rules := server_decoder; cf_units := [1%Z]; cf_single := false |} in
  let fa := spec_adu_rtu 1 pdu_a in let ff := spec_adu_rtu 9 pdu_b in
  deliveries (rtu_feed cfg rtu_init [fa ++ ff ++ fa]) = [(pdu_a, 1%Z); (pdu_a, 1%Z)] /\
  exits (rtu_feed cfg rtu_init [fa ++ ff ++ fa]) = [FOk].
Proof. cbv zeta. split; vm_compute; reflexivity. Qed.

(* RTU, response direction: a Read Device Identification response cut inside its object
   list makes struct.error escape; the half-written header then raises KeyError on every
   later call: the receiver is deaf *)
Lemma rtu_mei_partial_witness :
  let fa := spec_adu_rtu 1 [3; 2; 0; 7] in
  let mei := spec_adu_rtu 1 [43; 14; 1; 1; 0; 0; 1; 0; 3; 65; 66; 67] in
  rtu_feed cfg_client rtu_init [fa; mei] =
    (rtu_reset rtu_init, [([3; 2; 0; 7], 1%Z); ([43; 14; 1; 1; 0; 0; 1; 0; 3; 65; 66; 67], 1%Z)], [FOk; FOk]) /\
  exits (rtu_feed cfg_client rtu_init [fa; firstn 9 mei; skipn 9 mei; fa; fa]) =
    [FOk; FExn StructError; FExn KeyError; FExn KeyError; FExn KeyError] /\
  deliveries (rtu_feed cfg_client rtu_init [fa; firstn 9 mei; skipn 9 mei; fa; fa]) = [([3; 2; 0; 7], 1%Z)].
Proof. cbv zeta. repeat split; vm_compute; reflexivity. Qed.

(* binary: a read that ends inside a frame (two or more of its bytes received) resets the
   receiver; the frame is lost *)
Lemma binary_incomplete_reset_witness :
  let f := spec_adu_binary 1 pdu_a in
  no_delim (with_crc (1 :: pdu_a)) = true /\
  deliveries (bin_feed cfg_server bin_init [f]) = [(pdu_a, 1%Z)] /\
  deliveries (bin_feed cfg_server bin_init [firstn 4 f; skipn 4 f]) = [].
Proof. cbv zeta. repeat split; vm_compute; reflexivity. Qed.

(* binary (FIXED in /repo: advanceFrame drops exactly the frame): several frames in one read are all
   delivered; a trailing '{' of the next frame is kept *)
Lemma binary_pipelined_fixed_witness :
  let fa := spec_adu_binary 1 pdu_a in let fb := spec_adu_binary 1 pdu_b in
  no_delim (with_crc (1 :: pdu_a)) = true /\ no_delim (with_crc (1 :: pdu_b)) = true /\
  deliveries (bin_feed cfg_server bin_init [fa; fb]) = [(pdu_a, 1%Z); (pdu_b, 1%Z)] /\
  deliveries (bin_feed cfg_server bin_init [fa ++ fb]) = [(pdu_a, 1%Z); (pdu_b, 1%Z)] /\
  deliveries (bin_feed cfg_server bin_init [fa ++ fb ++ firstn 1 fa; skipn 1 fa]) = [(pdu_a, 1%Z); (pdu_b, 1%Z); (pdu_a, 1%Z)].
Proof. cbv zeta. repeat split; vm_compute; reflexivity. Qed.

(* binary (still open, #19): a frame for a unit that is not served resets the buffer, the frames
   behind it in the same read are lost *)
Lemma binary_foreign_unit_witness :
  let cfg := {| cf_dec := fun _ => DMsg; cf_rules := server_decoder; cf_units := [1%Z]; cf_single := false |} in
  let fa := spec_adu_binary 1 pdu_a in let ff := spec_adu_binary 9 pdu_b in
  no_delim (with_crc (9 :: pdu_b)) = true /\
  deliveries (bin_feed cfg bin_init [fa ++ ff ++ fa]) = [(pdu_a, 1%Z)] /\
  deliveries (bin_feed cfg bin_init [fa; ff; fa]) = [(pdu_a, 1%Z); (pdu_a, 1%Z)].
Proof. cbv zeta. repeat split; vm_compute; reflexivity. Qed.

(* ---------------------------------------------------------------- C11 *)

(* binary, bare framer: the two bytes "{}" make struct.error escape checkFrame on every later
   call; no valid frame is ever delivered again (the serial handlers' resetFrame rescues it) *)
Lemma binary_short_brace_deaf_witness :
  let f := spec_adu_binary 1 pdu_a in
  exits (bin_feed cfg_server bin_init [[123; 125]; f; f; f]) =
    [FExn StructError; FExn StructError; FExn StructError; FExn StructError] /\
  deliveries (bin_feed cfg_server bin_init [[123; 125]; f; f; f]) = [].
Proof. cbv zeta. split; vm_compute; reflexivity. Qed.

(* RTU, bare framer: a CRC-valid frame whose PDU the decoder rejects is never removed: every
   later call raises and nothing is delivered *)
Lemma rtu_undecodable_deaf_witness :
  let cfg := {| cf_dec := fun pdu => if bytes_eqb pdu [3; 0] then DNone else DMsg;
                cf_rules := client_decoder; cf_units := [1%Z]; cf_single := true |} in
  let bad := spec_adu_rtu 1 [3; 0] in     (* byte count 0: a complete 5-byte frame *)
  let f := spec_adu_rtu 1 [3; 2; 0; 7] in
  exits (rtu_feed cfg rtu_init [bad; f; f; f]) = [FExn ModbusIOExc; FExn ModbusIOExc; FExn ModbusIOExc; FExn ModbusIOExc] /\
  deliveries (rtu_feed cfg rtu_init [bad; f; f; f]) = [].
Proof. cbv zeta. split; vm_compute; reflexivity. Qed.

(* RTU, response direction (FIXED in /repo: 16-bit byte count): garbage "01 18 01 00" now asks for
   (1 << 8) + 0 + 6 = 262 bytes (it was 65 542): once they are there the CRC fails, the buffer is dropped
   and the following valid frames are delivered *)
Lemma rtu_fifo_size_fixed_witness :
  let f := spec_adu_rtu 1 (3 :: 250 :: repeat 7 250) in
  frame_size (lookup_rule client_decoder 24) [1; 24; 1; 0] = Ok 262%Z /\
  length (deliveries (rtu_feed cfg_client rtu_init [[1; 24; 1; 0]; f; f; f; f])) = 2%nat.
Proof. cbv zeta. split; vm_compute; reflexivity. Qed.

(* ... but the 16-bit byte count is still taken at face value.  A conformant Read FIFO Queue response
   carries at most 31 registers: byte count <= 2 + 2 * 31 = 64, frame <= 70 bytes.  Garbage "11 18 01 D7"
   (byte count 471) makes the receiver wait for 477 bytes, "01 18 FF FF" for 65 541: valid frames behind it
   pile up, and when the extent is finally reached the CRC fails and the whole buffer - including the
   complete valid frames in it - is dropped *)
Lemma rtu_fifo_extent_witness :
  let f := spec_adu_rtu 1 [3; 2; 0; 7] in
  frame_size (lookup_rule client_decoder 24) [17; 24; 0; 64] = Ok 70%Z /\
  frame_size (lookup_rule client_decoder 24) [17; 24; 1; 215] = Ok 477%Z /\
  frame_size (lookup_rule client_decoder 24) [1; 24; 255; 255] = Ok 65541%Z /\
  deliveries (rtu_feed cfg_client rtu_init [[1; 24; 255; 255]; f; f; f; f]) = [] /\
  length (r_buf (fst (fst (rtu_feed cfg_client rtu_init [[1; 24; 255; 255]; f; f; f; f])))) = 32%nat /\
  deliveries (rtu_feed cfg_client rtu_init ([17; 24; 1; 215] :: repeat f 70)) = repeat ([3; 2; 0; 7], 1%Z) 2.
Proof. cbv zeta. repeat split; vm_compute; reflexivity. Qed.

(* RTU (FIXED in /repo): several frames per read are all consumed by that read: no backlog *)
Lemma rtu_no_backlog_fixed_witness :
  let f := spec_adu_rtu 1 pdu_a in
  map (fun n => length (r_buf (fst (fst (rtu_feed cfg_server rtu_init (repeat (f ++ f) n))))))
      [1; 2; 3; 4; 5]%nat = [0; 0; 0; 0; 0]%nat /\
  length (deliveries (rtu_feed cfg_server rtu_init (repeat (f ++ f) 5))) = 10%nat.
Proof. split; vm_compute; reflexivity. Qed.
