(* Exec_proofs.v — part 1: the datastore model of Store.v (instantiated with the GENERATED
   arithmetic GenStore.code) refines the abstract Modbus data model of ExecSpec.v.
   [abs] is the abstraction function: protocol address k of table t is the cell k + off of
   the block behind t's slot (off = 1 unless zero mode).  Built on the C18 lemmas of
   Store_proofs.v (imported, not edited). *)
From PM.theories Require Import Base Expr Store Exec ExecSpec ExecView.
From PM.Generated Require Import GenStore.
From PM.proofs Require Import Store_proofs.
From Coq Require Import ZifyBool.
Open Scope string_scope.
Open Scope list_scope.
Open Scope Z_scope.

(* ------------------------------------------------------------------ abstraction *)

Definition tbl_letter (t : tbl) : string :=
  match t with Coils => "c" | Discrete => "d" | Holding => "h" | Input => "i" end.

(* table selected by a function code, per the Modbus data model *)
Definition fx_tbl (fx : Z) : option tbl :=
  if (fx =? 1) || (fx =? 5) || (fx =? 15) then Some Coils
  else if fx =? 2 then Some Discrete
  else if fx =? 4 then Some Input
  else if (fx =? 3) || (fx =? 6) || (fx =? 16) || (fx =? 22) || (fx =? 23) then Some Holding
  else None.

Definition slot_of (c : slavectx) (t : tbl) : nat :=
  match assoc_str (cx_slots c) (tbl_letter t) with Some i => i | None => O end.

(* every table has a slot pointing at an existing block (ModbusSlaveContext always has) *)
Definition inv (c : slavectx) : Prop :=
  forall t, exists i, assoc_str (cx_slots c) (tbl_letter t) = Some i /\ (i < length (cx_blocks c))%nat.

Definition blk_cell (b : block) (k : Z) : option Z :=
  match b with BSeq s => seq_cell s k | BSp s => sp_cell s k end.

Definition abs (c : slavectx) : astate :=
  {| a_slot := slot_of c;
     a_cell := fun i k => blk_cell (nth_block c i) (k + cx_off c) |}.

Lemma aeq_refl s : aeq s s.
Proof. split; reflexivity. Qed.

Lemma aeq_sym s s' : aeq s s' -> aeq s' s.
Proof. intros [H1 H2]. split; intros; symmetry; auto. Qed.

Lemma aeq_trans s1 s2 s3 : aeq s1 s2 -> aeq s2 s3 -> aeq s1 s3.
Proof. intros [A1 A2] [B1 B2]. split; intros; [rewrite A1; apply B1 | rewrite A2; apply B2]. Qed.

Lemma forallb_ext' {A} (f g : A -> bool) l : (forall x, f x = g x) -> forallb f l = forallb g l.
Proof. intros H. induction l as [|x l IH]; cbn; [reflexivity|]. rewrite H, IH. reflexivity. Qed.

(* the spec operations respect extensional equality *)
Lemma cell_aeq s s' t k : aeq s s' -> cell s t k = cell s' t k.
Proof. intros [H1 H2]. unfold cell. rewrite H1, H2. reflexivity. Qed.

Lemma range_ok_aeq s s' t a n : aeq s s' -> range_ok s t a n = range_ok s' t a n.
Proof.
  intros H. unfold range_ok. apply forallb_ext'. intros k. rewrite (cell_aeq s s' t k H). reflexivity.
Qed.

Lemma read_aeq s s' t a n : aeq s s' -> read s t a n = read s' t a n.
Proof.
  intros H. unfold read. apply map_ext. intros k. rewrite (cell_aeq s s' t k H). reflexivity.
Qed.

Lemma write_aeq s s' t a vs : aeq s s' -> aeq (write s t a vs) (write s' t a vs).
Proof.
  intros [H1 H2]. split; cbn; intros.
  - apply H1.
  - rewrite H1, H2. reflexivity.
Qed.

(* ------------------------------------------------------------------ slots *)

Lemma fx_tbl_mapper fx t :
  fx_tbl fx = Some t -> assoc_z (c_fx_mapper GenStore.code) fx = Some (tbl_letter t).
Proof.
  unfold fx_tbl. intros H.
  repeat match type of H with
         | context [if ?b then _ else _] =>
             let E := fresh "E" in destruct b eqn:E; [injection H as <-|]
         end; try discriminate;
  repeat match goal with
         | E : (_ || _) = true |- _ => apply orb_true_iff in E; destruct E as [E|E]
         end;
  repeat match goal with E : (fx =? _) = true |- _ => apply Z.eqb_eq in E; subst fx end;
  reflexivity.
Qed.

Lemma block_idx_ok c fx t :
  inv c -> fx_tbl fx = Some t ->
  cx_block_idx GenStore.code c fx = Ok (slot_of c t) /\ (slot_of c t < length (cx_blocks c))%nat.
Proof.
  intros Hi Hf. unfold cx_block_idx, slot_of. rewrite (fx_tbl_mapper fx t Hf).
  destruct (Hi t) as (i & Hs & Hl). rewrite Hs.
  apply Nat.ltb_lt in Hl as Hl'. rewrite Hl'. split; [reflexivity|exact Hl].
Qed.

(* ------------------------------------------------------------------ cells of one block *)

Lemma seq_cell_some b k : is_some (seq_cell b k) = (sb_addr b <=? k) && (k <? sb_addr b + seq_len b).
Proof.
  unfold seq_cell, seq_len.
  destruct ((sb_addr b <=? k) && (k <? sb_addr b + Z.of_nat (length (sb_vals b)))) eqn:E; [|reflexivity].
  destruct (nth_error (sb_vals b) (Z.to_nat (k - sb_addr b))) eqn:En; [reflexivity|].
  apply nth_error_None in En. lia.
Qed.

Lemma forallb_zrange_true P lo n :
  (forall i, 0 <= i < Z.of_nat n -> P (lo + i) = true) -> forallb P (zrange lo n) = true.
Proof. apply forallb_zrange. Qed.

Lemma bool_eq_iff (a b : bool) : (a = true <-> b = true) -> a = b.
Proof. destruct a, b; intros [H1 H2]; try reflexivity; [symmetry; apply H1 | apply H2]; reflexivity. Qed.

(* validate = "the whole range is configured", as a boolean *)
Lemma blk_validate_range b a n : 1 <= n ->
  blk_validate GenStore.code b a n = forallb (fun k => is_some (blk_cell b k)) (zrange a (Z.to_nat n)).
Proof.
  intros Hn. apply bool_eq_iff. rewrite forallb_zrange. rewrite Z2Nat.id by lia.
  destruct b as [s|s]; cbn [blk_validate blk_cell].
  - rewrite seq_validate_arith. split.
    + intros H i Hi. rewrite seq_cell_some. lia.
    + intros H. pose proof (H 0 ltac:(lia)) as H0. pose proof (H (n - 1) ltac:(lia)) as H1.
      rewrite seq_cell_some in H0, H1. lia.
  - rewrite (sp_validate_cells s a n Hn). split; intros H i Hi; specialize (H i Hi).
    + destruct (sp_cell s (a + i)); [reflexivity|congruence].
    + destruct (sp_cell s (a + i)); [discriminate|discriminate H].
Qed.

Lemma nth_error_zrange lo n i : (i < n)%nat -> nth_error (zrange lo n) i = Some (lo + Z.of_nat i).
Proof.
  revert lo i. induction n as [|n IH]; intros lo i Hi; [lia|].
  destruct i; cbn [zrange nth_error]; [f_equal; lia|].
  rewrite IH by lia. f_equal. lia.
Qed.

Lemma zrange_length lo n : length (zrange lo n) = n.
Proof. revert lo. induction n; intros; cbn; [reflexivity|f_equal; auto]. Qed.

Lemma list_ext_nth {A} (l1 l2 : list A) :
  length l1 = length l2 -> (forall i, (i < length l1)%nat -> nth_error l1 i = nth_error l2 i) -> l1 = l2.
Proof.
  revert l2. induction l1 as [|x l1 IH]; intros [|y l2] Hl H; try discriminate; [reflexivity|].
  pose proof (H O ltac:(cbn; lia)) as H0. cbn in H0. injection H0 as <-.
  f_equal. apply IH; [cbn in Hl; lia|]. intros i Hi. apply (H (S i)). cbn. lia.
Qed.

Definition dflt0 (o : option Z) : Z := match o with Some v => v | None => 0 end.

Lemma map_some_inv (vs : list Z) (f : Z -> option Z) ks :
  map Some vs = map f ks -> vs = map (fun k => dflt0 (f k)) ks.
Proof.
  revert ks. induction vs as [|v vs IH]; intros [|k ks] H; try discriminate; [reflexivity|].
  cbn in H. injection H as H0 H. cbn. rewrite <- H0. cbn. f_equal. apply IH. exact H.
Qed.

(* an accepted read returns the cells of the range, in order *)
Lemma blk_get_range b a n : 1 <= n ->
  blk_validate GenStore.code b a n = true ->
  blk_get GenStore.code b a n = Ok (map (fun k => dflt0 (blk_cell b k)) (zrange a (Z.to_nat n))).
Proof.
  intros Hn Hv. destruct b as [s|s]; cbn [blk_validate blk_get blk_cell] in *.
  - f_equal. apply map_some_inv. apply list_ext_nth.
    + rewrite !map_length, zrange_length.
      pose proof (seq_get_length s a n Hv ltac:(lia)). lia.
    + intros i Hi. rewrite map_length in Hi.
      pose proof (seq_get_length s a n Hv ltac:(lia)) as Hl.
      rewrite !nth_error_map, nth_error_zrange by lia. cbn [option_map].
      rewrite <- (seq_get_nth s a n (Z.of_nat i)) by (assumption || lia).
      rewrite Nat2Z.id. destruct (nth_error (seq_get GenStore.code s a n) i) eqn:E; [reflexivity|].
      apply nth_error_None in E. lia.
  - destruct (sp_get_cells s a n Hv Hn) as (vs & Hg & Hm). rewrite Hg. f_equal.
    apply map_some_inv. exact Hm.
Qed.

(* a write to an accepted range changes exactly the addressed cells *)
Lemma blk_set_cells b a vs k :
  blk_validate GenStore.code b a (Z.of_nat (length vs)) = true ->
  blk_cell (blk_set GenStore.code b a vs) k =
    if (a <=? k) && (k <? a + Z.of_nat (length vs)) then nth_error vs (Z.to_nat (k - a)) else blk_cell b k.
Proof.
  intros Hv. destruct b as [s|s]; cbn [blk_validate blk_set blk_cell] in *.
  - apply seq_set_cells. exact Hv.
  - apply sp_set_cells.
Qed.

(* ------------------------------------------------------------------ the context operations, abstractly *)

Lemma nth_set_nth {A} (l : list A) i j v d :
  (i < length l)%nat -> nth j (set_nth l i v) d = if Nat.eqb j i then v else nth j l d.
Proof.
  revert i j. induction l as [|x l IH]; intros i j Hi; [cbn in Hi; lia|].
  destruct i, j; cbn [set_nth nth Nat.eqb]; try reflexivity.
  apply IH. cbn in Hi. lia.
Qed.

Lemma set_nth_length {A} (l : list A) i v : length (set_nth l i v) = length l.
Proof. revert i. induction l as [|x l IH]; intros [|i]; cbn; auto. Qed.

Lemma map_zrange_shift {B} (g : Z -> B) d a m :
  map (fun k => g (k + d)) (zrange a m) = map g (zrange (a + d) m).
Proof.
  revert a. induction m as [|m IH]; intros a; [reflexivity|].
  cbn [zrange map]. rewrite IH. do 3 f_equal. lia.
Qed.

Lemma forallb_zrange_shift (g : Z -> bool) d a m :
  forallb (fun k => g (k + d)) (zrange a m) = forallb g (zrange (a + d) m).
Proof.
  revert a. induction m as [|m IH]; intros a; [reflexivity|].
  cbn [zrange forallb]. rewrite IH. do 3 f_equal. lia.
Qed.

Lemma range_ok_abs c t a n :
  range_ok (abs c) t a n =
  forallb (fun k => is_some (blk_cell (nth_block c (slot_of c t)) k)) (zrange (a + cx_off c) (Z.to_nat n)).
Proof.
  unfold range_ok, cell, abs. cbn [a_slot a_cell].
  apply (forallb_zrange_shift (fun k => is_some (blk_cell (nth_block c (slot_of c t)) k))).
Qed.

Lemma read_abs c t a n :
  read (abs c) t a n =
  map (fun k => dflt0 (blk_cell (nth_block c (slot_of c t)) k)) (zrange (a + cx_off c) (Z.to_nat n)).
Proof.
  unfold read, cell, abs. cbn [a_slot a_cell].
  apply (map_zrange_shift (fun k => dflt0 (blk_cell (nth_block c (slot_of c t)) k))).
Qed.

(* L1: validate is the spec's range test *)
Theorem cx_validate_abs c fx t a n :
  inv c -> fx_tbl fx = Some t -> 1 <= n ->
  cx_validate GenStore.code c fx a n = Ok (range_ok (abs c) t a n).
Proof.
  intros Hi Hf Hn. rewrite cx_validate_offset. destruct (block_idx_ok c fx t Hi Hf) as [-> _].
  cbn [bind]. rewrite blk_validate_range by exact Hn. rewrite range_ok_abs. reflexivity.
Qed.

(* L2: an accepted read returns the spec's read *)
Theorem cx_get_abs c fx t a n :
  inv c -> fx_tbl fx = Some t -> 1 <= n -> range_ok (abs c) t a n = true ->
  cx_get GenStore.code c fx a n = Ok (read (abs c) t a n).
Proof.
  intros Hi Hf Hn Hr. rewrite cx_get_offset. destruct (block_idx_ok c fx t Hi Hf) as [-> _].
  cbn [bind]. rewrite range_ok_abs, <- blk_validate_range in Hr by exact Hn.
  rewrite blk_get_range by assumption. rewrite read_abs. reflexivity.
Qed.

(* L3: an accepted write is the spec's write, and keeps the invariant *)
Theorem cx_set_abs c fx t a vs :
  inv c -> fx_tbl fx = Some t -> vs <> [] -> range_ok (abs c) t a (Z.of_nat (length vs)) = true ->
  exists c', cx_set GenStore.code c fx a vs = Ok c' /\ inv c' /\ aeq (abs c') (write (abs c) t a vs).
Proof.
  intros Hi Hf Hne Hr. rewrite cx_set_offset. destruct (block_idx_ok c fx t Hi Hf) as [-> Hlt].
  cbn [bind]. eexists. split; [reflexivity|].
  assert (Hn : 1 <= Z.of_nat (length vs)) by (destruct vs; [congruence|cbn [length]; lia]).
  rewrite range_ok_abs, <- blk_validate_range in Hr by exact Hn.
  split.
  - intros t'. destruct (Hi t') as (i & Hs & Hl). exists i. cbn [cx_slots cx_blocks].
    rewrite set_nth_length. auto.
  - split; [reflexivity|]. intros i k. unfold abs, write, cx_off. cbn [a_slot a_cell cx_zero].
    unfold nth_block at 1. cbn [cx_blocks]. rewrite nth_set_nth by exact Hlt.
    fold (cx_off c). unfold slot_of at 2. fold (slot_of c t).
    destruct (Nat.eqb i (slot_of c t)) eqn:Ei; [|reflexivity].
    apply Nat.eqb_eq in Ei. subst i.
    rewrite blk_set_cells by exact Hr.
    destruct ((a <=? k) && (k <? a + Z.of_nat (length vs))) eqn:E.
    + replace ((a + cx_off c <=? k + cx_off c) && (k + cx_off c <? a + cx_off c + Z.of_nat (length vs))) with true by lia.
      f_equal. lia.
    + replace ((a + cx_off c <=? k + cx_off c) && (k + cx_off c <? a + cx_off c + Z.of_nat (length vs))) with false by lia.
      reflexivity.
Qed.

(* facts about the spec-level write that the request lemmas use *)
Lemma range_ok_write s t a vs t' a' n :
  range_ok s t a (Z.of_nat (length vs)) = true ->
  range_ok (write s t a vs) t' a' n = range_ok s t' a' n.
Proof.
  intros Hr. unfold range_ok. apply forallb_ext'. intros k. unfold cell, write. cbn [a_slot a_cell].
  destruct (Nat.eqb (a_slot s t') (a_slot s t)) eqn:Eb; [|reflexivity].
  destruct ((a <=? k) && (k <? a + Z.of_nat (length vs))) eqn:E; [|reflexivity].
  apply Nat.eqb_eq in Eb. rewrite Eb.
  unfold range_ok in Hr. rewrite forallb_zrange in Hr. rewrite Nat2Z.id in Hr.
  specialize (Hr (k - a) ltac:(lia)). replace (a + (k - a)) with k in Hr by lia.
  unfold cell in Hr. rewrite Hr.
  destruct (nth_error vs (Z.to_nat (k - a))) eqn:En; [reflexivity|].
  apply nth_error_None in En. lia.
Qed.

Lemma read_write_same s t a vs :
  read (write s t a vs) t a (Z.of_nat (length vs)) = vs.
Proof.
  unfold read. rewrite Nat2Z.id. apply list_ext_nth.
  - rewrite map_length, zrange_length. reflexivity.
  - intros i Hi. rewrite map_length, zrange_length in Hi.
    rewrite nth_error_map, nth_error_zrange by exact Hi. cbn [option_map].
    unfold cell, write. cbn [a_slot a_cell]. rewrite Nat.eqb_refl.
    replace ((a <=? a + Z.of_nat i) && (a + Z.of_nat i <? a + Z.of_nat (length vs))) with true by lia.
    replace (Z.to_nat (a + Z.of_nat i - a)) with i by lia.
    destruct (nth_error vs i) eqn:E; [reflexivity|]. apply nth_error_None in E. lia.
Qed.
