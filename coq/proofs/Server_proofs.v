(* Server_proofs.v — lemmas about the server execute/send model interpreted on the
   GENERATED skeletons (Generated/GenServer.v).  [respond_spec] shows that on every
   generated front-end skeleton [Server.respond] computes the direct-style function
   [spec_respond]; a dropped id copy, an inverted ignore test, a reordered except ladder, a
   changed exception code or a missing guard in any one front-end makes its case of that
   lemma fail.  Everything else is proved about [spec_respond]. *)
From PM.theories Require Import Base Server.
From PM.Generated Require Import GenServer.
From Coq Require Import ZifyBool.
Open Scope list_scope.
Open Scope Z_scope.

Definition all_fes : list skel := map snd frontends.
(* front-ends whose configuration has broadcast_enable *)
Definition bcast_fes : list skel := [sync_tcp; sync_udp; sync_serial; aio_tcp; aio_udp].
(* front-ends that have no such option *)
Definition nobcast_fes : list skel := [tw_tcp; tw_udp].
(* front-ends whose send() honours should_respond *)
Definition gated_fes : list skel := [sync_tcp; sync_udp; sync_serial; aio_tcp; aio_udp; tw_tcp].
(* front-ends whose entry point gives the unit list to the framer *)
Definition filtered_fes : list skel := [sync_tcp; sync_udp; sync_serial; aio_tcp; aio_udp; tw_tcp].
(* front-ends whose handle() adds unit 0 to that list when broadcast is enabled *)
Definition append0_fes : list skel := [sync_tcp; sync_serial; aio_tcp; aio_udp].

Definition has_bcast (sk : skel) : bool := match sk_bcast sk with Some _ => true | None => false end.
Definition gated (sk : skel) : bool := match sk_send_gate sk with CTrue => false | _ => true end.

Section WithStore.
Variable S : Type.
Notation units := (units S).
Notation dreq := (dreq S).

(* ------------------------------------------------------------------ direct-style spec *)

Definition sp_bcast (hb : bool) (cfg : scfg) (rq : dreq) : bool := hb && cf_bcast cfg && (rq_uid rq =? 0).

Definition the_out (rq : dreq) (r : rsp) : out :=
  {| o_tid := rq_tid rq; o_uid := rq_uid rq; o_fc := rs_fc r; o_code := rs_code r; o_dest := rq_dest rq |}.

Definition exc_of (rq : dreq) (code : Z) : rsp :=
  {| rs_fc := Z.lor (rq_fc rq) 128; rs_respond := true; rs_code := Some code |}.

Definition send_of (gate : bool) (rq : dreq) (r : rsp) : list out :=
  if gate && negb (rs_respond r) then [] else [the_out rq r].

Definition missing_outs (cfg : scfg) (rq : dreq) : list out :=
  if cf_ignore cfg then [] else [the_out rq (exc_of rq 11)].

Definition spec_respond (hb gate : bool) (cfg : scfg) (l : units) (rq : dreq) : units * list out * option pyexn :=
  if sp_bcast hb cfg rq then
    (fst (fst (bcast_loop S code cfg (u_keys S l) l rq None)), [], None)
  else match exec_on S code cfg l (rq_uid rq) rq with
       | None => (l, missing_outs cfg rq, None)
       | Some (l', Ok r) => (l', send_of gate rq r, None)
       | Some (l', Raise e) =>
           (l', if pyexn_eqb e NoSuchSlaveExc then missing_outs cfg rq else [the_out rq (exc_of rq 4)], None)
       end.

Ltac fe_spec :=
  intros cfg l rq;
  unfold respond, spec_respond, sp_bcast, finish, send_of, missing_outs, the_out, exc_of, exc_rsp;
  cbn [sk_bcast sk_ladder sk_send_guard sk_copy_tid sk_copy_uid sk_send_gate has_bcast gated
       sync_tcp sync_udp sync_serial aio_tcp aio_udp tw_tcp tw_udp
       ceval mkenv ce_bcast_enable ce_uid ce_bvar ce_ignore ce_respond run_ladder
       code sc_exc_offset sc_dflt_tid sc_dflt_uid andb negb];
  destruct (cf_bcast cfg); cbn [andb];
  [ destruct (rq_uid rq =? 0) eqn:Eu; cbn [andb negb fst snd] | ];
  try (destruct (bcast_loop S code cfg (u_keys S l) l rq None) as [[l1 resp] [e|]]; cbn [fst snd run_ladder];
       [ destruct (pyexn_eqb e NoSuchSlaveExc); [destruct (cf_ignore cfg)|]; reflexivity | reflexivity ]);
  (destruct (exec_on S code cfg l (rq_uid rq) rq) as [[l' [r|e]]|]; cbn [run_ladder negb andb];
   [ destruct (rs_respond r); reflexivity
   | destruct (pyexn_eqb e NoSuchSlaveExc); [destruct (cf_ignore cfg)|]; reflexivity
   | cbn [pyexn_eqb]; destruct (cf_ignore cfg); reflexivity ]).

Lemma sync_tcp_spec : forall cfg l rq, respond S code sync_tcp cfg l rq = spec_respond true true cfg l rq.
Proof. fe_spec. Qed.
Lemma sync_udp_spec : forall cfg l rq, respond S code sync_udp cfg l rq = spec_respond true true cfg l rq.
Proof. fe_spec. Qed.
Lemma sync_serial_spec : forall cfg l rq, respond S code sync_serial cfg l rq = spec_respond true true cfg l rq.
Proof. fe_spec. Qed.
Lemma aio_tcp_spec : forall cfg l rq, respond S code aio_tcp cfg l rq = spec_respond true true cfg l rq.
Proof. fe_spec. Qed.
Lemma aio_udp_spec : forall cfg l rq, respond S code aio_udp cfg l rq = spec_respond true true cfg l rq.
Proof. fe_spec. Qed.
Lemma tw_tcp_spec : forall cfg l rq, respond S code tw_tcp cfg l rq = spec_respond false true cfg l rq.
Proof. fe_spec. Qed.
Lemma tw_udp_spec : forall cfg l rq, respond S code tw_udp cfg l rq = spec_respond false false cfg l rq.
Proof. fe_spec. Qed.

Lemma respond_spec : forall sk, In sk all_fes -> forall cfg l rq,
  respond S code sk cfg l rq = spec_respond (has_bcast sk) (gated sk) cfg l rq.
Proof.
  intros sk H. cbv [all_fes frontends map snd] in H.
  repeat (destruct H as [<- | H];
          [ first [ exact sync_tcp_spec | exact sync_udp_spec | exact sync_serial_spec | exact aio_tcp_spec
                  | exact aio_udp_spec | exact tw_tcp_spec | exact tw_udp_spec ] | ]).
  destruct H.
Qed.

Lemma bcast_fes_all : forall sk, In sk bcast_fes -> In sk all_fes /\ has_bcast sk = true /\ gated sk = true.
Proof.
  intros sk H. cbv [bcast_fes] in H. cbv [all_fes frontends map snd In].
  repeat (destruct H as [<- | H]; [ split; [ tauto | split; reflexivity ] | ]). destruct H.
Qed.

Lemma nobcast_fes_all : forall sk, In sk nobcast_fes -> In sk all_fes /\ has_bcast sk = false.
Proof.
  intros sk H. cbv [nobcast_fes] in H. cbv [all_fes frontends map snd In].
  repeat (destruct H as [<- | H]; [ split; [ tauto | reflexivity ] | ]). destruct H.
Qed.

Lemma gated_fes_all : forall sk, In sk gated_fes -> In sk all_fes /\ gated sk = true.
Proof.
  intros sk H. cbv [gated_fes] in H. cbv [all_fes frontends map snd In].
  repeat (destruct H as [<- | H]; [ split; [ tauto | reflexivity ] | ]). destruct H.
Qed.

(* every front-end is in exactly one of the two configuration classes *)
Lemma all_fes_split : forall sk, In sk all_fes <-> In sk bcast_fes \/ In sk nobcast_fes.
Proof.
  intros sk. cbv [all_fes bcast_fes nobcast_fes frontends map snd In]. tauto.
Qed.

(* ------------------------------------------------------------------ association lists *)

Lemma u_get_set_same : forall (l : units) k v, u_get S l k <> None -> u_get S (u_set S l k v) k = Some v.
Proof.
  induction l as [|[k' s] t IH]; intros k v H; cbn in *; [congruence|].
  destruct (k' =? k) eqn:E; cbn; rewrite E; [reflexivity|]. apply IH. exact H.
Qed.

Lemma u_get_set_other : forall (l : units) k k' v, k' <> k -> u_get S (u_set S l k v) k' = u_get S l k'.
Proof.
  induction l as [|[k0 s] t IH]; intros k k' v H; cbn; [reflexivity|].
  destruct (k0 =? k) eqn:E; cbn.
  - destruct (k0 =? k') eqn:E'; [lia | reflexivity].
  - destruct (k0 =? k') eqn:E'; [reflexivity | apply IH; exact H].
Qed.

Lemma u_keys_set : forall (l : units) k v, u_keys S (u_set S l k v) = u_keys S l.
Proof.
  induction l as [|[k0 s] t IH]; intros k v; cbn; [reflexivity|].
  destruct (k0 =? k); cbn; [reflexivity|]. f_equal. apply IH.
Qed.

Lemma u_set_absent : forall (l : units) k v, u_get S l k = None -> u_set S l k v = l.
Proof.
  induction l as [|[k0 s] t IH]; intros k v H; cbn in *; [reflexivity|].
  destruct (k0 =? k); [congruence|]. f_equal. apply IH. exact H.
Qed.

Lemma u_get_in_keys : forall (l : units) k, u_get S l k <> None <-> In k (u_keys S l).
Proof.
  induction l as [|[k0 s] t IH]; intros k; cbn; [split; [congruence | tauto]|].
  destruct (k0 =? k) eqn:E.
  - split; [intros _; left; lia | congruence].
  - rewrite IH. split; [tauto | intros [H|H]; [lia | exact H]].
Qed.

(* ------------------------------------------------------------------ exec_on / bcast_loop *)

Lemma exec_on_some : forall cfg (l : units) k (rq : dreq) l' r,
  exec_on S code cfg l k rq = Some (l', r) ->
  exists s, u_get S l (ctx_key code cfg k) = Some s /\
            l' = u_set S l (ctx_key code cfg k) (fst (rq_exec rq s)) /\ r = snd (rq_exec rq s).
Proof.
  intros cfg l k rq l' r H. unfold exec_on in H.
  destruct (u_get S l (ctx_key code cfg k)) as [s|] eqn:E; [|discriminate].
  exists s. destruct (rq_exec rq s) as [s' r']. inversion H; subst. cbn. tauto.
Qed.

Lemma exec_on_none : forall cfg (l : units) k (rq : dreq),
  exec_on S code cfg l k rq = None <-> u_get S l (ctx_key code cfg k) = None.
Proof.
  intros. unfold exec_on. destruct (u_get S l (ctx_key code cfg k)) as [s|]; [|tauto].
  destruct (rq_exec rq s). split; discriminate.
Qed.

Lemma bcast_loop_keys : forall cfg ks (l : units) (rq : dreq) last,
  u_keys S (fst (fst (bcast_loop S code cfg ks l rq last))) = u_keys S l.
Proof.
  intros cfg ks. induction ks as [|k t IH]; intros l rq last; cbn; [reflexivity|].
  destruct (exec_on S code cfg l k rq) as [[l' [r|e]]|] eqn:E; cbn; try reflexivity.
  - rewrite IH. apply exec_on_some in E. destruct E as (s & _ & -> & _). apply u_keys_set.
  - apply exec_on_some in E. destruct E as (s & _ & -> & _). apply u_keys_set.
Qed.

(* ------------------------------------------------------------------ C09 on the spec *)

Lemma spec_no_escape : forall hb gate cfg l rq, snd (spec_respond hb gate cfg l rq) = None.
Proof.
  intros. unfold spec_respond. destruct (sp_bcast hb cfg rq); [reflexivity|].
  destruct (exec_on S code cfg l (rq_uid rq) rq) as [[l' [r|e]]|]; reflexivity.
Qed.

Lemma spec_at_most_one : forall hb gate cfg l rq,
  (length (snd (fst (spec_respond hb gate cfg l rq))) <= 1)%nat.
Proof.
  intros. unfold spec_respond, send_of, missing_outs. destruct (sp_bcast hb cfg rq); [cbn; lia|].
  destruct (exec_on S code cfg l (rq_uid rq) rq) as [[l' [r|e]]|]; cbn.
  - destruct (gate && negb (rs_respond r)); cbn; lia.
  - destruct (pyexn_eqb e NoSuchSlaveExc); [destruct (cf_ignore cfg)|]; cbn; lia.
  - destruct (cf_ignore cfg); cbn; lia.
Qed.

(* every transmitted response echoes the request's ids and sender; its function code is the
   request's with the exception bit, or the one request.execute returned *)
Lemma spec_echo : forall hb gate cfg l rq o,
  In o (snd (fst (spec_respond hb gate cfg l rq))) ->
  o_tid o = rq_tid rq /\ o_uid o = rq_uid rq /\ o_dest o = rq_dest rq /\
  ((o_fc o = Z.lor (rq_fc rq) 128 /\ (o_code o = Some 11 \/ o_code o = Some 4)) \/
   exists s s' r, rq_exec rq s = (s', Ok r) /\ o_fc o = rs_fc r /\ o_code o = rs_code r).
Proof.
  intros hb gate cfg l rq o. unfold spec_respond, send_of, missing_outs.
  destruct (sp_bcast hb cfg rq); [cbn; tauto|].
  destruct (exec_on S code cfg l (rq_uid rq) rq) as [[l' [r|e]]|] eqn:E; cbn.
  - apply exec_on_some in E. destruct E as (s & _ & _ & Hr).
    destruct (gate && negb (rs_respond r)); cbn; [tauto|]. intros [<-|[]]. cbn.
    repeat split. right. exists s, (fst (rq_exec rq s)), r. destruct (rq_exec rq s); cbn in *. subst. tauto.
  - destruct (pyexn_eqb e NoSuchSlaveExc); [destruct (cf_ignore cfg)|]; cbn; try tauto;
      intros [<-|[]]; cbn; tauto.
  - destruct (cf_ignore cfg); cbn; [tauto|]. intros [<-|[]]; cbn; tauto.
Qed.

Lemma spec_silence_broadcast : forall gate cfg l rq,
  cf_bcast cfg = true -> rq_uid rq = 0 -> snd (fst (spec_respond true gate cfg l rq)) = [].
Proof.
  intros gate cfg l rq Hb Hu. unfold spec_respond, sp_bcast. rewrite Hb, Hu. reflexivity.
Qed.

Lemma spec_silence_missing : forall hb gate cfg l rq,
  sp_bcast hb cfg rq = false -> u_get S l (ctx_key code cfg (rq_uid rq)) = None -> cf_ignore cfg = true ->
  spec_respond hb gate cfg l rq = (l, [], None).
Proof.
  intros hb gate cfg l rq Hb Hm Hi. unfold spec_respond. rewrite Hb.
  apply (proj2 (exec_on_none cfg l (rq_uid rq) rq)) in Hm. rewrite Hm. unfold missing_outs. rewrite Hi. reflexivity.
Qed.

Lemma spec_silence_listen_only : forall hb cfg l rq s s' r,
  sp_bcast hb cfg rq = false -> u_get S l (ctx_key code cfg (rq_uid rq)) = Some s ->
  rq_exec rq s = (s', Ok r) -> rs_respond r = false ->
  snd (fst (spec_respond hb true cfg l rq)) = [].
Proof.
  intros hb cfg l rq s s' r Hb Hs He Hr. unfold spec_respond, exec_on. rewrite Hb, Hs, He. cbn.
  unfold send_of. rewrite Hr. reflexivity.
Qed.

(* a hosted unit that answers (or whose datastore fails) gets exactly one response *)
Lemma spec_responds : forall hb gate cfg l rq s,
  sp_bcast hb cfg rq = false -> u_get S l (ctx_key code cfg (rq_uid rq)) = Some s ->
  match snd (rq_exec rq s) with
  | Ok r => rs_respond r = true
  | Raise e => e <> NoSuchSlaveExc
  end ->
  snd (fst (spec_respond hb gate cfg l rq)) =
    [the_out rq (match snd (rq_exec rq s) with Ok r => r | Raise _ => exc_of rq 4 end)].
Proof.
  intros hb gate cfg l rq s Hb Hs Hr. unfold spec_respond, exec_on. rewrite Hb, Hs.
  destruct (rq_exec rq s) as [s' [r|e]]; cbn in *.
  - unfold send_of. rewrite Hr. rewrite andb_false_r. reflexivity.
  - destruct (pyexn_eqb e NoSuchSlaveExc) eqn:E; [|reflexivity]. destruct e; cbn in E; try discriminate. congruence.
Qed.

(* ------------------------------------------------------------------ serve *)

(* the stores before each request of a served list *)
Fixpoint states (sk : skel) (cfg : scfg) (l : units) (rqs : list dreq) : list units :=
  match rqs with
  | [] => []
  | rq :: t => l :: states sk cfg (fst (fst (respond S code sk cfg l rq))) t
  end.

Definition outs_of (sk : skel) (cfg : scfg) (l : units) (rq : dreq) : list out :=
  snd (fst (respond S code sk cfg l rq)).

Lemma serve_concat : forall sk, In sk all_fes -> forall cfg rqs l,
  snd (serve S code sk cfg l rqs) = None /\
  snd (fst (serve S code sk cfg l rqs)) =
    concat (map (fun p => outs_of sk cfg (fst p) (snd p)) (combine (states sk cfg l rqs) rqs)).
Proof.
  intros sk Hin cfg rqs. induction rqs as [|rq t IH]; intros l; cbn; [tauto|].
  pose proof (respond_spec sk Hin cfg l rq) as Hs.
  pose proof (spec_no_escape (has_bcast sk) (gated sk) cfg l rq) as Hn. rewrite <- Hs in Hn.
  unfold outs_of at 1. destruct (respond S code sk cfg l rq) as [[l1 o1] e1]. cbn in Hn. subst e1. cbn [fst snd].
  destruct (IH l1) as [IH1 IH2]. destruct (serve S code sk cfg l1 t) as [[l2 o2] e2]. cbn in *. subst. tauto.
Qed.

Lemma serve_length : forall sk, In sk all_fes -> forall cfg rqs l,
  (length (snd (fst (serve S code sk cfg l rqs))) <= length rqs)%nat.
Proof.
  intros sk Hin cfg rqs. induction rqs as [|rq t IH]; intros l; cbn; [lia|].
  pose proof (respond_spec sk Hin cfg l rq) as Hs.
  pose proof (spec_no_escape (has_bcast sk) (gated sk) cfg l rq) as Hn.
  pose proof (spec_at_most_one (has_bcast sk) (gated sk) cfg l rq) as H1. rewrite <- Hs in Hn, H1.
  destruct (respond S code sk cfg l rq) as [[l1 o1] e1]. cbn in Hn, H1. subst e1.
  specialize (IH l1). destruct (serve S code sk cfg l1 t) as [[l2 o2] e2]. cbn in *.
  rewrite app_length. lia.
Qed.

(* ------------------------------------------------------------------ C09, stated on the generated skeletons *)

Definition is_bcast (sk : skel) (cfg : scfg) (rq : dreq) : bool := sp_bcast (has_bcast sk) cfg rq.

Lemma c09_at_most_one : forall sk, In sk all_fes -> forall cfg l rq,
  snd (respond S code sk cfg l rq) = None /\ (length (outs_of sk cfg l rq) <= 1)%nat.
Proof.
  intros sk H cfg l rq. unfold outs_of. rewrite (respond_spec sk H). split;
    [apply spec_no_escape | apply spec_at_most_one].
Qed.

Lemma c09_echo : forall sk, In sk all_fes -> forall cfg l rq o,
  In o (outs_of sk cfg l rq) ->
  o_tid o = rq_tid rq /\ o_uid o = rq_uid rq /\ o_dest o = rq_dest rq /\
  ((o_fc o = Z.lor (rq_fc rq) 128 /\ (o_code o = Some 11 \/ o_code o = Some 4)) \/
   exists s s' r, rq_exec rq s = (s', Ok r) /\ o_fc o = rs_fc r /\ o_code o = rs_code r).
Proof.
  intros sk H cfg l rq o. unfold outs_of. rewrite (respond_spec sk H). apply spec_echo.
Qed.

Lemma c09_echo_fc : forall sk, In sk all_fes -> forall cfg l rq o,
  (forall s s' r, rq_exec rq s = (s', Ok r) -> rs_fc r = rq_fc rq \/ rs_fc r = Z.lor (rq_fc rq) 128) ->
  In o (outs_of sk cfg l rq) -> o_fc o = rq_fc rq \/ o_fc o = Z.lor (rq_fc rq) 128.
Proof.
  intros sk H cfg l rq o Hwf Hin. destruct (c09_echo sk H cfg l rq o Hin) as (_ & _ & _ & [[Hf _]|(s & s' & r & He & Hf & _)]).
  - right. exact Hf.
  - rewrite Hf. eapply Hwf. exact He.
Qed.

Lemma c09_silence_broadcast : forall sk, In sk bcast_fes -> forall cfg l rq,
  cf_bcast cfg = true -> rq_uid rq = 0 -> outs_of sk cfg l rq = [].
Proof.
  intros sk H cfg l rq Hb Hu. destruct (bcast_fes_all sk H) as (Ha & Hh & _).
  unfold outs_of. rewrite (respond_spec sk Ha), Hh. apply spec_silence_broadcast; assumption.
Qed.

Lemma c09_silence_missing : forall sk, In sk all_fes -> forall cfg l rq,
  is_bcast sk cfg rq = false -> u_get S l (ctx_key code cfg (rq_uid rq)) = None -> cf_ignore cfg = true ->
  respond S code sk cfg l rq = (l, [], None).
Proof.
  intros sk H cfg l rq Hb Hm Hi. rewrite (respond_spec sk H). apply spec_silence_missing; assumption.
Qed.

Lemma c09_silence_listen_only : forall sk, In sk gated_fes -> forall cfg l rq s s' r,
  is_bcast sk cfg rq = false -> u_get S l (ctx_key code cfg (rq_uid rq)) = Some s ->
  rq_exec rq s = (s', Ok r) -> rs_respond r = false -> outs_of sk cfg l rq = [].
Proof.
  intros sk H cfg l rq s s' r Hb Hs He Hr. destruct (gated_fes_all sk H) as (Ha & Hg).
  unfold outs_of. rewrite (respond_spec sk Ha), Hg. eapply spec_silence_listen_only; eassumption.
Qed.

Lemma c09_responds : forall sk, In sk all_fes -> forall cfg l rq s,
  is_bcast sk cfg rq = false -> u_get S l (ctx_key code cfg (rq_uid rq)) = Some s ->
  match snd (rq_exec rq s) with Ok r => rs_respond r = true | Raise e => e <> NoSuchSlaveExc end ->
  outs_of sk cfg l rq =
    [the_out rq (match snd (rq_exec rq s) with Ok r => r | Raise _ => exc_of rq 4 end)].
Proof.
  intros sk H cfg l rq s Hb Hs Hr. unfold outs_of. rewrite (respond_spec sk H). apply spec_responds; assumption.
Qed.

Lemma c09_missing_answer : forall sk, In sk all_fes -> forall cfg l rq,
  is_bcast sk cfg rq = false -> u_get S l (ctx_key code cfg (rq_uid rq)) = None -> cf_ignore cfg = false ->
  respond S code sk cfg l rq = (l, [the_out rq (exc_of rq 11)], None).
Proof.
  intros sk H cfg l rq Hb Hm Hi. rewrite (respond_spec sk H). unfold spec_respond, is_bcast in *. rewrite Hb.
  apply (proj2 (exec_on_none cfg l (rq_uid rq) rq)) in Hm. rewrite Hm. unfold missing_outs. rewrite Hi. reflexivity.
Qed.

Lemma c09_no_spontaneous : forall sk cfg (l : units), serve S code sk cfg l [] = (l, [], None).
Proof. reflexivity. Qed.

End WithStore.

(* ------------------------------------------------------------------ refutations by witness *)

Definition listen_rq : dreq unit :=
  {| rq_tid := 1; rq_uid := 1; rq_fc := 8; rq_dest := 1;
     rq_exec := fun s => (s, Ok {| rs_fc := 8; rs_respond := false; rs_code := None |}) |}.

Lemma c09_silence_refuted :
  ~ (forall S sk, In sk all_fes -> forall cfg (l : units S) (rq : dreq S) s s' r,
     is_bcast S sk cfg rq = false -> u_get S l (ctx_key code cfg (rq_uid rq)) = Some s ->
     rq_exec rq s = (s', Ok r) -> rs_respond r = false -> outs_of S sk cfg l rq = []).
Proof.
  intros H.
  specialize (H unit tw_udp ltac:(cbv [all_fes frontends map snd In]; tauto)
                {| cf_single := false; cf_bcast := false; cf_ignore := false |} [(1, tt)] listen_rq tt tt
                {| rs_fc := 8; rs_respond := false; rs_code := None |}
                eq_refl eq_refl eq_refl eq_refl).
  vm_compute in H. discriminate H.
Qed.
