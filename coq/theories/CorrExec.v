(* CorrExec.v — harness side of the correspondence check for C04 / C05.

   One case = a datastore layout, a fault plan, and a history of items:
     HReq w r o f  — wire fields of the request, the attribute record dumped from the really
                     decoded request object, the response the implementation produced, and
                     whether the (harness-owned) datastore raised while serving it;
     HDump ds      — a dump of every block of the real store at that point.
   [chk_hist] returns
     (model agrees: decode_attrs w = r, serve reproduces every response, every dump equals the
      model store,
      PROPERTY holds: every response and every dump is what ExecSpec.spec_exec — the abstract
      Modbus data model, independent of the scripts — prescribes). *)
From PM.theories Require Import Base Expr Store Exec ExecSpec ExecView ExecWire.
Open Scope string_scope.
Open Scope list_scope.
Open Scope Z_scope.

(* ---------------------------------------------------------------- layouts *)
Inductive bdesc :=
| DSeq (start : Z) (vals : list Z)
| DSeqFill (start n a b m : Z)            (* n cells, cell i holds (a*i + b) AND m  (m = 1 or 0xFFFF) *)
| DSp (cells : list (Z * Z)).

Definition fill_vals (n a b m : Z) : list Z :=
  map (fun i => Z.land (a * i + b) m) (zrange 0 (Z.to_nat n)).

Definition block_of_desc (d : bdesc) : block :=
  match d with
  | DSeq s vs => BSeq {| sb_addr := s; sb_vals := vs; sb_def := 0 |}
  | DSeqFill s n a b m => BSeq {| sb_addr := s; sb_vals := fill_vals n a b m; sb_def := 0 |}
  | DSp cs => BSp {| sp_vals := cs; sp_def := 0 |}
  end.

Record ldesc := { l_zero : bool; l_slots : list (string * nat); l_blocks : list bdesc }.

Definition ctx_of_layout (l : ldesc) : slavectx :=
  {| cx_zero := l_zero l; cx_slots := l_slots l; cx_blocks := map block_of_desc (l_blocks l) |}.

(* ---------------------------------------------------------------- observations *)
Inductive obs_rsp :=
| ORsp (cls : string) (fc : Z) (args : list rval)     (* class name, response.function_code, fields *)
| OExc (fc code : Z).                                  (* ExceptionResponse.function_code, exception_code *)

Inductive dump1 :=
| DFull (cells : list (Z * Z))                         (* list(block) *)
| DDigest (n dg : Z) (near : list (Z * Z)).            (* len, digest of the values in order, some cells *)

(* what the real ServerDecoder did with a PDU that did not become a request object *)
Inductive dec_outcome := DecodedNone | DecodeRaised (e : pyexn).

Inductive hitem :=
| HReq (w : wreq) (r : req) (o : obs_rsp) (faulted : bool) (pdu : list Z)   (* pdu = bytes([fc]) + response.encode(), [-1] if encode raised *)
| HUndecoded (w : wreq) (d : dec_outcome)      (* the PDU was generated and sent, but never reached execute *)
| HDump (ds : list dump1).

(* position-weighted sum (no modulus: Z is unbounded and division is slow under vm_compute) *)
Fixpoint digest_from (i : Z) (vs : list Z) (acc : Z) : Z :=
  match vs with [] => acc | v :: t => digest_from (i + 1) t (acc + i * (v + 1)) end.
Definition digest (vs : list Z) : Z := digest_from 1 vs 0.

(* ---------------------------------------------------------------- equalities *)
Definition rval_eqb (x y : rval) : bool :=
  match x, y with
  | VZ a, VZ b => a =? b
  | VL a, VL b => list_eqb Z.eqb a b
  | _, _ => false
  end.

Definition req_eqb (x y : req) : bool :=
  (r_fc x =? r_fc y) && (r_address x =? r_address y) && (r_count x =? r_count y) &&
  (r_value x =? r_value y) && (r_byte_count x =? r_byte_count y) &&
  (r_and_mask x =? r_and_mask y) && (r_or_mask x =? r_or_mask y) &&
  (r_read_address x =? r_read_address y) && (r_read_count x =? r_read_count y) &&
  (r_write_address x =? r_write_address y) && (r_write_count x =? r_write_count y) &&
  (r_write_byte_count x =? r_write_byte_count y) &&
  list_eqb Z.eqb (r_values x) (r_values y) &&
  list_eqb Z.eqb (r_write_registers x) (r_write_registers y).

Definition srsp_eqb (x y : srsp) : bool :=
  match x, y with
  | SRead f v, SRead g u => (f =? g) && list_eqb Z.eqb v u
  | SEcho1 f a v, SEcho1 g b u => (f =? g) && (a =? b) && (v =? u)
  | SEchoN f a v, SEchoN g b u => (f =? g) && (a =? b) && (v =? u)
  | SMask a b c, SMask d e f => (a =? d) && (b =? e) && (c =? f)
  | SExc f c, SExc g d => (f =? g) && (c =? d)
  | _, _ => false
  end.

Definition pair_eqb (p q : Z * Z) : bool := (fst p =? fst q) && (snd p =? snd q).

(* ---------------------------------------------------------------- model side *)
Section WithCode.
Variable C : store_code.
Variable X : exec_code.

(* model response vs observed response: class, function code (through the generated
   class table), constructor arguments *)
Definition rsp_matches (m : rsp) (o : obs_rsp) : bool :=
  match m, o with
  | Exc f c, OExc g d => (f =? g) && (c =? d)
  | Rsp cls args, ORsp ocls ofc oargs =>
      String.eqb cls ocls && list_eqb rval_eqb args oargs &&
      option_eqb Z.eqb (assoc_str (x_resp_fc X) cls) (Some ofc)
  | _, _ => false
  end.

Definition dump_matches (b : block) (d : dump1) : bool :=
  match d with
  | DFull cells => list_eqb pair_eqb (blk_iter b) cells
  | DDigest n dg near =>
      let it := blk_iter b in
      (Z.of_nat (length it) =? n) && (digest (map snd it) =? dg) &&
      forallb (fun kv => option_eqb Z.eqb (assoc_z it (fst kv)) (Some (snd kv))) near
  end.

Fixpoint all2 {A B} (f : A -> B -> bool) (l : list A) (m : list B) : bool :=
  match l, m with
  | [], [] => true
  | x :: xs, y :: ys => f x y && all2 f xs ys
  | _, _ => false
  end.

Fixpoint model_hist (st : fstore) (h : list hitem) : bool :=
  match h with
  | [] => true
  | HReq w r o _ _ :: t =>
      match decode_attrs w with
      | Ok r' =>
          req_eqb r' r &&
          (let '(st', m) := serve X (faulty_ops C) st r in rsp_matches m o && model_hist st' t)
      | Raise _ => false
      end
  | HUndecoded w d :: t =>
      match decode_attrs w, d with
      | Raise e, DecodeRaised e' => pyexn_eqb e e' && model_hist st t
      | _, _ => false
      end
  | HDump ds :: t => all2 dump_matches (cx_blocks (fs_ctx st)) ds && model_hist st t
  end.

End WithCode.

(* ---------------------------------------------------------------- property side
   The abstract state of a layout: table -> storage by the slot letters of the Modbus data
   model (coils 'c', discrete inputs 'd', holding 'h', input registers 'i'); protocol
   address k is the block cell k+1 unless zero mode (PDU addresses are zero-based, data
   elements are numbered from one). *)
Definition desc_cell (d : bdesc) (k : Z) : option Z :=
  match d with
  | DSeq s vs => if (s <=? k) && (k <? s + Z.of_nat (length vs)) then nth_error vs (Z.to_nat (k - s)) else None
  | DSeqFill s n a b m => if (s <=? k) && (k <? s + n) then Some (Z.land (a * (k - s) + b) m) else None
  | DSp cs => assoc_z cs k
  end.

Definition desc_keys (d : bdesc) : list Z :=
  match d with
  | DSeq s vs => zrange s (length vs)
  | DSeqFill s n _ _ _ => zrange s (Z.to_nat n)
  | DSp cs => map fst cs
  end.

Definition letter_of (t : tbl) : string :=
  match t with Coils => "c" | Discrete => "d" | Holding => "h" | Input => "i" end.

Definition off_of (l : ldesc) : Z := if l_zero l then 0 else 1.

Definition abs_of_layout (l : ldesc) : astate :=
  {| a_slot := fun t => match assoc_str (l_slots l) (letter_of t) with Some i => i | None => O end;
     a_cell := fun b k => match nth_error (l_blocks l) b with
                          | Some d => desc_cell d (k + off_of l)
                          | None => None
                          end |}.

(* observed response as a spec-level response, by its function code and fields only *)
Definition oview (o : obs_rsp) : option srsp :=
  match o with
  | OExc fc code => Some (SExc fc code)
  | ORsp _ fc args =>
      match args with
      | [VL v] =>
          if (fc =? 1) || (fc =? 2) || (fc =? 3) || (fc =? 4) || (fc =? 23)
          then Some (SRead fc v) else None
      | [VZ a; VZ v] =>
          if (fc =? 5) || (fc =? 6) then Some (SEcho1 fc a v)
          else if (fc =? 15) || (fc =? 16) then Some (SEchoN fc a v) else None
      | [VZ a; VZ am; VZ om] => if fc =? 22 then Some (SMask a am om) else None
      | _ => None
      end
  end.

(* the dump of block b must show exactly the configured cells, holding the abstract values *)
Definition dump_ok (l : ldesc) (s : astate) (b : nat) (d : bdesc) (o : dump1) : bool :=
  let keys := desc_keys d in
  let want k := a_cell s b (k - off_of l) in
  match o with
  | DFull cells =>
      Nat.eqb (length cells) (length keys) &&
      all2 (fun k kv => (k =? fst kv) && option_eqb Z.eqb (want k) (Some (snd kv))) keys cells
  | DDigest n dg near =>
      (Z.of_nat (length keys) =? n) &&
      (digest (map (fun k => match want k with Some v => v | None => -1 end) keys) =? dg) &&
      forallb (fun kv => option_eqb Z.eqb (want (fst kv)) (Some (snd kv))) near
  end.

Fixpoint dumps_ok (l : ldesc) (s : astate) (b : nat) (ds : list bdesc) (os : list dump1) : bool :=
  match ds, os with
  | [], [] => true
  | d :: dt, o :: ot => dump_ok l s b d o && dumps_ok l s (S b) dt ot
  | _, _ => false
  end.

(* the PDU carries less data than its quantity / byte count announce: a truncated (malformed)
   frame.  The property still demands exception 03 when the header fields themselves are illegal or
   contradict each other; otherwise a truncated frame is not constrained by it (C12's territory). *)
Definition wire_truncated (w : wreq) : bool :=
  match w with
  | WWriteCoils _ n _ data => Z.of_nat (length data) <? (n + 7) / 8
  | WWriteRegs _ n _ data => Z.of_nat (length data) <? 2 * n
  | WRWM _ _ _ wn _ data => Z.of_nat (length data) <? 2 * wn
  | _ => false
  end.

Definition demands_03 (s : astate) (w : wreq) : bool :=
  match spec_outcome s w with Some 3 => true | _ => false end.

Fixpoint prop_hist (l : ldesc) (s : astate) (h : list hitem) : bool :=
  match h with
  | [] => true
  | HReq w _ o faulted pdu :: t =>
      if faulted
      then (* datastore failure: exception 04 with fc|0x80, and nothing has changed *)
           let want := SExc (Z.lor (wfc w) 128) 4 in
           option_eqb srsp_eqb (oview o) (Some want) && list_eqb Z.eqb pdu (spec_rsp_pdu want) && prop_hist l s t
      else if wire_truncated w && negb (demands_03 s w) then true     (* unconstrained; checking stops here *)
      else let '(s', want) := spec_exec s w in
           (* the response object AND the bytes it encodes to *)
           option_eqb srsp_eqb (oview o) (Some want) && list_eqb Z.eqb pdu (spec_rsp_pdu want) && prop_hist l s' t
  | HUndecoded w _ :: t =>
      (* no response object at all: a violation exactly when the wire fields demand exception 03 *)
      negb (demands_03 s w) && prop_hist l s t
  | HDump ds :: t => dumps_ok l s O (l_blocks l) ds && prop_hist l s t
  end.

Definition chk_hist (C : store_code) (X : exec_code) (c : ldesc * list bool * list hitem) : bool * bool :=
  let '(l, plan, h) := c in
  (model_hist C X {| fs_ctx := ctx_of_layout l; fs_plan := plan |} h,
   prop_hist l (abs_of_layout l) h).

(* ---------------------------------------------------------------- exhaustive coil-word sweep
   words lo .. lo+|obs|-1 sent as FC5 to address addr, one after the other, on one store.
   Observation per word: (k, coil) with k = exception code, or 10 + echoed value for a
   normal response (100 if the response is malformed), coil = the coil cell afterwards. *)
Definition code_of_srsp (addr : Z) (o : option srsp) : Z :=
  match o with
  | Some (SExc fc code) => if fc =? 133 then code else 100
  | Some (SEcho1 fc a v) => if (fc =? 5) && (a =? addr) then 10 + v else 100
  | _ => 100
  end.

Section Sweep.
Variable C : store_code.
Variable X : exec_code.

Fixpoint model_sweep (st : slavectx) (addr word : Z) (obs : list (Z * Z)) : bool :=
  match obs with
  | [] => true
  | (k, coil) :: t =>
      match decode_attrs (WWriteCoil addr word) with
      | Raise _ => false
      | Ok r =>
          let '(st', m) := serve X (std_ops C) st r in
          (code_of_srsp addr (view X m) =? k) &&
          (match cx_get C st' 1 addr 1 with Ok [v] => v =? coil | _ => coil =? -1 end) &&
          model_sweep st' addr (word + 1) t
      end
  end.

Fixpoint prop_sweep (s : astate) (addr word : Z) (obs : list (Z * Z)) : bool :=
  match obs with
  | [] => true
  | (k, coil) :: t =>
      let '(s', want) := spec_exec s (WWriteCoil addr word) in
      (code_of_srsp addr (Some want) =? k) &&
      (match cell s' Coils addr with Some v => v =? coil | None => coil =? -1 end) &&
      prop_sweep s' addr (word + 1) t
  end.

Definition chk_sweep (c : ldesc * Z * Z * list (Z * Z)) : bool * bool :=
  let '(l, addr, lo, obs) := c in
  (model_sweep (ctx_of_layout l) addr lo obs, prop_sweep (abs_of_layout l) addr lo obs).
End Sweep.
