(* FrA_ascii_gate_proofs.v — C07, loop level, ASCII: EVERY element of the delivery list of a
   receive call is justified by a span ':' hex… CR LF of buffer ++ chunk whose LRC matches and
   whose bytes are unit + PDU of the delivered message — from ANY state, any input. *)
From PM.theories Require Import Base Expr Struct FrBaseA Lrc FrAscii FrSpecA.
From PM.Generated Require Import GenFramerA.
From PM.proofs Require Import Struct_proofs FrA_lrc_proofs FrA_stream_proofs FrA_ascii_proofs.
From Coq Require Import ZifyBool.
Open Scope list_scope.
Open Scope Z_scope.
Ltac Zify.zify_post_hook ::= Z.to_euclidean_division_equations.

(* d is justified by a span of buf: ':' D c1 c2 CR LF with D, c1 c2 hex, LRC(c1 c2) = LRC of the
   bytes of D, and those bytes are unit :: PDU of d.  (Degenerate span ':00 CR LF': no bytes at
   all; then the delivery has unit 0 and an empty PDU — no decoder accepts an empty PDU.) *)
Definition ascii_justified (buf : bytes) (d : delivery) : Prop :=
  d_tid d = 0 /\ d_pid d = 0 /\
  exists pre D c1 c2 rest data ck,
    buf = pre ++ COLON :: (D ++ [c1; c2]) ++ CR :: LF :: rest /\
    a2b_hex D = Ok data /\ a2b_hex [c1; c2] = Ok [ck] /\ Z.of_N ck = spec_lrc data /\
    ((exists u, data = u :: d_pdu d /\ Z.of_N u = d_uid d) \/ (data = [] /\ d_pdu d = [] /\ d_uid d = 0)).

Lemma justified_lift p l d : ascii_justified l d -> ascii_justified (p ++ l) d.
Proof.
  intros (Ht & Hp & pre & D & c1 & c2 & rest & data & ck & -> & H).
  split; [exact Ht|]. split; [exact Hp|].
  exists (p ++ pre), D, c1, c2, rest, data, ck. split; [now rewrite app_assoc|exact H].
Qed.

Lemma check_suffix st : exists pre, a_buf st = pre ++ a_buf (fst (check_clean st)).
Proof.
  unfold check_clean.
  destruct (find_sub [COLON] (a_buf st)) as [s|]; [|exists []; reflexivity].
  assert (E : a_buf st = firstn s (a_buf st) ++ skipn s (a_buf st)) by (symmetry; apply firstn_skipn).
  destruct (find_sub [CR; LF] (skipn s (a_buf st))) as [e|]; [|exists (firstn s (a_buf st)); exact E].
  destruct (try_clean _ _ _) as [h [data|x]]; exists (firstn s (a_buf st)); exact E.
Qed.

Lemma hexval_range c x : hexval c = Some x -> 0 <= x < 16.
Proof.
  unfold hexval. intros H.
  repeat match goal with H : (if ?c then _ else _) = Some _ |- _ => destruct c eqn:?; [injection H as <-|] end;
  try discriminate; lia.
Qed.

Lemma pair_int c1 c2 ck : a2b_hex [c1; c2] = Ok [ck] -> int_hex2 [c1; c2] = Ok (Z.of_N ck).
Proof.
  cbn [a2b_hex int_hex2]. destruct (hexval c1) as [x|] eqn:E1; [|discriminate].
  destruct (hexval c2) as [y|] eqn:E2; [|discriminate]. cbn [bind]. intros H. injection H as <-.
  pose proof (hexval_range _ _ E1). pose proof (hexval_range _ _ E2). f_equal. destruct x; lia.
Qed.

(* what is delivered after an accepted check, and where the buffer continues *)
Lemma deliver_justified st st1 frame :
  check_clean st = (st1, true) -> a_getframe ascii st1 = Ok frame ->
  ascii_justified (a_buf st1) (a_deliv ascii frame (a_hdr st1)) /\
  exists pre2, a_buf st1 = pre2 ++ a_buf (a_advance ascii st1).
Proof.
  intros Hc Hg.
  destruct (ascii_check_gate st st1 Hc) as (pre & D & c1 & c2 & rest & data & _ & (Hbuf & HD & (ck & Hck & Hlv & Hlrc) & Huid) & Hlen).
  rewrite a_getframe_eq, Hlen in Hg. replace (Z.of_nat (S (length D + 2)) - 2 >? 0) with true in Hg by lia.
  rewrite pyslice_nn in Hg by lia. change (Z.to_nat 3) with 3%nat in Hg.
  replace (Z.to_nat (Z.of_nat (S (length D + 2)) - 2) - 3)%nat with (length D - 2)%nat in Hg by lia.
  rewrite a_deliv_eq. split.
  - split; [reflexivity|]. split; [reflexivity|]. cbn [d_pdu d_uid].
    exists [], D, c1, c2, rest, data, ck. split; [exact Hbuf|]. split; [exact HD|]. split; [exact Hck|].
    split; [lia|].
    destruct D as [|a [|b D']].
    + right. cbn [a2b_hex] in HD. injection HD as <-. cbn [app firstn] in Huid.
      rewrite (pair_int _ _ _ Hck) in Huid. injection Huid as Hu.
      rewrite Hbuf in Hg. cbn [length Nat.sub firstn a2b_hex] in Hg. injection Hg as <-.
      repeat split. rewrite <- Hu, Hlv, Hlrc. reflexivity.
    + cbn [a2b_hex] in HD. discriminate.
    + left. cbn [a2b_hex] in HD.
      destruct (hexval a) as [x|] eqn:Ea; [|discriminate]. destruct (hexval b) as [y|] eqn:Eb; [|discriminate].
      destruct (a2b_hex D') as [data'|] eqn:ED'; [|discriminate]. cbn [bind] in HD. injection HD as <-.
      cbn [app firstn int_hex2] in Huid. rewrite Ea, Eb in Huid. injection Huid as Hu.
      rewrite Hbuf in Hg. cbn [app skipn length] in Hg.
      replace (S (S (length D')) - 2)%nat with (length D') in Hg by lia.
      rewrite <- !app_assoc in Hg. rewrite firstn_app, Nat.sub_diag, firstn_all, firstn_O, app_nil_r in Hg.
      rewrite ED' in Hg. injection Hg as <-.
      eexists. split; [reflexivity|].
      pose proof (hexval_range _ _ Ea). pose proof (hexval_range _ _ Eb). rewrite <- Hu. destruct x; lia.
  - rewrite a_advance_eq. cbn [a_buf]. rewrite Hlen, pyfrom_nn by lia.
    exists (COLON :: (D ++ [c1; c2]) ++ [CR; LF]).
    rewrite Hbuf.
    replace (Z.to_nat (Z.of_nat (S (length D + 2)) + 2)) with (length (COLON :: (D ++ [c1; c2]) ++ [CR; LF]))
      by (cbn [length]; rewrite !app_length; cbn [length]; lia).
    change (COLON :: (D ++ [c1; c2]) ++ CR :: LF :: rest) with (COLON :: (D ++ [c1; c2]) ++ [CR; LF] ++ rest).
    rewrite app_assoc. change (COLON :: ((D ++ [c1; c2]) ++ [CR; LF]) ++ rest) with ((COLON :: (D ++ [c1; c2]) ++ [CR; LF]) ++ rest).
    rewrite skipn_app, skipn_all, Nat.sub_diag. reflexivity.
Qed.

Lemma advance_suffix st st1 :
  check_clean st = (st1, true) -> exists pre2, a_buf st1 = pre2 ++ a_buf (a_advance ascii st1).
Proof.
  intros Hc.
  destruct (ascii_check_gate st st1 Hc) as (pre & D & c1 & c2 & rest & data & _ & (Hbuf & _) & Hlen).
  rewrite a_advance_eq. cbn [a_buf]. rewrite Hlen, pyfrom_nn by lia.
  exists (COLON :: (D ++ [c1; c2]) ++ [CR; LF]).
  rewrite Hbuf.
  replace (Z.to_nat (Z.of_nat (S (length D + 2)) + 2)) with (length (COLON :: (D ++ [c1; c2]) ++ [CR; LF]))
    by (cbn [length]; rewrite !app_length; cbn [length]; lia).
  change (COLON :: (D ++ [c1; c2]) ++ CR :: LF :: rest) with (COLON :: (D ++ [c1; c2]) ++ [CR; LF] ++ rest).
  rewrite app_assoc. change (COLON :: ((D ++ [c1; c2]) ++ [CR; LF]) ++ rest) with ((COLON :: (D ++ [c1; c2]) ++ [CR; LF]) ++ rest).
  rewrite skipn_app, skipn_all, Nat.sub_diag. reflexivity.
Qed.

Theorem ascii_loop_gate dec units single : forall fuel st st' ds o,
  a_loop base lrc ascii dec fuel units single st = (st', ds, o) ->
  Forall (ascii_justified (a_buf st)) ds.
Proof.
  induction fuel as [|fuel IH]; intros st st' ds o H.
  - cbn in H. injection H as _ <- _. constructor.
  - cbn [a_loop] in H. destruct (a_isready ascii st); [|injection H as _ <- _; constructor].
    rewrite a_check_eq in H. destruct (check_suffix st) as (pre & Hpre).
    destruct (check_clean st) as [st1 ok] eqn:Hc. cbn [fst] in Hpre. destruct ok.
    + destruct (validate_unit base units single (Some (a_uid (a_hdr st1)))) as [[|]|x].
      * destruct (a_getframe ascii st1) as [frame|x] eqn:Hg; [|injection H as _ <- _; constructor].
        destruct (dec frame); try (injection H as _ <- _; constructor).
        destruct (a_loop base lrc ascii dec fuel units single (a_advance ascii st1)) as [[s2 d2] o2] eqn:Er.
        cbn [cons_da] in H. injection H as _ <- _.
        destruct (deliver_justified st st1 frame Hc Hg) as (Hj & pre2 & Hp2).
        constructor.
        -- rewrite Hpre. apply justified_lift, Hj.
        -- specialize (IH _ _ _ _ Er). eapply Forall_impl; [|exact IH].
           intros d Hd. rewrite Hpre, Hp2, app_assoc. apply justified_lift, Hd.
      * (* unit not served: advanceFrame *)
        specialize (IH _ _ _ _ H). destruct (advance_suffix st st1 Hc) as (pre2 & Hp2).
        eapply Forall_impl; [|exact IH]. intros d Hd. rewrite Hpre, Hp2, app_assoc. apply justified_lift, Hd.
      * injection H as _ <- _. constructor.
    + destruct (beval (aenv ascii st1) (a_droptest ascii)); [|injection H as _ <- _; constructor].
      specialize (IH _ _ _ _ H). rewrite a_dropone_eq in IH. cbn [a_buf] in IH. rewrite pyfrom_nn in IH by lia.
      eapply Forall_impl; [|exact IH]. intros d Hd.
      rewrite Hpre, <- (firstn_skipn (Z.to_nat 1) (a_buf st1)), app_assoc. apply justified_lift, Hd.
Qed.

Theorem ascii_recv_gate dec c st chunk st' ds o :
  a_recv base lrc ascii dec c st chunk = (st', ds, o) ->
  Forall (ascii_justified (a_buf st ++ chunk)) ds.
Proof. unfold a_recv. intros H. apply (ascii_loop_gate _ _ _ _ _ _ _ _ H). Qed.
