(* Exec.v — executable model of `request.execute(context)` for the data-access function
   codes 1-6, 15, 16, 22, 23, of `IllegalFunctionRequest.execute`, and of the
   `except Exception: response = request.doException(merror.SlaveFailure)` wrapper that the
   three server front-ends put around it.

   The bodies of the ten `execute()` methods are NOT written here: they are *guard
   scripts* (lists of [stmt]) that gen/gen_exec.py regenerates from /repo on every run
   (Generated/GenExec.v), together with the exception codes, the `fc | 0x80` expression
   of ExceptionResponse, the ServerDecoder function table and the function code of
   every response class.  What is written by hand here is the interpreter [run] of such
   scripts over an abstract datastore interface [ctxops] (validate / getValues /
   setValues, each returning the new store state and either a value or a Python
   exception), so that the same interpreter runs over the datastore model of Store.v and
   over a fault-injecting wrapper ("datastores that raise").  No proofs in this file. *)
From PM.theories Require Import Base Expr Store.
Open Scope string_scope.
Open Scope list_scope.
Open Scope Z_scope.

(* ---------------------------------------------------------------- decoded requests
   A decoded request object is the record of its attributes (what ServerDecoder.decode
   left in `self.__dict__`).  One record type serves all classes; the translator only
   lets a script mention the attributes its class's `decode` assigns. *)
Record req := {
  r_fc : Z;                       (* self.function_code (class attribute) *)
  r_address : Z; r_count : Z; r_value : Z; r_byte_count : Z;
  r_and_mask : Z; r_or_mask : Z;
  r_read_address : Z; r_read_count : Z;
  r_write_address : Z; r_write_count : Z; r_write_byte_count : Z;
  r_values : list Z;              (* self.values (FC15: bools as 0/1; FC16: words) *)
  r_write_registers : list Z      (* self.write_registers (FC23) *)
}.

Definition req0 (fc : Z) : req :=
  {| r_fc := fc; r_address := 0; r_count := 0; r_value := 0; r_byte_count := 0;
     r_and_mask := 0; r_or_mask := 0; r_read_address := 0; r_read_count := 0;
     r_write_address := 0; r_write_count := 0; r_write_byte_count := 0;
     r_values := []; r_write_registers := [] |}.

(* ---------------------------------------------------------------- script language *)

(* list-valued expressions *)
Inductive lexpr :=
| LAttr (a : string)                    (* self.values / self.write_registers *)
| LVar (x : string)                     (* a local bound by `x = context.getValues(…)` *)
| LSingle (e : expr).                   (* [e] *)

(* constructor arguments of the response *)
Inductive rarg :=
| AZ (e : expr)                         (* scalar expression *)
| AL (l : lexpr)                        (* a list *)
| AIdx0 (l : lexpr).                    (* l[0] *)

Inductive stmt :=
| SAssign (x : string) (e : expr)                 (* x = e *)
| SGuard (c : expr) (exc : Z)                     (* if c: return self.doException(exc) *)
| SValidate (fx a n : expr) (exc : Z)             (* if not context.validate(fx, a, n): return self.doException(exc) *)
| SGet (x : string) (fx a n : expr)               (* x = context.getValues(fx, a, n) *)
| SGetIdx0 (x : string) (fx a n : expr)           (* x = context.getValues(fx, a, n)[0] *)
| SSet (fx a : expr) (vs : lexpr)                 (* context.setValues(fx, a, vs) *)
| SReturn (cls : string) (args : list rarg).      (* return Cls(args…) *)

Definition script := list stmt.

(* responses: a normal response is its class name and constructor arguments *)
Inductive rval := VZ (z : Z) | VL (l : list Z).
Inductive rsp :=
| Rsp (cls : string) (args : list rval)
| Exc (fc code : Z).                    (* ExceptionResponse: function_code (already |0x80), exception_code *)

(* what the translator emits besides the scripts *)
Record exec_code := {
  x_scripts : list (Z * (string * script));     (* function code -> (request class, execute body) *)
  x_known_fcs : list Z;                         (* function codes of ServerDecoder's function table *)
  x_illegal_code : Z;                           (* IllegalFunctionRequest.ErrorCode *)
  x_slave_failure : Z;                          (* merror.SlaveFailure, used by the server wrappers *)
  x_exc_fc : expr;                              (* ExceptionResponse: function_code | ExceptionOffset; atom function_code *)
  x_resp_fc : list (string * Z)                 (* response class -> function_code *)
}.

(* ---------------------------------------------------------------- datastore interface *)

Record ctxops (S : Type) := {
  o_validate : S -> Z -> Z -> Z -> S * res bool;
  o_get : S -> Z -> Z -> Z -> S * res (list Z);
  o_set : S -> Z -> Z -> list Z -> S * res unit
}.
Arguments o_validate {S}. Arguments o_get {S}. Arguments o_set {S}.

(* the datastore model of Store.v: validate / getValues never change the store; a
   setValues that raises (unmapped function code) leaves it unchanged *)
Definition std_ops (C : store_code) : ctxops slavectx := {|
  o_validate := fun c fx a n => (c, cx_validate C c fx a n);
  o_get := fun c fx a n => (c, cx_get C c fx a n);
  o_set := fun c fx a vs => match cx_set C c fx a vs with
                            | Ok c' => (c', Ok tt)
                            | Raise e => (c, Raise e)
                            end
|}.

(* fault injection: every datastore call consumes one entry of the plan; [true] makes
   that call raise (before touching the store); an exhausted plan never raises *)
Record fstore := { fs_ctx : slavectx; fs_plan : list bool }.

Definition fault_pop (s : fstore) : bool * fstore :=
  match fs_plan s with
  | [] => (false, s)
  | b :: t => (b, {| fs_ctx := fs_ctx s; fs_plan := t |})
  end.

Definition faulty_ops (C : store_code) : ctxops fstore := {|
  o_validate := fun s fx a n =>
    let '(f, s1) := fault_pop s in
    if f then (s1, Raise OtherExc) else (s1, cx_validate C (fs_ctx s1) fx a n);
  o_get := fun s fx a n =>
    let '(f, s1) := fault_pop s in
    if f then (s1, Raise OtherExc) else (s1, cx_get C (fs_ctx s1) fx a n);
  o_set := fun s fx a vs =>
    let '(f, s1) := fault_pop s in
    if f then (s1, Raise OtherExc)
    else match cx_set C (fs_ctx s1) fx a vs with
         | Ok c' => ({| fs_ctx := c'; fs_plan := fs_plan s1 |}, Ok tt)
         | Raise e => (s1, Raise e)
         end
|}.

(* ---------------------------------------------------------------- interpreter *)

Definition slocals := list (string * Z).
Definition llocals := list (string * list Z).

(* atoms: scalar locals shadow nothing (distinct names); then the request attributes *)
Definition req_env (r : req) (sl : slocals) : env :=
  env_of (sl ++
          [("self.function_code", r_fc r);
           ("self.address", r_address r); ("self.count", r_count r); ("self.value", r_value r);
           ("self.byte_count", r_byte_count r);
           ("self.and_mask", r_and_mask r); ("self.or_mask", r_or_mask r);
           ("self.read_address", r_read_address r); ("self.read_count", r_read_count r);
           ("self.write_address", r_write_address r); ("self.write_count", r_write_count r);
           ("self.write_byte_count", r_write_byte_count r);
           ("len(self.values)", Z.of_nat (length (r_values r)));
           ("len(self.write_registers)", Z.of_nat (length (r_write_registers r)))]).

Definition eval_lexpr (r : req) (sl : slocals) (ll : llocals) (l : lexpr) : res (list Z) :=
  match l with
  | LAttr a => if String.eqb a "self.values" then Ok (r_values r)
               else if String.eqb a "self.write_registers" then Ok (r_write_registers r)
               else Raise AttributeError
  | LVar x => match assoc_str ll x with Some v => Ok v | None => Raise AttributeError end
  | LSingle e => Ok [eval (req_env r sl) e]
  end.

Definition eval_rarg (r : req) (sl : slocals) (ll : llocals) (a : rarg) : res rval :=
  match a with
  | AZ e => Ok (VZ (eval (req_env r sl) e))
  | AL l => do v <- eval_lexpr r sl ll l; Ok (VL v)
  | AIdx0 l => do v <- eval_lexpr r sl ll l;
               match v with [] => Raise IndexError | x :: _ => Ok (VZ x) end
  end.

Fixpoint eval_rargs (r : req) (sl : slocals) (ll : llocals) (l : list rarg) : res (list rval) :=
  match l with
  | [] => Ok []
  | a :: t => do v <- eval_rarg r sl ll a; do vs <- eval_rargs r sl ll t; Ok (v :: vs)
  end.

Section Run.
Variable X : exec_code.
Context {S : Type}.
Variable ops : ctxops S.

(* ExceptionResponse(function_code, code).function_code *)
Definition exc_fc (fc : Z) : Z := eval (env_of [("function_code", fc)]) (x_exc_fc X).

(* self.doException(code) *)
Definition do_exception (r : req) (code : Z) : rsp := Exc (exc_fc (r_fc r)) code.

Fixpoint run (sc : script) (r : req) (st : S) (sl : slocals) (ll : llocals) : S * res rsp :=
  match sc with
  | [] => (st, Raise AttributeError)    (* body falls off its end: returns None, which is no response
                                           (the translator requires a final return) *)
  | s :: k =>
      let rho := req_env r sl in
      match s with
      | SAssign x e => run k r st ((x, eval rho e) :: sl) ll
      | SGuard c exc =>
          if beval rho c then (st, Ok (do_exception r exc)) else run k r st sl ll
      | SValidate fx a n exc =>
          let '(st1, v) := o_validate ops st (eval rho fx) (eval rho a) (eval rho n) in
          match v with
          | Raise e => (st1, Raise e)
          | Ok true => run k r st1 sl ll
          | Ok false => (st1, Ok (do_exception r exc))
          end
      | SGet x fx a n =>
          let '(st1, v) := o_get ops st (eval rho fx) (eval rho a) (eval rho n) in
          match v with
          | Raise e => (st1, Raise e)
          | Ok l => run k r st1 sl ((x, l) :: ll)
          end
      | SGetIdx0 x fx a n =>
          let '(st1, v) := o_get ops st (eval rho fx) (eval rho a) (eval rho n) in
          match v with
          | Raise e => (st1, Raise e)
          | Ok [] => (st1, Raise IndexError)
          | Ok (h :: _) => run k r st1 ((x, h) :: sl) ll
          end
      | SSet fx a vs =>
          match eval_lexpr r sl ll vs with
          | Raise e => (st, Raise e)
          | Ok l =>
              let '(st1, v) := o_set ops st (eval rho fx) (eval rho a) l in
              match v with
              | Raise e => (st1, Raise e)
              | Ok _ => run k r st1 sl ll
              end
          end
      | SReturn cls args =>
          match eval_rargs r sl ll args with
          | Raise e => (st, Raise e)
          | Ok vs => (st, Ok (Rsp cls vs))
          end
      end
  end.

Definition run_script (sc : script) (st : S) (r : req) : S * res rsp := run sc r st [] [].

(* ServerDecoder's choice of class for a function code, restricted to what is modelled *)
Inductive dispatched := DScript (cls : string) (sc : script) | DIllegal | DNotModelled.

Definition dispatch (fc : Z) : dispatched :=
  match assoc_z (x_scripts X) fc with
  | Some (cls, sc) => DScript cls sc
  | None => if existsb (Z.eqb fc) (x_known_fcs X) then DNotModelled else DIllegal
  end.

(* the server wrapper: any exception raised by execute becomes doException(SlaveFailure);
   the store stays whatever it was when the exception was raised *)
Definition serve (st : S) (r : req) : S * rsp :=
  match dispatch (r_fc r) with
  | DScript _ sc =>
      let '(st', out) := run_script sc st r in
      match out with
      | Ok rp => (st', rp)
      | Raise _ => (st', do_exception r (x_slave_failure X))
      end
  | DIllegal => (st, Exc (exc_fc (r_fc r)) (x_illegal_code X))
  | DNotModelled => (st, Rsp "NotModelled" [])
  end.

Fixpoint serve_all (st : S) (rs : list req) : S * list rsp :=
  match rs with
  | [] => (st, [])
  | r :: t => let '(st1, o) := serve st r in
              let '(st2, os) := serve_all st1 t in (st2, o :: os)
  end.

End Run.

