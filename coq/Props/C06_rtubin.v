(* Props/C06_rtubin.v — C06, RTU / binary half: chunking independence.  ONLY statements. *)
From PM.theories Require Import Base Expr Struct FrBCode Crc FrBCommon FrRtu FrBin FrSpecB.
From PM.Generated Require Import GenFramerB.
From PM.proofs Require Import Crc_proofs FrB_witness_proofs.
Open Scope list_scope.
Open Scope N_scope.

(* the full statement, kept visible: any chunking of a stream of valid frames delivers all of
   them, in order, without an exception *)
Definition C06_full_statement_rtu : Prop :=
  forall (dec : bytes -> dres) (frames : list (N * bytes)) (chunks : list bytes),
    (forall u p, In (u, p) frames -> dec p = DMsg /\ wfb (u :: p) = true) ->
    concat chunks = concat (map (fun f => spec_adu_rtu (fst f) (snd f)) frames) ->
    let cfg := {| cf_dec := dec; cf_rules := server_decoder; cf_units := []; cf_single := true |} in
    deliveries (rtu_feed cfg rtu_init chunks) = map (fun f => (snd f, Z.of_N (fst f))) frames.

(* RTU: refuted — one frame per processIncomingPacket call (finding F-C06-rtu-one-frame-per-call) *)
Theorem C06_rtu_refuted :
  let fa := spec_adu_rtu 1 pdu_a in let fb := spec_adu_rtu 1 pdu_b in
  deliveries (rtu_feed cfg_server rtu_init [fa; fb]) = [(pdu_a, 1%Z); (pdu_b, 1%Z)] /\
  deliveries (rtu_feed cfg_server rtu_init [fa ++ fb]) = [(pdu_a, 1%Z)] /\
  deliveries (rtu_feed cfg_server rtu_init [fa ++ fb; []]) = [(pdu_a, 1%Z); (pdu_b, 1%Z)].
Proof. exact rtu_one_frame_per_call_witness. Qed.
Print Assumptions C06_rtu_refuted.

(* RTU, responses: refuted — a Read Device Identification response cut inside its object list
   raises struct.error, then KeyError for ever (finding F-C06-rtu-mei-partial-raises) *)
Theorem C06_rtu_mei_refuted :
  let fa := spec_adu_rtu 1 [3; 2; 0; 7] in
  let mei := spec_adu_rtu 1 [43; 14; 1; 1; 0; 0; 1; 0; 3; 65; 66; 67] in
  rtu_feed cfg_client rtu_init [fa; mei] =
    (rtu_reset rtu_init, [([3; 2; 0; 7], 1%Z); ([43; 14; 1; 1; 0; 0; 1; 0; 3; 65; 66; 67], 1%Z)], [FOk; FOk]) /\
  exits (rtu_feed cfg_client rtu_init [fa; firstn 9 mei; skipn 9 mei; fa; fa]) =
    [FOk; FExn StructError; FExn KeyError; FExn KeyError; FExn KeyError] /\
  deliveries (rtu_feed cfg_client rtu_init [fa; firstn 9 mei; skipn 9 mei; fa; fa]) = [([3; 2; 0; 7], 1%Z)].
Proof. exact rtu_mei_partial_witness. Qed.
Print Assumptions C06_rtu_mei_refuted.

(* binary: refuted — a read ending inside a frame resets the receiver
   (finding F-C06-binary-incomplete-reset) *)
Theorem C06_binary_refuted :
  let f := spec_adu_binary 1 pdu_a in
  no_delim (with_crc (1 :: pdu_a)) = true /\
  deliveries (bin_feed cfg_server bin_init [f]) = [(pdu_a, 1%Z)] /\
  deliveries (bin_feed cfg_server bin_init [firstn 4 f; skipn 4 f]) = [].
Proof. exact binary_incomplete_reset_witness. Qed.
Print Assumptions C06_binary_refuted.

(* binary: refuted — advanceFrame skips one byte too many; a second frame in the same read is
   lost (finding F-C06-binary-advance-skips-byte) *)
Theorem C06_binary_pipelined_refuted :
  let fa := spec_adu_binary 1 pdu_a in let fb := spec_adu_binary 1 pdu_b in
  no_delim (with_crc (1 :: pdu_a)) = true /\ no_delim (with_crc (1 :: pdu_b)) = true /\
  deliveries (bin_feed cfg_server bin_init [fa; fb]) = [(pdu_a, 1%Z); (pdu_b, 1%Z)] /\
  deliveries (bin_feed cfg_server bin_init [fa ++ fb]) = [(pdu_a, 1%Z)].
Proof. exact binary_advance_skip_witness. Qed.
Print Assumptions C06_binary_pipelined_refuted.
