(* Props/C11_rtubin.v — C11, RTU / binary half: resynchronisation.  ONLY statements. *)
From PM.theories Require Import Base Expr Struct FrBCode Crc FrBCommon FrRtu FrBin FrSpecB.
From PM.Generated Require Import GenFramerB.
From PM.proofs Require Import Crc_proofs FrB_witness_proofs FrB_rtu_proofs FrB_bin_proofs.
Open Scope list_scope.
Open Scope N_scope.

(* RTU RECOVERY / BACKLOG BOUND, request direction (ServerDecoder table), for EVERY buffer content
   (any garbage, any number of frames per read) and every pending header whose length is at most
   268: a call that returns normally leaves fewer than 268 = 255 + 10 + 3 bytes buffered (the
   largest extent the request-table size oracle can return; less than two maximum-size frames)
   and a bounded header again.  So a candidate frame never waits for more than 268 bytes — it is
   delivered (justified: C07_gate_rtu), skipped, or dropped with what is behind it — and the
   backlog never exceeds 267 bytes however the traffic arrives.  After an exception the serial
   handlers reset the framer (empty buffer, empty header: bounded). *)
Theorem C11_recover_rtu : forall cfg st chunk st' ds,
  cf_rules cfg = server_decoder -> wfb (r_buf st ++ chunk) = true -> hdr_bounded (r_hdr st) ->
  rtu_recv cfg st chunk = (st', ds, FOk) -> (zlen (r_buf st') < 268)%Z /\ hdr_bounded (r_hdr st').
Proof. exact rtu_recover_server. Qed.
Print Assumptions C11_recover_rtu.

(* the header hypothesis holds initially and after a reset (and is re-established by every call) *)
Theorem C11_rtu_header_bounded : hdr_bounded (r_hdr rtu_init) /\ hdr_bounded hdr_empty.
Proof. split; [exact hdr_bounded_init|exact hdr_bounded_empty]. Qed.
Print Assumptions C11_rtu_header_bounded.

(* the bound is specific to the request table: on the response table it is refuted
   (C11_rtu_fifo_extent_refuted: 64 KB extent; C06_rtu_mei_refuted: KeyError for ever) *)

(* RTU, once synchronised (empty buffer; header {} or the initial dict): valid frames arriving in
   ANY grouping (one per read, several per read, cut anywhere) are all delivered, those of units
   not served are skipped, no call raises *)
Theorem C11_rtu_after_sync : forall cfg chunks (R : list frame) st,
  r_buf st = [] -> (r_hdr st = hdr_empty \/ r_hdr st = r_hdr rtu_init) ->
  Forall (vf cfg) R -> concat chunks = stream R ->
  rtu_feed_dels cfg st chunks = (msgs R, map (fun _ => FOk) chunks).
Proof. exact rtu_chunked_sync. Qed.
Print Assumptions C11_rtu_after_sync.

(* RTU resynchronisation step: whenever checkFrame rejects (False), either the buffer is untouched
   (candidate still incomplete) or the receiver is back in the synchronised state: a
   length-complete candidate with a bad CRC costs the whole buffer, nothing is retained *)
Theorem C11_rtu_bad_crc_resyncs : forall cfg st st2, rtu_check cfg st = (st2, Ok false) ->
  (r_buf st2 = [] /\ r_hdr st2 = hdr_empty) \/ r_buf st2 = r_buf st.
Proof. exact rtu_check_false_resets. Qed.
Print Assumptions C11_rtu_bad_crc_resyncs.

(* binary, partial: from any state with an empty buffer, delimiter-free valid frames arriving any
   number per read are all delivered by the read that brings them (finding
   F-C11-binary-several-per-read, status fixed) *)
Theorem C11_binary_after_sync : forall cfg (reads : list (list (N * bytes))) st,
  b_buf st = [] ->
  Forall (fun f => valid_bframe cfg (fst f) (snd f)) (concat reads) ->
  bin_feed_dels cfg st (map bstream reads) = (bmsgs (concat reads), map (fun _ => FOk) reads).
Proof. exact bin_frames_per_read. Qed.
Print Assumptions C11_binary_after_sync.

(* binary, bare framer: refuted — "{}" makes struct.error escape for ever
   (finding F-C11-binary-short-brace-deaf) *)
Theorem C11_binary_refuted :
  let f := spec_adu_binary 1 pdu_a in
  exits (bin_feed cfg_server bin_init [[123; 125]; f; f; f]) =
    [FExn StructError; FExn StructError; FExn StructError; FExn StructError] /\
  deliveries (bin_feed cfg_server bin_init [[123; 125]; f; f; f]) = [].
Proof. exact binary_short_brace_deaf_witness. Qed.
Print Assumptions C11_binary_refuted.

(* RTU, bare framer: refuted — a CRC-valid frame the decoder rejects is never removed
   (finding F-C11-rtubin-undecodable-frame-deaf) *)
Theorem C11_rtu_undecodable_refuted :
  let cfg := {| cf_dec := fun pdu => if bytes_eqb pdu [3; 0] then DNone else DMsg;
                cf_rules := client_decoder; cf_units := [1%Z]; cf_single := true |} in
  let bad := spec_adu_rtu 1 [3; 0] in
  let f := spec_adu_rtu 1 [3; 2; 0; 7] in
  exits (rtu_feed cfg rtu_init [bad; f; f; f]) = [FExn ModbusIOExc; FExn ModbusIOExc; FExn ModbusIOExc; FExn ModbusIOExc] /\
  deliveries (rtu_feed cfg rtu_init [bad; f; f; f]) = [].
Proof. exact rtu_undecodable_deaf_witness. Qed.
Print Assumptions C11_rtu_undecodable_refuted.

(* RTU, responses: FIXED in /repo (finding F-C11-rtu-fifo-size): the Read FIFO Queue byte count is a
   16-bit value: garbage "01 18 01 00" asks for 262 bytes (it was 65 542), after which the CRC fails,
   the buffer is dropped and the following valid frames are delivered *)
Theorem C11_rtu_fifo_fixed :
  let f := spec_adu_rtu 1 (3 :: 250 :: repeat 7 250) in
  frame_size (lookup_rule client_decoder 24) [1; 24; 1; 0] = Ok 262%Z /\
  length (deliveries (rtu_feed cfg_client rtu_init [[1; 24; 1; 0]; f; f; f; f])) = 2%nat.
Proof. exact rtu_fifo_size_fixed_witness. Qed.
Print Assumptions C11_rtu_fifo_fixed.

(* RTU, responses: still refuted (finding F-C11-rtu-fifo-extent) - the 16-bit FIFO byte count is taken at
   face value.  A conformant Read FIFO Queue response has byte count <= 2 + 2 * 31 = 64 (frame <= 70
   bytes); a header '.. 18 hi lo' with a larger count makes the receiver wait for hi * 256 + lo + 6 bytes
   (477 for 01 D7, 65 541 for FF FF) - more than the two maximum frames C11 allows as soon as it exceeds
   512 - and when the extent is reached the CRC fails and every complete valid frame buffered behind the
   garbage is dropped with it: of 70 valid 7-byte frames sent one per read behind "11 18 01 D7" only the
   last 2 are delivered *)
Theorem C11_rtu_fifo_extent_refuted :
  let f := spec_adu_rtu 1 [3; 2; 0; 7] in
  frame_size (lookup_rule client_decoder 24) [17; 24; 0; 64] = Ok 70%Z /\
  frame_size (lookup_rule client_decoder 24) [17; 24; 1; 215] = Ok 477%Z /\
  frame_size (lookup_rule client_decoder 24) [1; 24; 255; 255] = Ok 65541%Z /\
  deliveries (rtu_feed cfg_client rtu_init [[1; 24; 255; 255]; f; f; f; f]) = [] /\
  length (r_buf (fst (fst (rtu_feed cfg_client rtu_init [[1; 24; 255; 255]; f; f; f; f])))) = 32%nat /\
  deliveries (rtu_feed cfg_client rtu_init ([17; 24; 1; 215] :: repeat f 70)) = repeat ([3; 2; 0; 7], 1%Z) 2.
Proof. exact rtu_fifo_extent_witness. Qed.
Print Assumptions C11_rtu_fifo_extent_refuted.

(* formerly refuted, now FIXED in /repo (finding F-C11-rtu-backlog-several-per-read, status fixed):
   several frames per read are all consumed by that read *)
Theorem C11_rtu_no_backlog_fixed :
  let f := spec_adu_rtu 1 pdu_a in
  map (fun n => length (r_buf (fst (fst (rtu_feed cfg_server rtu_init (repeat (f ++ f) n))))))
      [1; 2; 3; 4; 5]%nat = [0; 0; 0; 0; 0]%nat /\
  length (deliveries (rtu_feed cfg_server rtu_init (repeat (f ++ f) 5))) = 10%nat.
Proof. exact rtu_no_backlog_fixed_witness. Qed.
Print Assumptions C11_rtu_no_backlog_fixed.
