(* FrA_tcp_proofs.v — lemmas about the socket-framer model instantiated with the GENERATED
   code record [GenFramerA.tcp] (and [base]).  A changed _hsize, slice bound, comparison,
   struct format or branch structure in socket_framer.py changes [tcp] and breaks the bridge
   lemmas below (they are proved by computation on the generated terms). *)
From PM.theories Require Import Base Expr Struct FrBaseA FrTcp FrSpecA.
From PM.Generated Require Import GenFramerA.
From PM.proofs Require Import Struct_proofs FrA_stream_proofs.
From Coq Require Import ZifyBool.
Open Scope list_scope.
Open Scope Z_scope.
Ltac Zify.zify_post_hook ::= Z.to_euclidean_division_equations.

(* the branch structure of processIncomingPacket is the one the model implements *)
Lemma tcp_skel_ok : t_skel tcp = tcp_skel_expected.
Proof. reflexivity. Qed.

Definition hdr0 : thdr := {| h_tid := 0; h_pid := 0; h_len := 0; h_uid := 0 |}.

Lemma z2b_b2z b : z2b (b2z b) = b.
Proof. destruct b; reflexivity. Qed.

(* ---- slicing ---- *)
Lemma skipn_min {A} a (l : list A) : skipn (Nat.min a (length l)) l = skipn a l.
Proof.
  destruct (Nat.le_gt_cases a (length l)) as [H|H].
  - now rewrite Nat.min_l.
  - rewrite Nat.min_r by lia. rewrite !skipn_all2; [reflexivity|lia|lia].
Qed.

Lemma pyfrom_nonneg bs i : 0 <= i -> pyfrom bs i = skipn (Z.to_nat i) bs.
Proof.
  intros H. unfold pyfrom, norm_idx. replace (i <? 0) with false by lia. apply skipn_min.
Qed.

Lemma pyslice_nonneg bs lo hi : 0 <= lo <= hi ->
  pyslice bs lo hi = firstn (Z.to_nat (hi - lo)) (skipn (Z.to_nat lo) bs).
Proof.
  intros H. unfold pyslice, norm_idx, bslice.
  replace (lo <? 0) with false by lia. replace (hi <? 0) with false by lia.
  rewrite skipn_min.
  destruct (Nat.le_gt_cases (Z.to_nat hi) (length bs)) as [Hh|Hh].
  - rewrite (Nat.min_l (Z.to_nat hi)) by lia. rewrite (Nat.min_l (Z.to_nat lo)) by lia. f_equal. lia.
  - rewrite (Nat.min_r (Z.to_nat hi)) by lia.
    destruct (Nat.le_gt_cases (Z.to_nat lo) (length bs)) as [Hl|Hl].
    + rewrite (Nat.min_l (Z.to_nat lo)) by lia.
      rewrite !firstn_all2; [reflexivity| |]; rewrite skipn_length; lia.
    + rewrite !skipn_all2 by lia. now rewrite !firstn_nil.
Qed.

(* ---- bridge lemmas: the generated expressions, evaluated ---- *)
Lemma hdr_consts : t_hdr_init tcp = hdr0 /\ t_hdr_adv tcp = hdr0 /\ t_hdr_reset tcp = hdr0.
Proof. repeat split; reflexivity. Qed.

Lemma ready_eq st : t_isready tcp st = (Z.of_nat (length (t_buf st)) >? 7).
Proof.
  change (t_isready tcp st) with (z2b (b2z (Z.of_nat (length (t_buf st)) >? 7))). apply z2b_b2z.
Qed.

Lemma advance_eq st :
  t_advance tcp st = {| t_buf := pyfrom (t_buf st) (7 + h_len (t_hdr st) - 1); t_hdr := hdr0 |}.
Proof. reflexivity. Qed.

Lemma reset_eq st : t_reset tcp st = {| t_buf := []; t_hdr := hdr0 |}.
Proof. reflexivity. Qed.

Lemma getframe_eq st :
  t_getframe tcp st = pyslice (t_buf st) 7 (7 + h_len (t_hdr st) - 1).
Proof. reflexivity. Qed.

Lemma deliv_eq data h :
  t_deliv tcp data h = {| d_pdu := data; d_tid := h_tid h; d_pid := h_pid h; d_uid := h_uid h |}.
Proof. reflexivity. Qed.

Definition hdr_of (hb : bytes) : thdr :=
  match unpack_go true [FH; FH; FH; FB] hb with
  | [a; b; c; d] => {| h_tid := a; h_pid := b; h_len := c; h_uid := d |}
  | _ => hdr0
  end.

Lemma cf_short_eq st : beval (tenv tcp st) (t_cf_short tcp) = (h_len (t_hdr st) <? 2).
Proof. change (beval (tenv tcp st) (t_cf_short tcp)) with (z2b (b2z (h_len (t_hdr st) <? 2))). apply z2b_b2z. Qed.

Lemma cf_complete_eq st :
  beval (tenv tcp st) (t_cf_complete tcp) = (Z.of_nat (length (t_buf st)) - 7 + 1 >=? h_len (t_hdr st)).
Proof.
  change (beval (tenv tcp st) (t_cf_complete tcp))
    with (z2b (b2z (Z.of_nat (length (t_buf st)) - 7 + 1 >=? h_len (t_hdr st)))). apply z2b_b2z.
Qed.

Lemma wait_eq st : beval (tenv tcp st) (t_wait tcp) = (h_len (t_hdr st) >=? 2).
Proof. change (beval (tenv tcp st) (t_wait tcp)) with (z2b (b2z (h_len (t_hdr st) >=? 2))). apply z2b_b2z. Qed.

Lemma errfc_eq fc : beval (env_of [("result.function_code"%string, fc)]) (t_errfc tcp) = (fc <? 128).
Proof. change (beval (env_of [("result.function_code"%string, fc)]) (t_errfc tcp)) with (z2b (b2z (fc <? 128))). apply z2b_b2z. Qed.

Lemma hdr_assign_eq a b c d h :
  hdr_assign (t_unpack_targets tcp) [a; b; c; d] h = Some {| h_tid := a; h_pid := b; h_len := c; h_uid := d |}.
Proof. reflexivity. Qed.

Lemma check_ready st : (7 < length (t_buf st))%nat ->
  t_check tcp st =
  Ok (let h := hdr_of (firstn 7 (t_buf st)) in
      let st1 := {| t_buf := t_buf st; t_hdr := h |} in
      if h_len h <? 2 then (t_advance tcp st1, false)
      else if Z.of_nat (length (t_buf st)) - 7 + 1 >=? h_len h then (st1, true) else (st1, false)).
Proof.
  intros Hlen. unfold t_check. rewrite ready_eq. replace (Z.of_nat (length (t_buf st)) >? 7) with true by lia.
  change (eval (tenv tcp st) (t_unpack_lo tcp)) with 0.
  change (eval (tenv tcp st) (t_unpack_hi tcp)) with 7.
  rewrite pyslice_nonneg by lia. change (Z.to_nat (7 - 0)) with 7%nat. change (Z.to_nat 0) with 0%nat. cbn [skipn].
  change (t_unpack_fmt tcp) with [FH; FH; FH; FB]. change (t_unpack_big tcp) with true.
  unfold unpack. rewrite firstn_length_le by lia.
  change (Nat.eqb 7 (fmt_size [FH; FH; FH; FB])) with true. cbn [bind].
  unfold hdr_of. cbn [unpack_go]. rewrite hdr_assign_eq.
  rewrite cf_short_eq, cf_complete_eq. cbn [t_hdr t_buf h_len].
  match goal with |- context [if ?c then _ else _] => destruct c end; [reflexivity|].
  match goal with |- context [if ?c then _ else _] => destruct c end; reflexivity.
Qed.

(* ---- the MBAP header as struct.pack builds it ---- *)
Lemma pack1_H v : 0 <= v < 65536 -> pack1 true FH v = Ok (be16 v).
Proof.
  intros Hv. unfold pack1, in_range. cbn [fsigned fwidth]. change (pow256 2) with 65536.
  replace ((0 <=? v) && (v <? 65536)) with true by lia.
  unfold to_unsigned. replace (v <? 0) with false by lia. reflexivity.
Qed.

Lemma pack1_B v : 0 <= v < 256 -> pack1 true FB v = Ok [Z.to_N v].
Proof.
  intros Hv. unfold pack1, in_range. cbn [fsigned fwidth]. change (pow256 1) with 256.
  replace ((0 <=? v) && (v <? 256)) with true by lia.
  unfold to_unsigned. replace (v <? 0) with false by lia. cbn [le_bytes rev app].
  replace (v mod 256) with v by lia. reflexivity.
Qed.

Definition mbap (tid pid len uid : Z) : bytes := be16 tid ++ be16 pid ++ be16 len ++ [Z.to_N uid].

Lemma mbap_length tid pid len uid : length (mbap tid pid len uid) = 7%nat.
Proof. reflexivity. Qed.

Lemma pack_hdr tid pid len uid :
  0 <= tid < 65536 -> 0 <= pid < 65536 -> 0 <= len < 65536 -> 0 <= uid < 256 ->
  pack true [FH; FH; FH; FB] [tid; pid; len; uid] = Ok (mbap tid pid len uid).
Proof.
  intros H1 H2 H3 H4. cbn [pack]. rewrite !pack1_H, pack1_B by assumption. reflexivity.
Qed.

Lemma hdr_of_mbap tid pid len uid :
  0 <= tid < 65536 -> 0 <= pid < 65536 -> 0 <= len < 65536 -> 0 <= uid < 256 ->
  hdr_of (mbap tid pid len uid) = {| h_tid := tid; h_pid := pid; h_len := len; h_uid := uid |}.
Proof.
  intros H1 H2 H3 H4. unfold hdr_of. rewrite (unpack_go_pack _ _ _ _ (pack_hdr _ _ _ _ H1 H2 H3 H4)). reflexivity.
Qed.

Lemma spec_adu_tcp_mbap tid pid uid pdu :
  spec_adu_tcp tid pid uid pdu = mbap tid pid (Z.of_nat (length pdu) + 1) uid ++ pdu.
Proof. unfold spec_adu_tcp, mbap. now rewrite <- !app_assoc. Qed.

(* ---- well-formed / deliverable frames ---- *)
Definition tcp_good (dec : bytes -> dres) (units : list Z) (single : bool) (f : frame) : Prop :=
  tcp_wf f /\ is_msg (dec (f_pdu f)) = true /\ validate_unit base units single (Some (f_uid f)) = Ok true.

Lemma validate_spec units single u :
  validate_unit base units single (Some u) = Ok (single || zmem 0 units || zmem 255 units || zmem u units).
Proof.
  unfold validate_unit. destruct single; [reflexivity|]. cbn [v_any base existsb orb].
  destruct (zmem 0 units); [reflexivity|]. destruct (zmem 255 units); reflexivity.
Qed.

Lemma adu_tcp_length f : length (spec_adu KTcp f) = (7 + length (f_pdu f))%nat.
Proof. cbn [spec_adu]. rewrite spec_adu_tcp_mbap, app_length, mbap_length. reflexivity. Qed.

Section Loop.
Variable dec : bytes -> dres.
Variable units : list Z.
Variable single : bool.
Notation loop := (t_loop base tcp dec).

(* buffer = H ++ pdu ++ rest with |H| = 7 *)
Lemma parts_firstn (H pdu rest : bytes) : length H = 7%nat -> firstn 7 (H ++ pdu ++ rest) = H.
Proof.
  intros HL. rewrite firstn_app. replace (7 - length H)%nat with 0%nat by lia.
  rewrite firstn_O, app_nil_r, <- HL. apply firstn_all.
Qed.

Lemma parts_frame (H pdu rest : bytes) : length H = 7%nat ->
  firstn (length pdu) (skipn 7 (H ++ pdu ++ rest)) = pdu.
Proof.
  intros HL. rewrite skipn_app. replace (7 - length H)%nat with 0%nat by lia.
  rewrite <- HL, skipn_all, skipn_O. cbn [app].
  rewrite firstn_app, Nat.sub_diag, firstn_all, firstn_O. now rewrite app_nil_r.
Qed.

Lemma parts_rest (H pdu rest : bytes) : length H = 7%nat ->
  skipn (7 + length pdu) (H ++ pdu ++ rest) = rest.
Proof.
  intros HL. rewrite app_assoc. rewrite skipn_app.
  replace (7 + length pdu)%nat with (length (H ++ pdu)) by (rewrite app_length; lia).
  rewrite skipn_all, Nat.sub_diag. reflexivity.
Qed.

(* one complete frame with a consistent header at the head of the buffer: its processing *)
Lemma process_head (H pdu rest : bytes) h fc :
  length H = 7%nat -> (1 <= length pdu)%nat -> h_len h = Z.of_nat (length pdu) + 1 ->
  dec pdu = DMsg fc ->
  t_process tcp dec {| t_buf := H ++ pdu ++ rest; t_hdr := h |} false =
  ({| t_buf := rest; t_hdr := hdr0 |},
   Some {| d_pdu := pdu; d_tid := h_tid h; d_pid := h_pid h; d_uid := h_uid h |}, None).
Proof.
  intros HL Hp Hlen Hdec. unfold t_process. rewrite getframe_eq. cbn [t_buf t_hdr].
  rewrite pyslice_nonneg by lia. change (Z.to_nat 7) with 7%nat.
  replace (Z.to_nat (7 + h_len h - 1 - 7)) with (length pdu) by lia.
  rewrite parts_frame by assumption. rewrite Hdec. cbn [andb].
  rewrite advance_eq, deliv_eq. cbn [t_buf t_hdr]. rewrite pyfrom_nonneg by lia.
  replace (Z.to_nat (7 + h_len h - 1)) with (7 + length pdu)%nat by lia.
  rewrite parts_rest by assumption. reflexivity.
Qed.

Lemma validate_some u : exists r, validate_unit base units single (Some u) = Ok r.
Proof.
  unfold validate_unit. destruct single; [eauto|].
  destruct (existsb _ _); eauto.
Qed.

(* T1: a good frame at the head is delivered and consumed *)
Lemma loop_frame n f rest h :
  tcp_good dec units single f ->
  loop (S n) units single {| t_buf := spec_adu KTcp f ++ rest; t_hdr := h |} =
  cons_d (spec_delivery KTcp f) (loop n units single {| t_buf := rest; t_hdr := hdr0 |}).
Proof.
  intros ((Ht & Hp & Hu & Hl1 & Hl2) & Hmsg & Hval).
  cbn [t_loop]. rewrite ready_eq. cbn [t_buf].
  pose proof (adu_tcp_length f) as HL. cbn [spec_adu] in *.
  rewrite app_length, HL. replace (Z.of_nat (7 + length (f_pdu f) + length rest) >? 7) with true by lia.
  rewrite check_ready by (cbn [t_buf]; rewrite app_length, HL; lia).
  cbn [t_buf]. rewrite spec_adu_tcp_mbap, <- app_assoc.
  rewrite parts_firstn by apply mbap_length.
  rewrite hdr_of_mbap by lia. cbn [h_len].
  replace (Z.of_nat (length (f_pdu f)) + 1 <? 2) with false by lia.
  rewrite !app_length, mbap_length.
  replace (Z.of_nat (7 + (length (f_pdu f) + length rest)) - 7 + 1 >=? Z.of_nat (length (f_pdu f)) + 1) with true by lia.
  cbn [t_hdr h_uid]. rewrite Hval.
  destruct (dec (f_pdu f)) as [fc| |] eqn:Hdec; try discriminate.
  rewrite (process_head _ _ _ _ fc) by (try apply mbap_length; try assumption; reflexivity).
  cbn [h_tid h_pid h_uid]. reflexivity.
Qed.

(* T3: an empty buffer: nothing happens *)
Lemma loop_empty n h : loop (S n) units single {| t_buf := []; t_hdr := h |} = ({| t_buf := []; t_hdr := h |}, [], Done).
Proof. reflexivity. Qed.

(* T1': a well-formed frame for a unit that is not served is skipped (advanceFrame), whatever its PDU *)
Lemma loop_foreign n f rest h :
  tcp_wf f -> validate_unit base units single (Some (f_uid f)) = Ok false ->
  loop (S n) units single {| t_buf := spec_adu KTcp f ++ rest; t_hdr := h |} =
  loop n units single {| t_buf := rest; t_hdr := hdr0 |}.
Proof.
  intros (Ht & Hp & Hu & Hl1 & Hl2) Hval.
  cbn [t_loop]. rewrite ready_eq. cbn [t_buf].
  pose proof (adu_tcp_length f) as HL. cbn [spec_adu] in *.
  rewrite app_length, HL. replace (Z.of_nat (7 + length (f_pdu f) + length rest) >? 7) with true by lia.
  rewrite check_ready by (cbn [t_buf]; rewrite app_length, HL; lia).
  cbn [t_buf]. rewrite spec_adu_tcp_mbap, <- app_assoc.
  rewrite parts_firstn by apply mbap_length.
  rewrite hdr_of_mbap by lia. cbn [h_len].
  replace (Z.of_nat (length (f_pdu f)) + 1 <? 2) with false by lia.
  rewrite !app_length, mbap_length.
  replace (Z.of_nat (7 + (length (f_pdu f) + length rest)) - 7 + 1 >=? Z.of_nat (length (f_pdu f)) + 1) with true by lia.
  cbn [t_hdr h_uid]. rewrite Hval.
  rewrite advance_eq. cbn [t_buf t_hdr h_len]. rewrite pyfrom_nonneg by lia.
  replace (Z.to_nat (7 + (Z.of_nat (length (f_pdu f)) + 1) - 1)) with (7 + length (f_pdu f))%nat by lia.
  rewrite parts_rest by apply mbap_length. reflexivity.
Qed.

(* T2: a proper prefix of a well-formed frame (ANY length, also 1..7 bytes): wait, buffer kept *)
Lemma loop_partial n f p q h :
  tcp_wf f -> spec_adu KTcp f = p ++ q -> q <> [] ->
  exists h', loop (S n) units single {| t_buf := p; t_hdr := h |} = ({| t_buf := p; t_hdr := h' |}, [], Done).
Proof.
  intros (Ht & Hp & Hu & Hl1 & Hl2) Hsplit Hq.
  cbn [t_loop]. rewrite ready_eq. cbn [t_buf].
  destruct (Z.of_nat (length p) >? 7) eqn:H8; [|eexists; reflexivity].
  rewrite check_ready by (cbn [t_buf]; lia). cbn [t_buf].
  assert (Hf7 : firstn 7 p = mbap (f_tid f) (f_pid f) (Z.of_nat (length (f_pdu f)) + 1) (f_uid f)).
  { cbn [spec_adu] in Hsplit. rewrite spec_adu_tcp_mbap in Hsplit.
    assert (H7 : firstn 7 (p ++ q) = firstn 7 p).
    { rewrite firstn_app. replace (7 - length p)%nat with 0%nat by lia. cbn [firstn]. now rewrite app_nil_r. }
    rewrite <- H7, <- Hsplit. rewrite <- (app_nil_r (f_pdu f)). apply parts_firstn, mbap_length. }
  rewrite Hf7, hdr_of_mbap by lia. cbn [h_len].
  replace (Z.of_nat (length (f_pdu f)) + 1 <? 2) with false by lia.
  assert (Hlen : (length p < 7 + length (f_pdu f))%nat).
  { pose proof (adu_tcp_length f) as HL. rewrite Hsplit, app_length in HL. destruct q; [now elim Hq|cbn in HL; lia]. }
  replace (Z.of_nat (length p) - 7 + 1 >=? Z.of_nat (length (f_pdu f)) + 1) with false by lia.
  rewrite wait_eq. cbn [t_hdr h_len]. replace (Z.of_nat (length (f_pdu f)) + 1 >=? 2) with true by lia.
  eexists. reflexivity.
Qed.

End Loop.

(* ---- whole streams in one buffer: any mix of served and foreign frames ---- *)
Definition acc (units : list Z) (single : bool) (u : Z) : bool :=
  single || zmem 0 units || zmem 255 units || zmem u units.

Section Batch.
Variable dec : bytes -> dres.
Variable units : list Z.
Variable single : bool.
Notation loop := (t_loop base tcp dec).
Notation tstream := (stream frame (spec_adu KTcp)).

Definition tcp_sf (f : frame) : Prop :=
  tcp_wf f /\ (acc units single (f_uid f) = true -> is_msg (dec (f_pdu f)) = true).
Definition tcp_dls (f : frame) : list delivery :=
  if acc units single (f_uid f) then [spec_delivery KTcp f] else [].

Lemma loop_stream : forall fs n p h rest,
  Forall tcp_sf fs -> Forall tcp_sf rest -> (length fs <= n)%nat ->
  partial frame (spec_adu KTcp) p rest ->
  exists h', loop (S n) units single {| t_buf := tstream fs ++ p; t_hdr := h |} =
             ({| t_buf := p; t_hdr := h' |}, flat_map tcp_dls fs, Done).
Proof.
  induction fs as [|f fs IH]; intros n p h rest Hg Hr Hn Hpart.
  - cbn [stream map concat app flat_map]. destruct Hpart as [->|(f & rest' & q & -> & Hadu & Hq & Hp)].
    + eexists. apply loop_empty.
    + apply Forall_inv in Hr. destruct Hr as (Hwf & _).
      destruct (loop_partial dec units single n f p q h Hwf Hadu Hq) as (h' & E).
      exists h'. exact E.
  - change (tstream (f :: fs)) with (spec_adu KTcp f ++ tstream fs). rewrite <- app_assoc.
    destruct n as [|n]; [cbn in Hn; lia|].
    pose proof (Forall_inv Hg) as (Hwf & Hdec). apply Forall_inv_tail in Hg.
    destruct (IH n p hdr0 rest Hg Hr ltac:(cbn in Hn; lia) Hpart) as (h' & E).
    exists h'. cbn [flat_map]. unfold tcp_dls at 1.
    destruct (acc units single (f_uid f)) eqn:Ea.
    + rewrite loop_frame by (split; [exact Hwf|split; [apply Hdec; reflexivity|rewrite validate_spec; f_equal; exact Ea]]).
      rewrite E. reflexivity.
    + rewrite loop_foreign by (try exact Hwf; rewrite validate_spec; f_equal; exact Ea).
      rewrite E. reflexivity.
Qed.

Lemma stream_length_ge fs : Forall tcp_sf fs -> (length fs <= length (tstream fs))%nat.
Proof.
  induction fs as [|f fs IH]; intros Hg; [cbn; lia|].
  change (tstream (f :: fs)) with (spec_adu KTcp f ++ tstream fs).
  rewrite app_length, adu_tcp_length. apply Forall_inv_tail in Hg. specialize (IH Hg). cbn [length]. lia.
Qed.

End Batch.

Lemma tcp_adu_ne f : spec_adu KTcp f <> [].
Proof. intros H. apply (f_equal (@length N)) in H. rewrite adu_tcp_length in H. cbn in H. lia. Qed.

Lemma acc_spec c u : acc (c_units c) (single_of (t_single_default tcp) c) u = spec_accepts KTcp c u.
Proof. reflexivity. Qed.

Lemma valid_good dec c f :
  valid_frame KTcp dec c f -> tcp_good dec (c_units c) (single_of (t_single_default tcp) c) f.
Proof.
  intros (Hwf & Hm & Hacc). split; [exact Hwf|]. split; [exact Hm|].
  rewrite validate_spec. f_equal. exact Hacc.
Qed.

Lemma stream_sf dec c f :
  stream_frame KTcp dec c f -> tcp_sf dec (c_units c) (single_of (t_single_default tcp) c) f.
Proof. intros (Hwf & Hd). split; [exact Hwf|]. rewrite acc_spec. exact Hd. Qed.

Lemma dls_ref c fs :
  flat_map (tcp_dls (c_units c) (single_of (t_single_default tcp) c)) fs = ref_deliveries KTcp c fs.
Proof.
  unfold ref_deliveries. induction fs as [|f fs IH]; [reflexivity|].
  cbn [flat_map filter]. unfold tcp_dls at 1. rewrite acc_spec.
  destruct (spec_accepts KTcp c (f_uid f)); cbn [app map]; now rewrite IH.
Qed.

Lemma tcp_batch dec c : forall s ch fs p rest,
  True -> Forall (stream_frame KTcp dec c) fs -> Forall (stream_frame KTcp dec c) rest ->
  t_buf s ++ ch = stream frame (spec_adu KTcp) fs ++ p -> partial frame (spec_adu KTcp) p rest ->
  (p <> [] -> True) -> (t_buf s <> [] -> True) ->
  exists s', t_recv base tcp dec c s ch =
             (s', flat_map (tcp_dls (c_units c) (single_of (t_single_default tcp) c)) fs, Done) /\ t_buf s' = p /\ True.
Proof.
  intros s ch fs p rest _ Hfs Hrest Heq Hpart _ _.
  unfold t_recv. cbn [t_buf t_hdr]. rewrite Heq.
  assert (Hg : Forall (tcp_sf dec (c_units c) (single_of (t_single_default tcp) c)) fs).
  { eapply Forall_impl; [|exact Hfs]. intros f. apply stream_sf. }
  assert (Hg' : Forall (tcp_sf dec (c_units c) (single_of (t_single_default tcp) c)) rest).
  { eapply Forall_impl; [|exact Hrest]. intros f. apply stream_sf. }
  destruct (loop_stream dec (c_units c) (single_of (t_single_default tcp) c) fs
              (length (stream frame (spec_adu KTcp) fs ++ p)) p (t_hdr s) rest Hg Hg') as (h' & E).
  - rewrite app_length. pose proof (stream_length_ge dec _ _ fs Hg). lia.
  - exact Hpart.
  - eexists. split; [exact E|]. split; reflexivity.
Qed.

(* C06, TCP: FULL chunking independence — every division of every stream of served and foreign
   frames delivers exactly the frames of the accepted units, in order, and nothing is raised *)
Theorem tcp_chunking dec c frames chunks :
  Forall (stream_frame KTcp dec c) frames ->
  concat chunks = concat (map (spec_adu KTcp) frames) ->
  exists s', feed (t_recv base tcp dec c) (t_init tcp) chunks = (s', ref_deliveries KTcp c frames, true).
Proof.
  intros Hv Hcat. rewrite <- (dls_ref c).
  apply (feed_stream frame (spec_adu KTcp) tcp_adu_ne tstate (t_recv base tcp dec c) t_buf (fun _ => True)
           (tcp_dls (c_units c) (single_of (t_single_default tcp) c)) (stream_frame KTcp dec c) (fun _ => True)
           (tcp_batch dec c) frames chunks (t_init tcp) I eq_refl Hv Hcat).
  intros; exact I.
Qed.

(* C03, TCP: the whole frame given to a fresh receiver *)
Theorem tcp_whole_frame dec c f :
  valid_frame KTcp dec c f ->
  t_recv base tcp dec c (t_init tcp) (spec_adu KTcp f) = (t_init tcp, [spec_delivery KTcp f], Done).
Proof.
  intros Hv. unfold t_recv. cbn [t_buf t_init app t_hdr].
  pose proof (adu_tcp_length f) as HL.
  rewrite <- (app_nil_r (spec_adu KTcp f)) at 2.
  rewrite HL. cbn [Nat.add]. rewrite loop_frame by (apply valid_good, Hv).
  reflexivity.
Qed.

(* C03, TCP: buildPacket is the spec ADU *)
Theorem tcp_build_spec tid pid uid fc data :
  0 <= tid < 65536 -> 0 <= pid < 65536 -> 0 <= uid < 256 -> 0 <= fc < 256 ->
  Z.of_nat (length data) + 2 < 65536 ->
  t_build tcp tid pid uid fc data = Ok (spec_adu_tcp tid pid uid (Z.to_N fc :: data)).
Proof.
  intros H1 H2 H3 H4 H5. unfold t_build.
  change (t_build_big tcp) with true. change (t_build_fmt tcp) with [FH; FH; FH; FB; FB].
  cbn [t_build_args tcp map].
  change (eval _ (EAtom "message.transaction_id")) with tid.
  change (eval _ (EAtom "message.protocol_id")) with pid.
  change (eval _ (EAtom "message.unit_id")) with uid.
  change (eval _ (EAtom "message.function_code")) with fc.
  change (eval _ (EBin Add (EAtom "len(data)") (EInt 2))) with (Z.of_nat (length data) + 2).
  cbn [pack]. rewrite !pack1_H, !pack1_B by lia. cbn [bind].
  unfold spec_adu_tcp. cbn [length]. replace (Z.of_nat (S (length data)) + 1) with (Z.of_nat (length data) + 2) by lia.
  rewrite <- !app_assoc. reflexivity.
Qed.

Lemma tcp_build_range tid pid uid fc data :
  ~ (0 <= tid < 65536) -> t_build tcp tid pid uid fc data = Raise StructError.
Proof.
  intros H. unfold t_build.
  change (t_build_big tcp) with true. change (t_build_fmt tcp) with [FH; FH; FH; FB; FB].
  cbn [t_build_args tcp map]. change (eval _ (EAtom "message.transaction_id")) with tid.
  cbn [pack]. rewrite pack1_raises; [reflexivity|].
  unfold in_range. cbn [fsigned fwidth]. change (pow256 2) with 65536. lia.
Qed.

(* the former defect (a read that ends 7 bytes into a frame): the old refutation witness now passes *)
Definition tcp_refute_dec (pdu : bytes) : dres :=
  match pdu with
  | [3%N; 0%N; 0%N; 0%N; 1%N] => DMsg 3
  | [0%N; 1%N; 0%N; 0%N; 0%N; 6%N; 1%N] => DMsg 0
  | _ => DNone
  end.
Definition tcp_refute_cfg : cfg := {| c_units := [1]; c_single := Some false |}.
Definition tcp_refute_frame : frame := {| f_tid := 1; f_pid := 0; f_uid := 1; f_pdu := [3%N; 0%N; 0%N; 0%N; 1%N] |}.
Definition tcp_refute_chunks : list bytes := [[0%N; 1%N; 0%N; 0%N; 0%N; 6%N; 1%N]; [3%N; 0%N; 0%N; 0%N; 1%N]].

Lemma tcp_old_witness_passes :
  feed (t_recv base tcp tcp_refute_dec tcp_refute_cfg) (t_init tcp) tcp_refute_chunks =
  (t_init tcp, [spec_delivery KTcp tcp_refute_frame], true).
Proof. vm_compute. reflexivity. Qed.

Lemma skipn_add {A} a b (l : list A) : skipn (a + b) l = skipn b (skipn a l).
Proof.
  revert l. induction a as [|a IH]; intros l; [reflexivity|].
  destruct l as [|x l]; [now rewrite !skipn_nil|]. cbn [Nat.add skipn]. apply IH.
Qed.

(* ---- C07 gate (frame branch): whenever checkFrame accepts — from ANY state — the header is the
   first 7 buffered bytes, its length field is >= 2 and the PDU handed to the decoder is exactly
   the next len-1 bytes, all of them present ---- *)
Theorem tcp_check_gate st st1 :
  t_check tcp st = Ok (st1, true) ->
  t_buf st1 = t_buf st /\ t_hdr st1 = hdr_of (firstn 7 (t_buf st)) /\ 2 <= h_len (t_hdr st1) /\
  t_getframe tcp st1 = firstn (Z.to_nat (h_len (t_hdr st1) - 1)) (skipn 7 (t_buf st)) /\
  Z.of_nat (length (t_getframe tcp st1)) = h_len (t_hdr st1) - 1 /\
  t_buf st = firstn 7 (t_buf st) ++ t_getframe tcp st1 ++ t_buf (t_advance tcp st1).
Proof.
  intros H. unfold t_check in H. destruct (t_isready tcp st) eqn:Hr; [|discriminate].
  rewrite ready_eq in Hr.
  assert (Hlen : (7 < length (t_buf st))%nat) by lia.
  assert (H' : t_check tcp st = Ok (st1, true)).
  { unfold t_check. rewrite ready_eq. replace (Z.of_nat (length (t_buf st)) >? 7) with true by lia. exact H. }
  rewrite check_ready in H' by exact Hlen.
  remember (hdr_of (firstn 7 (t_buf st))) as h eqn:Hh. cbv zeta in H'.
  destruct (h_len h <? 2) eqn:E2; [discriminate|].
  destruct (Z.of_nat (length (t_buf st)) - 7 + 1 >=? h_len h) eqn:Ec; [|discriminate].
  assert (Hst1 : st1 = {| t_buf := t_buf st; t_hdr := h |}) by congruence. subst st1. clear H'.
  change (t_buf {| t_buf := t_buf st; t_hdr := h |}) with (t_buf st).
  change (t_hdr {| t_buf := t_buf st; t_hdr := h |}) with h.
  split; [reflexivity|]. split; [reflexivity|]. split; [lia|].
  rewrite getframe_eq.
  change (t_buf {| t_buf := t_buf st; t_hdr := h |}) with (t_buf st).
  change (t_hdr {| t_buf := t_buf st; t_hdr := h |}) with h.
  rewrite pyslice_nonneg by lia. change (Z.to_nat 7) with 7%nat.
  replace (7 + h_len h - 1 - 7) with (h_len h - 1) by lia.
  split; [reflexivity|]. split.
  - rewrite firstn_length, skipn_length. lia.
  - rewrite advance_eq.
    change (t_buf {| t_buf := t_buf st; t_hdr := h |}) with (t_buf st).
    change (t_hdr {| t_buf := t_buf st; t_hdr := h |}) with h.
    change (t_buf {| t_buf := pyfrom (t_buf st) (7 + h_len h - 1); t_hdr := hdr0 |}) with (pyfrom (t_buf st) (7 + h_len h - 1)).
    rewrite pyfrom_nonneg by lia.
    replace (Z.to_nat (7 + h_len h - 1)) with (7 + Z.to_nat (h_len h - 1))%nat by lia.
    rewrite skipn_add, firstn_skipn, firstn_skipn. reflexivity.
Qed.

