(* DevInfo_proofs.v — lemmas about the Read Device Identification model instantiated with the
   GENERATED record Generated/GenDevInfo.code (what /repo's mei_message.py / device.py say now).
   The "code lemmas" of the first section are the only places where the generated expressions
   are unfolded; a changed constant, comparison or range bound breaks them or what follows. *)
From PM.theories Require Import Base Expr DevInfo.
From PM.Generated Require Import GenDevInfo.
From Coq Require Import ZifyBool.
Open Scope string_scope.
Open Scope list_scope.
Open Scope Z_scope.

Ltac Zify.zify_post_hook ::= Z.to_euclidean_division_equations.

Lemma z2b_b2z b : z2b (b2z b) = b.
Proof. destruct b; reflexivity. Qed.

(* ------------------------------------------------------------------ code lemmas *)

Lemma space0_eq : space0 code = 247.
Proof. reflexivity. Qed.

Lemma space_after_eq space v :
  eval (env_of [("self.space_left", space); ("len(data)", blen v)]) (c_space_after code)
  = space - (2 + blen v).
Proof. reflexivity. Qed.

Lemma out_of_space_eq s :
  beval (env_of [("self.space_left", s)]) (c_out_of_space code) = (s <=? 0).
Proof. unfold beval. cbn. apply z2b_b2z. Qed.

Lemma page_objs_cons space k v t :
  page_objs code space ((k, v) :: t) =
  if space - (2 + blen v) <=? 0 then ([], Some k)
  else let '(acc, oos) := page_objs code (space - (2 + blen v)) t in ((k, v) :: acc, oos).
Proof. cbn [page_objs]. rewrite space_after_eq, out_of_space_eq. reflexivity. Qed.

Lemma reject_object_id_eq oid :
  beval (env_of [("self.object_id", oid)]) (c_reject_object_id code) = negb ((0 <=? oid) && (oid <=? 255)).
Proof. unfold beval. cbn. rewrite !z2b_b2z. reflexivity. Qed.

Lemma reject_read_code_eq c :
  beval (env_of [("self.read_code", c)]) (c_reject_read_code code) = negb ((0 <=? c) && (c <=? 4)).
Proof. unfold beval. cbn. rewrite !z2b_b2z. reflexivity. Qed.

Lemma code_constants :
  c_fc code = 43 /\ c_sub code = 14 /\ c_conformity code = 131 /\ c_more_nothing code = 0
  /\ c_more_keep code = 255 /\ c_exc_object_id code = 3 /\ c_exc_read_code code = 3.
Proof. repeat split. Qed.

(* ------------------------------------------------------------------ sizes *)

Lemma objs_size_cons o t : objs_size (o :: t) = 2 + blen (snd o) + objs_size t.
Proof. reflexivity. Qed.

Lemma objs_size_nonneg l : 0 <= objs_size l.
Proof. induction l as [|o t IH]; [cbn; lia|]. rewrite objs_size_cons. unfold blen. lia. Qed.

(* the space accounting never lets the accepted objects reach the initial space *)
Lemma page_objs_size objs : forall space, 0 < space ->
  objs_size (fst (page_objs code space objs)) < space.
Proof.
  induction objs as [|[k v] t IH]; intros space Hs.
  - cbn. lia.
  - rewrite page_objs_cons. destruct (space - (2 + blen v) <=? 0) eqn:E.
    + cbn. lia.
    + specialize (IH (space - (2 + blen v)) ltac:(lia)).
      destruct (page_objs code (space - (2 + blen v)) t) as [acc oos].
      cbn [fst] in *. rewrite objs_size_cons. cbn [snd]. lia.
Qed.

Lemma pack_bytes_length vs : forall b, pack_bytes vs = Ok b -> length b = length vs.
Proof.
  induction vs as [|v t IH]; intros b H; cbn [pack_bytes] in H.
  - inversion H; reflexivity.
  - destruct ((0 <=? v) && (v <? 256)); [|discriminate].
    destruct (pack_bytes t) as [r|e]; cbn [bind] in H; [|discriminate].
    inversion H; subst. cbn [length]. f_equal. apply IH. reflexivity.
Qed.

Lemma ser_objs_length objs : forall b, ser_objs objs = Ok b -> Z.of_nat (length b) = objs_size objs.
Proof.
  induction objs as [|[k v] t IH]; intros b H; cbn [ser_objs] in H.
  - inversion H; reflexivity.
  - destruct (pack_bytes [k; blen v]) as [h|e] eqn:Eh; cbn [bind] in H; [|discriminate].
    destruct (ser_objs t) as [r|e] eqn:Er; cbn [bind] in H; [|discriminate].
    inversion H; subst. apply pack_bytes_length in Eh. cbn [length] in Eh.
    rewrite !app_length, Eh, objs_size_cons. cbn [snd].
    specialize (IH r eq_refl). unfold blen. lia.
Qed.

Lemma encode_page_length p b :
  encode_page code p = Ok b -> Z.of_nat (length b) = 6 + objs_size (pg_objs p).
Proof.
  unfold encode_page. intros H.
  destruct (pack_bytes [c_sub code; pg_code p; c_conformity code]) as [h1|e] eqn:E1; cbn [bind] in H; [|discriminate].
  destruct (ser_objs (pg_objs p)) as [body|e] eqn:E2; cbn [bind] in H; [|discriminate].
  destruct (pack_bytes [pg_more p; pg_next p; Z.of_nat (length (pg_objs p))]) as [h2|e] eqn:E3; cbn [bind] in H; [|discriminate].
  inversion H; subst. apply pack_bytes_length in E1, E3. apply ser_objs_length in E2.
  rewrite !app_length, E1, E3. cbn [length]. lia.
Qed.

Lemma page_of_objs rc info : pg_objs (page_of code rc info) = fst (page_objs code (space0 code) info).
Proof. unfold page_of. destruct (page_objs code (space0 code) info); reflexivity. Qed.

(* every reply PDU, whatever the identity, read code and start id *)
Lemma reply_bound idn c oid pdu :
  server_reply code idn c oid = Ok pdu -> Z.of_nat (length pdu) <= max_pdu.
Proof.
  unfold server_reply, max_pdu. intros H.
  destruct (execute code idn c oid) as [[e|rc info]|e]; cbn [bind] in H; [| |discriminate].
  - destruct (pack_bytes [c_fc code + 128; e]) as [b|x] eqn:E; cbn [bind] in H; [|discriminate].
    inversion H; subst. apply pack_bytes_length in E. rewrite E. cbn. lia.
  - destruct (encode_page code (page_of code rc info)) as [b|x] eqn:E; cbn [bind] in H; [|discriminate].
    inversion H; subst. apply encode_page_length in E. rewrite page_of_objs in E.
    pose proof (page_objs_size info (space0 code)) as Hs. rewrite space0_eq in *.
    specialize (Hs ltac:(lia)). cbn [length]. lia.
Qed.

(* ------------------------------------------------------------------ the 245-byte object *)

Lemma too_long_unsatisfiable (o : object) : blen (snd o) = 245 -> min_pdu_with o > max_pdu.
Proof. unfold min_pdu_with, obj_size, max_pdu. lia. Qed.

Definition long_value : bytes := repeat 65%N 245.
Definition long_identity : identity := id_of [(0, long_value)].

Definition empty_page_response : response :=
  {| rs_sub := 14; rs_code := 1; rs_conformity := 131; rs_more := 255; rs_next := 0; rs_count := 0; rs_info := [] |}.

Lemma transact_long : transact code long_identity 1 0 = DOk (RResp empty_page_response).
Proof. vm_compute. reflexivity. Qed.

Lemma chain_long_forever fuel :
  chain code long_identity 1 0 fuel = (repeat empty_page_response fuel, ChainOutOfFuel).
Proof.
  induction fuel as [|f IH]; [reflexivity|].
  cbn [chain]. rewrite transact_long. cbn [rs_more rs_next empty_page_response Z.eqb Pos.eqb].
  rewrite IH. reflexivity.
Qed.

Lemma read_code_0_raises idn oid : 0 <= oid <= 255 -> execute code idn 0 oid = Raise KeyError.
Proof.
  intros H. unfold execute. rewrite reject_object_id_eq, reject_read_code_eq.
  replace ((0 <=? oid) && (oid <=? 255)) with true by lia. reflexivity.
Qed.
