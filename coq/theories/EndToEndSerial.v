(* EndToEndSerial.v — the SERIAL server path (server/sync.py ModbusSingleRequestHandler) composed
   from the component models, on top of the framing-independent part of EndToEnd.v
   ([handle_all pk]: decode, execute, Server.respond on the generated skeleton, response object).

   handle():  while self.running:
                try:    data = self.request.recv(1024)
                        if data: units = context.slaves() (+ 0 under broadcast_enable); single = context.single
                                 self.framer.processIncomingPacket(data, self.execute, units, single=single)
                except Exception: self.framer.resetFrame()
   i.e. an empty read is skipped, an exception escaping the framer resets the frame and the loop goes on.
   The framing enters as a receive function of the FrBaseA shape and a packet builder:
     ASCII: FrAscii.a_recv_h (a_recv + the handler's resetFrame) and FrAscii.a_build;
     RTU:   FrRtu.rtu_recv / rtu_reset / rtu_build behind adapters to the FrBaseA types.
   No proofs. *)
From PM.theories Require Import Base Expr Struct FrBaseA Lrc FrAscii PduCls Pdu Store Exec Server EndToEnd.
From PM.Generated Require Import GenFramerA GenPdu.
From PM.Generated Require GenStore GenExec GenServer.
Open Scope string_scope.
Open Scope list_scope.
Open Scope Z_scope.

Definition run_serial {FS : Type} (recv : FrBaseA.cfg -> FS -> bytes -> FS * list delivery * outc) (pk : packer)
                      (sk : skel) (cfg : scfg) (st : FS) (l : units slavectx) (chunks : list bytes)
  : e2e_result (units slavectx) FS :=
  run_serial_g (u_keys slavectx) (handle_all pk sk cfg) recv sk cfg st l chunks.

(* ---------------------------------------------------------------- ASCII *)
Definition packet_ascii (o : out) (ro : obj) : res bytes :=
  do fc <- obj_fc ro;
  do data <- py_encode ro;
  a_build lrc ascii (o_uid o) fc data.

Definition ascii_server_run (sk : skel) (cfg : scfg) (l : units slavectx) (chunks : list bytes) : e2e_result (units slavectx) astate :=
  run_serial (a_recv_h base lrc ascii e2e_dec) packet_ascii sk cfg (a_init ascii) l chunks.

(* ---------------------------------------------------------------- RTU
   The RTU half of the framer development has its own types (FrBCommon: decoder result without a
   function code and with a table-miss value, deliveries as (PDU, unit) pairs, exits, a configuration
   record holding the decoder and its frame-size table).  Adapters to the FrBaseA shape: *)
From PM.theories Require FrBCode Crc FrBCommon FrRtu.
From PM.Generated Require GenFramerB.

Definition rtu_dec (pdu : bytes) : FrBCommon.dres :=
  match e2e_dec pdu with
  | FrBaseA.DMsg _ => FrBCommon.DMsg
  | FrBaseA.DNone => FrBCommon.DNone
  | FrBaseA.DRaise e => FrBCommon.DRaise e
  end.

(* processIncomingPacket(data, callback, units, single=single) with the server's decoder *)
Definition rtu_fcfg (c : FrBaseA.cfg) : FrBCommon.fcfg :=
  {| FrBCommon.cf_dec := rtu_dec; FrBCommon.cf_rules := GenFramerB.server_decoder;
     FrBCommon.cf_units := c_units c;
     FrBCommon.cf_single := match c_single c with Some b => b | None => false end |}.

(* the RTU framer copies only the unit id onto the message *)
Definition rtu_delivery (p : FrBCommon.delivered) : delivery :=
  {| d_pdu := fst p; d_tid := 0; d_pid := 0; d_uid := snd p |}.

(* one read through the serial handler: resetFrame() when the framer raises *)
Definition rtu_recv_h (c : FrBaseA.cfg) (st : FrRtu.rstate) (data : bytes) : FrRtu.rstate * list delivery * outc :=
  let '(st1, ds, x) := FrRtu.rtu_recv (rtu_fcfg c) st data in
  match x with
  | FrBCommon.FOk => (st1, map rtu_delivery ds, Done)
  | FrBCommon.FExn e => (FrRtu.rtu_reset st1, map rtu_delivery ds, FrBaseA.Exc e)
  | FrBCommon.FOutOfFuel | FrBCommon.FMissing => (st1, map rtu_delivery ds, OutOfFuel)   (* never: see C06_rtu_loop_terminates; the decoder is a function *)
  end.

Definition packet_rtu (o : out) (ro : obj) : res bytes :=
  do fc <- obj_fc ro;
  do data <- py_encode ro;
  FrRtu.rtu_build (o_uid o) fc data.

Definition rtu_server_run (sk : skel) (cfg : scfg) (l : units slavectx) (chunks : list bytes) : e2e_result (units slavectx) FrRtu.rstate :=
  run_serial rtu_recv_h packet_rtu sk cfg FrRtu.rtu_init l chunks.
