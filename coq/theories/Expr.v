(* Expr.v — the integer/boolean expression language the translator (gen/) emits for
   straight-line Python arithmetic (validate, sizes, guards, constants), and its
   evaluator.  Booleans are the integers 0/1 exactly as in Python (bool is a subclass
   of int; `result &= (a <= b)` is a bitwise and on 0/1).

   The translator only emits:
     - [EBin FloorDiv|Mod] with a non-zero integer literal as divisor,
     - [EBin Shl|Shr] with a non-negative integer literal as shift count,
     - [EAndB|EOrB|ENotB|EIf] with boolean-typed (comparison / bool-op) operands,
   so no raising branch of those Python operators is reachable from generated terms;
   [eval] is total and gives those cases Coq's conventional values. *)
From PM.theories Require Import Base.

Inductive binop := Add | Sub | Mul | FloorDiv | Mod | BitAnd | BitOr | BitXor | Shl | Shr.
Inductive cmpop := Lt | Le | Gt | Ge | Eq | Ne.

Inductive expr :=
| EInt (z : Z)
| EAtom (a : string)                       (* self.attr, argument, len(...) — named by source text *)
| EBin (o : binop) (a b : expr)
| ENeg (a : expr)
| EInvert (a : expr)                       (* ~a *)
| ECmp (o : cmpop) (a b : expr)            (* 0/1 *)
| EChain (a : expr) (o1 : cmpop) (b : expr) (o2 : cmpop) (c : expr)   (* a o1 b o2 c *)
| EAndB (a b : expr) | EOrB (a b : expr) | ENotB (a : expr)
| EIf (c a b : expr).                      (* a if c else b *)

Definition b2z (b : bool) : Z := if b then 1 else 0.
Definition z2b (z : Z) : bool := negb (z =? 0).

Definition eval_cmp (o : cmpop) (x y : Z) : bool :=
  match o with
  | Lt => x <? y | Le => x <=? y | Gt => x >? y | Ge => x >=? y
  | Eq => x =? y | Ne => negb (x =? y)
  end.

Definition eval_bin (o : binop) (x y : Z) : Z :=
  match o with
  | Add => x + y | Sub => x - y | Mul => x * y
  | FloorDiv => x / y | Mod => x mod y
  | BitAnd => Z.land x y | BitOr => Z.lor x y | BitXor => Z.lxor x y
  | Shl => Z.shiftl x y | Shr => Z.shiftr x y
  end.

Definition env := string -> Z.

Fixpoint eval (rho : env) (e : expr) : Z :=
  match e with
  | EInt z => z
  | EAtom a => rho a
  | EBin o a b => eval_bin o (eval rho a) (eval rho b)
  | ENeg a => - eval rho a
  | EInvert a => Z.lnot (eval rho a)
  | ECmp o a b => b2z (eval_cmp o (eval rho a) (eval rho b))
  | EChain a o1 b o2 c =>
      let vb := eval rho b in
      b2z (eval_cmp o1 (eval rho a) vb && eval_cmp o2 vb (eval rho c))
  | EAndB a b => b2z (z2b (eval rho a) && z2b (eval rho b))
  | EOrB a b => b2z (z2b (eval rho a) || z2b (eval rho b))
  | ENotB a => b2z (negb (z2b (eval rho a)))
  | EIf c a b => if z2b (eval rho c) then eval rho a else eval rho b
  end.

Definition beval (rho : env) (e : expr) : bool := z2b (eval rho e).

(* Environments are built from association lists; unknown atoms read 0 (the translator
   whitelists atoms per call site, so generated terms never contain an unbound atom). *)
Fixpoint env_of (l : list (string * Z)) : env :=
  fun a => match l with
           | [] => 0
           | (k, v) :: t => if String.eqb k a then v else env_of t a
           end.

(* Atoms occurring in an expression — used by [atoms_ok] sanity Examples. *)
Fixpoint atoms (e : expr) : list string :=
  match e with
  | EInt _ => []
  | EAtom a => [a]
  | EBin _ a b | ECmp _ a b | EAndB a b | EOrB a b => atoms a ++ atoms b
  | ENeg a | EInvert a | ENotB a => atoms a
  | EChain a _ b _ c | EIf a b c => atoms a ++ atoms b ++ atoms c
  end.
Definition atoms_in (allowed : list string) (e : expr) : bool :=
  forallb (fun a => existsb (String.eqb a) allowed) (atoms e).
