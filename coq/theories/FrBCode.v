(* FrBCode.v — the record types filled in by the translator gen/gen_framer_rtubin.py
   (Generated/GenFramerB.v): constants and expression trees of the CRC-16 code in
   utilities.py, of the RTU and binary framers, and the RTU frame-size oracle data of
   every message class registered in the two decoders.  No semantics here. *)
From PM.theories Require Import Base Expr.
Open Scope list_scope.
Open Scope Z_scope.

(* ---- utilities.py: __generate_crc16_table / computeCRC / checkCRC / rtuFrameSize *)
Record crc_code := {
  cc_tab_range : Z;      (* for byte in range(256)                            *)
  cc_tab_init : Z;       (* crc = 0x0000                                      *)
  cc_tab_rounds : Z;     (* for _ in range(8)                                 *)
  cc_tab_test : expr;    (* (byte ^ crc) & 0x0001        atoms byte crc       *)
  cc_tab_then : expr;    (* (crc >> 1) ^ 0xa001          atoms crc            *)
  cc_tab_else : expr;    (* crc >> 1  (from crc >>= 1)   atoms crc            *)
  cc_tab_byte : expr;    (* byte >> 1 (from byte >>= 1)  atoms byte           *)
  cc_init : Z;           (* crc = 0xffff                                      *)
  cc_idx : expr;         (* (crc ^ byte2int(a)) & 0xff   atoms crc byte2int(a) *)
  cc_upd : expr;         (* ((crc >> 8) & 0xff) ^ idx    atoms crc idx        *)
  cc_swap : expr;        (* ((crc << 8) & 0xff00) | ((crc >> 8) & 0x00ff)     *)
  cc_check : expr;       (* computeCRC(data) == check                         *)
  cc_rtu_size : expr     (* byte2int(data[byte_count_pos]) + byte_count_pos + 3 *)
}.

(* ---- the RTU frame-size oracle of one message class (pdu.py calculateRtuFrameSize) *)
Inductive size_rule :=
| RFixed (n : Z)                       (* _rtu_frame_size                                  *)
| RByteCount (pos : Z)                 (* _rtu_byte_count_pos -> utilities.rtuFrameSize     *)
| RFifo (hi lo : Z) (e : expr)         (* file_message.py override: buffer[hi], buffer[lo], (hi_byte << 16) + lo_byte + 6 *)
| RMei (start cnt step tail : Z)       (* mei_message.py override: size=8; count=buffer[7]; size += len + 2; return size + 2 *)
| RNone.                               (* raise NotImplementedException                     *)

(* one registered class: name, function code, sub-function code, oracle *)
Record class_row := {
  cr_name : string; cr_fc : Z; cr_sub : option Z; cr_rule : size_rule
}.

Record decoder_code := {
  dc_classes : list class_row;         (* __function_table in source order                 *)
  dc_subclasses : list class_row;      (* __sub_function_table                             *)
  dc_default : size_rule               (* lookupPduClass: .get(fc, ExceptionResponse)      *)
}.

(* ---- rtu_framer.py *)
Record rtu_code := {
  rc_hsize : Z;                        (* self._hsize = 0x01                               *)
  rc_min_frame : Z;                    (* self._min_frame_size = 4 (never read)            *)
  rc_init_uid : Z; rc_init_len : Z; rc_init_crc : list Z;   (* initial _header             *)
  rc_ready : expr;                     (* len(self._buffer) > self._hsize                  *)
  rc_ready2 : expr;                    (* len(self._buffer) >= self._header['len']         *)
  rc_pop_crc_lo : expr; rc_pop_crc_hi : expr;   (* data[size - 2:size]                     *)
  rc_chk_data_hi : expr;               (* self._buffer[:frame_size - 2]                    *)
  rc_chk_crc_lo : expr; rc_chk_crc_hi : expr;   (* self._buffer[frame_size - 2:frame_size] *)
  rc_chk_crc_val : expr;               (* (byte2int(crc[0]) << 8) + byte2int(crc[1])       *)
  rc_get_start : expr; rc_get_end : expr; rc_get_cond : expr;   (* getFrame                *)
  rc_adv : expr;                       (* self._buffer[self._header['len']:]               *)
  rc_hdr_fmt : string; rc_crc_fmt : string      (* '>BB' and '>H' in buildPacket           *)
}.

(* ---- binary_framer.py *)
Record bin_code := {
  bc_hsize : Z;
  bc_start : Z; bc_end : Z; bc_repeat : list Z;
  bc_init_uid : Z; bc_init_len : Z; bc_init_crc : Z;
  bc_ready : expr;                     (* len(self._buffer) > 1                            *)
  bc_uid_lo : Z; bc_uid_hi : Z;        (* self._buffer[1:2]                                *)
  bc_crc_lo : expr; bc_crc_hi : expr;  (* self._buffer[end - 2:end]                        *)
  bc_data_lo : expr; bc_data_hi : expr;(* self._buffer[start + 1:end - 2]                  *)
  bc_get_start : expr; bc_get_end : expr; bc_get_cond : expr;
  bc_adv : expr;                       (* self._buffer[self._header['len'] + 2:]           *)
  bc_hdr_fmt : string; bc_crc_fmt : string
}.
