(* Pdu_dec_proofs.v — C01 decode conformance: the factories' _helper applied to the
   specification's PDU of a message returns the matching class with the wire's field values. *)
From PM.theories Require Import Base Struct PduCls PduSpec Pdu CorrPdu.
From PM.Generated Require Import GenPdu.
From PM.proofs Require Import Struct_proofs Pdu_bits_proofs Pdu_proofs Pdu_more_proofs.
From Coq Require Import ZifyBool.
Open Scope string_scope.
Open Scope list_scope.
Open Scope Z_scope.
Ltac Zify.zify_post_hook ::= Z.to_euclidean_division_equations.

(* ---- struct.unpack of the specification's encodings ---------------------------------------- *)

Ltac solve_unpack := intros; apply unpack_pack; pk_simpl; rewrite ?app_nil_r; reflexivity.

Lemma unpack_H a : is_u16 a = true -> unpack true [FH] (u16 a) = Ok [a].
Proof. solve_unpack. Qed.
Lemma unpack_HH a b : is_u16 a = true -> is_u16 b = true -> unpack true [FH; FH] (u16 a ++ u16 b) = Ok [a; b].
Proof. solve_unpack. Qed.
Lemma unpack_HHH a b c : is_u16 a = true -> is_u16 b = true -> is_u16 c = true ->
  unpack true [FH; FH; FH] (u16 a ++ u16 b ++ u16 c) = Ok [a; b; c].
Proof. solve_unpack. Qed.
Lemma unpack_BBB a b c : is_u8 a = true -> is_u8 b = true -> is_u8 c = true ->
  unpack true [FB; FB; FB] (u8 a ++ u8 b ++ u8 c) = Ok [a; b; c].
Proof. solve_unpack. Qed.
Lemma unpack_HHB a b c : is_u16 a = true -> is_u16 b = true -> is_u8 c = true ->
  unpack true [FH; FH; FB] (u16 a ++ u16 b ++ u8 c) = Ok [a; b; c].
Proof. solve_unpack. Qed.
Lemma unpack_HHHHB a b c d e : is_u16 a = true -> is_u16 b = true -> is_u16 c = true -> is_u16 d = true -> is_u8 e = true ->
  unpack true [FH; FH; FH; FH; FB] (u16 a ++ u16 b ++ u16 c ++ u16 d ++ u8 e) = Ok [a; b; c; d; e].
Proof. solve_unpack. Qed.

Lemma rd_be16_u16' v : is_u16 v = true -> rd_be16 (Z.to_N (v / 256)) (Z.to_N (v mod 256)) = v.
Proof. intros H. unfold is_u16 in H. unfold rd_be16. rewrite !Z2N.id by lia. lia. Qed.

Lemma read_words_words l : all_u16 l = true -> read_words (words l) (len l) = Ok l.
Proof.
  induction l as [|v t IH]; intros H; [reflexivity|].
  cbn [all_u16 forallb] in H. apply andb_true_iff in H as [Hv Ht].
  unfold words. cbn [flat_map]. unfold u16 at 1. cbn [app read_words].
  replace (len (v :: t) <=? 0) with false by (unfold len; cbn [length]; lia).
  replace (len (v :: t) - 1) with (len t) by (unfold len; cbn [length]; lia).
  fold (words t). rewrite IH by exact Ht. cbn [bind]. now rewrite rd_be16_u16'.
Qed.

Lemma take_idx_u8s l : all_u8 l = true -> take_idx (length l) (flat_map u8 l) = Ok l.
Proof.
  induction l as [|v t IH]; intros H; [reflexivity|].
  cbn [all_u8 forallb] in H. apply andb_true_iff in H as [Hv Ht].
  cbn [flat_map length]. unfold u8 at 1. cbn [app take_idx]. rewrite IH by exact Ht. cbn [bind].
  unfold is_u8 in Hv. rewrite Z2N.id by lia. reflexivity.
Qed.

Lemma words_length l : length (words l) = (2 * length l)%nat.
Proof. induction l as [|v t IH]; [reflexivity|]. unfold words in *. cbn [flat_map]. unfold u16 at 1. cbn [app length]. lia. Qed.

Lemma zl_eqb_refl l : zl_eqb l l = true.
Proof. induction l as [|v t IH]; [reflexivity|]. cbn. now rewrite Z.eqb_refl, IH. Qed.
Lemma bl_eqb_refl l : list_eqb beqb l l = true.
Proof. induction l as [|v t IH]; [reflexivity|]. cbn. unfold beqb at 1. now rewrite Bool.eqb_reflx, IH. Qed.

Lemma spec_unpack_length bs : length (spec_unpack_bits bs) = (8 * length bs)%nat.
Proof. induction bs as [|b t IH]; [reflexivity|]. unfold spec_unpack_bits in *. cbn [flat_map]. rewrite app_length, IH. cbn [byte_bits length]. lia. Qed.

(* ---- evaluation helpers ---------------------------------------------------------------------- *)

Ltac ev t := let x := eval vm_compute in t in change t with x.
Ltac tab2 :=
  repeat match goal with
  | |- context [lookup_fc ?t ?k] => ev (lookup_fc t k)
  | |- context [fresh ?c] => is_constructor c; ev (fresh c)
  | |- context [?k >? client_exc_threshold] => ev (k >? client_exc_threshold)
  end.

Ltac dec_open :=
  unfold py_decode, msg_is_request, py_decode_server, py_decode_client, spec_pdu;
  cbn [app data0 bind skipn Z.of_N]; tab2; cbv beta iota; tab2; cbn [decode_into bind].

Lemma bslice_prefix (x rest : bytes) n : length x = n -> bslice (x ++ rest) 0 n = x.
Proof. intros <-. unfold bslice. cbn [skipn]. rewrite Nat.sub_0_r, firstn_app, Nat.sub_diag, firstn_all. cbn. apply app_nil_r. Qed.
Lemma skipn_prefix (x rest : bytes) n : length x = n -> skipn n (x ++ rest) = rest.
Proof. intros <-. rewrite skipn_app, Nat.sub_diag, skipn_all. reflexivity. Qed.

Lemma at2_ac a b K : at2 [("address", a); ("count", b)] "address" "count" K = Some (K a b).
Proof. reflexivity. Qed.
Lemma at2_av a b K : at2 [("address", a); ("value", b)] "address" "value" K = Some (K a b).
Proof. reflexivity. Qed.
Lemma at3_mask a b c K : at3 [("address", a); ("and_mask", b); ("or_mask", c)] "address" "and_mask" "or_mask" K = Some (K a b c).
Proof. reflexivity. Qed.

Lemma assoc_addr a : assoc_str "address" [("address", a)] = Some a.
Proof. reflexivity. Qed.

Definition dec_ok (m : msg) : Prop :=
  exists o d, py_decode (msg_is_request m) (spec_pdu m) = Ok o /\ class_of o = spec_class m /\ abs o = Some d /\ msg_matches m d = true.

(* close a goal [abs o = Some m /\ msg_matches m m = true] where abs_raw o computes to Some m *)
Ltac close_abs Hwf :=
  split; [unfold abs; cbn [abs_raw]; rewrite ?at2_ac, ?at2_av, ?at3_mask, ?assoc_addr; cbv beta iota; rewrite Hwf; reflexivity
         |cbn [msg_matches]; rewrite ?Z.eqb_refl, ?zl_eqb_refl, ?bl_eqb_refl; unfold beqb; rewrite ?Bool.eqb_reflx; reflexivity].

Ltac cls_goal :=
  cbn [class_of spec_class];
  try match goal with
      | E : spec_response_subclass _ _ = _ |- _ => rewrite E
      | E : spec_request_subclass _ _ = _ |- _ => rewrite E
      end; reflexivity.

Ltac fixed_dec Hwf :=
  let H := fresh "H" in
  pose proof Hwf as H; cbn [spec_wf] in H; split_andb H;
  dec_open; unfold dec_fixed; tab; cbn [bind];
  rewrite ?unpack_HH, ?unpack_HHH, ?unpack_H by assumption; cbn [bind combine];
  unfold reclass; cbn [obj_sub class_of];
  eexists; eexists; split; [reflexivity|split; [cls_goal|]; close_abs Hwf].

Lemma dec_ReadCoilsReq a q : spec_wf (MReadCoilsReq a q) = true -> dec_ok (MReadCoilsReq a q).
Proof. intros Hwf. unfold dec_ok. fixed_dec Hwf. Qed.
Lemma dec_ReadDiscreteReq a q : spec_wf (MReadDiscreteReq a q) = true -> dec_ok (MReadDiscreteReq a q).
Proof. intros Hwf. unfold dec_ok. fixed_dec Hwf. Qed.
Lemma dec_ReadHoldingReq a q : spec_wf (MReadHoldingReq a q) = true -> dec_ok (MReadHoldingReq a q).
Proof. intros Hwf. unfold dec_ok. fixed_dec Hwf. Qed.
Lemma dec_ReadInputReq a q : spec_wf (MReadInputReq a q) = true -> dec_ok (MReadInputReq a q).
Proof. intros Hwf. unfold dec_ok. fixed_dec Hwf. Qed.
Lemma dec_WriteCoilsRsp a q : spec_wf (MWriteCoilsRsp a q) = true -> dec_ok (MWriteCoilsRsp a q).
Proof. intros Hwf. unfold dec_ok. fixed_dec Hwf. Qed.
Lemma dec_WriteRegsRsp a q : spec_wf (MWriteRegsRsp a q) = true -> dec_ok (MWriteRegsRsp a q).
Proof. intros Hwf. unfold dec_ok. fixed_dec Hwf. Qed.
Lemma dec_WriteRegRsp a q : spec_wf (MWriteRegRsp a q) = true -> dec_ok (MWriteRegRsp a q).
Proof. intros Hwf. unfold dec_ok. fixed_dec Hwf. Qed.
Lemma dec_MaskWriteReq a x y : spec_wf (MMaskWriteReq a x y) = true -> dec_ok (MMaskWriteReq a x y).
Proof. intros Hwf. unfold dec_ok. fixed_dec Hwf. Qed.
Lemma dec_MaskWriteRsp a x y : spec_wf (MMaskWriteRsp a x y) = true -> dec_ok (MMaskWriteRsp a x y).
Proof. intros Hwf. unfold dec_ok. fixed_dec Hwf. Qed.
Lemma dec_ReadFifoReq a : spec_wf (MReadFifoReq a) = true -> dec_ok (MReadFifoReq a).
Proof. intros Hwf. unfold dec_ok. fixed_dec Hwf. Qed.

(* ---- the remaining single-struct kinds --------------------------------------------------------- *)

Lemma dec_ReadDevIdReq c o : spec_wf (MReadDevIdReq c o) = true -> dec_ok (MReadDevIdReq c o).
Proof.
  intros Hwf. unfold dec_ok. pose proof Hwf as H. cbn [spec_wf] in H. split_andb H.
  dec_open. unfold dec_fixed. tab. cbn [bind].
  change ([14%N] ++ u8 c ++ u8 o) with (u8 14 ++ u8 c ++ u8 o) || change (14%N :: u8 c ++ u8 o) with (u8 14 ++ u8 c ++ u8 o).
  rewrite unpack_BBB by (assumption || reflexivity). cbn [bind combine].
  unfold reclass. cbn [obj_sub class_of]. change (assoc_str "sub_function_code" _) with (Some 14). tab.
  cbv beta iota. match goal with |- context [lookup_sub ?t ?f ?s] => destruct (lookup_sub t f s) end; cbn [set_class];
  (eexists; eexists; split; [reflexivity|split; [cls_goal|]]; split;
  [ unfold abs; cbn [abs_raw]; change (assoc_str "sub_function_code" _) with (Some 14); cbv beta iota;
    change (14 =? 14) with true; cbv beta iota;
    change (at2 _ "read_code" "object_id" MReadDevIdReq) with (Some (MReadDevIdReq c o)); cbv beta iota; rewrite Hwf; reflexivity
  | cbn [msg_matches]; now rewrite !Z.eqb_refl]).
Qed.

Lemma unpack_on_word b : unpack true [FH; FH] (u16 0 ++ on_word b) = Ok [0; if b then 65280 else 0].
Proof. destruct b; reflexivity. Qed.

Lemma dec_WriteCoil_gen a on :
  is_u16 a = true -> unpack true [FH; FH] (u16 a ++ on_word on) = Ok [a; coil_word on].
Proof.
  intros Ha. rewrite <- coil_word_spec. apply unpack_HH; [exact Ha|apply coil_word_u16].
Qed.

Lemma coil_word_on v : (coil_word v =? status_on) = v.
Proof. destruct v; reflexivity. Qed.

Lemma dec_WriteCoilReq a on : spec_wf (MWriteCoilReq a on) = true -> dec_ok (MWriteCoilReq a on).
Proof.
  intros Hwf. unfold dec_ok. pose proof Hwf as H. cbn [spec_wf] in H.
  dec_open. unfold upk. rewrite dec_WriteCoil_gen by assumption. cbn [bind]. rewrite coil_word_on.
  unfold reclass; cbn [obj_sub class_of]. eexists; eexists; split; [reflexivity|split; [cls_goal|]; close_abs Hwf].
Qed.
Lemma dec_WriteCoilRsp a on : spec_wf (MWriteCoilRsp a on) = true -> dec_ok (MWriteCoilRsp a on).
Proof.
  intros Hwf. unfold dec_ok. pose proof Hwf as H. cbn [spec_wf] in H.
  dec_open. unfold upk. rewrite dec_WriteCoil_gen by assumption. cbn [bind]. rewrite coil_word_on.
  unfold reclass; cbn [obj_sub class_of]. eexists; eexists; split; [reflexivity|split; [cls_goal|]; close_abs Hwf].
Qed.

Lemma dec_WriteRegReq a v : spec_wf (MWriteRegReq a v) = true -> dec_ok (MWriteRegReq a v).
Proof.
  intros Hwf. unfold dec_ok. pose proof Hwf as H. cbn [spec_wf] in H. split_andb H.
  dec_open. unfold upk. rewrite unpack_HH by assumption. cbn [bind].
  unfold reclass; cbn [obj_sub class_of]. eexists; eexists; split; [reflexivity|split; [cls_goal|]; close_abs Hwf].
Qed.

Lemma dec_empty_reqs :
  dec_ok MReadExcStatusReq /\ dec_ok MCommEventCounterReq /\ dec_ok MCommEventLogReq /\ dec_ok MReportSlaveIdReq.
Proof. repeat split; unfold dec_ok; eexists; eexists; (split; [vm_compute; reflexivity|split; [reflexivity|split; vm_compute; reflexivity]]). Qed.

Lemma dec_ReadExcStatusRsp s : spec_wf (MReadExcStatusRsp s) = true -> dec_ok (MReadExcStatusRsp s).
Proof.
  intros Hwf. unfold dec_ok. pose proof Hwf as H. cbn [spec_wf] in H. unfold is_u8 in H.
  dec_open. unfold u8. cbn [data0 bind]. rewrite Z2N.id by lia.
  unfold reclass; cbn [obj_sub class_of]. eexists; eexists; split; [reflexivity|split; [cls_goal|]; close_abs Hwf].
Qed.

Lemma unpack_busy b c : is_u16 c = true ->
  unpack true [FH; FH] (busy_word b ++ u16 c) = Ok [if b then 65535 else 0; c].
Proof.
  intros Hc. replace (busy_word b) with (u16 (if b then 65535 else 0)) by (destruct b; reflexivity).
  apply unpack_HH; [destruct b; reflexivity|exact Hc].
Qed.

Lemma dec_CommEventCounterRsp b c : spec_wf (MCommEventCounterRsp b c) = true -> dec_ok (MCommEventCounterRsp b c).
Proof.
  intros Hwf. unfold dec_ok. pose proof Hwf as H. cbn [spec_wf] in H.
  dec_open. unfold upk. rewrite unpack_busy by assumption. cbn [bind].
  unfold reclass; cbn [obj_sub class_of]. eexists; eexists; split; [reflexivity|split; [cls_goal|]].
  split; [unfold abs; cbn [abs_raw]; destruct b; cbn [negb]; change (65535 =? status_ready) with false;
          change (0 =? status_ready) with true; cbn [negb]; rewrite Hwf; reflexivity
         |destruct b; cbn [msg_matches]; rewrite Z.eqb_refl; reflexivity].
Qed.

Lemma dec_Exception fc code : spec_wf (MException fc code) = true -> dec_ok (MException fc code).
Proof.
  intros Hwf. unfold dec_ok. pose proof Hwf as H. cbn [spec_wf] in H. split_andb H. unfold is_u8 in H0.
  unfold py_decode, msg_is_request, spec_pdu.
  rewrite exception_decode by lia. replace (fc + 128 - 128) with fc by lia. rewrite Z2N.id by lia.
  eexists; eexists; split; [reflexivity|split; [cls_goal|]].
  split; [unfold abs; cbn [abs_raw]; rewrite Z.eqb_refl, Hwf; reflexivity|cbn [msg_matches]; now rewrite !Z.eqb_refl].
Qed.

(* ---- list-carrying kinds ------------------------------------------------------------------------ *)

Lemma range_len_2 k n : 0 <= n -> range_len k (k + 2 * n) 2 = n.
Proof. intros H. unfold range_len. destruct (k + 2 * n <=? k) eqn:E; lia. Qed.
Lemma range_len_2' n : 0 <= n -> range_len 1 (2 * n + 1) 2 = n.
Proof. intros H. replace (2 * n + 1) with (1 + 2 * n) by lia. now apply range_len_2. Qed.
Lemma range_len_2'' n : 0 <= n -> range_len 1 (2 * n) 2 = n.
Proof. intros H. unfold range_len. destruct (2 * n <=? 1) eqn:E; lia. Qed.
Lemma len_nonneg {A} (l : list A) : 0 <= len l.
Proof. unfold len. lia. Qed.

Ltac regs_rsp Hwf rs :=
  let H := fresh "H" in
  pose proof Hwf as H; cbn [spec_wf] in H; split_andb H;
  dec_open; unfold u8; cbn [app data0 bind skipn]; tab;
  (rewrite Z2N.id by (pose proof (len_nonneg rs); lia));
  rewrite ?range_len_2', ?range_len_2'' by apply len_nonneg;
  rewrite read_words_words by assumption; cbn [bind app];
  unfold reclass; cbn [obj_sub class_of];
  eexists; eexists; split; [reflexivity|split; [cls_goal|]; close_abs Hwf].

Lemma dec_ReadHoldingRsp rs : spec_wf (MReadHoldingRsp rs) = true -> dec_ok (MReadHoldingRsp rs).
Proof. intros Hwf. unfold dec_ok. regs_rsp Hwf rs. Qed.
Lemma dec_ReadInputRsp rs : spec_wf (MReadInputRsp rs) = true -> dec_ok (MReadInputRsp rs).
Proof. intros Hwf. unfold dec_ok. regs_rsp Hwf rs. Qed.
Lemma dec_ReadWriteRegsRsp rs : spec_wf (MReadWriteRegsRsp rs) = true -> dec_ok (MReadWriteRegsRsp rs).
Proof. intros Hwf. unfold dec_ok. regs_rsp Hwf rs. Qed.

Lemma padded_wf cs : is_u8 (bit_byte_count (len cs)) = true ->
  is_u8 (bit_byte_count (len (spec_unpack_bits (spec_pack_bits cs)))) = true.
Proof.
  intros H. unfold len. rewrite spec_unpack_length. pose proof (spec_pack_bits_length cs) as Hl.
  unfold len in H. rewrite <- Hl in H. unfold bit_byte_count, is_u8 in *. lia.
Qed.

Ltac bits_rsp Hwf cs :=
  let H := fresh "H" in
  pose proof Hwf as H; cbn [spec_wf] in H;
  dec_open; unfold u8; cbn [app data0 bind skipn]; rewrite py_unpack_spec;
  unfold reclass; cbn [obj_sub class_of];
  eexists; eexists; split; [reflexivity|split; [cls_goal|]];
  split; [unfold abs; cbn [abs_raw spec_wf]; rewrite padded_wf by exact H; reflexivity
         |cbn [msg_matches]; apply unpack_pack_upto_pad].

Lemma dec_ReadCoilsRsp cs : spec_wf (MReadCoilsRsp cs) = true -> dec_ok (MReadCoilsRsp cs).
Proof. intros Hwf. unfold dec_ok. bits_rsp Hwf cs. Qed.
Lemma dec_ReadDiscreteRsp cs : spec_wf (MReadDiscreteRsp cs) = true -> dec_ok (MReadDiscreteRsp cs).
Proof. intros Hwf. unfold dec_ok. bits_rsp Hwf cs. Qed.

Lemma dec_WriteCoilsReq a cs : spec_wf (MWriteCoilsReq a cs) = true -> dec_ok (MWriteCoilsReq a cs).
Proof.
  intros Hwf. unfold dec_ok. pose proof Hwf as H. cbn [spec_wf] in H. split_andb H.
  dec_open.
  change (u16 a ++ u16 (len cs) ++ u8 (bit_byte_count (len cs)) ++ spec_pack_bits cs)
    with ((u16 a ++ u16 (len cs) ++ u8 (bit_byte_count (len cs))) ++ spec_pack_bits cs).
  rewrite bslice_prefix by reflexivity. rewrite skipn_prefix by reflexivity.
  unfold upk. rewrite unpack_HHB by assumption. cbn [bind].
  rewrite py_unpack_spec. unfold len at 1. rewrite Nat2Z.id, firstn_unpack_pack.
  unfold reclass; cbn [obj_sub class_of]. eexists; eexists; split; [reflexivity|split; [cls_goal|]; close_abs Hwf].
Qed.

Lemma u8_len_u16 {A} (l : list A) : is_u8 (2 * len l) = true -> is_u16 (len l) = true.
Proof. unfold is_u8, is_u16, len. lia. Qed.

Lemma dec_WriteRegsReq a rs : spec_wf (MWriteRegsReq a rs) = true -> dec_ok (MWriteRegsReq a rs).
Proof.
  intros Hwf. unfold dec_ok. pose proof Hwf as H. cbn [spec_wf] in H. split_andb H.
  pose proof (u8_len_u16 rs H1) as Hl.
  dec_open.
  change (u16 a ++ u16 (len rs) ++ u8 (2 * len rs) ++ words rs)
    with ((u16 a ++ u16 (len rs) ++ u8 (2 * len rs)) ++ words rs).
  rewrite bslice_prefix by reflexivity. rewrite skipn_prefix by reflexivity.
  unfold upk. rewrite unpack_HHB by assumption. cbn [bind].
  replace (len rs * 2 + 5) with (5 + 2 * len rs) by lia. rewrite range_len_2 by apply len_nonneg.
  rewrite read_words_words by assumption. cbn [bind].
  unfold reclass; cbn [obj_sub class_of]. eexists; eexists; split; [reflexivity|split; [cls_goal|]].
  split; [unfold abs; cbn [abs_raw]; change (zlen rs) with (len rs); rewrite !Z.eqb_refl; cbn [andb]; rewrite Hwf; reflexivity
         |cbn [msg_matches]; now rewrite Z.eqb_refl, zl_eqb_refl].
Qed.

Lemma dec_ReadWriteRegsReq ra rq wa ws : spec_wf (MReadWriteRegsReq ra rq wa ws) = true -> dec_ok (MReadWriteRegsReq ra rq wa ws).
Proof.
  intros Hwf. unfold dec_ok. pose proof Hwf as H. cbn [spec_wf] in H. split_andb H.
  pose proof (u8_len_u16 ws H1) as Hl.
  dec_open.
  change (u16 ra ++ u16 rq ++ u16 wa ++ u16 (len ws) ++ u8 (2 * len ws) ++ words ws)
    with ((u16 ra ++ u16 rq ++ u16 wa ++ u16 (len ws) ++ u8 (2 * len ws)) ++ words ws).
  rewrite bslice_prefix by reflexivity. rewrite skipn_prefix by reflexivity.
  unfold upk. rewrite unpack_HHHHB by assumption. cbn [bind].
  replace (2 * len ws + 9) with (9 + 2 * len ws) by lia. rewrite range_len_2 by apply len_nonneg.
  rewrite read_words_words by assumption. cbn [bind].
  unfold reclass; cbn [obj_sub class_of]. eexists; eexists; split; [reflexivity|split; [cls_goal|]].
  split; [unfold abs; cbn [abs_raw]; change (zlen ws) with (len ws); rewrite !Z.eqb_refl; cbn [andb]; rewrite Hwf; reflexivity
         |cbn [msg_matches]; now rewrite !Z.eqb_refl, zl_eqb_refl].
Qed.

(* ---- diagnostics --------------------------------------------------------------------------------- *)

Lemma resp_subclass_props sub c' : spec_response_subclass 8 sub = Some c' -> fc_of c' = Some 8 /\ is_request c' = false.
Proof.
  unfold spec_response_subclass. change (8 =? 8) with true. cbv beta iota.
  repeat match goal with |- (if ?b then _ else _) = _ -> _ => destruct b; [intros H; injection H as <-; split; reflexivity|] end.
  discriminate.
Qed.

Lemma req_subclass_props sub c' : spec_request_subclass 8 sub = Some c' -> fc_of c' = Some 8 /\ is_request c' = true.
Proof.
  unfold spec_request_subclass. change (8 =? 8) with true. cbv beta iota.
  repeat match goal with |- (if ?b then _ else _) = _ -> _ => destruct b; [intros H; injection H as <-; split; reflexivity|] end.
  discriminate.
Qed.

Lemma odd_words l : Nat.odd (length (words l)) = false.
Proof. rewrite words_length, Nat.odd_mul. reflexivity. Qed.

Lemma dec_DiagRsp sub data : spec_wf (MDiagRsp sub data) = true -> dec_ok (MDiagRsp sub data).
Proof.
  intros Hwf. unfold dec_ok. pose proof Hwf as H. cbn [spec_wf] in H. split_andb H.
  dec_open. tab.
  change (u16 sub ++ words data) with (words (sub :: data)).
  rewrite odd_words.
  replace (zlen (words (sub :: data)) / 2) with (len (sub :: data))
    by (unfold zlen, len; rewrite words_length; lia).
  rewrite read_words_words by (cbn [all_u16 forallb]; rewrite H; exact H0). cbn [bind].
  unfold reclass. cbn [obj_sub class_of]. tab. cbv beta iota. rewrite subdispatch_client.
  destruct (spec_response_subclass 8 sub) as [c'|] eqn:E; cbn [set_class].
  - destruct (resp_subclass_props sub c' E) as [Hf Hr].
    eexists; eexists; split; [reflexivity|split; [cls_goal|]].
    split; [unfold abs; cbn [abs_raw]; rewrite Hf, Hr; cbn [option_eqb]; change (8 =? 8) with true; cbv beta iota; rewrite Hwf; reflexivity
           |cbn [msg_matches]; now rewrite Z.eqb_refl, zl_eqb_refl].
  - eexists; eexists; split; [reflexivity|split; [cls_goal|]].
    split; [unfold abs; cbn [abs_raw]; tab; cbn [option_eqb]; change (8 =? 8) with true; cbv beta iota; rewrite Hwf; reflexivity
           |cbn [msg_matches]; now rewrite Z.eqb_refl, zl_eqb_refl].
Qed.

Lemma dec_DiagReq1 sub w : spec_wf (MDiagReq sub [w]) = true -> dec_ok (MDiagReq sub [w]).
Proof.
  intros Hwf. unfold dec_ok. pose proof Hwf as H. cbn [spec_wf all_u16 forallb] in H. split_andb H.
  dec_open. tab. unfold words. cbn [flat_map]. rewrite app_nil_r.
  unfold upk. rewrite unpack_HH by assumption. cbn [bind].
  unfold reclass. cbn [obj_sub class_of]. tab. cbv beta iota. rewrite subdispatch_server.
  destruct (spec_request_subclass 8 sub) as [c'|] eqn:E; cbn [set_class].
  - destruct (req_subclass_props sub c' E) as [Hf Hr].
    eexists; eexists; split; [reflexivity|split; [cls_goal|]].
    split; [unfold abs; cbn [abs_raw]; rewrite Hf, Hr; cbn [option_eqb]; change (8 =? 8) with true; cbv beta iota; rewrite Hwf; reflexivity
           |cbn [msg_matches]; now rewrite Z.eqb_refl, zl_eqb_refl].
  - eexists; eexists; split; [reflexivity|split; [cls_goal|]].
    split; [unfold abs; cbn [abs_raw]; tab; cbn [option_eqb]; change (8 =? 8) with true; cbv beta iota; rewrite Hwf; reflexivity
           |cbn [msg_matches]; now rewrite Z.eqb_refl, zl_eqb_refl].
Qed.

(* ---- comm event log ---------------------------------------------------------------------------- *)

Lemma unpack_busy1 b : unpack true [FH] (busy_word b) = Ok [if b then 65535 else 0].
Proof. destruct b; reflexivity. Qed.

Lemma dec_CommEventLogRsp b ec mc evs :
  spec_wf (MCommEventLogRsp b ec mc evs) = true -> dec_ok (MCommEventLogRsp b ec mc evs).
Proof.
  intros Hwf. unfold dec_ok. pose proof Hwf as H. cbn [spec_wf] in H. split_andb H.
  dec_open.
  assert (Hd : u8 (6 + len evs) ++ busy_word b ++ u16 ec ++ u16 mc ++ flat_map u8 evs =
               Z.to_N (6 + len evs) :: (busy_word b ++ u16 ec ++ u16 mc) ++ flat_map u8 evs).
  { unfold u8. cbn [app]. rewrite <- !app_assoc. reflexivity. }
  rewrite Hd. clear Hd. cbn [data0 bind]. rewrite Z2N.id by (pose proof (len_nonneg evs); lia).
  assert (H13 : forall x r, bslice (x :: (busy_word b ++ u16 ec ++ u16 mc) ++ r) 1 3 = busy_word b) by (intros; destruct b; reflexivity).
  assert (H35 : forall x r, bslice (x :: (busy_word b ++ u16 ec ++ u16 mc) ++ r) 3 5 = u16 ec) by (intros; destruct b; reflexivity).
  assert (H57 : forall x r, bslice (x :: (busy_word b ++ u16 ec ++ u16 mc) ++ r) 5 7 = u16 mc) by (intros; destruct b; reflexivity).
  assert (H7 : forall x r, skipn 7 (x :: (busy_word b ++ u16 ec ++ u16 mc) ++ r) = r) by (intros; destruct b; reflexivity).
  rewrite H13, H35, H57, H7. unfold upk. rewrite unpack_busy1, !unpack_H by assumption. cbn [bind].
  replace (range_len 7 (6 + len evs + 1) 1) with (len evs) by (unfold range_len; pose proof (len_nonneg evs); destruct (6 + len evs + 1 <=? 7) eqn:E; lia).
  unfold len at 1. rewrite Nat2Z.id, take_idx_u8s by assumption. cbn [bind].
  unfold reclass; cbn [obj_sub class_of]. eexists; eexists; split; [reflexivity|split; [cls_goal|]].
  split; [unfold abs; cbn [abs_raw]; destruct b; change (65535 =? status_ready) with false;
          change (0 =? status_ready) with true; cbn [negb]; rewrite Hwf; reflexivity
         |destruct b; cbn [msg_matches]; rewrite !Z.eqb_refl, zl_eqb_refl; reflexivity].
Qed.

