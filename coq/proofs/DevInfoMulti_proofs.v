(* DevInfoMulti_proofs.v — lemmas about the multi-item / text extension of the Read Device
   Identification model (theories/DevInfoMulti.v), instantiated with Generated/GenDevInfo.code. *)
From PM.theories Require Import Base Expr DevInfo DevInfoMulti.
From PM.Generated Require Import GenDevInfo.
From PM.proofs Require Import DevInfo_proofs.
From Coq Require Import ZifyBool.
Open Scope string_scope.
Open Scope list_scope.
Open Scope Z_scope.

(* ------------------------------------------------------------------ code lemma *)

Lemma mpage_items_cons space k i t :
  mpage_items code space ((k, i) :: t) =
  if space - (2 + it_len i) <=? 0 then ([], Some k)
  else let '(acc, oos) := mpage_items code (space - (2 + it_len i)) t in ((k, i) :: acc, oos).
Proof.
  cbn [mpage_items].
  change (eval (env_of [("self.space_left", space); ("len(data)", it_len i)]) (c_space_after code))
    with (space - (2 + it_len i)).
  rewrite out_of_space_eq. reflexivity.
Qed.

(* ------------------------------------------------------------------ conservativity *)

Definition lift_obj (o : object) : mobject := (fst o, MOne (item_of_bytes (snd o))).
Definition lift_item (o : object) : Z * item := (fst o, item_of_bytes (snd o)).

Lemma truthy_lift v : truthy (MOne (item_of_bytes v)) = nonempty v.
Proof. destruct v; cbn; [reflexivity|]. unfold blen. cbn [length]. destruct (Z.of_nat (S (length v)) =? 0) eqn:E; [lia|reflexivity]. Qed.

Lemma mobjects_of_lift idn ids :
  mobjects_of (lift_identity idn) ids = map lift_obj (objects_of idn ids).
Proof.
  unfold mobjects_of, objects_of. induction ids as [|k t IH]; [reflexivity|]. cbn [map filter snd].
  unfold lift_identity at 1. rewrite truthy_lift. unfold obj_nonempty at 1. cbn [snd].
  destruct (nonempty (idn k)); cbn [map]; rewrite IH; reflexivity.
Qed.

Lemma flat_items_lift l : flat_items (map lift_obj l) = map lift_item l.
Proof. induction l as [|[k v] t IH]; [reflexivity|]. cbn [map flat_items flat_map]. unfold flat_items in IH. rewrite IH. reflexivity. Qed.

Lemma mpage_items_lift l : forall space,
  mpage_items code space (map lift_item l) =
  (map lift_item (fst (page_objs code space l)), snd (page_objs code space l)).
Proof.
  induction l as [|[k v] t IH]; intros space; [reflexivity|].
  cbn [map]. unfold lift_item at 1. cbn [fst snd]. rewrite mpage_items_cons, page_objs_cons.
  change (it_len (item_of_bytes v)) with (blen v).
  destruct (space - (2 + blen v) <=? 0); [reflexivity|]. rewrite IH.
  destruct (page_objs code (space - (2 + blen v)) t). reflexivity.
Qed.

Lemma mser_items_lift l : mser_items (map lift_item l) = ser_objs l.
Proof. induction l as [|[k v] t IH]; [reflexivity|]. cbn [map mser_items ser_objs lift_item fst snd]. rewrite IH. reflexivity. Qed.

Lemma mfactory_get_lift idn c oid :
  mfactory_get code (lift_identity idn) c oid =
  match factory_get code idn c oid with Ok l => Ok (map lift_obj l) | Raise e => Raise e end.
Proof.
  unfold mfactory_get, factory_get. destruct (zlookup c (c_lookup code)) as [[r|r r0|]|]; try reflexivity.
  - rewrite mobjects_of_lift. reflexivity.
  - change (lift_identity idn oid) with (MOne (item_of_bytes (idn oid))).
    rewrite truthy_lift, !mobjects_of_lift. destruct (nonempty (idn oid)); reflexivity.
Qed.

(* on the byte-string identities of DevInfo.v the extended server is the server of DevInfo.v,
   so every C20 theorem about [server_reply] / [chain] holds of the extended model there *)
Lemma multi_conservative idn c oid :
  mserver_reply code (lift_identity idn) c oid = server_reply code idn c oid.
Proof.
  unfold mserver_reply, server_reply, mexecute, execute.
  destruct (beval _ (c_reject_object_id code)); [reflexivity|].
  destruct (beval _ (c_reject_read_code code)); [reflexivity|].
  rewrite mfactory_get_lift. destruct (factory_get code idn c oid) as [info|e]; [|reflexivity].
  cbn [bind]. unfold mencode_page, encode_page, mpage_of, page_of.
  rewrite flat_items_lift, mpage_items_lift.
  destruct (page_objs code (space0 code) info) as [objs oos]. cbn [fst snd mp_code mp_more mp_next mp_items pg_code pg_more pg_next pg_objs].
  rewrite mser_items_lift, map_length. reflexivity.
Qed.

(* ------------------------------------------------------------------ list split across pages *)

Definition val100 (b : N) : item := item_of_bytes (repeat b 100).

(* object 0 (100 bytes) and a two-item list at 0x80: the first page takes object 0 and the
   list's first item; the continuation starts again at the list's first item *)
Definition resend_identity : midentity :=
  mid_of [(0, MOne (val100 86%N)); (128, MMany [val100 97%N; val100 98%N])].

Definition received (rs : list response) : list object := flat_map (fun r => info_objects (rs_info r)) rs.

Lemma multi_resend :
  exists rs, mchain code resend_identity 3 0 5 = (rs, ChainDone)
    /\ received rs = [(0, repeat 86%N 100); (128, repeat 97%N 100); (128, repeat 97%N 100); (128, repeat 98%N 100)]
    /\ mexpected resend_identity 3 0 = [(0, repeat 86%N 100); (128, repeat 97%N 100); (128, repeat 98%N 100)].
Proof. eexists. split; [vm_compute; reflexivity|]. split; vm_compute; reflexivity. Qed.

(* a three-item list that alone is larger than a page: the same two items forever *)
Definition loop_identity : midentity := mid_of [(128, MMany [val100 97%N; val100 98%N; val100 99%N])].

Definition loop_response : response :=
  {| rs_sub := 14; rs_code := 3; rs_conformity := 131; rs_more := 255; rs_next := 128; rs_count := 2;
     rs_info := [(128, VMany [repeat 97%N 100; repeat 98%N 100])] |}.

Lemma mtransact_loop oid : oid = 0 \/ oid = 128 -> mtransact code loop_identity 3 oid = DOk (RResp loop_response).
Proof. intros [-> | ->]; vm_compute; reflexivity. Qed.

Lemma multi_loop fuel : mchain code loop_identity 3 0 fuel = (repeat loop_response fuel, ChainOutOfFuel).
Proof.
  assert (H : forall fuel oid, oid = 0 \/ oid = 128 ->
              mchain code loop_identity 3 oid fuel = (repeat loop_response fuel, ChainOutOfFuel)).
  { clear. induction fuel as [|f IH]; intros oid Ho; [reflexivity|].
    cbn [mchain]. rewrite (mtransact_loop oid Ho). cbn [rs_more rs_next loop_response Z.eqb Pos.eqb].
    rewrite (IH 128) by (right; reflexivity). reflexivity. }
  apply H. left; reflexivity.
Qed.

Lemma multi_full_statement_refuted :
  ~ (forall idn c oid, (c = 1 \/ c = 2 \/ c = 3) -> oid = 0 ->
       exists fuel rs, mchain code idn c oid fuel = (rs, ChainDone) /\ received rs = mexpected idn c oid).
Proof.
  intros H. destruct (H loop_identity 3 0) as [fuel [rs [Hc _]]]; auto.
  rewrite multi_loop in Hc. discriminate.
Qed.

(* ------------------------------------------------------------------ text values: len vs encoded length *)

(* 200 characters U+00E9: len() = 200, UTF-8 = 400 bytes *)
Definition text_item : item := {| it_len := 200; it_wire := flat_map (fun _ => [195%N; 169%N]) (repeat tt 200) |}.
Definition text_identity : midentity := mid_of [(0, MOne text_item)].

Lemma text_bound_refuted :
  exists pdu, mserver_reply code text_identity 1 0 = Ok pdu /\ Z.of_nat (length pdu) = 409 /\ 409 > max_pdu.
Proof. eexists. split; [vm_compute; reflexivity|]. split; [vm_compute; reflexivity | unfold max_pdu; lia]. Qed.

(* ... and the bound holds whenever len() is the encoded length (bytes, ASCII text), lists included *)
Definition maccurate (idn : midentity) : Prop :=
  forall k, match idn k with MOne i => accurate i | MMany l => Forall accurate l end.

Definition items_size (l : list (Z * item)) : Z := fold_right (fun ki s => 2 + it_len (snd ki) + s) 0 l.

Lemma mpage_items_size its : forall space, 0 < space ->
  items_size (fst (mpage_items code space its)) < space.
Proof.
  induction its as [|[k i] t IH]; intros space Hs; [cbn; lia|].
  rewrite mpage_items_cons. destruct (space - (2 + it_len i) <=? 0) eqn:E; [cbn; lia|].
  specialize (IH (space - (2 + it_len i)) ltac:(lia)).
  destruct (mpage_items code (space - (2 + it_len i)) t) as [acc oos]. cbn [fst items_size fold_right snd] in *. lia.
Qed.

Lemma mpage_items_incl its : forall space x, In x (fst (mpage_items code space its)) -> In x its.
Proof.
  induction its as [|[k i] t IH]; intros space x H; [exact H|].
  rewrite mpage_items_cons in H. destruct (space - (2 + it_len i) <=? 0); [destruct H|].
  specialize (IH (space - (2 + it_len i)) x).
  destruct (mpage_items code (space - (2 + it_len i)) t) as [acc oos]. cbn [fst] in *.
  destruct H as [H|H]; [left; exact H | right; auto].
Qed.

Lemma mser_items_length its : forall b,
  Forall (fun ki => accurate (snd ki)) its -> mser_items its = Ok b ->
  Z.of_nat (length b) = items_size its.
Proof.
  induction its as [|[k i] t IH]; intros b Ha H; cbn [mser_items] in H.
  - inversion H; reflexivity.
  - destruct (pack_bytes [k; it_len i]) as [h|e] eqn:Eh; cbn [bind] in H; [|discriminate].
    destruct (mser_items t) as [r|e] eqn:Er; cbn [bind] in H; [|discriminate].
    inversion H; subst. inversion Ha as [|? ? Hi Ht]; subst. apply pack_bytes_length in Eh. cbn [length] in Eh.
    rewrite !app_length, Eh. cbn [items_size fold_right snd]. specialize (IH r Ht eq_refl).
    unfold accurate, blen in Hi. cbn [snd] in Hi. unfold items_size in IH. lia.
Qed.

Lemma items_of_accurate idn k x : maccurate idn -> In x (items_of (k, idn k)) -> accurate (snd x).
Proof.
  intros Ha H. specialize (Ha k). unfold items_of in H. cbn [fst snd] in H. destruct (idn k) as [i|l].
  - destruct H as [<-|[]]. exact Ha.
  - apply in_map_iff in H as [i [<- Hi]]. rewrite Forall_forall in Ha. apply Ha. exact Hi.
Qed.

Lemma info_accurate idn c oid info x :
  maccurate idn -> mfactory_get code idn c oid = Ok info -> In x (flat_items info) -> accurate (snd x).
Proof.
  intros Ha Hg Hx. unfold flat_items in Hx. apply in_flat_map in Hx as [[k v] [Hin Hx]].
  assert (Hv : v = idn k).
  { unfold mfactory_get in Hg. destruct (zlookup c (c_lookup code)) as [[r|r r0|]|]; inversion Hg; subst; clear Hg.
    - unfold mobjects_of in Hin. apply filter_In in Hin as [Hin _]. apply in_map_iff in Hin as [k' [E _]]. inversion E; reflexivity.
    - unfold mobjects_of in Hin. apply filter_In in Hin as [Hin _]. apply in_map_iff in Hin as [k' [E _]]. inversion E; reflexivity.
    - destruct Hin as [E|[]]. inversion E; reflexivity. }
  subst v. eapply items_of_accurate; eauto.
Qed.

Lemma text_bound_partial idn c oid pdu :
  maccurate idn -> mserver_reply code idn c oid = Ok pdu -> Z.of_nat (length pdu) <= max_pdu.
Proof.
  intros Ha H. unfold mserver_reply, max_pdu in *.
  destruct (mexecute code idn c oid) as [[e|rc info]|e] eqn:Ex; cbn [bind] in H; [| |discriminate].
  - destruct (pack_bytes [c_fc code + 128; e]) as [b|x] eqn:E; cbn [bind] in H; [|discriminate].
    inversion H; subst. apply pack_bytes_length in E. rewrite E. cbn. lia.
  - assert (Hg : mfactory_get code idn c oid = Ok info).
    { unfold mexecute in Ex. destruct (beval _ (c_reject_object_id code)); [discriminate|].
      destruct (beval _ (c_reject_read_code code)); [discriminate|].
      destruct (mfactory_get code idn c oid); cbn [bind] in Ex; inversion Ex; reflexivity. }
    destruct (mencode_page code (mpage_of code rc info)) as [b|x] eqn:E; cbn [bind] in H; [|discriminate].
    inversion H; subst. unfold mencode_page, mpage_of in E.
    pose proof (mpage_items_size (flat_items info) (space0 code)) as Hs.
    pose proof (mpage_items_incl (flat_items info) (space0 code)) as Hi.
    destruct (mpage_items code (space0 code) (flat_items info)) as [its oos]. cbn [fst mp_code mp_more mp_next mp_items] in *.
    destruct (pack_bytes [c_sub code; rc; c_conformity code]) as [h1|x] eqn:E1; cbn [bind] in E; [|discriminate].
    destruct (mser_items its) as [body|x] eqn:E2; cbn [bind] in E; [|discriminate].
    destruct (pack_bytes _) as [h2|x] eqn:E3 in E; cbn [bind] in E; [|discriminate].
    inversion E; subst. apply pack_bytes_length in E1, E3.
    apply mser_items_length in E2.
    2:{ apply Forall_forall. intros x Hx. eapply info_accurate; eauto. }
    rewrite space0_eq in Hs. specialize (Hs ltac:(lia)).
    cbn [length]. rewrite !app_length, E1, E3. cbn [length]. lia.
Qed.
