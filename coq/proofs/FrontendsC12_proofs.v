(* FrontendsC12_proofs.v — C12 lemmas about the GENERATED loop / execute skeletons. *)
From PM.theories Require Import Base Ladder Frontends.
From PM.Generated Require Import GenFrontends.
From PM.proofs Require Import Frontends_proofs.
Open Scope list_scope.
Open Scope Z_scope.
Arguments step_action : simpl never.
Arguments apply_action : simpl never.

(* ------------------------------------------------------------------------------------- *)
(* Part 2 — the skeletons regenerated from pymodbus/server/{sync,async_io,asynchronous}.py *)
(* ------------------------------------------------------------------------------------- *)

(* the front-ends whose loop ends in a catch-all *)
Definition catch_all_fe (fe : frontend) : bool :=
  match fe with SyncTcp | SyncSerial | SyncUdp | AioTcp | AioUdp => true | TwTcp | TwUdp => false end.

Lemma generated_no_escape : forall fe, catch_all_fe fe = true -> no_escape_on_ordinary (fc_loop code fe).
Proof.
  intros fe Hfe b r Hr.
  destruct fe; try discriminate Hfe; destruct b;
    destruct r as [e| | | |]; try discriminate Hr; try destruct e; vm_compute; discriminate.
Qed.

(* the bare `except:` of the threaded TCP handler also contains BaseExceptions *)
Lemma sync_tcp_contains_everything : forall b r, step_action (fc_loop code SyncTcp) b (Some r) <> Escape.
Proof. intros b r; destruct b; destruct r as [e| | | |]; try destruct e; vm_compute; discriminate. Qed.

(* asyncio: task cancellation is caught as well *)
Lemma aio_contains_cancel : forall fe b, (fe = AioTcp \/ fe = AioUdp) ->
  step_action (fc_loop code fe) b (Some RCancelled) = Continue.
Proof. intros fe b [H|H]; subst; destruct b; reflexivity. Qed.

(* after an exception of the framer/decoder/execute layer the offending data is discarded or the
   connection is closed — the handler never carries on with the poisoned buffer *)
Lemma generated_recovers : forall fe b e, catch_all_fe fe = true ->
  let a := step_action (fc_loop code fe) b (Some (RPy e)) in
  a = StopReset \/ a = ResetFrame \/ a = CloseTransport.
Proof.
  intros fe b e Hfe. destruct fe; try discriminate Hfe; destruct b; destruct e; vm_compute; tauto.
Qed.

(* the execute()/_execute() ladders: every exception class is turned into a Modbus exception
   response (or silence, for a missing unit under ignore_missing_slaves) *)
Lemma generated_exec_policy : forall fe e,
  first_match (xs_ladder (fc_exec code fe)) (RPy e) =
  Some (match e with NoSuchSlaveExc => XIgnoreOrExc 11 | _ => XExc 4 end).
Proof. intros fe e; destruct fe; destruct e; reflexivity. Qed.

(* Twisted TCP: no handler at all *)
Lemma twisted_tcp_ladder_empty : forall b r, step_action (fc_loop code TwTcp) b (Some r) = Escape.
Proof. intros b r; destruct b; reflexivity. Qed.

Section Generated.
  Variables FS Req Resp World : Type.
  Variable E : env FS Req Resp World.
  Notation serve_step := (serve_step FS Req Resp World code E).
  Notation serve_data := (serve_data FS Req Resp World code E).
  Notation serve_event := (serve_event FS Req Resp World code E).
  Notation deliver := (deliver FS Req Resp World E).
  Notation callback := (callback FS Req Resp World E).
  Notation fargs_for := (fargs_for FS Req Resp World E).

  Lemma total_generated : forall fe c sv k i, catch_all_fe fe = true ->
    snd (serve_event fe c sv k i) <> Escape.
  Proof. intros. apply serve_event_no_escape. apply generated_no_escape. assumption. Qed.

  (* what the framer raises on a chunk escapes dataReceived; nothing is reset, so the same bytes
     are still in the buffer when the next chunk arrives *)
  Lemma twisted_tcp_escapes : forall c w cs bs ff e,
    e_listen_only _ _ _ _ E w = false ->
    e_recv _ _ _ _ E (fargs_for (fc_loop code TwTcp) c w (is_empty bs)) (cs_f _ cs) bs = ([], ff, Some e) ->
    serve_step TwTcp c w cs (IData bs) =
      (w, {| cs_f := ff; cs_running := cs_running _ cs && true; cs_closed := cs_closed _ cs |}, [], Escape).
  Proof.
    intros c w cs bs ff e Hl Hr. unfold Frontends.serve_step.
    change (pre_raise (fc_loop code TwTcp)) with (@None pyexn).
    change (ls_listen_gate (fc_loop code TwTcp)) with true. rewrite Hl. cbn [andb].
    change (empty_skips (fc_loop code TwTcp)) with false. rewrite Bool.andb_false_r.
    unfold Frontends.serve_data.
    change (ls_units (fc_loop code TwTcp)) with UnitsRaw. cbv iota. rewrite Hr. cbn [Frontends.deliver option_map].
    rewrite twisted_tcp_ladder_empty. reflexivity.
  Qed.

  (* where nothing is raised Twisted TCP is as good as the others *)
  Lemma twisted_tcp_partial : forall c w cs bs,
    (let '(ds, ff, exn) := e_recv _ _ _ _ E (fargs_for (fc_loop code TwTcp) c w (is_empty bs)) (cs_f _ cs) bs in
     snd (deliver (fc_exec code TwTcp) c w ds ff exn []) = None) ->
    snd (serve_step TwTcp c w cs (IData bs)) <> Escape.
  Proof.
    intros c w cs bs H. unfold Frontends.serve_step.
    change (pre_raise (fc_loop code TwTcp)) with (@None pyexn).
    destruct (ls_listen_gate (fc_loop code TwTcp) && e_listen_only _ _ _ _ E w); [cbn; discriminate|].
    change (empty_skips (fc_loop code TwTcp)) with false. rewrite Bool.andb_false_r.
    unfold Frontends.serve_data.
    change (ls_units (fc_loop code TwTcp)) with UnitsRaw. cbv iota.
    destruct (e_recv _ _ _ _ E _ (cs_f _ cs) bs) as [[ds ff] exn].
    destruct (deliver (fc_exec code TwTcp) c w ds ff exn []) as [[[w' f'] outs] exn'].
    cbn in H. subst exn'. cbn [snd option_map]. apply step_action_none.
  Qed.

  (* Twisted UDP: every datagram raises TypeError before the framer is reached *)
  Lemma twisted_udp_dead : forall c w cs i,
    let r := serve_step TwUdp c w cs i in
    fst (fst (fst r)) = w /\ cs_f _ (snd (fst (fst r))) = cs_f _ cs /\ snd (fst r) = [] /\ snd r = Escape.
  Proof. intros. cbn. repeat split; reflexivity. Qed.
End Generated.

