(* FrSpecB.v — SPEC side for the RTU and binary framings, independent of the code-shaped
   models: the ADU each framing must put on the wire, reference receivers for a whole
   frame, and the "a frame for this message is in the bytes received" relation used to
   judge deliveries (C07).  Uses only the bitwise CRC of Crc.v.

   RTU   (Modbus over serial line v1.02, 2.5.1): unit, PDU, CRC-16 low byte first.
   Binary (docstring of ModbusBinaryFramer, "protocol defined by jamod"): '{', then the
   RTU frame (address, function, data, CRC) in which every '{' or '}' is duplicated,
   then '}'; the receiver removes the duplicates. *)
From PM.theories Require Import Base Crc.
Open Scope list_scope.
Open Scope N_scope.

Definition LBRACE : N := 123.
Definition RBRACE : N := 125.
Definition is_delim (b : N) : bool := (b =? LBRACE) || (b =? RBRACE).
Definition no_delim (bs : bytes) : bool := forallb (fun b => negb (is_delim b)) bs.

Definition spec_adu_rtu (uid : N) (pdu : bytes) : bytes := with_crc (uid :: pdu).

Fixpoint escape (bs : bytes) : bytes :=
  match bs with
  | [] => []
  | b :: t => if is_delim b then b :: b :: escape t else b :: escape t
  end.

Definition spec_adu_binary (uid : N) (pdu : bytes) : bytes :=
  [LBRACE] ++ escape (with_crc (uid :: pdu)) ++ [RBRACE].

(* reference receiver for one whole RTU frame *)
Definition spec_rx_rtu (frame : bytes) : option (bytes * N) :=
  match frame with
  | uid :: rest =>
      if crc_ok frame && (4 <=? length frame)%nat
      then Some (firstn (length rest - 2) rest, uid) else None
  | [] => None
  end.

(* reference receiver for one whole binary frame: '{' body '}' with duplicates removed.
   [unescape] returns the body and what follows the closing brace. *)
Fixpoint unescape (bs : bytes) : option (bytes * bytes) :=
  match bs with
  | [] => None
  | b :: t =>
      if is_delim b then
        match t with
        | b' :: t' => if b' =? b then
                        match unescape t' with Some (body, r) => Some (b :: body, r) | None => None end
                      else if b =? RBRACE then Some ([], t) else None
        | [] => if b =? RBRACE then Some ([], []) else None
        end
      else match unescape t with Some (body, r) => Some (b :: body, r) | None => None end
  end.

Definition spec_rx_binary (frame : bytes) : option (bytes * N) :=
  match frame with
  | s :: t =>
      if s =? LBRACE then
        match unescape t with
        | Some (uid :: rest, []) =>
            if crc_ok (uid :: rest) && (4 <=? length (uid :: rest))%nat
            then Some (firstn (length rest - 2) rest, uid) else None
        | _ => None
        end
      else None
  | [] => None
  end.

Fixpoint is_prefix (p l : bytes) : bool :=
  match p, l with
  | [], _ => true
  | x :: p', y :: l' => (x =? y) && is_prefix p' l'
  | _ :: _, [] => false
  end.

Fixpoint is_infix (p l : bytes) : bool :=
  is_prefix p l || match l with [] => false | _ :: t => is_infix p t end.

(* the bytes received contain a frame for message (pdu, uid) whose integrity check holds *)
Definition justified_rtu (stream : bytes) (pdu : bytes) (uid : Z) : bool :=
  (0 <=? uid)%Z && (uid <? 256)%Z && is_infix (spec_adu_rtu (Z.to_N uid) pdu) stream.

Definition justified_binary (stream : bytes) (pdu : bytes) (uid : Z) : bool :=
  (0 <=? uid)%Z && (uid <? 256)%Z && is_infix (spec_adu_binary (Z.to_N uid) pdu) stream.
