"""C05 add-on: "a function code the server does not support is answered 01" must not depend on what OTHER decoder /
server objects of the process were configured with — decoders keep their tables per instance (python-side check of
props/lib_wiring.py; the generated facts and the theorem are in Props/C12_cfg.v: C12_custom_functions_stay_local)."""
from props import lib_wiring as W

GENERATORS = ["wiring"]
TRUSTED = ["python-side: two decoder / server objects in one process, a custom function registered on one of them only"]


def suites(tier):
    return []


def extra_checks(tier):
    return W.extra_checks(tier)


def classify(suite, desc):
    return None


def replay_case(suite, desc):
    return W.replay_case(suite, desc)
