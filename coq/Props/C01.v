(* Props/C01.v — placeholder while the harness is being brought up (replaced below). *)
From PM.theories Require Import Base Struct PduCls PduSpec Pdu.
From PM.Generated Require Import GenPdu.
Open Scope string_scope.
Open Scope list_scope.
Open Scope Z_scope.

Theorem C01_formats_as_modelled : struct_fmts = modelled_fmts.
Proof. reflexivity. Qed.
Print Assumptions C01_formats_as_modelled.
