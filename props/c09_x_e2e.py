"""C09 add-on — end-to-end composition for the Modbus/TCP server path (Props/C09_e2e.v).

Request sequences are generated as SPEC messages (PduSpec.msg terms + their PDU bytes built here,
independently of pymodbus), framed as MBAP ADUs, cut into reads and fed to the REAL front-ends
(threaded ModbusConnectedRequestHandler, asyncio ModbusConnectedRequestHandler, Twisted
ModbusTcpProtocol) over REAL ModbusSlaveContext datastores.  Recorded: every byte written to the
transport and a dump of every block afterwards.  Coq evaluates (vm_compute) chk_e2e =
(EndToEnd.tcp_server_run reproduces bytes and stores, the spec side CorrE2E.spec_check accepts them).
Suite names start with e2e_."""
import asyncio
import struct
import types
import warnings

from lib import common
from lib.coqrun import z, zlist, boolean, string, lst
from lib.main import Case, Suite
from props import lib_exec as X
from props import lib_server as L

GENERATORS = ["server", "exec", "store", "pdu", "framer_tcpascii", "framer_rtubin", "exec_other"]
PROP_FILES = ["C09_e2e", "C09_e2e_ascii", "C09_e2e_rtu", "C09_e2e_ext"]
CASE_DEPS = ["theories/CorrE2E.vo", "theories/CorrE2ESerial.vo", "theories/CorrE2EExt.vo"]
TRUSTED = [
    "end-to-end composition (Props/C09_e2e.v): hand-written glue in theories/EndToEnd.v — request object -> execute "
    "attributes (req_of_obj), response -> response object (obj_of_rsp), the serving loop (one framer call per read, "
    "EOF on an empty read for the threaded handler), protocol id 0 of a fresh response — tied by the e2e_* suites only",
    "spec side of the composition (theories/CorrE2E.v): wreq_of_msg, spec_response_msg (coil ON iff cell != 0), "
    "spec_run / spec_check, read against the Modbus application protocol and the MBAP layout",
]
ASSUMPTIONS = [
    "end-to-end theorem: one connection, healthy in-memory datastores (C04 invariant, cells 0..65535), data-access "
    "requests FC 1-6/15/16/22/23 and unassigned function codes addressed to served units",
]

IMPORTS = ("From PM.theories Require Import Base Expr Struct FrBaseA PduSpec Store Exec ExecSpec CorrExec Server EndToEnd CorrE2E.\n"
           "Open Scope string_scope.")
CHK = "chk_e2e"
FES = ["sync_tcp", "aio_tcp", "tw_tcp"]


# ----------------------------------------------------------------------------- spec messages (python mirror of PduSpec)

def u16(v):
    return struct.pack(">H", v)


def pack_bits(bits):
    out = bytearray()
    for i in range(0, len(bits), 8):
        b = 0
        for j, x in enumerate(bits[i:i + 8]):
            if x:
                b |= 1 << j
        out.append(b)
    return bytes(out)


READ_NAMES = {1: "MReadCoilsReq", 2: "MReadDiscreteReq", 3: "MReadHoldingReq", 4: "MReadInputReq"}


def msg_pdu(m):
    k = m[0]
    if k == "read":
        return bytes([m[1]]) + u16(m[2]) + u16(m[3])
    if k == "wcoil":
        return b"\x05" + u16(m[1]) + (b"\xff\x00" if m[2] else b"\x00\x00")
    if k == "wreg":
        return b"\x06" + u16(m[1]) + u16(m[2])
    if k == "wcoils":
        bits = m[2]
        return b"\x0f" + u16(m[1]) + u16(len(bits)) + bytes([(len(bits) + 7) // 8]) + pack_bits(bits)
    if k == "wregs":
        return b"\x10" + u16(m[1]) + u16(len(m[2])) + bytes([2 * len(m[2])]) + b"".join(u16(v) for v in m[2])
    if k == "mask":
        return b"\x16" + u16(m[1]) + u16(m[2]) + u16(m[3])
    if k == "rwm":
        ws = m[4]
        return b"\x17" + u16(m[1]) + u16(m[2]) + u16(m[3]) + u16(len(ws)) + bytes([2 * len(ws)]) + b"".join(u16(v) for v in ws)
    if k == "raw":
        return bytes([m[1]]) + bytes(m[2])
    if k == "station":
        return bytes([m[1]])
    if k == "diag":
        return b"\x08" + u16(m[1]) + u16(m[2])
    raise ValueError(k)


def msg_term(m):
    k = m[0]
    if k == "read":
        return "QMsg (%s %s %s)" % (READ_NAMES[m[1]], z(m[2]), z(m[3]))
    if k == "wcoil":
        return "QMsg (MWriteCoilReq %s %s)" % (z(m[1]), boolean(m[2]))
    if k == "wreg":
        return "QMsg (MWriteRegReq %s %s)" % (z(m[1]), z(m[2]))
    if k == "wcoils":
        return "QMsg (MWriteCoilsReq %s %s)" % (z(m[1]), lst(boolean(b) for b in m[2]))
    if k == "wregs":
        return "QMsg (MWriteRegsReq %s %s)" % (z(m[1]), zlist(m[2]))
    if k == "mask":
        return "QMsg (MMaskWriteReq %s %s %s)" % (z(m[1]), z(m[2]), z(m[3]))
    if k == "rwm":
        return "QMsg (MReadWriteRegsReq %s %s %s %s)" % (z(m[1]), z(m[2]), z(m[3]), zlist(m[4]))
    if k == "raw":
        return "QRaw %s (nb %s)" % (z(m[1]), zlist(m[2]))
    if k == "station":
        return "QMsg %s" % {7: "MReadExcStatusReq", 11: "MCommEventCounterReq", 12: "MCommEventLogReq", 17: "MReportSlaveIdReq"}[m[1]]
    if k == "diag":
        return "QMsg (MDiagReq %s [%s])" % (z(m[1]), z(m[2]))
    raise ValueError(k)


def nb(b):
    return "(nb %s)" % zlist(list(b))


# ----------------------------------------------------------------------------- generators

LIM = {1: 2000, 2: 2000, 3: 125, 4: 125}
UNASSIGNED = [9, 10, 13, 14, 18, 19, 25, 65, 99, 100, 127]


def boundary(r, lim):
    return r.choice([0, 1, 1, 2, 3, 8, 9, lim - 1, lim, lim + 1, 0xFFFF])


def gen_msg(r, Lay):
    """one request message; field values mostly valid for the layout, with boundary quantities and
    addresses (illegal ones included: exception responses 02 / 03)"""
    fc = r.choice([1, 2, 3, 3, 4, 5, 6, 6, 15, 16, 16, 22, 23, "raw"])
    valid = r.random() < 0.7
    if fc == "raw":
        return ("raw", r.choice(UNASSIGNED), [r.randrange(256) for _ in range(r.choice([0, 1, 4]))])
    w = X.gen_request(r, Lay, fc, valid)
    if w[0] == "read":
        q = w[3] if r.random() < 0.7 else boundary(r, LIM[fc])
        return ("read", fc, w[2], q)
    if w[0] == "wcoil":
        return ("wcoil", w[1], w[2] == 0xFF00)
    if w[0] == "wreg":
        return ("wreg", w[1], w[2])
    if w[0] == "wcoils":
        n = w[2] if r.random() < 0.75 else r.choice([0, 1, 7, 8, 9, 1967, 1968, 1969, 2040])
        return ("wcoils", w[1], [r.random() < 0.5 for _ in range(n)])
    if w[0] == "wregs":
        n = w[2] if r.random() < 0.75 else r.choice([0, 1, 2, 122, 123, 124, 127])
        return ("wregs", w[1], [r.choice([0, 1, 0xFFFF, r.randrange(65536)]) for _ in range(n)])
    if w[0] == "mask":
        return ("mask", w[1], w[2], w[3])
    if w[0] == "rwm":
        rq = w[2] if r.random() < 0.8 else boundary(r, 125)
        wn = w[4] if r.random() < 0.8 else r.choice([0, 1, 120, 121, 122, 127])
        return ("rwm", w[1], rq, w[3], [r.randrange(65536) for _ in range(wn)])
    raise ValueError(w)


def cut(r, stream, eof_kind):
    """a division of the stream into reads: cuts anywhere (inside MBAP headers too), occasionally empty reads
    (not for the threaded handler, which takes an empty read as end of stream, except in dedicated cases)"""
    n = len(stream)
    mode = r.random()
    if mode < 0.15 or n == 0:
        pts = []
    elif mode < 0.25:
        pts = list(range(1, n)) if n <= 40 else sorted(r.sample(range(1, n), 25))
    else:
        pts = sorted(set(r.randrange(1, n) for _ in range(r.choice([1, 1, 2, 3, 5, 8])))) if n > 1 else []
        # aim some cuts into headers: positions 1..7 behind a frame start are likely hit by the small offsets
        pts = sorted(set(pts + [p for p in (r.randrange(1, 8), r.randrange(1, 8) + n // 2) if 0 < p < n and r.random() < 0.5]))
    chunks, prev = [], 0
    for p in pts + [n]:
        chunks.append(stream[prev:p])
        prev = p
    if eof_kind == "empties":
        for _ in range(r.choice([1, 2])):
            chunks.insert(r.randrange(len(chunks) + 1), b"")
    return [c for c in chunks if c or eof_kind == "empties"]


HOSTED = [[1], [1, 2], [0, 1], [17], [2, 1, 247], [255, 3], [5, 9]]


def gen_scenario(r, fe):
    single = r.random() < 0.5
    tw = fe == "tw_tcp"
    cfg = {"single": single, "bcast": (not tw) and r.random() < 0.3, "ignore": r.random() < 0.5}
    ids = [0] if single else list(r.choice(HOSTED))
    shared = r.random() < 0.2
    units = [(u, X.gen_layout(r, shared=shared)) for u in ids]
    reqs = []
    for _ in range(r.choice([1, 2, 2, 3, 4, 5, 6])):
        k = r.random()
        if k < 0.75:
            uid = r.choice(ids) if not single else r.choice([0, 1, 1, 17, 255, r.randrange(256)])
        elif k < 0.9:
            uid = r.choice([0, 1, 2, 9, 255])
        else:
            uid = r.randrange(256)
        lay = dict(units).get(0 if single else uid, units[0][1])
        reqs.append({"tid": r.choice([0, 1, 0x1234, 65535, r.randrange(65536)]),
                     "pid": 0 if r.random() < 0.85 else r.choice([1, 0xFFFF, r.randrange(65536)]),
                     "uid": uid, "msg": gen_msg(r, lay)})
    eof_kind = "none"
    if r.random() < 0.12:
        eof_kind = "empties"
    sc = {"fe": fe, "cfg": cfg, "units": units, "reqs": reqs, "eof_kind": eof_kind}
    stream = b"".join(adu_of(q) for q in reqs)
    sc["chunks"] = [c.hex() for c in cut(r, stream, eof_kind)]
    return sc


def adu_of(q):
    pdu = msg_pdu(q["msg"])
    return struct.pack(">HHHB", q["tid"], q["pid"], len(pdu) + 1, q["uid"]) + pdu


# ----------------------------------------------------------------------------- driving the real front-ends

def build_context(sc):
    from pymodbus.datastore import ModbusSlaveContext, ModbusServerContext
    slaves, blocks = {}, {}
    for u, Lay in sc["units"]:
        bl = [X.mk_block(d) for d in Lay["blocks"]]
        s = Lay["slots"]
        slaves[u] = ModbusSlaveContext(di=bl[s["d"]], co=bl[s["c"]], ir=bl[s["i"]], hr=bl[s["h"]], zero_mode=Lay["zero"])
        blocks[u] = bl
    if sc["cfg"]["single"]:
        ctx = ModbusServerContext(slaves=slaves[sc["units"][0][0]], single=True)
    else:
        ctx = ModbusServerContext(slaves=slaves, single=False)
    return ctx, blocks


def run_real(sc, keep_mcb=False):
    """-> (bytes written, {uid: dump}, escaped exception names)"""
    from pymodbus.server import sync
    if not keep_mcb:
        L.reset_mcb()
    ctx, blocks = build_context(sc)
    reads = [bytes.fromhex(c) for c in sc["chunks"]]
    written, escaped = [], []
    cfg = sc["cfg"]
    fe = sc["fe"]
    try:
        if fe == "sync_tcp":
            server = L._server_ns(ctx, "socket", cfg)
            h = sync.ModbusConnectedRequestHandler.__new__(sync.ModbusConnectedRequestHandler)

            class Sock:
                def __init__(self):
                    self.chunks = list(reads)

                def recv(self, n):
                    if self.chunks:
                        return self.chunks.pop(0)
                    h.running = False
                    return b""

                def send(self, data):
                    written.append(bytes(data))
                    return len(data)
            h.request, h.client_address, h.server = Sock(), ("127.0.0.1", 5020), server
            h.setup()
            try:
                h.handle()
            except Exception as e:  # noqa: BLE001
                escaped.append(type(e).__name__)
            h.finish()
        elif fe == "aio_tcp":
            from pymodbus.server import async_io as aio
            server = L._server_ns(ctx, "socket", cfg)

            class T:
                def get_extra_info(self, k):
                    return ("127.0.0.1", 5020)

                def write(self, data):
                    written.append(bytes(data))

                def close(self):
                    escaped.append("transport-closed")

            async def main():
                with warnings.catch_warnings():
                    warnings.simplefilter("ignore")
                    h = aio.ModbusConnectedRequestHandler(server)
                    h.connection_made(T())
                for rd in reads:
                    h.data_received(rd)
                    for _ in range(4):
                        await asyncio.sleep(0)
                if h.handler_task is None or h.handler_task.done():
                    escaped.append("handler-task-ended")
                h.connection_lost(None)
                await asyncio.sleep(0)
                if h.handler_task is not None and h.handler_task.done() and not h.handler_task.cancelled():
                    h.handler_task.exception()
            asyncio.run(main())
            escaped[:] = [e for e in escaped if e != "transport-closed"] if escaped.count("transport-closed") <= 1 and \
                "handler-task-ended" not in escaped else escaped
        elif fe == "tw_tcp":
            from pymodbus.server.asynchronous import ModbusServerFactory

            class T2:
                def getHost(self):
                    return "host"

                def write(self, data):
                    written.append(bytes(data))
            f = ModbusServerFactory(ctx, L.framer_class("socket"), ignore_missing_slaves=cfg["ignore"])
            p = f.buildProtocol(None)
            p.transport = T2()
            p.connectionMade()
            for rd in reads:
                try:
                    p.dataReceived(rd)
                except Exception as e:  # noqa: BLE001
                    escaped.append(type(e).__name__)
        else:
            raise ValueError(fe)
    finally:
        if not keep_mcb:
            L.reset_mcb()
    dumps = {u: X.dump_blocks(blocks[u]) for u, _ in sc["units"]}
    return b"".join(written), dumps, escaped


# ----------------------------------------------------------------------------- serial path (sync serial handler)

SERIAL_IMPORTS = ("From PM.theories Require Import Base Expr Struct FrBaseA PduSpec Store Exec ExecSpec CorrExec Server EndToEnd CorrE2E CorrE2ESerial.\n"
                  "Open Scope string_scope.")
SERIAL_CHK = "chk_e2e_serial"


def gen_serial_scenario(r, framing):
    """requests over a serial line: served units, frames for units that are not served interleaved; no tid / pid"""
    single = r.random() < 0.4
    cfg = {"single": single, "bcast": r.random() < 0.3, "ignore": r.random() < 0.5}
    ids = [0] if single else list(r.choice(HOSTED))
    units = [(u, X.gen_layout(r, shared=r.random() < 0.2)) for u in ids]
    reqs = []
    for _ in range(r.choice([1, 2, 2, 3, 4, 5, 6])):
        k = r.random()
        if k < 0.65:
            uid = r.choice(ids) if not single else r.choice([0, 1, 1, 17, 255, r.randrange(256)])
        elif k < 0.9:
            uid = r.choice([0, 1, 2, 9, 33, 255])
        else:
            uid = r.randrange(256)
        lay = dict(units).get(0 if single else uid, units[0][1])
        m = gen_msg(r, lay)
        while framing == "rtu" and m[0] == "raw":      # the RTU receiver needs a size rule: assigned codes only
            m = gen_msg(r, lay)
        reqs.append({"tid": 0, "pid": 0, "uid": uid, "msg": m})
    stream = b"".join(L.adu(framing, 0, q["uid"], msg_pdu(q["msg"])) for q in reqs)
    n = len(stream)
    mode = r.random()
    if mode < 0.15:
        pts = []
    elif mode < 0.35:
        pts = list(range(1, n)) if n <= 60 else sorted(r.sample(range(1, n), 40))      # one-character reads
    else:
        pts = sorted(set(r.randrange(1, n) for _ in range(r.choice([1, 1, 2, 3, 5, 8])))) if n > 1 else []
    chunks, prev = [], 0
    for p_ in pts + [n]:
        chunks.append(stream[prev:p_])
        prev = p_
    if r.random() < 0.15:
        for _ in range(r.choice([1, 2])):
            chunks.insert(r.randrange(len(chunks) + 1), b"")
    return {"fe": "sync_serial", "framing": framing, "cfg": cfg, "units": units, "reqs": reqs,
            "chunks": [c.hex() for c in chunks]}


def run_real_serial(sc, keep_mcb=False):
    from pymodbus.server import sync
    if not keep_mcb:
        L.reset_mcb()
    ctx, blocks = build_context(sc)
    reads = [bytes.fromhex(c) for c in sc["chunks"]]
    written, escaped = [], []
    try:
        server = L._server_ns(ctx, sc["framing"], sc["cfg"])
        h = sync.ModbusSingleRequestHandler.__new__(sync.ModbusSingleRequestHandler)

        class Port:
            def __init__(self):
                self.chunks = list(reads)

            def recv(self, n):
                if self.chunks:
                    return self.chunks.pop(0)
                h.running = False
                return b""

            def send(self, data):
                written.append(bytes(data))
                return len(data)
        h.request, h.client_address, h.server = Port(), ("127.0.0.1", 5020), server
        h.setup()
        try:
            h.handle()
        except Exception as e:  # noqa: BLE001
            escaped.append(type(e).__name__)
        h.finish()
    finally:
        if not keep_mcb:
            L.reset_mcb()
    dumps = {u: X.dump_blocks(blocks[u]) for u, _ in sc["units"]}
    return b"".join(written), dumps, escaped


def serial_case_of(sc):
    written, dumps, escaped = run_real_serial(sc)
    reqs = lst("{| q_tid := %s; q_pid := %s; q_uid := %s; q_body := %s |}" % (
        z(q["tid"]), z(q["pid"]), z(q["uid"]), msg_term(q["msg"])) for q in sc["reqs"])
    term = ("{| s_kind := %s; s_fe := %s; s_cfg := %s; s_units := %s; s_reqs := %s; s_chunks := %s; "
            "s_written := %s; s_final := %s |}") % (
        {"ascii": "SAscii", "rtu": "SRtu"}[sc["framing"]], string(sc["fe"]), L.cfg_term(sc["cfg"]),
        lst("(%s, %s)" % (z(u), X.layout_term(Lay)) for u, Lay in sc["units"]),
        reqs, lst(nb(bytes.fromhex(c)) for c in sc["chunks"]), nb(written),
        lst("(%s, %s)" % (z(u), dump_list_term(dumps[u])) for u, _ in sc["units"]))
    desc = {"scenario": sc, "written": written.hex(), "escaped": escaped}
    kind = "%s/%s" % (sc["framing"], "single" if sc["cfg"]["single"] else "multi")
    return Case(term, desc, kind=kind, nontrivial=bool(written)), escaped


SERIAL_FRAMINGS = ["ascii", "rtu"]


def serial_suites(tier):
    out = []
    for framing in SERIAL_FRAMINGS:
        r = common.rng("C09.e2e_serial_" + framing)
        n = 200 * (1 if tier == "quick" else 6)
        cases = []
        for _ in range(n):
            sc = gen_serial_scenario(r, framing)
            c, escaped = serial_case_of(sc)
            if escaped:
                _BROKEN.append("e2e_serial_%s: exception escaped the handler: %s %s" % (framing, escaped, sc))
            cases.append(c)
        out.append(Suite("e2e_serial_" + framing, SERIAL_IMPORTS, SERIAL_CHK, cases, shard=50))
    return out


# ----------------------------------------------------------------------------- extended composition: station requests

EXT_IMPORTS = ("From PM.theories Require Import Base Expr Struct FrBaseA PduSpec Store Exec ExecSpec CorrExec Device Server "
               "EndToEnd EndToEndExt CorrE2E CorrE2ESerial CorrE2EExt.\n"
               "Open Scope string_scope.")
EXT_CHK = "chk_e2e_ext"
EXT_SUBS = [0, 2, 3, 4, 10, 11, 12, 13, 14, 15, 16, 17, 18, 20]
EXT_COMBOS = [("tcp", "sync_tcp"), ("tcp", "aio_tcp"), ("ascii", "sync_serial"), ("rtu", "sync_serial")]


def gen_station_msg(r):
    if r.random() < 0.35:
        return ("station", r.choice([7, 11, 12, 17]))
    return ("diag", r.choice(EXT_SUBS), r.choice([0, 0xFF00, 0x0A00, 0x4100, 1, 0xFFFF, r.randrange(65536)]))


def gen_ext_scenario(r, kind, fe):
    sc = gen_scenario(r, fe) if kind == "tcp" else gen_serial_scenario(r, kind)
    sc["kind"] = kind
    # about half of the requests become requests to the station (FC 7, 8, 11, 12, 17), inside the region where the
    # code follows the document: event counter 0, empty event log (no application-side events in these runs)
    for q in sc["reqs"]:
        if r.random() < 0.5:
            q["msg"] = gen_station_msg(r)
    sc["counters"] = [r.choice([0, 0, 1, 255, 256, 65535, r.randrange(65536)]) for _ in range(8)]
    if kind == "tcp":
        stream = b"".join(adu_of(q) for q in sc["reqs"])
        sc["chunks"] = [c.hex() for c in cut(r, stream, sc["eof_kind"])]
    else:
        stream = b"".join(L.adu(kind, 0, q["uid"], msg_pdu(q["msg"])) for q in sc["reqs"])
        n = len(stream)
        pts = sorted(set(r.randrange(1, n) for _ in range(r.choice([0, 1, 2, 5, 12])))) if n > 1 else []
        chunks, prev = [], 0
        for p_ in pts + [n]:
            chunks.append(stream[prev:p_])
            prev = p_
        sc["chunks"] = [c.hex() for c in chunks]
    return sc


def ext_case_of(sc):
    from props import c04_x_other as O
    m = O.mcb_reset()
    L.reset_mcb()
    for name, v in zip(O.COUNTERS, sc["counters"]):
        setattr(m.Counter, name, v)
    dev0 = O.dump_device(m)
    try:
        if sc["kind"] == "tcp":
            written, dumps, escaped = run_real(sc, keep_mcb=True)
        else:
            written, dumps, escaped = run_real_serial(sc, keep_mcb=True)
        dev1 = O.dump_device(O.mcb())
    finally:
        O.mcb_reset()
        L.reset_mcb()
    reqs = lst("{| q_tid := %s; q_pid := %s; q_uid := %s; q_body := %s |}" % (
        z(q["tid"]), z(q["pid"]), z(q["uid"]), msg_term(q["msg"])) for q in sc["reqs"])
    term = ("{| x_kind := %s; x_fe := %s; x_cfg := %s; x_eof := %s; x_layouts := %s; x_dev0 := %s; x_reqs := %s; "
            "x_chunks := %s; x_written := %s; x_final := %s; x_dev1 := %s |}") % (
        {"tcp": "XTcp", "ascii": "XAscii", "rtu": "XRtu"}[sc["kind"]], string(sc["fe"]), L.cfg_term(sc["cfg"]),
        boolean(sc["fe"] == "sync_tcp"),
        lst("(%s, %s)" % (z(u), X.layout_term(Lay)) for u, Lay in sc["units"]), O.device_term(dev0),
        reqs, lst(nb(bytes.fromhex(c)) for c in sc["chunks"]), nb(written),
        lst("(%s, %s)" % (z(u), dump_list_term(dumps[u])) for u, _ in sc["units"]), O.device_term(dev1))
    desc = {"scenario": sc, "written": written.hex(), "escaped": escaped, "dev0": dev0, "dev1": dev1}
    return Case(term, desc, kind="%s/%s" % (sc["kind"], sc["fe"]), nontrivial=bool(written)), escaped


def ext_suites(tier):
    """one suite for the four front-end x framing combinations (the combination is enumerated, never drawn)"""
    cases = []
    for kind, fe in EXT_COMBOS:
        name = "e2e_ext_%s_%s" % (kind, fe)
        r = common.rng("C09." + name)
        for _ in range(100 * (1 if tier == "quick" else 6)):
            c, escaped = ext_case_of(gen_ext_scenario(r, kind, fe))
            if escaped:
                _BROKEN.append("%s: exception escaped the front-end: %s" % (name, escaped))
            cases.append(c)
    return [Suite("e2e_ext", EXT_IMPORTS, EXT_CHK, cases, shard=30)]


def dump_list_term(ds):
    return lst(("DFull " + X.pairs(d[1])) if d[0] == "F" else
               ("DDigest %s %s %s" % (z(d[1]), z(d[2]), X.pairs(d[3]))) for d in ds)


def case_of(sc):
    written, dumps, escaped = run_real(sc)
    cfg = sc["cfg"]
    eof = sc["fe"] == "sync_tcp"
    reqs = lst("{| q_tid := %s; q_pid := %s; q_uid := %s; q_body := %s |}" % (
        z(q["tid"]), z(q["pid"]), z(q["uid"]), msg_term(q["msg"])) for q in sc["reqs"])
    term = ("{| k_fe := %s; k_cfg := %s; k_eof := %s; k_units := %s; k_reqs := %s; k_chunks := %s; "
            "k_written := %s; k_final := %s |}") % (
        string(sc["fe"]), L.cfg_term(cfg), boolean(eof),
        lst("(%s, %s)" % (z(u), X.layout_term(Lay)) for u, Lay in sc["units"]),
        reqs, lst(nb(bytes.fromhex(c)) for c in sc["chunks"]), nb(written),
        lst("(%s, %s)" % (z(u), dump_list_term(dumps[u])) for u, _ in sc["units"]))
    desc = {"scenario": sc, "written": written.hex(), "escaped": escaped}
    kind = "%s/%s/%s" % (sc["fe"], "single" if cfg["single"] else "multi", sc["eof_kind"])
    return Case(term, desc, kind=kind, nontrivial=bool(written)), escaped


_BROKEN = []


def suites(tier):
    _BROKEN[:] = []
    cases = []
    for fe in FES:                      # the front-end is enumerated, never drawn
        r = common.rng("C09.e2e_" + fe)
        n = {"sync_tcp": 300, "aio_tcp": 120, "tw_tcp": 120}[fe] * (1 if tier == "quick" else 6)
        for _ in range(n):
            sc = gen_scenario(r, fe)
            c, escaped = case_of(sc)
            if escaped:
                _BROKEN.append("e2e_tcp/%s: exception escaped the front-end on well-formed traffic: %s %s" % (fe, escaped, sc))
            cases.append(c)
    return [Suite("e2e_tcp", IMPORTS, CHK, cases, shard=40)] + serial_suites(tier) + ext_suites(tier)


def extra_checks(tier):
    return {"e2e_harness": {"evaluations": 0, "failures": [], "broken": list(_BROKEN), "samples": [], "keys": []}}


def classify(suite, desc):
    return None


def replay_case(suite, desc):
    if not suite.startswith("e2e_"):
        return None
    import json
    from lib import coqrun
    sc = desc["scenario"]
    sc["units"] = [(u, X.norm_layout(Lay)) for u, Lay in sc["units"]]
    for q in sc["reqs"]:
        q["msg"] = tuple(q["msg"])
    if suite.startswith("e2e_ext_"):
        c, escaped = ext_case_of(sc)
        r = coqrun.eval_cases("C09_e2e_replay", EXT_IMPORTS, EXT_CHK, [c.term])
    elif suite.startswith("e2e_serial_"):
        c, escaped = serial_case_of(sc)
        r = coqrun.eval_cases("C09_e2e_replay", SERIAL_IMPORTS, SERIAL_CHK, [c.term])
    else:
        c, escaped = case_of(sc)
        r = coqrun.eval_cases("C09_e2e_replay", IMPORTS, CHK, [c.term])
    print(json.dumps({"written": c.desc["written"], "escaped": escaped})[:1500], r)
    return bool(r["propfail"] or r["errors"] or r["disagree"])
