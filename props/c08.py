"""C08 — Synchronous client returns only the reply to its own request."""
from . import lib_client_suites as S
from . import c13 as _c13

ID = "C08"
GENERATORS = ["client", "framer_tcpascii", "framer_rtubin", "pdu"]
PROP_FILE = "C08"
PROP_FILES = ["C08", "C08_tcp", "C08_rtu", "C08_e2e"]
CASE_DEPS = S.CASE_DEPS
RULE = _c13.RULE + ("; C08 judges the same runs by pairing (transaction id on TCP, unit id on serial framings, function code), "
                    "'decoded from bytes delivered during this call', and conformant normal/exception replies for all 20 request types x 8 client kinds")
TRUSTED = _c13.TRUSTED
ASSUMPTIONS = _c13.ASSUMPTIONS[1:]
MANIFEST = {
    "text": ("Coq theorems (Props/C08.v) about the model of ModbusTransactionManager.execute instantiated with the skeleton "
             "regenerated from transaction.py: a returned reply was delivered by the framer from bytes read during this call "
             "(empty transaction table + framer reset are invariants over all histories, tid = (t+1) mod 65536 incl. wrap), a "
             "conformant reply is returned decoded, the unit id matches on serial framings except requests to unit 0/255; the "
             "transaction-id / function-code pairing is REFUTED on a concrete witness (finding #17) and stays a known finding. "
             "The model is run against the real clients over scripted transports for every request type and framing."),
    "note": "Trusted: Coq kernel, translator shape matching, recorded framer transitions (framer + decoder are abstract), fake transports.",
    "design_ref": "DESIGN.md section 8 (C08)",
}

EXTRA = [dict(kind=k, retries=0, roe=False, roi=False, tid0=0,
              txs=[dict(req="write_coil", unit=5, script=[("full", {})])]) for k in ("binary", "tcp_binary")]


def suites(tier):
    return S.client_suites(tier, "chk_c08", extra=EXTRA + S.foreign_then_own_specs())


def classify(suite, desc):
    return S.classify_case("C08", desc)


def replay_finding(f):
    w = f["witness"]
    spec = dict(w)
    spec["txs"] = [dict(req=t["req"], unit=t["unit"], script=[(b, p) for b, p in t.get("script", [])]) for t in w["txs"]]
    c = S.make_case(spec, "replay")
    if f.get("status") == "fixed":
        return bool(S.failing_txns("C08", c.desc))       # the witness must pass from now on
    return S.classify_case("C08", c.desc) == f["id"]


def replay_case(suite, desc):
    import json
    print(json.dumps(desc)[:3000])
    if "spec" not in desc:
        return True
    return S.replay_spec("C08", desc["spec"])
