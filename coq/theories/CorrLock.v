(* CorrLock.v — harness side of C15: the model run at the granularity at which the Python
   harness can pre-empt real threads (a thread is parked BEFORE every connect / lock
   acquisition / send / receive and AFTER every lock release), the comparison with the trace
   the real client produced under the same schedule, and the PROPERTY oracle, which looks
   only at what was observed on the real client. *)
From PM.theories Require Import Base Lock.
Open Scope list_scope.

Definition parks_before (o : lop) : bool :=
  match o with ConnectCheck | Acquire | Connect | Send | SendB | Recv => true | _ => false end.

Definition next_op (σ : state) (t : nat) : option (option lop) :=   (* Some None = return *)
  match nth_error (st_thr σ) t with
  | Some th => match th_prog th with
               | [] => None
               | [] :: _ => Some None
               | (o :: _) :: _ => Some (Some o)
               end
  | None => None
  end.

(* after one operation has been executed: keep going until the next parking point *)
Fixpoint drain (fuel : nat) (re : bool) (last : option lop) (σ : state) (t : nat) : state :=
  match fuel with
  | O => σ
  | S f =>
      match last with
      | Some Release => σ                              (* parked after the release *)
      | _ =>
          match next_op σ t with
          | None => σ
          | Some (Some o) =>
              if parks_before o then σ
              else match step re σ t with Some σ' => drain f re (Some o) σ' t | None => σ end
          | Some None =>
              match step re σ t with Some σ' => drain f re None σ' t | None => σ end
          end
      end
  end.

Definition cstep (re : bool) (σ : state) (t : nat) : option state :=
  match next_op σ t with
  | None => None
  | Some o => match step re σ t with
              | Some σ' => Some (drain 200 re o σ' t)
              | None => None
              end
  end.

(* every scheduled thread must be enabled (the harness only schedules enabled threads) *)
Fixpoint crun (re : bool) (sched : list nat) (σ : state) : option state :=
  match sched with
  | [] => Some σ
  | t :: r => match cstep re σ t with Some σ' => crun re r σ' | None => None end
  end.

(* ---- one case --------------------------------------------------------------------------- *)

Definition obs_event := (nat * nat * evkind)%type.            (* thread, call index, kind *)
Definition obs_result := option (N * nat * nat)%type.         (* reply: wire tid, request identity *)

Record lcase := {
  lc_prog : list (list bool);          (* per thread, per call: is it a broadcast request? *)
  lc_sched : list nat;                 (* the schedule the harness drove *)
  lc_log : list obs_event;             (* transport log observed on the real client *)
  lc_results : list (list obs_result); (* per thread, per call: what execute() returned *)
  lc_completed : bool }.               (* every thread returned from every call *)

Definition obs_event_eqb (a b : obs_event) : bool :=
  let '(t1, k1, e1) := a in let '(t2, k2, e2) := b in
  Nat.eqb t1 t2 && Nat.eqb k1 k2 && evkind_eqb e1 e2.

Definition obs_result_eqb (a b : obs_result) : bool :=
  option_eqb (fun x y => let '(i1, t1, k1) := x in let '(i2, t2, k2) := y in
                         N.eqb i1 i2 && Nat.eqb t1 t2 && Nat.eqb k1 k2) a b.

Definition model_log (σ : state) : list obs_event :=
  map (fun e => (ev_thr e, ev_k e, ev_kind e)) (sh_log (st_sh σ)).

Definition model_results (σ : state) : list (list obs_result) :=
  map (fun th => map (fun kr => match snd kr with
                                | Some f => Some (f_tid f, f_thr f, f_k f)
                                | None => None end) (th_results th)) (st_thr σ).

Definition program (call bcall : list lop) (prog : list (list bool)) : list (list (list lop)) :=
  map (map (fun b : bool => if b then bcall else call)) prog.

Definition lc_calls (c : lcase) : list nat := map (@length bool) (lc_prog c).

Definition model_agrees (call bcall : list lop) (c : lcase) : bool :=
  match crun true (lc_sched c) (init 0 (program call bcall (lc_prog c))) with
  | None => false
  | Some σ =>
      list_eqb obs_event_eqb (model_log σ) (lc_log c)
      && list_eqb (list_eqb obs_result_eqb) (model_results σ) (lc_results c)
      && Bool.eqb (all_done σ) (lc_completed c)
  end.

(* ---- property oracle (spec side; sees only the observed log and results) ------------------ *)

(* request frames / transport operations of different transactions are never interleaved:
   once the log has moved on from a transaction (t,k) it never comes back to it *)
Fixpoint tag_mem (x : nat * nat) (l : list (nat * nat)) : bool :=
  match l with [] => false | y :: r => (Nat.eqb (fst x) (fst y) && Nat.eqb (snd x) (snd y)) || tag_mem x r end.

Fixpoint contig_from (closed : list (nat * nat)) (cur : option (nat * nat)) (l : list obs_event) : bool :=
  match l with
  | [] => true
  | (t, k, _) :: r =>
      match cur with
      | Some c => if Nat.eqb (fst c) t && Nat.eqb (snd c) k then contig_from closed cur r
                  else negb (tag_mem (t, k) (c :: closed)) && contig_from (c :: closed) (Some (t, k)) r
      | None => negb (tag_mem (t, k) closed) && contig_from closed (Some (t, k)) r
      end
  end.
Definition contiguous_log (l : list obs_event) : bool := contig_from [] None l.

(* at most one transaction between its send and the end of its receive *)
Fixpoint no_overlap_from (fl : option (nat * nat)) (l : list obs_event) : bool :=
  match l with
  | [] => true
  | (t, k, kd) :: r =>
      match kd with
      | KConnect => no_overlap_from fl r
      | KSendB => match fl with None => no_overlap_from None r | Some _ => false end
      | KSend => match fl with
                 | None => no_overlap_from (Some (t, k)) r
                 | Some c => Nat.eqb (fst c) t && Nat.eqb (snd c) k && no_overlap_from fl r
                 end
      | KRecv => match fl with
                 | None => no_overlap_from None r
                 | Some c => Nat.eqb (fst c) t && Nat.eqb (snd c) k && no_overlap_from None r
                 end
      end
  end.
Definition no_overlap (l : list obs_event) : bool := no_overlap_from None l.

(* every caller got the reply to its own request (a broadcast: its own acknowledgement),
   exactly one per call *)
Fixpoint own_from (t k : nat) (rs : list obs_result) : bool :=
  match rs with
  | [] => true
  | Some (_, t', k') :: r => Nat.eqb t t' && Nat.eqb k k' && own_from t (S k) r
  | None :: _ => false
  end.
Fixpoint own_all (t : nat) (calls : list nat) (rss : list (list obs_result)) : bool :=
  match calls, rss with
  | [], [] => true
  | n :: cs, rs :: r => Nat.eqb (length rs) n && own_from t 0 rs && own_all (S t) cs r
  | _, _ => false
  end.

(* each request was written exactly once: one KSend per (t,k) *)
Fixpoint count_send (t k : nat) (l : list obs_event) : nat :=
  match l with
  | [] => 0
  | (t', k', KSend) :: r | (t', k', KSendB) :: r =>
      (if Nat.eqb t t' && Nat.eqb k k' then 1 else 0) + count_send t k r
  | _ :: r => count_send t k r
  end.
Fixpoint sends_once_k (t : nat) (n : nat) (l : list obs_event) : bool :=
  match n with O => true | S m => Nat.eqb (count_send t m l) 1 && sends_once_k t m l end.
Fixpoint sends_once (t : nat) (calls : list nat) (l : list obs_event) : bool :=
  match calls with [] => true | n :: r => sends_once_k t n l && sends_once (S t) r l end.

Definition property_holds (c : lcase) : bool :=
  lc_completed c && contiguous_log (lc_log c) && no_overlap (lc_log c)
  && own_all 0 (lc_calls c) (lc_results c) && sends_once 0 (lc_calls c) (lc_log c).

Definition chk_lock (call bcall : list lop) (c : lcase) : bool * bool :=
  (model_agrees call bcall c, property_holds c).
