(* ClientRtu_proofs.v — the serial (RTU) client over the CONCRETE RTU framer model: adapter from FrRtu.rtu_recv
   (records regenerated from rtu_framer.py / factory.py, GenFramerB) to the abstract [Client.framer] interface, and the
   named framer hypotheses of proofs/Client_proofs.v discharged from proofs/FrB_rtu_client_proofs.v.

   The adapter's state type is the set of states that satisfy the framer's reachable-state invariant [rtu_inv] and hold
   only bytes (the adapter therefore contains proofs and lives in proofs/, not in theories/).  A read that is not a byte
   string (some element >= 256 — impossible for a Python bytes object) is ignored by the adapter.  Decoder table:
   [client_simple] (ClientDecoder without ReadFifoQueueResponse / ReadDeviceInformationResponse). *)
From Coq Require Import ZifyBool.
From PM.theories Require Import Base Expr Struct FrBCode Crc FrBCommon FrRtu FrSpecB.
From PM.Generated Require Import GenFramerB GenClient.
From PM.proofs Require Import Struct_proofs Crc_proofs FrB_rtu_proofs FrB_rtu_client_proofs.
From PM.theories Require Import Client CorrClient.
From PM.proofs Require Import Client_proofs.
Open Scope list_scope.
Open Scope Z_scope.

Record rok := { rs_st : rstate; rs_inv : rtu_inv rs_st; rs_wfb : wfb (r_buf rs_st) = true }.

Definition pdu_id (pdu : bytes) : Z := fold_left (fun a b => a * 256 + Z.of_N b) pdu 1.

(* RTU: populateResult copies the unit id into unit_id AND transaction_id *)
Definition rmsg_of (d : delivered) : Client.msg :=
  {| m_tid := snd d; m_uid := snd d; m_fc := match fst d with b :: _ => Z.of_N b | [] => 0 end; m_id := pdu_id (fst d) |}.

Definition rexc_of (x : fexit) : option pyexn :=
  match x with FOk => None | FExn e => Some e | FOutOfFuel => Some ZeroDivisionError | FMissing => Some AttributeError end.

Section Rtu.
Variable dec : bytes -> FrBCommon.dres.     (* ClientDecoder.decode on a PDU: accepted / None *)
Hypothesis dec_total : forall pdu, dec pdu = FrBCommon.DMsg \/ dec pdu = FrBCommon.DNone.

Definition ucfg (u : Z) : fcfg := {| cf_dec := dec; cf_rules := client_simple; cf_units := [u]; cf_single := false |}.

Lemma wfb_suffix (a b c : bytes) : wfb a = true -> a = b ++ c -> wfb c = true.
Proof. intros H ->. rewrite wfb_app in H. apply andb_true_iff in H. apply H. Qed.

Lemma rtu_recv_ok u st d st' ds x :
  rtu_inv st -> wfb (r_buf st) = true -> wfb d = true -> rtu_recv (ucfg u) st d = (st', ds, x) ->
  rtu_inv st' /\ wfb (r_buf st') = true /\ (x = FOk \/ x = FExn ModbusIOExc).
Proof.
  intros Hi Hb Hd R.
  assert (Hw : wfb (r_buf st ++ d) = true) by (rewrite wfb_app, Hb, Hd; reflexivity).
  destruct (rtu_raises_only_io (ucfg u) st d st' ds x client_simple_ok Hw Hi R) as (_ & _ & Hi' & pre & Hpre).
  split; [exact Hi'|]. split; [eapply wfb_suffix; eassumption|].
  exact (rtu_raises_only_io_total (ucfg u) st d st' ds x client_simple_ok Hw Hi dec_total R).
Qed.

(* one processIncomingPacket call of the adapter, with the proofs the next call needs *)
Definition rtu_step_sig (u : Z) (s : rok) (d : bytes) :
  { r : rok * list delivered * fexit |
    if wfb d then rtu_recv (ucfg u) (rs_st s) d = (rs_st (fst (fst r)), snd (fst r), snd r)
    else r = (s, [], FOk) }.
Proof.
  destruct (wfb d) eqn:Hd.
  - destruct (rtu_recv (ucfg u) (rs_st s) d) as [[st' ds] x] eqn:R.
    destruct (rtu_recv_ok u (rs_st s) d st' ds x (rs_inv s) (rs_wfb s) Hd R) as (Hi & Hw & _).
    exists (Build_rok st' Hi Hw, ds, x). reflexivity.
  - exists (s, [], FOk). reflexivity.
Defined.

Definition rok_reset (s : rok) : rok := Build_rok (rtu_reset (rs_st s)) (rtu_inv_reset (rs_st s)) eq_refl.
Definition rok_init : rok := Build_rok rtu_init rtu_inv_init eq_refl.

Definition rtu_framer : framer rok := {|
  f_nonempty := fun s => match r_buf (rs_st s) with [] => false | _ => true end;
  f_reset := rok_reset;
  f_build := fun rq tid => match rtu_build (r_unit rq) (r_fc rq) [] with Ok b => b | Raise _ => [] end;
  f_process := fun s data u =>
    let r := proj1_sig (rtu_step_sig u s data) in (fst (fst r), map rmsg_of (snd (fst r)), rexc_of (snd r))
|}.

Lemma rtu_process_spec s d u s' ms ex :
  wfb d = true -> f_process rtu_framer s d u = (s', ms, ex) ->
  exists ds x, rtu_recv (ucfg u) (rs_st s) d = (rs_st s', ds, x) /\ ms = map rmsg_of ds /\ ex = rexc_of x.
Proof.
  intros Hd H. cbn [rtu_framer f_process] in H.
  destruct (rtu_step_sig u s d) as [[[s2 ds] x] P]. cbn [proj1_sig fst snd] in *. rewrite Hd in P.
  inversion H; subst. exists ds, x. repeat split; try reflexivity. exact P.
Qed.

Lemma rtu_process_nonbytes s d u : wfb d = false -> f_process rtu_framer s d u = (s, [], None).
Proof.
  intros Hd. cbn [rtu_framer f_process].
  destruct (rtu_step_sig u s d) as [[[s2 ds] x] P]. cbn [proj1_sig fst snd]. rewrite Hd in P.
  inversion P; subst. reflexivity.
Qed.

(* ---- the named hypotheses *)
Lemma rtu_framer_raises_io : framer_raises_io rok rtu_framer.
Proof.
  intros fs d u fs' ms e H. destruct (wfb d) eqn:Hd.
  - destruct (rtu_process_spec fs d u fs' ms (Some e) Hd H) as (ds & x & R & _ & Hx).
    destruct (rtu_recv_ok u (rs_st fs) d (rs_st fs') ds x (rs_inv fs) (rs_wfb fs) Hd R) as (_ & _ & [-> | ->]);
      cbn in Hx; congruence.
  - rewrite rtu_process_nonbytes in H by exact Hd. inversion H.
Qed.

Lemma rtu_reset_empties : reset_empties rok rtu_framer.
Proof. intro fs. reflexivity. Qed.

Lemma spec_adu_rtu_wfb u pdu : wfb (u :: pdu) = true -> wfb (spec_adu_rtu u pdu) = true.
Proof.
  intro Hw. destruct (spec_adu_rtu_shape u pdu Hw) as (lo & hi & -> & Hlo & Hhi & _).
  rewrite wfb_app, Hw. cbn [wfb forallb byteb andb]. unfold byteb.
  apply N.ltb_lt in Hlo. apply N.ltb_lt in Hhi. rewrite Hlo, Hhi. reflexivity.
Qed.

Lemma rtu_conformant_frame (u : N) pdu :
  valid_frame (ucfg (Z.of_N u)) true u pdu ->
  conformant_frame rok rtu_framer (spec_adu_rtu u pdu) (Z.of_N u) (rmsg_of (pdu, Z.of_N u)).
Proof.
  intros V fs Hne. cbn [rtu_framer f_nonempty] in Hne.
  assert (Hb : r_buf (rs_st fs) = []) by (destruct (r_buf (rs_st fs)); [reflexivity|discriminate]).
  pose proof (spec_adu_rtu_wfb u pdu (vf_wfb _ _ _ _ V)) as Hw.
  pose proof (rtu_whole_frame_any (ucfg (Z.of_N u)) (rs_st fs) u pdu (rs_inv fs) Hb V) as R.
  cbn [rtu_framer f_process].
  destruct (rtu_step_sig (Z.of_N u) fs (spec_adu_rtu u pdu)) as [[[s2 ds] x] P]. cbn [proj1_sig fst snd] in *.
  rewrite Hw in P. rewrite R in P. inversion P; subst. exists s2. reflexivity.
Qed.
End Rtu.

(* ------------------------------------------------------------------ the serial transport that serves an RTU frame *)
Definition rtu_script (full : bool) (adu : bytes) : list tev :=
  if full then [Data adu] else [Data (firstn 2 adu); Data (skipn 2 adu)].

(* what C14 provides for the request at hand: the predicted frame length is not smaller than the real frame *)
Definition fits (exp : option Z) (adu : bytes) : Prop := match exp with Some n => zlen adu <= n | None => True end.

Lemma clip_all sz (x : bytes) : fits sz x -> clip sz x = x.
Proof. destruct sz as [n|]; cbn [fits clip]; [|reflexivity]. unfold zlen. intro H. apply firstn_all2. lia. Qed.

Lemma serves_rtu (u fcb : N) data exp full :
  wfb (u :: fcb :: data) = true ->
  fits exp (spec_adu_rtu u (fcb :: data)) ->
  (128 <= Z.of_N fcb -> length data = 1%nat) ->
  serves FRtu exp full (spec_adu_rtu u (fcb :: data)) (rtu_script full (spec_adu_rtu u (fcb :: data))).
Proof.
  intros Hw Hfit Hexc w rest Hs.
  destruct (spec_adu_rtu_shape u (fcb :: data) Hw) as (lo & hi & E & _). rewrite E in *. clear E.
  unfold rtu_script in Hs. unfold recv_model. destruct full.
  - cbn [app] in Hs. destruct (pop_script w (CRecv exp) _ _ Hs) as (w1 & Hp & H1).
    unfold Client.t_recv. rewrite Hp. rewrite clip_all by exact Hfit. exists w1. split; [reflexivity|exact H1].
  - cbn [app firstn skipn] in Hs. cbn [g_min_size code].
    destruct (pop_script w (CRecv (Some 2)) _ _ Hs) as (w1 & Hp & H1).
    unfold Client.t_recv at 1. rewrite Hp. cbn [clip]. change (Z.to_nat 2) with 2%nat. cbn [firstn].
    unfold zlen at 1. cbn [length]. change (Z.of_nat 2 =? 2) with true. cbn [negb].
    unfold func_code. cbn [last]. cbn [g_err_threshold code]. change (exception_length code FRtu) with 5.
    destruct (Z.of_N fcb <? 128) eqn:Hfc.
    + match goal with |- context [Client.t_recv w1 ?sz] => destruct (pop_script w1 (CRecv sz) _ _ H1) as (w2 & Hp2 & H2) end.
      unfold Client.t_recv. rewrite Hp2.
      rewrite clip_all.
      * exists w2. split; [reflexivity|exact H2].
      * destruct exp as [n|]; cbn [fits] in *; [|exact I]. unfold zlen in *. cbn [app length] in *. lia.
    + match goal with |- context [Client.t_recv w1 ?sz] => destruct (pop_script w1 (CRecv sz) _ _ H1) as (w2 & Hp2 & H2) end.
      unfold Client.t_recv. rewrite Hp2. rewrite clip_all.
      * exists w2. split; [reflexivity|exact H2].
      * cbn [fits]. unfold zlen. rewrite app_length. rewrite (Hexc ltac:(lia)). cbn. lia.
Qed.

Lemma decode_data_rtu (u : N) pdu : (1 <= length pdu)%nat ->
  exists mb, decode_data 7 FRtu (spec_adu_rtu u pdu) = Ok mb /\ mb_unit mb = Some (Z.of_N u).
Proof.
  intros Hp. unfold decode_data, spec_adu_rtu, with_crc. cbn [app].
  destruct pdu as [|b t]; [cbn in Hp; lia|].
  unfold zlen. cbn [app length]. replace (Z.of_nat (S (S _)) >? 1) with true by lia.
  eexists. split; reflexivity.
Qed.

(* ------------------------------------------------------------------ corollaries for the serial RTU client *)
Section RtuClient.
Variable dec : bytes -> FrBCommon.dres.
Hypothesis dec_total : forall pdu, dec pdu = FrBCommon.DMsg \/ dec pdu = FrBCommon.DNone.
Notation F := (rtu_framer dec dec_total).

Theorem no_raise_rtu c st rq sc st' o :
  c_framing c = FRtu -> s_tx st = [] -> execute code rok F c st rq sc = (st', o) ->
  match o_res o with
  | RReply _ | RErr _ | RBroadcast => True
  | RRaise e => e = ConnectionExc /\ s_conn st' = false
  | RNone | RStuck => False
  end.
Proof.
  intros Hfr Htx H. eapply execute_no_raise; try eassumption.
  - rewrite Hfr. discriminate.
  - exact (rtu_framer_raises_io dec dec_total).
Qed.

(* provenance: the reply is the decoding of a PDU that sits, with the reply's unit id in front and a matching
   CRC-16 behind, inside the bytes this call read *)
Theorem from_this_call_rtu c st rq sc st' o m :
  s_tx st = [] -> execute code rok F c st rq sc = (st', o) -> o_res o = RReply m ->
  exists resp pdu uid, m = rmsg_of (pdu, uid) /\
    (wfb resp = true ->
     exists u pre rest, resp = pre ++ spec_adu_rtu u pdu ++ rest /\ uid = Z.of_N u /\ crc_ok (spec_adu_rtu u pdu) = true).
Proof.
  intros Htx H Hr.
  destruct (execute_from_this_call rok F c st rq sc st' o m Htx H Hr) as (fs & resp & fs' & ms & Hfs & Hne & Hp & Hin).
  assert (Hb : r_buf (rs_st fs) = []).
  { destruct (f_nonempty F (s_fs st)) eqn:Hq.
    - rewrite (Hne eq_refl). reflexivity.
    - destruct Hfs as [-> | ->]; [|reflexivity]. cbn [rtu_framer f_nonempty] in Hq.
      destruct (r_buf (rs_st (s_fs st))); [reflexivity|discriminate]. }
  destruct (wfb resp) eqn:Hw.
  - destruct (rtu_process_spec dec dec_total fs resp (r_unit rq) fs' ms None Hw Hp) as (ds & x & R & -> & _).
    apply in_map_iff in Hin. destruct Hin as ([pdu uid] & Hd & Hin).
    exists resp, pdu, uid. split; [symmetry; exact Hd|]. intros _.
    destruct (rtu_gate (ucfg dec (r_unit rq)) (rs_st fs) resp (rs_st fs') ds x (table_simple_known _ client_simple_ok)
                ltac:(rewrite Hb; exact Hw) R pdu uid Hin) as (u & pre & rest & E & Eu & Hc & _).
    rewrite Hb in E. cbn [app] in E. exists u, pre, rest. repeat split; assumption.
  - rewrite rtu_process_nonbytes in Hp by exact Hw. inversion Hp; subst. destruct Hin.
Qed.

Theorem conformant_reply_rtu c st rq (u fcb : N) data rest :
  c_framing c = FRtu -> c_udp c = false -> s_tx st = [] -> c_bcast c && (r_unit rq =? 0) = false ->
  0 <= retries_given c ->
  Z.of_N u = r_unit rq -> valid_frame (ucfg dec (r_unit rq)) true u (fcb :: data) ->
  fits (exp_of c rq) (spec_adu_rtu u (fcb :: data)) ->          (* C14: predicted length >= real frame length *)
  (128 <= Z.of_N fcb -> length data = 1%nat) ->
  exists st' o,
    execute code rok F c st rq
      ((if s_conn st then [] else [Nothing])
         ++ attempt true (rtu_script (full_of rok c st rq) (spec_adu_rtu u (fcb :: data))) ++ rest) = (st', o)
    /\ o_res o = RReply (rmsg_of (fcb :: data, r_unit rq)) /\ s_tx st' = [] /\ s_tid st' = next_tid code (s_tid st).
Proof.
  intros Hfr Hudp Htx Hb Hr Hu Hv Hfit Hexc.
  apply (execute_empties_then_reply rok F c st rq (spec_adu_rtu u (fcb :: data))
           (rtu_script (full_of rok c st rq) (spec_adu_rtu u (fcb :: data))) rest (rmsg_of (fcb :: data, r_unit rq)) 0%nat);
    try assumption.
  - left; reflexivity.
  - unfold spec_adu_rtu, with_crc. discriminate.
  - intros _. rewrite Hfr, <- Hu. apply decode_data_rtu. cbn. lia.
  - exact (rtu_reset_empties dec dec_total).
  - rewrite <- Hu. rewrite <- Hu in Hv. exact (rtu_conformant_frame dec dec_total u (fcb :: data) Hv).
  - rewrite Hfr. cbn [after_empties snd]. apply serves_rtu; try assumption. exact (vf_wfb _ _ _ _ Hv).
Qed.
End RtuClient.
