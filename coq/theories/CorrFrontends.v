(* CorrFrontends.v — case types and check functions for the C12 / C17 correspondence suites.
   Every [chk_*] returns (model agrees with what the implementation did,
                          PROPERTY holds of what the implementation did). *)
From PM.theories Require Import Base Ladder Frontends.
Open Scope list_scope.
Open Scope Z_scope.

Definition raised_eqb (a b : raised) : bool :=
  match a, b with
  | RPy x, RPy y => pyexn_eqb x y
  | RTimeout, RTimeout | RSockErr, RSockErr | RCancelled, RCancelled | RBaseExc, RBaseExc => true
  | _, _ => false
  end.

(* ---- suite "ladder": one handler activation ------------------------------------------- *)

Record lcase := {
  lc_fe : frontend;
  lc_its : list (bool * option raised);   (* per loop iteration: read was empty?, what reached the try *)
  lc_obs : flags;                         (* what the handler then did *)
  lc_pips : nat;                          (* processIncomingPacket calls made *)
  lc_bcast : bool;                        (* server.broadcast_enable *)
  lc_slaves : list Z;                     (* context.slaves() *)
  lc_ctx_single : bool;                   (* context.single *)
  lc_args : option (list Z * bool);       (* (unit, single) handed to the framer in the first call; None: no call *)
  lc_delivered : nat;                     (* requests the framer handed to the callback *)
  lc_store_changed : bool;
  lc_listen_only : bool }.                (* ModbusControlBlock.ListenOnly before the activation *)

Definition zlist_eqb := list_eqb Z.eqb.

Definition expected_args (L : loop_skel) (bc : bool) (slaves : list Z) (single empty : bool) : option (list Z * bool) :=
  let prepared := if bc && negb (existsb (Z.eqb 0) slaves) then slaves ++ [0] else slaves in
  match ls_units L with
  | UnitsOmitted => None
  | UnitsPrepared => Some (prepared, if ls_single L then single else false)
  | UnitsPreparedIfData => Some (if empty then slaves else prepared, if ls_single L then single else false)
  | UnitsRaw => Some (slaves, if ls_single L then single else false)
  end.

Definition args_eqb (a b : option (list Z * bool)) : bool :=
  match a, b with
  | Some (u, s), Some (v, t) => zlist_eqb u v && Bool.eqb s t
  | None, None => true
  | _, _ => false
  end.

Definition all_raise_py (its : list (bool * option raised)) (e : pyexn) : bool :=
  match its with
  | [(_, Some (RPy x))] => pyexn_eqb x e
  | _ => false
  end.

Definition chk_ladder (C : fe_code) (c : lcase) : bool * bool :=
  let L := fc_loop C (lc_fe c) in
  let gated := ls_listen_gate L && lc_listen_only c in
  let agree_flags := flags_eqb (iter_flags L (lc_its c)) (lc_obs c) in
  let agree_pre :=
    match pre_raise L with
    | Some e => all_raise_py (lc_its c) e && Nat.eqb (lc_pips c) 0
    | None =>
        if gated then Nat.eqb (lc_pips c) 0
        else match ls_units L with
             | UnitsOmitted => Nat.eqb (lc_pips c) 0 || all_raise_py (lc_its c) TypeError
             | _ => match lc_args c with
                    | Some a => args_eqb (expected_args L (lc_bcast c) (lc_slaves c) (lc_ctx_single c)
                                                 (match lc_its c with (e, _) :: _ => e | [] => false end)) (Some a)
                    | None => true      (* no framer call in this activation (transport fault, skipped empty read) *)
                    end
             end
    end in
  (* C12_store_only_by_exec: nothing delivered -> shared state untouched *)
  let agree_store := negb (Nat.eqb (lc_delivered c) 0) || negb (lc_store_changed c) in
  (agree_flags && agree_pre && agree_store,
   (* PROPERTY (C12, first sentence): no exception leaves the serving loop *)
   negb (f_escape (lc_obs c))).

(* ---- suite "probe": a well-formed request on a fresh connection after hostile traffic -- *)

Definition be16 (v : Z) : list Z := [(v / 256) mod 256; v mod 256].

(* spec: MBAP header + read-registers response (Modbus Application Protocol 6.3 / 6.4) *)
Definition spec_read_regs_response (tid uid fc : Z) (vals : list Z) : list Z :=
  be16 tid ++ be16 0 ++ be16 (3 + 2 * Z.of_nat (length vals)) ++ [uid; fc; 2 * Z.of_nat (length vals)]
  ++ flat_map be16 vals.

Record pcase := {
  pc_tid : Z; pc_uid : Z; pc_fc : Z;
  pc_valid : bool;                  (* the whole addressed range exists in the configured table *)
  pc_vals : list Z;                 (* the addressed cells of the datastore at probe time *)
  pc_answer : list (list Z);        (* what the fresh connection sent back *)
  pc_fresh_answer : list (list Z)   (* what a brand-new server holding the same datastore sends *) }.

Definition chk_probe (c : pcase) : bool * bool :=
  (list_eqb zlist_eqb (pc_answer c) (pc_fresh_answer c),
   list_eqb zlist_eqb (pc_answer c)
     [if pc_valid c then spec_read_regs_response (pc_tid c) (pc_uid c) (pc_fc c) (pc_vals c)
      else (* exception response, ILLEGAL DATA ADDRESS *)
           be16 (pc_tid c) ++ be16 0 ++ be16 3 ++ [pc_uid c; pc_fc c + 128; 2]]).

(* ---- suite "store": the datastore changes only as contained write requests prescribe ---- *)
(* Socket (MBAP) framing.  A well-formed write request CONTAINED in the received bytes is any
   position of the connection's byte stream where an MBAP header with length field L is followed
   by an L-1 byte PDU that is a write request of the Modbus Application Protocol. *)

Inductive wreq :=
| WCoil (uid addr : Z) (v : Z)
| WReg (uid addr : Z) (v : Z)
| WCoils (uid addr : Z) (bits : list Z)
| WRegs (uid addr : Z) (vals : list Z)
| WMask (uid addr : Z) (andm orm : Z).

Fixpoint take_z (n : nat) (l : list Z) : option (list Z) :=
  match n, l with
  | O, _ => Some []
  | S k, x :: t => match take_z k t with Some r => Some (x :: r) | None => None end
  | S _, [] => None
  end.

Definition w16 (hi lo : Z) : Z := hi * 256 + lo.

Fixpoint words (l : list Z) : list Z :=
  match l with
  | hi :: lo :: t => w16 hi lo :: words t
  | _ => []
  end.

Fixpoint bits_of_byte (n : nat) (b : Z) : list Z :=
  match n with O => [] | S k => (b mod 2) :: bits_of_byte k (b / 2) end.

(* PDU -> write request.  STRICT about a PDU that is shorter than its own header announces (fewer
   data bytes than the byte count, or a byte count that does not match the quantity): such a
   PDU is not a write request, so any datastore change it causes is unexplained.  Lenient where the code under test is known to be lenient for reasons
   owned by C05 (FC5 value word other than FF00 clears; FC15 writes every bit of the data bytes;
   bytes after a complete request PDU are ignored — finding F-C12-overlong-pdu-executed). *)
Definition pdu_write (uid : Z) (pdu : list Z) : option wreq :=
  match pdu with
  | 5 :: ah :: al :: vh :: vl :: _ => Some (WCoil uid (w16 ah al) (if (w16 vh vl =? 65280) then 1 else 0))
  | 6 :: ah :: al :: vh :: vl :: _ => Some (WReg uid (w16 ah al) (w16 vh vl))
  | 15 :: ah :: al :: qh :: ql :: bc :: data =>
      if (bc <=? Z.of_nat (length data)) && (1 <=? bc) then Some (WCoils uid (w16 ah al) (flat_map (bits_of_byte 8) (firstn (Z.to_nat bc) data))) else None
  | 16 :: ah :: al :: qh :: ql :: bc :: data =>
      if (bc <=? Z.of_nat (length data)) && (bc =? 2 * w16 qh ql) && (1 <=? w16 qh ql) then Some (WRegs uid (w16 ah al) (words (firstn (Z.to_nat bc) data))) else None
  | 22 :: ah :: al :: nh :: nl :: oh :: ol :: _ => Some (WMask uid (w16 ah al) (w16 nh nl) (w16 oh ol))
  | 23 :: _ :: _ :: _ :: _ :: ah :: al :: qh :: ql :: bc :: data =>
      if (bc <=? Z.of_nat (length data)) && (bc =? 2 * w16 qh ql) && (1 <=? w16 qh ql) then Some (WRegs uid (w16 ah al) (words (firstn (Z.to_nat bc) data))) else None
  | _ => None
  end.

Definition mbap_write_at (s : list Z) : option wreq :=
  match s with
  | _ :: _ :: _ :: _ :: lh :: ll :: uid :: rest =>
      let L := w16 lh ll in
      if 2 <=? L then match take_z (Z.to_nat (L - 1)) rest with Some pdu => pdu_write uid pdu | None => None end
      else None
  | _ => None
  end.

Fixpoint contained_writes (s : list Z) : list wreq :=
  match s with
  | [] => []
  | _ :: t => match mbap_write_at s with Some w => w :: contained_writes t | None => contained_writes t end
  end.

(* a changed cell: unit, table (0 coils, 1 holding registers), address, old and new value *)
Record cell := { ce_unit : Z; ce_table : Z; ce_addr : Z; ce_old : Z; ce_new : Z }.

Definition unit_ok (single bcast : bool) (wu cu : Z) : bool :=
  single || (wu =? cu) || (bcast && (wu =? 0)).

Definition nth_z (l : list Z) (i : Z) : option Z := if i <? 0 then None else nth_error l (Z.to_nat i).

(* the configured tables: (unit, table, first block address, one past the last) — the cells that
   exist BEFORE any request; a request is valid only if its whole range lies inside *)
Definition extent := (Z * Z * Z * Z)%type.
Definition in_extent (ex : list extent) (unit table lo n : Z) : bool :=
  existsb (fun e => match e with (u, t, a, b) => (u =? unit) && (t =? table) && (a <=? lo) && (lo + n <=? b) end) ex.

(* [off]: wire address -> block address (0 in zero_mode, 1 otherwise).  A cell whose old or new
   value is -1 did not exist before / does not exist after: a table that grew or shrank is a
   change no request prescribes. *)
Definition explains (single bcast : bool) (off : Z) (ex : list extent) (c : cell) (w : wreq) : bool :=
  (0 <=? ce_old c) && (0 <=? ce_new c) &&
  match w with
  | WCoil u a v => unit_ok single bcast u (ce_unit c) && (ce_table c =? 0) && (a + off =? ce_addr c) && (v =? ce_new c)
                   && in_extent ex (ce_unit c) 0 (a + off) 1
  | WReg u a v => unit_ok single bcast u (ce_unit c) && (ce_table c =? 1) && (a + off =? ce_addr c) && (v =? ce_new c)
                  && in_extent ex (ce_unit c) 1 (a + off) 1
  | WCoils u a bits => unit_ok single bcast u (ce_unit c) && (ce_table c =? 0) &&
                       match nth_z bits (ce_addr c - (a + off)) with Some b => b =? ce_new c | None => false end
                       && in_extent ex (ce_unit c) 0 (a + off) 1
  | WRegs u a vals => unit_ok single bcast u (ce_unit c) && (ce_table c =? 1) &&
                      match nth_z vals (ce_addr c - (a + off)) with Some v => v =? ce_new c | None => false end
                      && in_extent ex (ce_unit c) 1 (a + off) (Z.of_nat (length vals))
  | WMask u a andm orm => unit_ok single bcast u (ce_unit c) && (ce_table c =? 1) && (a + off =? ce_addr c) &&
                          (Z.lor (Z.land (ce_old c) andm) (Z.land orm (Z.lxor andm 65535)) =? ce_new c)
                          && in_extent ex (ce_unit c) 1 (a + off) 1
  end.

(* -- the other framings: a contained request is a checksum-valid frame of that framing -------- *)

Inductive framing := FSocket | FAscii | FBinary | FTls.

(* CRC-16/MODBUS, bit by bit (polynomial 0xA001 reflected, initial value 0xFFFF) *)
Fixpoint crc_bits (n : nat) (c : Z) : Z :=
  match n with
  | O => c
  | S k => crc_bits k (if Z.odd c then Z.lxor (Z.shiftr c 1) 40961 else Z.shiftr c 1)
  end.
Definition crc16 (l : list Z) : Z := fold_left (fun c b => crc_bits 8 (Z.lxor c b)) l 65535.
Definition lrc8 (l : list Z) : Z := (- fold_left Z.add l 0) mod 256.

Definition hexval (c : Z) : option Z :=
  if (48 <=? c) && (c <=? 57) then Some (c - 48)
  else if (65 <=? c) && (c <=? 70) then Some (c - 55)
  else if (97 <=? c) && (c <=? 102) then Some (c - 87)
  else None.

(* hex pairs up to the first CR LF *)
Fixpoint hex_until_crlf (s : list Z) (acc : list Z) : option (list Z) :=
  match s with
  | 13 :: 10 :: _ => Some (rev acc)
  | h :: l :: t => match hexval h, hexval l with
                   | Some a, Some b => hex_until_crlf t ((a * 16 + b) :: acc)
                   | _, _ => None
                   end
  | _ => None
  end.

(* ':' uid pdu lrc CR LF, all in hex *)
Definition ascii_write_at (s : list Z) : list wreq :=
  match s with
  | 58 :: rest =>
      match hex_until_crlf rest [] with
      | Some bs =>
          let n := length bs in
          match firstn (n - 1) bs, skipn (n - 1) bs with
          | uid :: pdu, [l] => if lrc8 (uid :: pdu) =? l then
                                 match pdu_write uid pdu with Some w => [w] | None => [] end
                               else []
          | _, _ => []
          end
      | None => []
      end
  | _ => []
  end.

(* '{' uid pdu crc(lo hi) '}' — every closing brace is tried (data may contain braces) *)
Definition binary_check (body : list Z) : list wreq :=
  let n := length body in
  match firstn (n - 2) body, skipn (n - 2) body with
  | uid :: pdu, [lo; hi] => if crc16 (uid :: pdu) =? lo + 256 * hi then
                              match pdu_write uid pdu with Some w => [w] | None => [] end
                            else []
  | _, _ => []
  end.

Fixpoint binary_ends (pre rest : list Z) : list wreq :=
  match rest with
  | [] => []
  | c :: t => (if c =? 125 then binary_check (rev pre) else []) ++ binary_ends (c :: pre) t
  end.

Definition binary_write_at (s : list Z) : list wreq :=
  match s with 123 :: rest => binary_ends [] rest | _ => [] end.

Fixpoint scan (f : list Z -> list wreq) (s : list Z) : list wreq :=
  match s with [] => [] | _ :: t => f s ++ scan f t end.

(* TLS framing: one read = one PDU, no unit id (requests carry unit 0) *)
Definition contained (fr : framing) (s : list Z) : list wreq :=
  match fr with
  | FSocket => contained_writes s
  | FAscii => scan ascii_write_at s
  | FBinary => scan binary_write_at s
  | FTls => match pdu_write 0 s with Some w => [w] | None => [] end
  end.

Record scase := {
  sc_framing : framing;
  sc_single : bool; sc_bcast : bool;
  sc_zero_mode : bool;               (* ModbusSlaveContext(zero_mode=...) *)
  sc_extents : list extent;          (* the configured tables *)
  sc_streams : list (list Z);        (* the bytes received, per connection / datagram (TLS: per read) *)
  sc_cells : list cell;              (* every cell whose value changed, with the value before and after *)
  sc_steps : list (nat * bool) }.    (* per activation: requests delivered, datastore changed *)

Definition chk_store (c : scase) : bool * bool :=
  let ws := flat_map (contained (sc_framing c)) (sc_streams c) in
  (forallb (fun s => negb (Nat.eqb (fst s) 0) || negb (snd s)) (sc_steps c),
   forallb (fun ce => (ce_table ce <=? 1) && existsb (explains (sc_single c) (sc_bcast c) (if sc_zero_mode c then 0 else 1) (sc_extents c) ce) ws) (sc_cells c)).

(* sanity: CRC-16/MODBUS of "123456789" is 0x4B37; LRC of 01 03 00 00 00 01 is FB *)
Definition crc_selftest : bool :=
  (crc16 [49; 50; 51; 52; 53; 54; 55; 56; 57] =? 19255) && (lrc8 [1; 3; 0; 0; 0; 1] =? 251).

(* ---- suite "equiv" (C17): the same traffic through the three front-ends ----------------- *)

Record ecase := {
  ec_common : bool;                         (* the harness only sends traffic inside the common features *)
  ec_outs : list (list (list (list Z)));    (* per front-end, per connection: the frames sent *)
  ec_stores : list (list Z);                (* per front-end: flattened final datastore *)
  ec_serial_outs : list (list (list Z));    (* reference: all requests in completion order on ONE connection, split back per connection *)
  ec_serial_store : list Z }.

Definition frames_eqb := list_eqb zlist_eqb.
Definition conns_eqb := list_eqb frames_eqb.

Definition all_equal {A} (eqb : A -> A -> bool) (l : list A) : bool :=
  match l with [] => true | x :: t => forallb (eqb x) t end.

Definition chk_equiv (C : fe_code) (fes : list frontend) (c : ecase) : bool * bool :=
  (* model (C17_step_equiv): front-ends whose generated execute skeletons coincide answer alike *)
  let same_skel := all_equal (fun a b =>
       Bool.eqb (xs_copy_tid (fc_exec C a)) (xs_copy_tid (fc_exec C b)) &&
       Bool.eqb (xs_copy_uid (fc_exec C a)) (xs_copy_uid (fc_exec C b)) &&
       Bool.eqb (xs_send_checks_respond (fc_exec C a)) (xs_send_checks_respond (fc_exec C b))) fes in
  let eq_out := all_equal conns_eqb (ec_outs c) && all_equal zlist_eqb (ec_stores c) in
  let eq_serial := match ec_outs c, ec_stores c with
                   | o :: _, s :: _ => conns_eqb o (ec_serial_outs c) && zlist_eqb s (ec_serial_store c)
                   | _, _ => true
                   end in
  (negb (same_skel && ec_common c) || eq_out, negb (ec_common c) || (eq_out && eq_serial)).

(* ---- a small concrete environment (used by the non-vacuity Examples and refutation witnesses) *)
(* framer state = number of buffered bytes; a chunk starting with 255 is an incomplete frame (it is
   kept, nothing is raised); a chunk starting with 0, or any chunk arriving while bytes are
   buffered, is malformed (StructError, bytes stay buffered); any other chunk is one request
   whose "execution" appends to the world *)
Definition toy_env : env nat Z Z (list Z) := {|
  e_finit := 0%nat;
  e_reset := fun _ => 0%nat;
  e_recv := fun _ f bs =>
    match bs with
    | [] => ([], f, None)
    | b :: _ => if (b =? 255)%N then ([], (f + length bs)%nat, None)        (* incomplete frame: wait *)
                else if (f =? 0)%nat && negb (b =? 0)%N then ([(f, Z.of_N b)], f, None)
                else ([], (f + length bs)%nat, Some StructError)
    end;
  e_slaves := fun _ => [1];
  e_single := fun _ => true;
  e_listen_only := fun _ => false;
  e_run := fun w _ r => (r :: w, Ok r);
  e_uid := fun _ => 1;
  e_doexc := fun _ c => - Z.of_N c;
  e_copy_tid := fun p _ => p;
  e_copy_uid := fun p _ => p;
  e_should_respond := fun _ => true;
  e_count_bus := fun w => w;
  e_build := fun p => Ok [Z.to_N p] |}.

Definition toy_cfg : cfg := {| cfg_broadcast := false; cfg_ignore_missing := false |}.

(* ---- suite "wiring": every real server class constructed with marker arguments ------------ *)

Fixpoint assoc_s {A} (k : string) (l : list (string * A)) : option A :=
  match l with
  | [] => None
  | (j, v) :: t => if String.eqb j k then Some v else assoc_s k t
  end.

(* the roles a front-end's handlers read from their server object *)
Definition required_roles (fe : frontend) : list string :=
  match fe with
  | TwTcp | TwUdp => ["context"; "framer"; "ignore_missing_slaves"; "identity"]%string
  | SyncSerial => ["context"; "framer"; "ignore_missing_slaves"; "broadcast_enable"; "identity"]%string
  | _ => ["context"; "framer"; "handler"; "ignore_missing_slaves"; "broadcast_enable"; "identity"]%string
  end.

Record wcase := {
  wc_server : string; wc_role : string;
  wc_given : bool;            (* the constructor was handed a marker value for this role *)
  wc_obs_given : bool;        (* what the handlers will read IS that marker *)
  wc_obs_default : string }.  (* otherwise: the name of what they will read *)

Definition chk_wiring (W : list (string * list (string * wsrc))) (c : wcase) : bool * bool :=
  let model :=
    match assoc_s (wc_server c) W with
    | Some roles =>
        match assoc_s (wc_role c) roles with
        | Some (WOrDefault _ d) | Some (WKwDefault _ d) =>
            if wc_given c then wc_obs_given c else String.eqb (wc_obs_default c) d
        | Some (WUpdate _) => if wc_given c then wc_obs_given c else negb (wc_obs_given c)
        | Some (WBuilt d) => String.eqb (wc_obs_default c) d
        | None => false
        end
    | None => false
    end in
  (* PROPERTY: the server serves what the user configured *)
  (model, if wc_given c then wc_obs_given c else true).
