(* LockGen_proofs.v — facts about the skeleton regenerated from transaction.py / client/sync.py
   (Generated/GenLock.v).  Everything here is decided by computation on the generated data, so a
   source change that moves an operation out of the `with` block, adds a second lock binding,
   or changes the lock constructor makes one of these fail. *)
From PM.theories Require Import Base Lock.
From PM.Generated Require Import GenLock.
From PM.proofs Require Import Lock_proofs.
Open Scope list_scope.

Lemma gen_bindings_ok : lock_bindings_ok lock_bindings = true.
Proof. vm_compute. reflexivity. Qed.

(* the call as executed on the main path *)
Lemma gen_call_ok : well_bracketed call_skeleton = true.
Proof. vm_compute. reflexivity. Qed.

(* EVERY shared-state site of execute/_transact (both branches of every if, the except
   handlers, the broadcast and local-echo paths) is lexically inside the one bracket *)
Lemma gen_allsites_ok : well_bracketed (client_prefix ++ execute_allsites) = true.
Proof. vm_compute. reflexivity. Qed.

Lemma gen_mainpath_split : execute_mainpath = sk_before_loop ++ sk_loop ++ sk_after_loop.
Proof. vm_compute. reflexivity. Qed.

(* the retry loop taken any number of times *)
Lemma gen_unrolled_ok : forall n, well_bracketed (client_prefix ++ execute_unrolled n) = true.
Proof.
  intro n.
  assert (Hp : client_prefix = [ConnectCheck]) by (vm_compute; reflexivity).
  assert (Hb : exists b, sk_before_loop = Acquire :: b /\ no_lock_ops b = true)
    by (eexists; split; vm_compute; reflexivity).
  assert (Hl : no_lock_ops sk_loop = true) by (vm_compute; reflexivity).
  assert (Ha : closes 1 sk_after_loop = true) by (vm_compute; reflexivity).
  destruct Hb as (b & Hb & Hnb). unfold execute_unrolled. rewrite Hp, Hb.
  cbn [app well_bracketed closes].
  rewrite closes_app_nolock by auto. rewrite closes_repeat by auto. exact Ha.
Qed.

Lemma gen_generated_ok :
  lock_bindings_ok lock_bindings = true /\ well_bracketed call_skeleton = true /\
  well_bracketed (client_prefix ++ execute_allsites) = true /\
  forall n, well_bracketed (client_prefix ++ execute_unrolled n) = true.
Proof.
  split; [apply gen_bindings_ok|]. split; [apply gen_call_ok|]. split; [apply gen_allsites_ok|apply gen_unrolled_ok].
Qed.

(* ---- the generated call, run alone against the in-order peer, returns its own reply -------- *)
From PM.proofs Require Import LockSerial_proofs.

Lemma gen_call_own_ok : own_ok call_skeleton.
Proof.
  unfold own_ok. intros re t k s l s' l' (Hl & Ht & Hf & Hp) H.
  destruct s as [lk tidc tb fb peer lg]. cbn in Hl, Ht, Hf, Hp. subst lk tb fb peer.
  cbn in H. rewrite N.eqb_refl in H. cbn in H. rewrite Nat.eqb_refl in H. cbn in H.
  inversion H; subst. split.
  - repeat split.
  - eexists. split; [reflexivity|]. split; reflexivity.
Qed.

(* a skeleton in which the reply is picked up after the lock has been released is NOT own_ok-
   provable this way and is not well bracketed; see docs/C15.md for the mutation trials *)

Lemma gen_good_program : forall calls, good_program (map (fun n => repeat call_skeleton n) calls).
Proof.
  intro calls. unfold good_program. rewrite Forall_forall. intros p Hp.
  apply in_map_iff in Hp. destruct Hp as (n & <- & _).
  rewrite Forall_forall. intros c Hc. apply repeat_spec in Hc. subst c.
  split; [exact gen_call_ok|exact gen_call_own_ok].
Qed.

(* ---- the broadcast path --------------------------------------------------------------------- *)

Lemma gen_broadcast_ok :
  well_bracketed broadcast_call_skeleton = true /\
  well_bracketed (client_prefix ++ broadcast_allsites) = true.
Proof. vm_compute. split; reflexivity. Qed.

Lemma gen_broadcast_own_ok : own_ok broadcast_call_skeleton.
Proof.
  unfold own_ok. intros re t k s l s' l' (Hl & Ht & Hf & Hp) H.
  destruct s as [lk tidc tb fb peer lg]. cbn in Hl, Ht, Hf, Hp. subst lk tb fb peer.
  cbn in H. rewrite Nat.eqb_refl in H. cbn in H.
  inversion H; subst. split.
  - repeat split.
  - eexists. split; [reflexivity|]. split; reflexivity.
Qed.

(* any mix of unicast and broadcast calls *)
Lemma gen_good_program_mixed : forall prog : list (list bool),
  good_program (map (map (fun b : bool => if b then broadcast_call_skeleton else call_skeleton)) prog).
Proof.
  intro prog. unfold good_program. rewrite Forall_forall. intros p Hp.
  apply in_map_iff in Hp. destruct Hp as (bs & <- & _).
  rewrite Forall_forall. intros c Hc. apply in_map_iff in Hc. destruct Hc as ([|] & <- & _).
  - split; [exact (proj1 gen_broadcast_ok)|exact gen_broadcast_own_ok].
  - split; [exact gen_call_ok|exact gen_call_own_ok].
Qed.

Lemma good_program_wb : forall P, good_program P -> wb_program P.
Proof.
  intros P HP. unfold wb_program, progs_wb. rewrite Forall_forall. intros p Hp. rewrite Forall_forall. intros c Hc.
  unfold good_program in HP. rewrite Forall_forall in HP. pose proof (HP p Hp) as H. rewrite Forall_forall in H.
  apply H; auto.
Qed.
