(* EndToEnd_adapt_proofs.v — ADAPTER LEMMAS between the component developments, part 1:
   PDU codec (C01) <-> execution (C04) <-> framing (C03).  Each lemma states how two published
   component theorems fit together (and where they did not: see docs/C09_e2e.md):

   A. [decode_request]: a data-access request message, decoded by the Pdu model's ServerDecoder
      (C01_decode_conforms), yields through [req_of_obj] exactly the attribute record that
      ExecView.decode_attrs — hand-modelled in the C04 development and until now tied to the code
      by correspondence only — assigns to its wire fields.
   B. [response_object]: a response of Exec.serve whose spec view (ExecView.view) is s becomes,
      through [obj_of_rsp], an object whose C01 abstraction is the spec message of s.
   C. [packet_spec]: py_pdu (C01_encode_conforms) and t_build (C03_build_tcp) compose to the
      specified MBAP ADU. *)
From PM.theories Require Import Base Expr Struct FrBaseA FrTcp FrSpecA PduCls PduSpec Pdu CorrPdu Store Exec ExecSpec ExecView Server EndToEnd CorrE2E.
From PM.Generated Require Import GenFramerA GenPdu.
From PM.Generated Require GenStore GenExec GenServer.
From PM.proofs Require Import Struct_proofs Pdu_bits_proofs Pdu_proofs Pdu_dec_proofs Pdu_dec2_proofs.
From PM.Props Require C01 C03_tcpascii.
From Coq Require Import ZifyBool.
Open Scope string_scope.
Open Scope list_scope.
Open Scope Z_scope.
Ltac Zify.zify_post_hook ::= Z.to_euclidean_division_equations.

(* ================================================================== A. decoding a request *)

(* -- wire data of the ExecSpec vocabulary vs the PduSpec encodings ------------------------- *)

Lemma u16_word v : is_u16 v = true ->
  match zbytes (u16 v) with [hi; lo] => hi * 256 + lo = v | _ => False end.
Proof.
  intros H. unfold is_u16 in H. unfold u16, zbytes. cbn [map].
  rewrite !Z2N.id by lia. lia.
Qed.

Lemma take_words_words rs : all_u16 rs = true ->
  take_words (length rs) (zbytes (words rs)) = Ok rs.
Proof.
  induction rs as [|v t IH]; intros H; [reflexivity|].
  cbn [all_u16 forallb] in H. apply andb_true_iff in H as [Hv Ht].
  unfold words. cbn [flat_map]. fold (words t). unfold zbytes. rewrite map_app. fold (zbytes (u16 v)). fold (zbytes (words t)).
  pose proof (u16_word v Hv) as Hw. unfold u16, zbytes in *. cbn [map app length take_words] in *.
  rewrite (IH Ht). cbn [bind]. now rewrite Hw.
Qed.

Lemma bits_of_byte_N b : bits_of_byte (Z.of_N b) = map b2z (byte_bits b).
Proof.
  unfold bits_of_byte, byte_bits. cbn [map].
  rewrite !Z.testbit_of_N'; try lia.
  change (Z.to_N 0) with 0%N; change (Z.to_N 1) with 1%N; change (Z.to_N 2) with 2%N; change (Z.to_N 3) with 3%N;
  change (Z.to_N 4) with 4%N; change (Z.to_N 5) with 5%N; change (Z.to_N 6) with 6%N; change (Z.to_N 7) with 7%N.
  repeat (f_equal; [destruct (N.testbit b _); reflexivity|]). reflexivity.
Qed.

Lemma bits_of_bytes_N bs : bits_of_bytes (zbytes bs) = map b2z (spec_unpack_bits bs).
Proof.
  induction bs as [|b t IH]; [reflexivity|].
  unfold bits_of_bytes, zbytes, spec_unpack_bits in *. cbn [map flat_map]. rewrite map_app, <- IH, bits_of_byte_N. reflexivity.
Qed.

Lemma upto_pad_firstn bits a : bits_upto_pad bits a = true -> firstn (length bits) a = bits.
Proof.
  revert a. induction bits as [|x t IH]; intros a H; [reflexivity|].
  destruct a as [|y a']; cbn [bits_upto_pad] in H; [discriminate|].
  apply andb_true_iff in H as [Hx Ht]. cbn [length firstn]. rewrite (IH _ Ht).
  unfold beqb in Hx. apply Bool.eqb_prop in Hx. now subst.
Qed.

Lemma coil_data cs :
  firstn (Z.to_nat (len cs)) (bits_of_bytes (zbytes (spec_pack_bits cs))) = map b2z cs.
Proof.
  unfold len. rewrite Nat2Z.id, bits_of_bytes_N, firstn_map.
  now rewrite (upto_pad_firstn cs _ (unpack_pack_upto_pad cs)).
Qed.

(* -- what C01_decode_conforms does NOT say: the byte_count attribute of the decoded FC15 request.
   CorrPdu.abs forgets it (encode recomputes it), execute() compares it with the number of values.
   Proved here by running the decoder model, with the lemmas of the C01 development. ------------- *)
Lemma decode_write_coils a cs : spec_wf (MWriteCoilsReq a cs) = true ->
  py_decode true (spec_pdu (MWriteCoilsReq a cs)) = Ok (OWriteCoilsReq a cs (bit_byte_count (len cs))).
Proof.
  intros Hwf. pose proof Hwf as H. cbn [spec_wf] in H. split_andb H.
  dec_open.
  change (u16 a ++ u16 (len cs) ++ u8 (bit_byte_count (len cs)) ++ spec_pack_bits cs)
    with ((u16 a ++ u16 (len cs) ++ u8 (bit_byte_count (len cs))) ++ spec_pack_bits cs).
  rewrite bslice_prefix by reflexivity. rewrite skipn_prefix by reflexivity.
  unfold upk. rewrite unpack_HHB by assumption. cbn [bind].
  rewrite py_unpack_spec. unfold len at 1. rewrite Nat2Z.id, firstn_unpack_pack.
  reflexivity.
Qed.

(* -- inversion of "object o of class c stands for message d" ---------------------------------- *)
Ltac inv_obj o Hc Ha :=
  destruct o; cbn [class_of] in Hc; try discriminate Hc; try subst;
  unfold CorrPdu.abs in Ha; cbn [abs_raw] in Ha; try discriminate Ha.

Lemma abs_some o d : CorrPdu.abs o = Some d -> abs_raw o = Some d /\ spec_wf d = true.
Proof.
  unfold CorrPdu.abs. destruct (abs_raw o) as [m|]; [|discriminate].
  destruct (spec_wf m) eqn:E; [|discriminate]. intros H. injection H as <-. split; [reflexivity|exact E].
Qed.

Lemma at2_inv a x y K d : at2 a x y K = Some d ->
  exists u v, Pdu.assoc_str x a = Some u /\ Pdu.assoc_str y a = Some v /\ d = K u v.
Proof.
  unfold at2. destruct (Pdu.assoc_str x a) as [u|]; [|discriminate]. destruct (Pdu.assoc_str y a) as [v|]; [|discriminate].
  intros H. injection H as <-. eauto.
Qed.

Lemma at3_inv a x y z K d : at3 a x y z K = Some d ->
  exists u v w, Pdu.assoc_str x a = Some u /\ Pdu.assoc_str y a = Some v /\ Pdu.assoc_str z a = Some w /\ d = K u v w.
Proof.
  unfold at3. destruct (Pdu.assoc_str x a) as [u|]; [|discriminate]. destruct (Pdu.assoc_str y a) as [v|]; [|discriminate].
  destruct (Pdu.assoc_str z a) as [w|]; [|discriminate].
  intros H. injection H as <-. eauto 8.
Qed.

Lemma zl_eqb_eq a b : zl_eqb a b = true -> a = b.
Proof.
  unfold zl_eqb. revert b. induction a as [|x t IH]; destruct b as [|y u]; cbn [list_eqb]; try discriminate; [reflexivity|].
  intros H. apply andb_true_iff in H as [H1 H2]. apply Z.eqb_eq in H1. subst. now rewrite (IH _ H2).
Qed.

Lemma bl_eqb_eq a b : list_eqb beqb a b = true -> a = b.
Proof.
  revert b. induction a as [|x t IH]; destruct b as [|y u]; cbn [list_eqb]; try discriminate; [reflexivity|].
  intros H. apply andb_true_iff in H as [H1 H2]. unfold beqb in H1. apply Bool.eqb_prop in H1. subst. now rewrite (IH _ H2).
Qed.

(* the attribute records of the two variable-length register writes *)
Lemma attrs_wregs a rs : all_u16 rs = true ->
  decode_attrs (WWriteRegs a (len rs) (2 * len rs) (zbytes (words rs))) =
  Ok (mk_req 16 a (zlen rs) 0 (2 * zlen rs) 0 0 0 0 0 0 0 rs []).
Proof.
  intros H. unfold decode_attrs, len. rewrite Nat2Z.id, take_words_words by assumption. reflexivity.
Qed.

Lemma attrs_rwm ra rq wa ws : all_u16 ws = true ->
  decode_attrs (WRWM ra rq wa (len ws) (2 * len ws) (zbytes (words ws))) =
  Ok (mk_req 23 0 0 0 0 0 0 ra rq wa (zlen ws) (2 * zlen ws) [] ws).
Proof.
  intros H. unfold decode_attrs, len.
  replace (Z.to_nat ((2 * Z.of_nat (length ws) + 1) / 2)) with (length ws) by lia.
  rewrite take_words_words by assumption. reflexivity.
Qed.

(* the data-access request messages *)
Definition data_request (m : msg) : Prop := exists w, wreq_of_msg m = Some w.

(* A. the decoded request object and its execute() attributes *)
Theorem decode_request m w : wreq_of_msg m = Some w -> spec_wf m = true ->
  exists o r, py_decode true (spec_pdu m) = Ok o /\ obj_fc o = Ok (wfc w) /\
              req_of_obj o = Some r /\ decode_attrs w = Ok r.
Proof.
  intros Hw Hwf.
  destruct m; unfold wreq_of_msg in Hw; try discriminate Hw; injection Hw as <-.
  (* FC15 first: by direct computation *)
  7: { exists (OWriteCoilsReq addr coils (bit_byte_count (len coils))). eexists.
       split; [now apply decode_write_coils|]. split; [reflexivity|]. split; [reflexivity|].
       cbn [decode_attrs]. rewrite coil_data. reflexivity. }
  all: match goal with |- context [spec_pdu ?m] =>
         destruct (C01.C01_decode_conforms m Hwf eq_refl) as (o & d & Hdec & Hcls & Habs & Hmm) end;
       cbn [msg_is_request] in Hdec; cbn [spec_class] in Hcls;
       apply abs_some in Habs as [Habs Hwfd]; exists o.
  - (* read coils *)
    inv_obj o Hcls Habs. apply at2_inv in Habs as (u & v & Hu & Hv & ->). cbn [msg_matches] in Hmm.
    apply andb_true_iff in Hmm as [E1 E2]. apply Z.eqb_eq in E1, E2. subst u v.
    eexists. split; [exact Hdec|]. split; [reflexivity|]. cbn [req_of_obj]. unfold read_req. rewrite Hu, Hv. split; reflexivity.
  - inv_obj o Hcls Habs. apply at2_inv in Habs as (u & v & Hu & Hv & ->). cbn [msg_matches] in Hmm.
    apply andb_true_iff in Hmm as [E1 E2]. apply Z.eqb_eq in E1, E2. subst u v.
    eexists. split; [exact Hdec|]. split; [reflexivity|]. cbn [req_of_obj]. unfold read_req. rewrite Hu, Hv. split; reflexivity.
  - inv_obj o Hcls Habs. apply at2_inv in Habs as (u & v & Hu & Hv & ->). cbn [msg_matches] in Hmm.
    apply andb_true_iff in Hmm as [E1 E2]. apply Z.eqb_eq in E1, E2. subst u v.
    eexists. split; [exact Hdec|]. split; [reflexivity|]. cbn [req_of_obj]. unfold read_req. rewrite Hu, Hv. split; reflexivity.
  - inv_obj o Hcls Habs. apply at2_inv in Habs as (u & v & Hu & Hv & ->). cbn [msg_matches] in Hmm.
    apply andb_true_iff in Hmm as [E1 E2]. apply Z.eqb_eq in E1, E2. subst u v.
    eexists. split; [exact Hdec|]. split; [reflexivity|]. cbn [req_of_obj]. unfold read_req. rewrite Hu, Hv. split; reflexivity.
  - (* write single coil *)
    inv_obj o Hcls Habs. injection Habs as <-. cbn [msg_matches] in Hmm.
    apply andb_true_iff in Hmm as [E1 E2]. apply Z.eqb_eq in E1. unfold beqb in E2. apply Bool.eqb_prop in E2. subst.
    eexists. split; [exact Hdec|]. split; [reflexivity|]. split; [reflexivity|].
    cbn [decode_attrs]. destruct value; reflexivity.
  - (* write single register *)
    inv_obj o Hcls Habs. injection Habs as <-. cbn [msg_matches] in Hmm.
    apply andb_true_iff in Hmm as [E1 E2]. apply Z.eqb_eq in E1, E2. subst.
    eexists. split; [exact Hdec|]. split; [reflexivity|]. split; reflexivity.
  - (* write multiple registers *)
    inv_obj o Hcls Habs.
    destruct ((count =? zlen values) && (byte_count =? 2 * zlen values)) eqn:E; [|discriminate Habs].
    injection Habs as <-. apply andb_true_iff in E as [Ec Eb]. apply Z.eqb_eq in Ec, Eb.
    cbn [msg_matches] in Hmm. apply andb_true_iff in Hmm as [E1 E2]. apply Z.eqb_eq in E1. apply zl_eqb_eq in E2. subst.
    eexists. split; [exact Hdec|]. split; [reflexivity|]. split; [reflexivity|].
    cbn [spec_wf] in Hwf. split_andb Hwf. now apply attrs_wregs.
  - (* mask write *)
    inv_obj o Hcls Habs. apply at3_inv in Habs as (u & v & x & Hu & Hv & Hx & ->). cbn [msg_matches] in Hmm.
    apply andb_true_iff in Hmm as [E12 E3]. apply andb_true_iff in E12 as [E1 E2]. apply Z.eqb_eq in E1, E2, E3. subst u v x.
    eexists. split; [exact Hdec|]. split; [reflexivity|]. cbn [req_of_obj]. rewrite Hu, Hv, Hx. split; reflexivity.
  - (* read/write multiple registers *)
    inv_obj o Hcls Habs.
    destruct ((write_count =? zlen write_registers) && (write_byte_count =? 2 * zlen write_registers)) eqn:E; [|discriminate Habs].
    injection Habs as <-. apply andb_true_iff in E as [Ec Eb]. apply Z.eqb_eq in Ec, Eb.
    cbn [msg_matches] in Hmm. repeat (apply andb_true_iff in Hmm as [Hmm ?]).
    repeat match goal with H : (_ =? _) = true |- _ => apply Z.eqb_eq in H end.
    match goal with H : zl_eqb _ _ = true |- _ => apply zl_eqb_eq in H end. subst.
    eexists. split; [exact Hdec|]. split; [reflexivity|]. split; [reflexivity|].
    cbn [spec_wf] in Hwf. split_andb Hwf. now apply attrs_rwm.
Qed.

(* ================================================================== B. the response object *)

Lemma abs_intro o m : abs_raw o = Some m -> spec_wf m = true -> CorrPdu.abs o = Some m.
Proof. intros H1 H2. unfold CorrPdu.abs. now rewrite H1, H2. Qed.

Definition exc_code_of (ro : obj) : option Z := match ro with OExc _ _ c => Some c | _ => None end.
Definition sexc_code (s : srsp) : option Z := match s with SExc _ c => Some c | _ => None end.

Ltac cls_case cls name E :=
  destruct (String.eqb cls name) eqn:E; [apply String.eqb_eq in E; subst cls | ].

Ltac args_shapes args H :=
  destruct args as [|[?z|?l] [|[?z|?l] [|[?z|?l] [|? ?]]]]; cbn in H; try discriminate H; injection H as <-.

Ltac close_rsp Hwf :=
  eexists; split; [reflexivity|]; split; [apply abs_intro; [reflexivity|exact Hwf]|]; split; reflexivity.

Theorem response_object o s :
  view GenExec.code o = Some s -> spec_wf (spec_response_msg s) = true ->
  exists ro, obj_of_rsp o = Some ro /\ CorrPdu.abs ro = Some (spec_response_msg s) /\
             mem_cls (class_of ro) conforming_encode = true /\ exc_code_of ro = sexc_code s.
Proof.
  intros H Hwf. destruct o as [cls args|fc code].
  2: { cbn in H. injection H as <-. eexists. split; [reflexivity|]. split; [|split; reflexivity].
       apply abs_intro; [|exact Hwf]. cbn [abs_raw spec_response_msg].
       replace (fc =? fc - 128 + 128) with true by lia. reflexivity. }
  cls_case cls "ReadCoilsResponse" E1. { args_shapes args H. close_rsp Hwf. }
  cls_case cls "ReadDiscreteInputsResponse" E2. { args_shapes args H. close_rsp Hwf. }
  cls_case cls "ReadHoldingRegistersResponse" E3. { args_shapes args H. close_rsp Hwf. }
  cls_case cls "ReadInputRegistersResponse" E4. { args_shapes args H. close_rsp Hwf. }
  cls_case cls "ReadWriteMultipleRegistersResponse" E5. { args_shapes args H. close_rsp Hwf. }
  cls_case cls "WriteSingleCoilResponse" E6. { args_shapes args H. close_rsp Hwf. }
  cls_case cls "WriteSingleRegisterResponse" E7. { args_shapes args H. close_rsp Hwf. }
  cls_case cls "WriteMultipleCoilsResponse" E8. { args_shapes args H. close_rsp Hwf. }
  cls_case cls "WriteMultipleRegistersResponse" E9. { args_shapes args H. close_rsp Hwf. }
  cls_case cls "MaskWriteRegisterResponse" E10. { args_shapes args H. close_rsp Hwf. }
  exfalso. unfold view in H. cbn [x_resp_fc GenExec.code Store.assoc_str] in H.
  rewrite !(String.eqb_sym _ cls), E1, E2, E3, E4, E5, E6, E7, E8, E9, E10 in H. discriminate H.
Qed.

(* ================================================================== C. the response packet *)

Lemma words_length rs : length (words rs) = (2 * length rs)%nat.
Proof. induction rs as [|v t IH]; [reflexivity|]. unfold words in *. cbn [flat_map]. rewrite app_length, IH. cbn [u16 length]. lia. Qed.

Lemma response_pdu_length s : spec_wf (spec_response_msg s) = true ->
  (length (spec_pdu (spec_response_msg s)) <= 300)%nat.
Proof.
  intros Hwf. destruct s as [fc vals|fc a v|fc a q|a am om|fc code]; cbn [spec_response_msg] in *.
  - assert (Hbits : forall cs, is_u8 (bit_byte_count (len cs)) = true ->
                      (length ([1%N] ++ u8 (bit_byte_count (len cs)) ++ spec_pack_bits cs) <= 300)%nat).
    { intros cs Hc. destruct (C01.C01_bitpack_shape cs) as (_ & Hl & _).
      rewrite !app_length. cbn [length u8]. unfold is_u8 in Hc. unfold len in Hc. lia. }
    assert (Hregs : forall rs, is_u8 (2 * len rs) && all_u16 rs = true ->
                      (length ([1%N] ++ u8 (2 * len rs) ++ words rs) <= 300)%nat).
    { intros rs Hc. apply andb_true_iff in Hc as [Hc _]. rewrite !app_length, words_length. cbn [length u8].
      unfold is_u8, len in Hc. lia. }
    destruct (fc =? 1); [exact (Hbits _ Hwf)|]. destruct (fc =? 2); [exact (Hbits _ Hwf)|].
    destruct (fc =? 3); [exact (Hregs _ Hwf)|]. destruct (fc =? 4); [exact (Hregs _ Hwf)|]. exact (Hregs _ Hwf).
  - destruct (fc =? 5); cbn [spec_pdu]; rewrite ?app_length; cbn; try destruct (coil_on v); cbn; lia.
  - destruct (fc =? 15); cbn [spec_pdu]; rewrite ?app_length; cbn; lia.
  - cbn [spec_pdu]; rewrite ?app_length; cbn; lia.
  - cbn. lia.
Qed.

(* every byte of a response PDU is a byte (needed by the serial framings, whose builders hex-encode
   or checksum the payload) *)
Lemma wfb_app a b : wfb (a ++ b) = wfb a && wfb b.
Proof. unfold wfb. apply forallb_app. Qed.
Lemma u16_wfb v : is_u16 v = true -> wfb (u16 v) = true.
Proof. intros H. unfold is_u16 in H. unfold u16, wfb, byteb. cbn [forallb]. lia. Qed.
Lemma u8_wfb v : is_u8 v = true -> wfb (u8 v) = true.
Proof. intros H. unfold is_u8 in H. unfold u8, wfb, byteb. cbn [forallb]. lia. Qed.

Lemma response_pdu_wfb s : spec_wf (spec_response_msg s) = true ->
  wfb (spec_pdu (spec_response_msg s)) = true.
Proof.
  intros Hwf. destruct s as [fc vals|fc a v|fc a q|a am om|fc code]; cbn [spec_response_msg] in *.
  - assert (Hbits : forall k cs, is_u8 (bit_byte_count (len cs)) = true -> (k < 256)%N ->
                      wfb ([k] ++ u8 (bit_byte_count (len cs)) ++ spec_pack_bits cs) = true).
    { intros k cs Hc Hk. rewrite !wfb_app, (u8_wfb _ Hc), spec_pack_bits_wfb. cbn. unfold byteb. lia. }
    assert (Hregs : forall k rs, is_u8 (2 * len rs) && all_u16 rs = true -> (k < 256)%N ->
                      wfb ([k] ++ u8 (2 * len rs) ++ words rs) = true).
    { intros k rs Hc Hk. apply andb_true_iff in Hc as [Hc Hr]. rewrite !wfb_app, (u8_wfb _ Hc), (words_wfb _ Hr).
      cbn. unfold byteb. lia. }
    destruct (fc =? 1); [apply Hbits; [exact Hwf|lia]|]. destruct (fc =? 2); [apply Hbits; [exact Hwf|lia]|].
    destruct (fc =? 3); [apply Hregs; [exact Hwf|lia]|]. destruct (fc =? 4); [apply Hregs; [exact Hwf|lia]|].
    apply Hregs; [exact Hwf|lia].
  - destruct (fc =? 5); cbn [spec_wf spec_pdu] in *.
    + rewrite !wfb_app, (u16_wfb _ Hwf). destruct (coil_on v); reflexivity.
    + split_andb Hwf. now rewrite !wfb_app, (u16_wfb _ Hwf), (u16_wfb _ Hwf0).
  - destruct (fc =? 15); cbn [spec_wf spec_pdu] in *; split_andb Hwf; now rewrite !wfb_app, (u16_wfb _ Hwf), (u16_wfb _ Hwf0).
  - cbn [spec_wf spec_pdu] in *. split_andb Hwf. now rewrite !wfb_app, (u16_wfb _ Hwf), (u16_wfb _ Hwf0), (u16_wfb _ Hwf1).
  - cbn [spec_wf spec_pdu] in *. split_andb Hwf. unfold is_u8 in *. unfold wfb, byteb. cbn [forallb]. lia.
Qed.

Theorem packet_spec o ro m :
  CorrPdu.abs ro = Some m -> mem_cls (class_of ro) conforming_encode = true ->
  0 <= o_tid o < 65536 -> 0 <= o_uid o < 256 -> (length (spec_pdu m) <= 300)%nat ->
  packet_of o ro = Ok (spec_adu_tcp (o_tid o) 0 (o_uid o) (spec_pdu m)).
Proof.
  intros Habs Hc Ht Hu Hl.
  pose proof (C01.C01_encode_conforms ro m Hc Habs) as Hp.
  unfold py_pdu in Hp. unfold packet_of.
  destruct (obj_fc ro) as [fc|e]; cbn [bind] in *; [|discriminate Hp].
  unfold fc_byte in Hp. destruct ((0 <=? fc) && (fc <? 256)) eqn:Efc; cbn [bind] in Hp; [|discriminate Hp].
  destruct (py_encode ro) as [data|e]; cbn [bind] in *; [|discriminate Hp].
  injection Hp as Hp. rewrite <- Hp in *. cbn [length app] in Hl.
  unfold dflt_pid. rewrite C03_tcpascii.C03_build_tcp; [reflexivity| | | | |]; lia.
Qed.

(* ================================================================== A'. unassigned function codes
   A PDU whose function code is not in ServerDecoder's table decodes to IllegalFunctionRequest
   (C01_dispatch_server); its execute() attributes are req0 fc = ExecView.decode_attrs (WOther fc). *)
Definition unassigned (fc : Z) : bool := negb (existsb (Z.eqb fc) (x_known_fcs GenExec.code)).

Lemma unassigned_class fc : unassigned fc = true -> spec_request_class fc = None.
Proof.
  intros H. unfold unassigned in H. apply negb_true_iff in H. unfold spec_request_class.
  repeat match goal with
         | |- context [if ?x =? ?k then _ else _] =>
             destruct (Z.eqb_spec x k) as [->|_]; [vm_compute in H; discriminate H|]
         end.
  reflexivity.
Qed.

Theorem decode_unassigned fc rest : 0 <= fc -> unassigned fc = true ->
  py_decode true (Z.to_N fc :: rest) = Ok (OIllegal fc).
Proof.
  intros H0 Hu. unfold py_decode, py_decode_server. cbn [data0 bind]. rewrite Z2N.id by exact H0.
  rewrite C01.C01_dispatch_server, (unassigned_class fc Hu). reflexivity.
Qed.

(* a request body of the proved domain together with its data-model form *)
Definition body_ok (b : sreq) (w : wreq) : Prop :=
  match b with
  | QMsg m => wreq_of_msg m = Some w /\ spec_wf m = true
  | QRaw fc rest => w = WOther fc /\ 1 <= fc < 128 /\ unassigned fc = true /\ (length rest <= 252)%nat
  end.

Lemma body_wreq b w : body_ok b w -> wreq_of b = Some w.
Proof. destruct b; cbn [body_ok wreq_of]; [tauto|]. intros (-> & _). reflexivity. Qed.

Theorem decode_body b w : body_ok b w ->
  exists o r, py_decode true (sreq_pdu b) = Ok o /\ obj_fc o = Ok (wfc w) /\
              req_of_obj o = Some r /\ decode_attrs w = Ok r.
Proof.
  destruct b as [m|fc rest]; cbn [body_ok sreq_pdu].
  - intros [Hw Hwf]. exact (decode_request m w Hw Hwf).
  - intros (-> & Hfc & Hu & _). exists (OIllegal fc), (req0 fc).
    split; [apply decode_unassigned; [lia|exact Hu]|]. repeat split; reflexivity.
Qed.
