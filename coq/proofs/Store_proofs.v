(* Store_proofs.v — lemmas about the datastore model instantiated with the GENERATED code
   record (Generated/GenStore.v).  Every statement is about [GenStore.code], i.e. about
   what /repo's source says now; a changed comparison, offset or slice bound makes the
   [expr_simpl; lia] steps below fail. *)
From PM.theories Require Import Base Expr Store.
From PM.Generated Require Import GenStore.
From Coq Require Import ZifyBool.
Open Scope list_scope.
Open Scope Z_scope.

Ltac expr_simpl :=
  cbv [beval eval eval_bin eval_cmp env_of String.eqb Ascii.eqb Bool.eqb
       seq_env sp_env cx_env sv_env code
       c_seq_validate c_seq_get_lo c_seq_get_hi c_seq_set_lo c_seq_set_hi
       c_sp_validate_reject c_sp_validate_lo c_sp_validate_hi c_sp_get_lo c_sp_get_hi c_sp_set_key
       c_ctx_validate_addr c_ctx_get_addr c_ctx_set_addr c_fx_mapper
       c_srv_default_unit c_srv_set_ok c_srv_del_ok
       c_ctx_default_zero c_create_addr c_create_size].

Lemma z2b_b2z b : z2b (b2z b) = b.
Proof. destruct b; reflexivity. Qed.

Lemma z2b_land_b2z a b : z2b (Z.land (b2z a) (b2z b)) = a && b.
Proof. destruct a, b; reflexivity. Qed.

(* ------------------------------------------------------------------ abstract view *)

Definition seq_len (b : seqblock) : Z := Z.of_nat (length (sb_vals b)).

(* the cell at absolute address k, if the block populates it *)
Definition seq_cell (b : seqblock) (k : Z) : option Z :=
  if (sb_addr b <=? k) && (k <? sb_addr b + seq_len b)
  then nth_error (sb_vals b) (Z.to_nat (k - sb_addr b)) else None.

Definition seq_populated (b : seqblock) (k : Z) : Prop := sb_addr b <= k < sb_addr b + seq_len b.

(* ------------------------------------------------------------------ sequential: validate *)

Lemma seq_validate_arith b a c :
  seq_validate code b a c = (sb_addr b <=? a) && (sb_addr b + seq_len b >=? a + c).
Proof.
  unfold seq_validate. expr_simpl. rewrite z2b_land_b2z. reflexivity.
Qed.

Lemma seq_validate_cells b a c : 1 <= c ->
  (seq_validate code b a c = true <-> forall i, 0 <= i < c -> seq_populated b (a + i)).
Proof.
  intros Hc. rewrite seq_validate_arith. unfold seq_populated. split.
  - intros H i Hi. lia.
  - intros H. pose proof (H 0 ltac:(lia)). pose proof (H (c - 1) ltac:(lia)). lia.
Qed.

(* ------------------------------------------------------------------ slices *)

Lemma py_slice_inrange {A} (l : list A) lo hi :
  0 <= lo -> lo <= hi -> hi <= Z.of_nat (length l) ->
  py_slice l lo hi = firstn (Z.to_nat (hi - lo)) (skipn (Z.to_nat lo) l).
Proof.
  intros H1 H2 H3. unfold py_slice, norm_idx.
  destruct (lo <? 0) eqn:E1; [lia|]. destruct (hi <? 0) eqn:E2; [lia|].
  rewrite !Z.min_l by lia. rewrite Z.max_r by lia. reflexivity.
Qed.

Lemma py_slice_assign_inrange {A} (l vs : list A) lo hi :
  0 <= lo -> lo <= hi -> hi <= Z.of_nat (length l) ->
  py_slice_assign l lo hi vs = firstn (Z.to_nat lo) l ++ vs ++ skipn (Z.to_nat hi) l.
Proof.
  intros H1 H2 H3. unfold py_slice_assign, norm_idx.
  destruct (lo <? 0) eqn:E1; [lia|]. destruct (hi <? 0) eqn:E2; [lia|].
  rewrite !Z.min_l by lia. rewrite Z.max_r by lia. reflexivity.
Qed.

Lemma nth_error_firstn_skipn {A} (l : list A) s n i :
  (i < n)%nat -> nth_error (firstn n (skipn s l)) i = nth_error l (s + i).
Proof.
  revert l n i. induction s as [|s IH]; intros l n i Hi.
  - simpl. revert n i Hi. induction l as [|x l IHl]; intros n i Hi.
    + destruct n, i; reflexivity.
    + destruct n; [lia|]. destruct i; simpl; [reflexivity|]. apply IHl. lia.
  - destruct l as [|x l]; simpl.
    + destruct n, i; reflexivity.
    + apply IH. exact Hi.
Qed.

(* ------------------------------------------------------------------ sequential: read *)

Lemma seq_get_slice b a c :
  seq_validate code b a c = true -> 0 <= c ->
  seq_get code b a c = firstn (Z.to_nat c) (skipn (Z.to_nat (a - sb_addr b)) (sb_vals b)).
Proof.
  intros Hv Hc. rewrite seq_validate_arith in Hv. unfold seq_len in Hv.
  unfold seq_get. expr_simpl.
  rewrite py_slice_inrange by lia. f_equal. lia.
Qed.

Theorem seq_get_length b a c :
  seq_validate code b a c = true -> 0 <= c -> Z.of_nat (length (seq_get code b a c)) = c.
Proof.
  intros Hv Hc. rewrite seq_get_slice by assumption.
  rewrite seq_validate_arith in Hv. unfold seq_len in Hv.
  rewrite firstn_length, skipn_length. lia.
Qed.

Theorem seq_get_nth b a c i :
  seq_validate code b a c = true -> 0 <= i < c ->
  nth_error (seq_get code b a c) (Z.to_nat i) = seq_cell b (a + i).
Proof.
  intros Hv Hi. rewrite seq_get_slice by (assumption || lia).
  rewrite seq_validate_arith in Hv. unfold seq_cell, seq_len in *.
  rewrite nth_error_firstn_skipn by lia.
  replace ((sb_addr b <=? a + i) && (a + i <? sb_addr b + Z.of_nat (length (sb_vals b)))) with true by lia.
  f_equal. lia.
Qed.

(* ------------------------------------------------------------------ sequential: write *)

Lemma seq_set_vals b a vs :
  seq_validate code b a (Z.of_nat (length vs)) = true ->
  sb_vals (seq_set code b a vs) =
    firstn (Z.to_nat (a - sb_addr b)) (sb_vals b) ++ vs
      ++ skipn (Z.to_nat (a - sb_addr b) + length vs) (sb_vals b).
Proof.
  intros Hv. rewrite seq_validate_arith in Hv. unfold seq_len in Hv.
  unfold seq_set. cbn [sb_vals]. expr_simpl.
  rewrite py_slice_assign_inrange by lia. do 3 f_equal. lia.
Qed.

Theorem seq_set_extent b a vs :
  seq_validate code b a (Z.of_nat (length vs)) = true ->
  sb_addr (seq_set code b a vs) = sb_addr b /\
  length (sb_vals (seq_set code b a vs)) = length (sb_vals b) /\
  sb_def (seq_set code b a vs) = sb_def b.
Proof.
  intros Hv. split; [reflexivity|]. split; [|reflexivity].
  rewrite seq_set_vals by assumption.
  rewrite seq_validate_arith in Hv. unfold seq_len in Hv.
  rewrite !app_length, firstn_length, skipn_length. lia.
Qed.

Lemma nth_error_skipn' {A} (l : list A) n i : nth_error (skipn n l) i = nth_error l (n + i).
Proof.
  revert l. induction n as [|n IH]; intros l; [reflexivity|].
  destruct l as [|x l]; [destruct i; reflexivity|]. apply IH.
Qed.

Lemma nth_error_firstn_lt {A} (l : list A) n i : (i < n)%nat -> nth_error (firstn n l) i = nth_error l i.
Proof.
  revert l i. induction n as [|n IH]; intros l i Hi; [lia|].
  destruct l as [|x l]; [destruct i; reflexivity|]. destruct i; [reflexivity|]. cbn [firstn nth_error]. apply IH. lia.
Qed.

Lemma nth_error_splice {A} (l vs : list A) s i :
  (s + length vs <= length l)%nat ->
  nth_error (firstn s l ++ vs ++ skipn (s + length vs) l) i =
    if (Nat.leb s i) && (Nat.ltb i (s + length vs)) then nth_error vs (i - s) else nth_error l i.
Proof.
  intros Hl.
  destruct (Nat.leb s i) eqn:E1; cbn [andb].
  - apply Nat.leb_le in E1.
    rewrite nth_error_app2 by (rewrite firstn_length; lia).
    rewrite firstn_length, Nat.min_l by lia.
    destruct (Nat.ltb i (s + length vs)) eqn:E2.
    + apply Nat.ltb_lt in E2. rewrite nth_error_app1 by lia. reflexivity.
    + apply Nat.ltb_ge in E2. rewrite nth_error_app2 by lia.
      rewrite nth_error_skipn'. f_equal. lia.
  - apply Nat.leb_gt in E1.
    rewrite nth_error_app1 by (rewrite firstn_length; lia).
    apply nth_error_firstn_lt. exact E1.
Qed.

Theorem seq_set_cells b a vs k :
  seq_validate code b a (Z.of_nat (length vs)) = true ->
  seq_cell (seq_set code b a vs) k =
    if (a <=? k) && (k <? a + Z.of_nat (length vs))
    then nth_error vs (Z.to_nat (k - a)) else seq_cell b k.
Proof.
  intros Hv. pose proof (seq_set_extent b a vs Hv) as (Ha & Hl & _).
  unfold seq_cell, seq_len. rewrite Ha, Hl. rewrite seq_set_vals by assumption.
  rewrite seq_validate_arith in Hv. unfold seq_len in Hv.
  destruct ((sb_addr b <=? k) && (k <? sb_addr b + Z.of_nat (length (sb_vals b)))) eqn:Ein.
  - rewrite nth_error_splice by lia.
    destruct ((a <=? k) && (k <? a + Z.of_nat (length vs))) eqn:E.
    + replace (Nat.leb _ _ && Nat.ltb _ _) with true by lia. f_equal. lia.
    + replace (Nat.leb (Z.to_nat (a - sb_addr b)) (Z.to_nat (k - sb_addr b)) &&
               Nat.ltb (Z.to_nat (k - sb_addr b)) (Z.to_nat (a - sb_addr b) + length vs)) with false by lia.
      reflexivity.
  - replace ((a <=? k) && (k <? a + Z.of_nat (length vs))) with false by lia. reflexivity.
Qed.

Theorem seq_read_your_write b a vs i :
  seq_validate code b a (Z.of_nat (length vs)) = true ->
  (i < length vs)%nat ->
  nth_error (seq_get code (seq_set code b a vs) a (Z.of_nat (length vs))) i = nth_error vs i.
Proof.
  intros Hv Hi.
  assert (Hv' : seq_validate code (seq_set code b a vs) a (Z.of_nat (length vs)) = true).
  { pose proof (seq_set_extent b a vs Hv) as (Ha & Hl & _).
    rewrite seq_validate_arith in *. unfold seq_len in *. rewrite Ha, Hl. exact Hv. }
  replace i with (Z.to_nat (Z.of_nat i)) at 1 by lia.
  rewrite seq_get_nth by (assumption || lia).
  rewrite seq_set_cells by assumption.
  replace ((a <=? a + Z.of_nat i) && (a + Z.of_nat i <? a + Z.of_nat (length vs))) with true by lia.
  f_equal. lia.
Qed.

Theorem seq_reset_cells b k :
  seq_cell (seq_reset b) k = match seq_cell b k with Some _ => Some (sb_def b) | None => None end.
Proof.
  unfold seq_cell, seq_reset, seq_len. cbn [sb_addr sb_vals sb_def]. rewrite map_length.
  destruct ((sb_addr b <=? k) && (k <? sb_addr b + Z.of_nat (length (sb_vals b)))); [|reflexivity].
  rewrite nth_error_map. destruct (nth_error (sb_vals b) _); reflexivity.
Qed.

(* ------------------------------------------------------------------ sparse blocks *)

Definition sp_cell (b : spblock) (k : Z) : option Z := d_get (sp_vals b) k.

Lemma forallb_zrange P lo n :
  forallb P (zrange lo n) = true <-> forall i, 0 <= i < Z.of_nat n -> P (lo + i) = true.
Proof.
  revert lo. induction n as [|n IH]; intros lo.
  - simpl. split; [intros _ i Hi; lia | reflexivity].
  - cbn [zrange forallb]. rewrite andb_true_iff, IH. split.
    + intros [H0 Hr] i Hi. destruct (Z.eq_dec i 0) as [->|Hne].
      * rewrite Z.add_0_r. exact H0.
      * replace (lo + i) with (lo + 1 + (i - 1)) by lia. apply Hr. lia.
    + intros H. split.
      * replace lo with (lo + 0) by lia. apply H. lia.
      * intros i Hi. replace (lo + 1 + i) with (lo + (i + 1)) by lia. apply H. lia.
Qed.

Theorem sp_validate_cells b a c : 1 <= c ->
  (sp_validate code b a c = true <-> forall i, 0 <= i < c -> sp_cell b (a + i) <> None).
Proof.
  intros Hc. unfold sp_validate. expr_simpl.
  replace (z2b (b2z (c =? 0))) with false by (rewrite z2b_b2z; lia).
  unfold py_range. rewrite forallb_zrange. unfold d_mem, sp_cell.
  replace (a + c - a) with c by lia.
  split; intros H i Hi.
  - specialize (H i ltac:(lia)). destruct (d_get (sp_vals b) (a + i)); congruence.
  - specialize (H i ltac:(lia)). destruct (d_get (sp_vals b) (a + i)); congruence.
Qed.

Lemma d_get_all_spec d ks :
  (forall k, In k ks -> d_get d k <> None) ->
  exists vs, d_get_all d ks = Ok vs /\ map Some vs = map (d_get d) ks.
Proof.
  induction ks as [|k ks IH]; intros H.
  - exists []. split; reflexivity.
  - cbn [d_get_all]. pose proof (H k (or_introl eq_refl)) as Hk.
    destruct (d_get d k) as [v|] eqn:E; [|congruence].
    destruct IH as (vs & Hvs & Hm). { intros k' Hk'. apply H. right. exact Hk'. }
    exists (v :: vs). rewrite Hvs. cbn. rewrite E, Hm. split; reflexivity.
Qed.

Lemma in_zrange k lo n : In k (zrange lo n) <-> lo <= k < lo + Z.of_nat n.
Proof.
  revert lo. induction n as [|n IH]; intros lo; cbn [zrange In].
  - lia.
  - rewrite IH. lia.
Qed.

Theorem sp_get_cells b a c :
  sp_validate code b a c = true -> 1 <= c ->
  exists vs, sp_get code b a c = Ok vs /\
             map Some vs = map (sp_cell b) (zrange a (Z.to_nat c)).
Proof.
  intros Hv0 Hc. pose proof (proj1 (sp_validate_cells b a c Hc) Hv0) as Hv.
  unfold sp_get. expr_simpl. unfold py_range. replace (a + c - a) with c by lia.
  apply d_get_all_spec. intros k Hk. apply in_zrange in Hk.
  replace k with (a + (k - a)) by lia. apply Hv. lia.
Qed.

Lemma d_get_set d k v k' :
  d_get (d_set d k v) k' = if k =? k' then Some v else d_get d k'.
Proof.
  induction d as [|[k0 v0] d IH]; cbn [d_set d_get].
  - destruct (k =? k') eqn:E; reflexivity.
  - destruct (k0 =? k) eqn:E0; cbn [d_get].
    + destruct (k0 =? k') eqn:E1; destruct (k =? k') eqn:E2; try reflexivity; lia.
    + destruct (k0 =? k') eqn:E1.
      * destruct (k =? k') eqn:E2; [lia|reflexivity].
      * exact IH.
Qed.

Lemma d_set_keys_mem d k v : d_get d k <> None -> map fst (d_set d k v) = map fst d.
Proof.
  induction d as [|[k0 v0] d IH]; cbn [d_set d_get]; intros H.
  - congruence.
  - destruct (k0 =? k) eqn:E; cbn [map fst]; [reflexivity|]. f_equal. apply IH. exact H.
Qed.

Lemma sp_set_from_get d a idx vs k :
  d_get (sp_set_from code d a idx vs) k =
    if (a + idx <=? k) && (k <? a + idx + Z.of_nat (length vs))
    then nth_error vs (Z.to_nat (k - (a + idx))) else d_get d k.
Proof.
  revert d idx. induction vs as [|v vs IH]; intros d idx; cbn [sp_set_from length].
  - replace ((a + idx <=? k) && (k <? a + idx + Z.of_nat 0)) with false by lia. reflexivity.
  - rewrite IH. expr_simpl. rewrite d_get_set.
    destruct ((a + (idx + 1) <=? k) && (k <? a + (idx + 1) + Z.of_nat (length vs))) eqn:E1.
    + replace ((a + idx <=? k) && (k <? a + idx + Z.of_nat (S (length vs)))) with true by lia.
      replace (Z.to_nat (k - (a + idx))) with (S (Z.to_nat (k - (a + (idx + 1))))) by lia.
      reflexivity.
    + destruct (a + idx =? k) eqn:E2.
      * replace ((a + idx <=? k) && (k <? a + idx + Z.of_nat (S (length vs)))) with true by lia.
        replace (Z.to_nat (k - (a + idx))) with O by lia. reflexivity.
      * replace ((a + idx <=? k) && (k <? a + idx + Z.of_nat (S (length vs)))) with false by lia.
        reflexivity.
Qed.

Theorem sp_set_cells b a vs k :
  sp_cell (sp_set code b a vs) k =
    if (a <=? k) && (k <? a + Z.of_nat (length vs))
    then nth_error vs (Z.to_nat (k - a)) else sp_cell b k.
Proof.
  unfold sp_cell, sp_set. cbn [sp_vals]. rewrite sp_set_from_get.
  rewrite Z.add_0_r. reflexivity.
Qed.

Lemma sp_set_from_keys d a idx vs :
  (forall i, 0 <= i < Z.of_nat (length vs) -> d_get d (a + idx + i) <> None) ->
  map fst (sp_set_from code d a idx vs) = map fst d.
Proof.
  revert d idx. induction vs as [|v vs IH]; intros d idx H; cbn [sp_set_from].
  - reflexivity.
  - rewrite IH.
    + expr_simpl. apply d_set_keys_mem. specialize (H 0). rewrite Z.add_0_r in H. apply H.
      cbn [length]. lia.
    + intros i Hi. expr_simpl. rewrite d_get_set.
      destruct (a + idx =? a + (idx + 1) + i); [congruence|].
      replace (a + (idx + 1) + i) with (a + idx + (i + 1)) by lia. apply H. cbn [length]. lia.
Qed.

(* an accepted write leaves the key set — the block's extent — unchanged *)
Theorem sp_set_extent b a vs :
  vs <> [] -> sp_validate code b a (Z.of_nat (length vs)) = true ->
  map fst (sp_vals (sp_set code b a vs)) = map fst (sp_vals b).
Proof.
  intros Hne Hv0.
  assert (Hc : 1 <= Z.of_nat (length vs)) by (destruct vs; [congruence|]; cbn [length]; lia).
  pose proof (proj1 (sp_validate_cells b a _ Hc) Hv0) as Hv.
  unfold sp_set. cbn [sp_vals]. apply sp_set_from_keys. intros i Hi.
  rewrite Z.add_0_r. apply Hv. lia.
Qed.

Theorem sp_reset_cells b k :
  sp_cell (sp_reset b) k = match sp_cell b k with Some _ => Some (sp_def b) | None => None end.
Proof.
  unfold sp_cell, sp_reset. cbn [sp_vals sp_def].
  induction (sp_vals b) as [|[k0 v0] d IH]; cbn [map d_get fst]; [reflexivity|].
  destruct (k0 =? k); [reflexivity|exact IH].
Qed.

(* ------------------------------------------------------------------ slave context offset *)

Definition cx_off (x : slavectx) : Z := if cx_zero x then 0 else 1.

Theorem cx_validate_offset x fx a c :
  cx_validate code x fx a c =
    (do i <- cx_block_idx code x fx; Ok (blk_validate code (nth_block x i) (a + cx_off x) c)).
Proof.
  unfold cx_validate, cx_off. destruct (cx_block_idx code x fx); [|reflexivity]. cbn [bind].
  expr_simpl. destruct (cx_zero x); cbn; do 2 f_equal; lia.
Qed.

Theorem cx_get_offset x fx a c :
  cx_get code x fx a c =
    (do i <- cx_block_idx code x fx; blk_get code (nth_block x i) (a + cx_off x) c).
Proof.
  unfold cx_get, cx_off. destruct (cx_block_idx code x fx); [|reflexivity]. cbn [bind].
  expr_simpl. destruct (cx_zero x); cbn; f_equal; lia.
Qed.

Theorem cx_set_offset x fx a vs :
  cx_set code x fx a vs =
    (do i <- cx_block_idx code x fx;
     Ok {| cx_zero := cx_zero x; cx_slots := cx_slots x;
           cx_blocks := set_nth (cx_blocks x) i (blk_set code (nth_block x i) (a + cx_off x) vs) |}).
Proof.
  unfold cx_set, cx_off. destruct (cx_block_idx code x fx); [|reflexivity]. cbn [bind].
  expr_simpl. destruct (cx_zero x); cbn; do 4 f_equal; lia.
Qed.

(* function code -> table letter, as the Modbus data model prescribes *)
Theorem fx_mapper_table :
  c_fx_mapper code =
    [(1, "c"); (2, "d"); (3, "h"); (4, "i"); (5, "c"); (6, "h"); (15, "c"); (16, "h"); (22, "h"); (23, "h")]%string.
Proof. reflexivity. Qed.

(* ------------------------------------------------------------------ server context *)

Theorem sv_single_routes_all s u :
  sv_single s = true -> sv_getitem code s u = sv_getitem code s 0.
Proof. intros H. unfold sv_getitem, sv_key. rewrite H. reflexivity. Qed.

Theorem sv_multi_routes_registered s u :
  sv_single s = false ->
  sv_getitem code s u = match assoc_z (sv_slaves s) u with Some c => Ok c | None => Raise NoSuchSlaveExc end.
Proof. intros H. unfold sv_getitem, sv_key. rewrite H. reflexivity. Qed.

Theorem sv_setitem_range s u c :
  sv_single s = false ->
  sv_setitem code s u c =
    if (0 <=? u) && (u <=? 247)
    then Ok {| sv_single := false; sv_slaves := az_set (sv_slaves s) u c |}
    else Raise NoSuchSlaveExc.
Proof.
  intros H. unfold sv_setitem, sv_key. rewrite H. expr_simpl. rewrite z2b_b2z.
  replace ((247 >=? u) && (u >=? 0)) with ((0 <=? u) && (u <=? 247)) by lia.
  reflexivity.
Qed.

Lemma assoc_az_set {A} (l : list (Z * A)) k v k' :
  assoc_z (az_set l k v) k' = if k =? k' then Some v else assoc_z l k'.
Proof.
  induction l as [|[k0 v0] l IH]; cbn [az_set assoc_z].
  - destruct (k =? k'); reflexivity.
  - destruct (k0 =? k) eqn:E0; cbn [assoc_z].
    + destruct (k0 =? k') eqn:E1; destruct (k =? k') eqn:E2; try reflexivity; lia.
    + destruct (k0 =? k') eqn:E1.
      * destruct (k =? k') eqn:E2; [lia|reflexivity].
      * exact IH.
Qed.

Theorem sv_set_then_get s u c s' v :
  sv_single s = false -> sv_setitem code s u c = Ok s' ->
  sv_getitem code s' v = if u =? v then Ok c else sv_getitem code s v.
Proof.
  intros Hs H. rewrite sv_setitem_range in H by exact Hs.
  destruct ((0 <=? u) && (u <=? 247)); [|discriminate]. injection H as <-.
  unfold sv_getitem, sv_key. cbn [sv_single sv_slaves]. rewrite Hs, assoc_az_set.
  destruct (u =? v); reflexivity.
Qed.

(* ------------------------------------------------------------------ defaults *)

(* a context built without a zero_mode keyword applies the documented one-based offset *)
Theorem default_is_one_based : default_zero_mode code = false.
Proof. reflexivity. Qed.

(* the create() factories populate exactly the addresses 0 .. 65535 *)
Theorem default_block_extent k :
  blk_validate code (default_block code) k 1 = true <-> 0 <= k < 65536.
Proof.
  unfold default_block. cbn [blk_validate]. rewrite seq_validate_arith.
  unfold seq_len. cbn [sb_addr sb_vals]. rewrite repeat_length.
  expr_simpl. rewrite Z2Nat.id by lia. lia.
Qed.
