"""Drivers for the three server front-ends (sync threaded, asyncio, Twisted), in-process.

Shared by props/c09.py and props/c10.py.  Nothing here judges anything: `run` feeds byte
chunks / datagrams to a REAL handler object and records

  * which requests the framer DELIVERED to the handler callback (tid, uid, fc, sender),
  * for each delivered request, on which unit contexts `request.execute` was called and what
    it returned (function code, should_respond, exception code, encoded body) or raised,
  * every message handed to `send` that reached `framer.buildPacket` (tid, uid, fc) together
    with the bytes written to the transport and their destination,
  * a dump of every unit's four tables before and after,
  * exceptions that escaped the front-end's entry point.
"""
import asyncio
import struct
import types
import warnings

FRONTENDS = ["sync_tcp", "sync_udp", "sync_serial", "aio_tcp", "aio_udp", "tw_tcp", "tw_udp"]
DATAGRAM = {"sync_udp", "aio_udp", "tw_udp"}
NREG = 10


def reset_mcb():
    from pymodbus.device import ModbusControlBlock
    mcb = ModbusControlBlock()
    mcb.reset()
    mcb._ModbusControlBlock__listen_only = False
    mcb._ModbusControlBlock__mode = 'ASCII'
    mcb._ModbusControlBlock__delimiter = '\r'
    mcb._ModbusControlBlock__diagnostic = [False] * 16
    try:
        mcb.clearEvents()
    except Exception:  # noqa: BLE001
        pass


# ----------------------------------------------------------------------------- stores

def mk_slave(kind):
    """kind: 'ok' | 'raise' (datastore raises RuntimeError) | 'noslave' (datastore raises
    NoSuchSlaveException from inside request.execute)"""
    from pymodbus.datastore import ModbusSlaveContext, ModbusSequentialDataBlock
    from pymodbus.exceptions import NoSuchSlaveException

    class Raising(ModbusSlaveContext):
        exc = RuntimeError

        def validate(self, fx, address, count=1):
            raise self.exc("datastore failure")

    class RaisingNoSlave(Raising):
        exc = NoSuchSlaveException

    cls = {"ok": ModbusSlaveContext, "raise": Raising, "noslave": RaisingNoSlave}[kind]
    return cls(di=ModbusSequentialDataBlock(0, [0] * NREG), co=ModbusSequentialDataBlock(0, [0] * NREG),
               hr=ModbusSequentialDataBlock(0, [0] * NREG), ir=ModbusSequentialDataBlock(0, [0] * NREG),
               zero_mode=True)


def dump(slave):
    return tuple(tuple(int(v) for v in slave.store[k].values) for k in "dcih")


def mk_context(single, hosted):
    """hosted: [(uid, kind)] in dict insertion order (single: exactly one entry, uid ignored)"""
    from pymodbus.datastore import ModbusServerContext
    if single:
        s = mk_slave(hosted[0][1])
        return ModbusServerContext(slaves=s, single=True), [(0, s)]
    d = {}
    for u, kind in hosted:
        d[u] = mk_slave(kind)
    return ModbusServerContext(slaves=d, single=False), list(d.items())


# ----------------------------------------------------------------------------- frames

def crc16(data):
    crc = 0xFFFF
    for b in data:
        crc ^= b
        for _ in range(8):
            crc = (crc >> 1) ^ 0xA001 if crc & 1 else crc >> 1
    return bytes([crc & 0xFF, crc >> 8])      # low byte first on the wire


def adu(framer, tid, uid, pdu):
    if framer == "socket":
        return struct.pack(">HHHB", tid, 0, len(pdu) + 1, uid) + pdu
    if framer == "rtu":
        body = bytes([uid]) + pdu
        return body + crc16(body)
    raise ValueError(framer)


def split_adus(framer, data):
    """independent splitter for what the server wrote: -> [(tid|None, uid, fc, body)] or None if malformed"""
    out = []
    if framer == "socket":
        while data:
            if len(data) < 8:
                return None
            tid, pid, ln, uid, fc = struct.unpack(">HHHBB", data[:8])
            if pid != 0 or ln < 2 or len(data) < 6 + ln:
                return None
            out.append((tid, uid, fc, data[8:6 + ln]))
            data = data[6 + ln:]
        return out
    if framer == "rtu":   # one write == one frame for the server side
        if len(data) < 4 or crc16(data[:-2]) != data[-2:]:
            return None
        return [(None, data[0], data[1], data[2:-2])]
    raise ValueError(framer)


def framer_class(framer):
    from pymodbus.transaction import ModbusSocketFramer, ModbusRtuFramer
    return {"socket": ModbusSocketFramer, "rtu": ModbusRtuFramer}[framer]


# ----------------------------------------------------------------------------- recording

class Rec:
    def __init__(self, units):
        self.units = units                     # [(uid, slavectx)]
        self.ctx_uid = {id(s): u for u, s in units}
        self.delivered = []
        self.sent = []                         # {"for": tag, tid, uid, fc, code, dest, bytes}
        self.raw = []                          # (bytes, dest) of every transport write
        self.escaped = []                      # exception class names escaping the entry point, per read
        self.cur = None
        self.cur_dest = 0
        self.closed = 0

    def hook_execute(self, obj, name):
        """instance-level wrapper around handler.execute / protocol._execute"""
        real = getattr(type(obj), name)
        rec = self

        def wrapper(request, *addr):
            tag = len(rec.delivered)
            d = {"tag": tag, "tid": int(request.transaction_id), "uid": int(request.unit_id),
                 "fc": int(request.function_code), "cls": type(request).__name__,
                 "dest": rec.cur_dest, "results": []}
            rec.delivered.append(d)
            real_exec = request.execute

            def exec_wrapper(context, *a):
                u = rec.ctx_uid.get(id(context), -1)
                try:
                    resp = real_exec(context, *a)
                except Exception as e:  # noqa: BLE001 — observation, re-raised unchanged
                    from lib.pyx import pyexn
                    d["results"].append((u, ("raise", pyexn(e))))
                    raise
                try:
                    body = bytes(resp.encode())
                except Exception:  # noqa: BLE001
                    body = None
                d["results"].append((u, ("ok", int(resp.function_code), bool(resp.should_respond),
                                         getattr(resp, "exception_code", None) if int(resp.function_code) >= 0x80 else None,
                                         body)))
                return resp
            request.execute = exec_wrapper
            prev = rec.cur
            rec.cur = tag
            try:
                return real(obj, request, *addr)
            finally:
                rec.cur = prev
        setattr(obj, name, wrapper)

    def hook_framer(self, framer):
        real = framer.buildPacket
        rec = self

        def build(message):
            pdu = real(message)
            rec.sent.append({"for": rec.cur, "tid": int(message.transaction_id), "uid": int(message.unit_id),
                             "fc": int(message.function_code),
                             "code": getattr(message, "exception_code", None) if int(message.function_code) >= 0x80 else None,
                             "dest": None, "bytes": bytes(pdu)})
            return pdu
        framer.buildPacket = build

    def wrote(self, data, dest):
        self.raw.append((bytes(data), dest))
        if self.sent and self.sent[-1]["dest"] is None and self.sent[-1]["bytes"] == bytes(data):
            self.sent[-1]["dest"] = dest


def addr_of(i):
    return ("10.0.0.%d" % i, 1000 + i)


def idx_of(addr):
    try:
        return int(addr[1]) - 1000
    except Exception:  # noqa: BLE001
        return -1


# ----------------------------------------------------------------------------- front-ends

def _server_ns(context, framer, cfg):
    from pymodbus.factory import ServerDecoder
    return types.SimpleNamespace(context=context, framer=framer_class(framer), decoder=ServerDecoder(),
                                 threads=[], ignore_missing_slaves=cfg["ignore"],
                                 broadcast_enable=cfg["bcast"], active_connections={})


def _run_sync_stream(cls, rec, server, reads):
    h = cls.__new__(cls)

    class Sock:
        def __init__(self):
            self.chunks = list(reads)

        def recv(self, n):
            if self.chunks:
                return self.chunks.pop(0)
            h.running = False
            return b""

        def send(self, data):
            rec.wrote(data, 0)
            return len(data)
    h.request = Sock()
    h.client_address = ("127.0.0.1", 5020)
    h.server = server
    h.setup()
    rec.hook_execute(h, "execute")
    rec.hook_framer(h.framer)
    try:
        h.handle()
    except Exception as e:  # noqa: BLE001
        rec.escaped.append(type(e).__name__)
    h.finish()


def _run_sync_udp(cls, rec, server, reads):
    class USock:
        def sendto(self, data, addr):
            rec.wrote(data, idx_of(addr))
            return len(data)
    for data, sender in reads:
        h = cls.__new__(cls)
        h.request = (data, USock())
        h.client_address = addr_of(sender)
        h.server = server
        h.setup()
        rec.cur_dest = sender
        rec.hook_execute(h, "execute")
        rec.hook_framer(h.framer)
        try:
            h.handle()
        except Exception as e:  # noqa: BLE001
            rec.escaped.append(type(e).__name__)
        h.finish()


def _run_aio(rec, server, reads, datagram):
    from pymodbus.server import async_io as aio

    class T:
        def get_extra_info(self, k):
            return ("127.0.0.1", 5020)

        def write(self, data):
            rec.wrote(data, 0)

        def sendto(self, data, addr=None):
            rec.wrote(data, idx_of(addr))

        def close(self):
            rec.closed += 1

    async def main():
        with warnings.catch_warnings():
            warnings.simplefilter("ignore")
            h = (aio.ModbusDisconnectedRequestHandler if datagram else aio.ModbusConnectedRequestHandler)(server)
            h.connection_made(T())
        rec.hook_execute(h, "execute")
        rec.hook_framer(h.framer)
        for r in reads:
            if datagram:
                data, sender = r
                rec.cur_dest = sender
                h.datagram_received(data, addr_of(sender))
            else:
                h.data_received(r)
            for _ in range(4):
                await asyncio.sleep(0)
        h.connection_lost(None)
        await asyncio.sleep(0)
        if h.handler_task is not None and h.handler_task.done() and not h.handler_task.cancelled():
            e = h.handler_task.exception()
            if e is not None:
                rec.escaped.append(type(e).__name__)
    asyncio.run(main())


def _run_tw_tcp(rec, context, framer, cfg, reads):
    from pymodbus.server.asynchronous import ModbusServerFactory

    class T:
        def getHost(self):
            return "host"

        def write(self, data):
            rec.wrote(data, 0)
    f = ModbusServerFactory(context, framer_class(framer), ignore_missing_slaves=cfg["ignore"])
    p = f.buildProtocol(None)
    p.transport = T()
    p.connectionMade()
    rec.hook_execute(p, "_execute")
    rec.hook_framer(p.framer)
    for r in reads:
        try:
            p.dataReceived(r)
        except Exception as e:  # noqa: BLE001
            rec.escaped.append(type(e).__name__)


def tw_udp_protocol(rec, context, framer, cfg):
    from pymodbus.server.asynchronous import ModbusUdpProtocol

    class T:
        def write(self, data, addr=None):
            rec.wrote(data, idx_of(addr))
    p = ModbusUdpProtocol(context, framer_class(framer), ignore_missing_slaves=cfg["ignore"])
    p.transport = T()
    rec.hook_execute(p, "_execute")
    rec.hook_framer(p.framer)
    return p


def _run_tw_udp(rec, context, framer, cfg, reads, direct):
    """direct=False: through datagramReceived (dead on the pinned tree: TypeError on the first log line).
    direct=True: every frame of the datagram is decoded by the harness and handed to the REAL
    `_execute(request, addr)`, so that `_execute`/`_send` are still tied."""
    p = tw_udp_protocol(rec, context, framer, cfg)
    for data, sender in reads:
        rec.cur_dest = sender
        if not direct:
            try:
                p.datagramReceived(data, addr_of(sender))
            except Exception as e:  # noqa: BLE001
                rec.escaped.append(type(e).__name__)
            continue
        for tid, uid, fc, body in split_adus(framer, data) or []:
            req = p.decoder.decode(bytes([fc]) + body)
            if req is None:
                continue
            req.transaction_id, req.unit_id = tid or 0, uid
            try:
                p._execute(req, addr_of(sender))
            except Exception as e:  # noqa: BLE001
                rec.escaped.append(type(e).__name__)


def run(frontend, framer, cfg, hosted, reads, direct=False):
    """cfg: {"single","bcast","ignore"}; hosted: [(uid, kind)];
    reads: stream: [bytes]; datagram: [(bytes, sender_index)]"""
    from pymodbus.server import sync
    reset_mcb()
    context, units = mk_context(cfg["single"], hosted)
    before = {u: dump(s) for u, s in units}
    rec = Rec(units)
    try:
        if frontend == "sync_tcp":
            _run_sync_stream(sync.ModbusConnectedRequestHandler, rec, _server_ns(context, framer, cfg), reads)
        elif frontend == "sync_serial":
            _run_sync_stream(sync.ModbusSingleRequestHandler, rec, _server_ns(context, framer, cfg), reads)
        elif frontend == "sync_udp":
            _run_sync_udp(sync.ModbusDisconnectedRequestHandler, rec, _server_ns(context, framer, cfg), reads)
        elif frontend == "aio_tcp":
            _run_aio(rec, _server_ns(context, framer, cfg), reads, False)
        elif frontend == "aio_udp":
            _run_aio(rec, _server_ns(context, framer, cfg), reads, True)
        elif frontend == "tw_tcp":
            _run_tw_tcp(rec, context, framer, cfg, reads)
        elif frontend == "tw_udp":
            _run_tw_udp(rec, context, framer, cfg, reads, direct)
        else:
            raise ValueError(frontend)
    finally:
        reset_mcb()
    rec.after = {u: dump(s) for u, s in units}
    rec.before = before
    rec.changed = [u for u, _ in units if rec.after[u] != before[u]]
    rec.logs = {u: [] for u, _ in units}
    for d in rec.delivered:
        for u, _r in d["results"]:
            rec.logs.setdefault(u, []).append(d["tag"])
    return rec
