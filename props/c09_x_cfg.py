"""C09 add-on: configuration wiring (Props/C09_cfg.v) — see props/lib_wiring.py."""
from props import lib_wiring as W

GENERATORS = W.GENERATORS
PROP_FILES = ["C09_cfg"]
CASE_DEPS = W.CASE_DEPS
TRUSTED = W.TRUSTED
ASSUMPTIONS = W.ASSUMPTIONS
suites = W.suites
classify = W.classify
replay_case = W.replay_case

MANIFEST_ADD = {"text": "Add-on Props/C09_cfg.v (C09_cfg_flags_served): from every documented Start*Server factory (generated table of all ten: argument binding against the constructor's signature, popped keys, **kwargs forwarding) through the constructor wiring, the flags broadcast_enable / ignore_missing_slaves the handlers read are the values the user passed, the defaults only when nothing was passed; tied by calling the real factories with the serving loop / reactor / event loop stubbed out.",
                "note": "The factories' runtime (serve_forever, reactor, event loop, serial ports) is stubbed in the correspondence, not modelled."}
