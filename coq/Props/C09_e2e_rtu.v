(* Props/C09_e2e_rtu.v — END-TO-END composition for the SERIAL server path with RTU framing.
   ONLY statements; proofs in proofs/EndToEndRtu_proofs.v (on top of proofs/EndToEndSerial_proofs.v).

   Model side — [rtu_server_run sk cfg l chunks] (theories/EndToEndSerial.v): the loop of the threaded
   serial handler (empty reads skipped, unit list / `single` read from the live context per read,
   resetFrame when the framer raises) around FrRtu.rtu_recv with the GENERATED server frame-size table
   (GenFramerB.server_decoder) and the Pdu model's ServerDecoder, the framing-independent callback of
   EndToEnd.v, FrRtu.rtu_build for the response.  The RTU framer development has its own types;
   [rtu_dec], [rtu_fcfg], [rtu_delivery], [rtu_recv_h] are the adapters.
   Spec side — the byte stream is the concatenation of [req_adu_rtu q] = unit, PDU, CRC-16 low byte
   first (FrSpecB.spec_adu_rtu of PduSpec.spec_pdu); [spec_run_g rtu_adu] answers every request to a
   served unit with the RTU ADU of the response of ExecSpec.spec_exec and ignores every other frame.

   [rtu_item_ok]: an item of the stream is a request message FC 1-6/15/16/22/23 whose fields fit, addressed
   to a served unit, or such a message addressed to a unit the filter rejects (skipped).  Unlike ASCII a
   rejected frame cannot be arbitrary: RTU frames are not delimited, the receiver needs the frame-size
   rule of the function code even to skip a frame (unassigned codes are therefore excluded too).
   EVERY division of the byte stream into reads, empty and one-byte reads included (C06_rtu). *)
From PM.theories Require Import Base Expr Struct FrBaseA FrSpecA PduCls PduSpec Pdu Store Exec ExecSpec Server
                                EndToEnd EndToEndSerial CorrE2E CorrE2ESerial.
From PM.theories Require FrBCommon FrRtu FrSpecB.
From PM.Generated Require GenStore GenExec GenServer GenFramerB.
From PM.proofs Require Import Exec_proofs Server_proofs EndToEnd_adapt_proofs EndToEnd_spec_proofs EndToEnd_proofs
                              EndToEndSerial_proofs EndToEndRtu_proofs.
From PM.proofs Require FrB_rtu_proofs.
From PM.Props Require C09_e2e C09_e2e_ascii.
Open Scope string_scope.
Open Scope list_scope.
Open Scope Z_scope.

Theorem C09_e2e_rtu : forall sk cfg (l : units slavectx) (su : sunits) (qs : list e2e_req) (chunks : list bytes),
  In sk serial_fes ->                                     (* the generated skeleton sync_serial *)
  units_rel l su ->                                       (* stores abstract to su; C04 invariant; 16-bit cells *)
  Forall (rtu_item_ok sk cfg (u_keys slavectx l) (framer_cfg sk cfg l)) qs ->
  concat chunks = concat (map req_adu_rtu qs) ->          (* ANY division of the byte stream into reads *)
  exists l' st',
    rtu_server_run sk cfg l chunks = result l' (snd (spec_run_g rtu_adu (cf_single cfg) su qs)) st' /\
    units_rel l' (fst (spec_run_g rtu_adu (cf_single cfg) su qs)).
Proof. exact e2e_rtu. Qed.
Print Assumptions C09_e2e_rtu.

(* ---- the adapters between the two framer developments, as theorems ------------------------------- *)
(* the RTU half's unit filter is the filter of the socket/ASCII half *)
Theorem C09_e2e_rtu_filter : forall c uid b, c_single c = Some b ->
  FrBCommon.validate_unit (rtu_fcfg c) (Some uid) = Ok (spec_accepts KAscii c uid).
Proof. exact rtu_validate. Qed.
Print Assumptions C09_e2e_rtu_filter.

(* every data-access request has a prefix-stable and correct size rule in the generated server table *)
Theorem C09_e2e_rtu_request_size : forall m w u, wreq_of_msg m = Some w -> spec_wf m = true -> wfb (u :: spec_pdu m) = true ->
  exists fc data, spec_pdu m = fc :: data /\
    FrB_rtu_proofs.simple_rule (FrBCommon.lookup_rule GenFramerB.server_decoder (FrBCommon.zb fc)) = true /\
    FrBCommon.frame_size (FrBCommon.lookup_rule GenFramerB.server_decoder (FrBCommon.zb fc)) (FrSpecB.spec_adu_rtu u (spec_pdu m))
      = Ok (FrBCommon.zlen (FrSpecB.spec_adu_rtu u (spec_pdu m))).
Proof. exact rtu_request_size. Qed.
Print Assumptions C09_e2e_rtu_request_size.

(* response packet: C01_encode_conforms + C03_build_rtu *)
Theorem C09_e2e_rtu_packet : pk_ok packet_rtu rtu_adu (fun q => spec_delivery KAscii (frame_of q)).
Proof. exact rtu_pk_ok. Qed.
Print Assumptions C09_e2e_rtu_packet.

(* ---- non-vacuity: the stream of C09_e2e_ascii_nonvacuous in RTU framing (unit 1 hosted; write, a frame
   for unit 9, read, read outside the table), as two one-byte reads, an empty read, 9 bytes (ending inside
   the frame for unit 9), the rest *)
Definition nvr_stream : bytes := concat (map req_adu_rtu C09_e2e_ascii.nva_reqs).
Definition nvr_chunks : list bytes :=
  [firstn 1 nvr_stream; firstn 1 (skipn 1 nvr_stream); []; firstn 9 (skipn 2 nvr_stream); skipn 11 nvr_stream].

Example C09_e2e_rtu_nonvacuous :
  let sk := GenServer.sync_serial in let cfg := C09_e2e_ascii.nva_cfg in let l := C09_e2e_ascii.nva_units in
  Forall (rtu_item_ok sk cfg (u_keys slavectx l) (framer_cfg sk cfg l)) C09_e2e_ascii.nva_reqs /\
  concat nvr_chunks = concat (map req_adu_rtu C09_e2e_ascii.nva_reqs) /\
  nvr_stream = [1; 6; 0; 2; 18; 52; 37; 125;   9; 6; 0; 2; 0; 7; 104; 128;
                1; 3; 0; 1; 0; 3; 84; 11;      1; 1; 0; 8; 0; 3; 253; 201]%N /\
  e_out (rtu_server_run sk cfg l nvr_chunks) =
    [1; 6; 0; 2; 18; 52; 37; 125;                          (* echo of the write *)
     1; 3; 6; 0; 0; 18; 52; 0; 0; 101; 195;                (* registers 1..3 = 0, 0x1234, 0 *)
     1; 129; 2; 193; 145]%N /\                             (* exception 02 *)
  snd (spec_run_g rtu_adu false (abs_units l) C09_e2e_ascii.nva_reqs) = e_out (rtu_server_run sk cfg l nvr_chunks).
Proof.
  cbv zeta. split.
  { unfold C09_e2e_ascii.nva_reqs. repeat (apply Forall_cons || apply Forall_nil);
      (split; [cbn; lia|]; split; [reflexivity|]; split; [eexists; eexists; repeat split; reflexivity|]).
    - left. repeat split; cbn; try lia; tauto.
    - right. reflexivity.
    - left. repeat split; cbn; try lia; tauto.
    - left. repeat split; cbn; try lia; tauto. }
  split; [vm_compute; reflexivity|]. split; [vm_compute; reflexivity|]. split; vm_compute; reflexivity.
Qed.
