"""Shared driver for C08 / C13: the REAL synchronous clients (ModbusTcpClient, ModbusUdpClient,
ModbusSerialClient rtu/ascii/binary, framer-over-TCP clients) run in-process against a scripted fake
peer in VIRTUAL time.  Nothing of pymodbus is replaced except the points where it touches the
operating system: `connect()` (re-attaches the scripted transport), the `time`/`select` modules as seen
from pymodbus.client.sync / pymodbus.transaction / pymodbus.framer.rtu_framer, and the socket / serial
object itself.  Everything else (`execute`, `_transact`, `_recv`, `_send`, the TCP deadline loop, the
serial flush, the framers, the decoder) is the code under test.

What is recorded per transaction (all canonical, no text, no floats):
  * every call the client makes at the framer->client boundary (`client.send(pkt)`, `client.recv(size)`)
    and every real (re)connect, each with its outcome  -> the per-call script the Coq model consumes;
  * every outside call of `framer.resetFrame` / `framer.processIncomingPacket` as a transition of an
    opaque framer state (what was delivered to the callback, what was raised);
  * the backoff sleeps, the frames written to the wire, the return value / escaped exception.
"""
import contextlib
import struct
import types

DELTA = 1.0 / 64          # every look at the clock costs DELTA > 0 (the deadline-loop hypothesis)
TIMEOUT = 1           # client timeout used everywhere (virtual seconds)

KINDS = ["tcp", "udp", "rtu", "ascii", "binary", "tcp_rtu", "tcp_ascii", "tcp_binary"]
FRAMING = {"tcp": "FTcp", "udp": "FTcp", "rtu": "FRtu", "ascii": "FAscii", "binary": "FBin",
           "tcp_rtu": "FRtu", "tcp_ascii": "FAscii", "tcp_binary": "FBin"}
BEHAVIOURS = ["full", "exc", "nothing", "partial", "garbage", "wrongunit", "stale", "late", "oserror", "close"]


# ----------------------------------------------------------------------------- virtual time

class VClock:
    def __init__(self):
        self.t = 1000.0
        self.sleeps = []          # (tag, seconds)
        self.looks = 0

    def mod(self, tag):
        def _time():
            self.looks += 1
            self.t += DELTA
            return self.t

        def _sleep(d):
            self.sleeps.append((tag, d))
            if len(self.sleeps) > 200000:
                raise HangForever()       # a polling loop that no clock can end
            if d > 0:
                self.t += d
        return types.SimpleNamespace(time=_time, sleep=_sleep)


# ----------------------------------------------------------------------------- the scripted peer

class Peer:
    """What is at the other end.  `script` = list of reactions, one per frame the client writes; after the
    script is exhausted the peer is healthy (answers every frame with the correct reply at once)."""

    def __init__(self, clock, datagram, stream_reset_on_reconnect):
        self.clock = clock
        self.datagram = datagram
        self.reset_on_reconnect = stream_reset_on_reconnect
        self.q = []               # [due, bytes] in arrival order
        self.waits = []           # every timeout handed to select / used by a blocking read
        self.rx_err = None        # None | "oserror" | "close"  (close: end of file once the queued bytes are read)
        self.half = False
        self.tx_err = False
        self.refuse = 0           # number of connects to refuse
        self.script = []
        self.reply_for = None     # function(packet) -> dict of canned answers
        self.written = []
        self.connects = 0

    # -- client side events
    def tx(self, data):
        data = bytes(data)
        react = self.script.pop(0) if self.script else ("full", {})
        if react[0] == "oserror" and react[1].get("on_send"):
            raise BrokenPipeError(32, "scripted")          # this write fails; nothing reaches the peer
        self.written.append(data)
        self.react(react, data)
        return len(data)

    def react(self, react, data):
        name, p = react
        a = self.reply_for(data)
        now = self.clock.t
        if name == "full":
            self.q.append([now, a["full"]])
        elif name == "exc":
            self.q.append([now, a["exc"]])
        elif name == "nothing":
            pass
        elif name == "partial":
            k = 1 + p.get("k", 0) % max(len(a["full"]) - 1, 1)
            self.q.append([now, a["full"][:k]])
        elif name == "garbage":
            self.q.append([now, bytes(p["bytes"])])
        elif name == "wrongunit":
            self.q.append([now, a["wrongunit"]])
        elif name == "stale":
            self.q.append([now, a["stale_fc"] if p.get("fc") else a["stale"]])
        elif name == "late":
            self.q.append([now + TIMEOUT + 5 * DELTA + 0.5, a["full"]])
        elif name == "oserror":
            self.rx_err = "oserror"
        elif name == "close":              # peer closes before any reply byte
            self.rx_err = "close"
        elif name == "close8":             # the first 8 bytes of the reply, then the peer closes
            self.q.append([now, a["full"][:8]])
            self.rx_err = "close"
        elif name == "closek":             # k bytes reaching into the body, then the peer closes
            k = 9 + p.get("k", 0) % max(len(a["full"]) - 9, 1)
            self.q.append([now, a["full"][:k]])
            self.rx_err = "close"
        elif name == "halfclose":          # shutdown(SHUT_WR) by the peer: end of file on our side, nothing else
            self.rx_err = "close"
            self.half = True
        elif name == "twoframes":          # a good frame followed by a second one in the same read
            self.q.append([now, a["full"] + a["exc"]])
        elif name == "wrongthenown":       # a short frame of another unit, then the own (exception) reply, in one burst
            self.q.append([now, a["wrong_short"] + a["exc"]])
        elif name == "slow":               # the correct reply in two bursts: header part now, the rest 50 ms later
            k = min(max(p.get("k", 5), 2), len(a["full"]) - 1)
            self.q.append([now, a["full"][:k]])
            self.q.append([now + 0.05, a["full"][k:]])
        elif name == "barefc":             # well-framed reply that carries only the function code
            self.q.append([now, a["barefc"]])
        elif name == "truncbc":            # well-framed reply cut right after its byte count / first data byte
            self.q.append([now, a["truncbc"]])
        elif name == "unknownfc":          # well-framed reply with a function code no response class has
            self.q.append([now, a["unknownfc"]])
        elif name == "twobad":             # a good frame followed by one the decoder rejects
            self.q.append([now, a["full"] + a["bad"]])
        else:
            raise ValueError(name)

    def on_connect(self):
        self.connects += 1
        if self.refuse > 0:
            self.refuse -= 1
            return False
        self.rx_err = None
        if self.reset_on_reconnect:
            self.q = []
        else:
            self.q = [x for x in self.q if x[0] > self.clock.t]
        return True

    # -- availability
    def avail(self):
        return sum(len(b) for d, b in self.q if d <= self.clock.t)

    def next_due(self):
        ds = [d for d, b in self.q if d > self.clock.t]
        return min(ds) if ds else None

    def take(self, n):
        out = b""
        for item in sorted(self.q, key=lambda x: x[0]):      # bytes are delivered in the order they arrived
            if item[0] <= self.clock.t and len(out) < n:
                k = n - len(out)
                out += item[1][:k]
                item[1] = item[1][k:]
        self.q = [x for x in self.q if x[1]]
        return out

    def wait_readable(self, timeout):
        self.waits.append(timeout)
        if self.rx_err or self.avail():
            return True
        d = self.next_due()
        if d is not None and timeout is not None and d <= self.clock.t + timeout:
            self.clock.t = d
            return True
        if timeout is None:
            if d is None:
                raise HangForever()
            self.clock.t = d
            return True
        if timeout > 0:
            self.clock.t += timeout
        return False


class HangForever(BaseException):
    """the real call would block for ever (virtual time cannot advance)"""


class FakeSock:
    def __init__(self, peer):
        self.peer, self.timeout = peer, None

    def setblocking(self, f):
        pass

    def settimeout(self, t):
        self.timeout = t

    def send(self, data):
        return self.peer.tx(data)

    def sendto(self, data, addr):
        return self.peer.tx(data)

    def recv(self, n):
        p = self.peer
        if p.rx_err == "oserror":
            p.rx_err = None
            raise ConnectionResetError(104, "scripted")
        if p.rx_err == "close" and not p.avail():
            return b""
        return p.take(n)

    def recvfrom(self, n):
        import socket
        p = self.peer
        if p.rx_err and not p.avail():
            p.rx_err = None
            raise ConnectionRefusedError(111, "scripted")
        if not p.wait_readable(self.timeout):
            raise socket.timeout("timed out")
        for item in sorted(p.q, key=lambda x: x[0]):
            if item[0] <= p.clock.t:
                p.q.remove(item)
                return item[1][:n], ("127.0.0.1", 502)
        return b"", ("127.0.0.1", 502)

    def close(self):
        pass


class FakeSerial:
    is_open = True

    def __init__(self, peer, timeout):
        self.peer, self.timeout = peer, timeout
        self.interCharTimeout = None

    @property
    def in_waiting(self):
        return self.peer.avail()

    def write(self, data):
        return self.peer.tx(data)

    def legacy(self):
        """the same port in pyserial 2.x style: inWaiting() method, no in_waiting attribute"""
        port = self

        class LegacyPort(object):
            is_open = True

            def inWaiting(self):
                return port.peer.avail()

            def __getattr__(self, name):
                if name == "in_waiting":
                    raise AttributeError(name)
                return getattr(port, name)

            def __setattr__(self, name, value):
                setattr(port, name, value)
        return LegacyPort()

    def read(self, size):
        import serial
        p = self.peer
        if p.rx_err and not (p.rx_err == "close" and p.avail()):
            if p.rx_err == "oserror":
                p.rx_err = None
            raise serial.SerialException("scripted")
        if size is None or size <= 0:
            return b""
        p.waits.append(self.timeout)
        start = p.clock.t
        out = b""
        while True:
            out += p.take(size - len(out))
            if len(out) >= size:
                break
            d = p.next_due()
            if d is not None and d <= start + self.timeout:
                p.clock.t = d
                continue
            p.clock.t = max(p.clock.t, start + self.timeout)
            break
        return out

    def close(self):
        self.is_open = False


def fake_select(peer_of):
    def _select(r, w, x, timeout=None):
        if timeout is not None and timeout < 0:
            raise ValueError("timeout must be non-negative")
        s = r[0]
        return ([s] if s.peer.wait_readable(timeout) else [], [], [])
    return types.SimpleNamespace(select=_select)


# ----------------------------------------------------------------------------- requests and the conformant server

def request_table():
    """every request type of the client API (and the remaining request classes) with fixed, valid arguments"""
    from pymodbus import bit_read_message as br, bit_write_message as bw, register_read_message as rr
    from pymodbus import register_write_message as rw, diag_message as dg, other_message as om
    from pymodbus import file_message as fm, mei_message as mm
    T = [
        ("read_coils", lambda: br.ReadCoilsRequest(1, 10)),
        ("read_discrete", lambda: br.ReadDiscreteInputsRequest(0, 17)),
        ("read_holding", lambda: rr.ReadHoldingRegistersRequest(2, 3)),
        ("read_holding_big", lambda: rr.ReadHoldingRegistersRequest(0, 20)),
        ("read_input", lambda: rr.ReadInputRegistersRequest(0, 1)),
        ("write_coil", lambda: bw.WriteSingleCoilRequest(3, True)),
        ("write_coils", lambda: bw.WriteMultipleCoilsRequest(1, [True, False, True, True, False, True, False, False, True])),
        ("write_register", lambda: rw.WriteSingleRegisterRequest(4, 0x1234)),
        # the echo of this request from unit 5 sums to 0 mod 256: its ASCII frame carries LRC 00 (the check value at the
        # end of its range), from unit 17 LRC F4
        ("write_register_lrc0", lambda: rw.WriteSingleRegisterRequest(4, 0x00F1)),
        ("write_registers", lambda: rw.WriteMultipleRegistersRequest(1, [1, 2, 0xffff])),
        ("mask_write", lambda: rw.MaskWriteRegisterRequest(1, 0x00f2, 0x0025)),
        ("readwrite", lambda: rr.ReadWriteMultipleRegistersRequest(read_address=1, read_count=2, write_address=3, write_registers=[7, 8])),
        ("diag_query", lambda: dg.ReturnQueryDataRequest(0x1234)),
        ("diag_busmsg", lambda: dg.ReturnBusMessageCountRequest()),
        ("exc_status", lambda: om.ReadExceptionStatusRequest()),
        ("evt_counter", lambda: om.GetCommEventCounterRequest()),
        ("evt_log", lambda: om.GetCommEventLogRequest()),
        ("slave_id", lambda: om.ReportSlaveIdRequest()),
        ("read_fifo", lambda: fm.ReadFifoQueueRequest(0)),
        ("read_file", lambda: fm.ReadFileRecordRequest([fm.FileRecord(file_number=1, record_number=1, record_length=2)])),
        ("write_file", lambda: fm.WriteFileRecordRequest([fm.FileRecord(file_number=1, record_number=1, record_data=b"\x12\x34")])),
        ("dev_info", lambda: mm.ReadDeviceInformationRequest(1, 0)),
    ]
    return T


def size_request_table():
    """requests whose reply length depends on counts that differ between the request's fields (FC 23 read count vs
    registers written) or sits at a protocol limit; used by the `sizes` block only (not in the rotation)"""
    from pymodbus import bit_read_message as br, bit_write_message as bw, register_read_message as rr
    from pymodbus import register_write_message as rw
    T = []
    for rc in (1, 4, 125):
        for wc in (1, 2, 121):
            T.append(("rw_r%d_w%d" % (rc, wc), (lambda rc=rc, wc=wc: rr.ReadWriteMultipleRegistersRequest(
                read_address=3, read_count=rc, write_address=300, write_registers=[(7 * i + 1) & 0xffff for i in range(wc)]))))
    T += [
        ("read_holding_125", lambda: rr.ReadHoldingRegistersRequest(0, 125)),
        ("read_input_125", lambda: rr.ReadInputRegistersRequest(1, 125)),
        ("read_coils_2000", lambda: br.ReadCoilsRequest(0, 2000)),
        ("read_discrete_9", lambda: br.ReadDiscreteInputsRequest(5, 9)),
        ("write_coils_1968", lambda: bw.WriteMultipleCoilsRequest(0, [i % 3 == 0 for i in range(1968)])),
        ("write_coils_1", lambda: bw.WriteMultipleCoilsRequest(7, [True])),
        ("write_registers_123", lambda: rw.WriteMultipleRegistersRequest(0, [i for i in range(123)])),
        ("write_registers_1", lambda: rw.WriteMultipleRegistersRequest(9, [0xffff])),
        ("mask_write_max", lambda: rw.MaskWriteRegisterRequest(0x1ff, 0xffff, 0x0000)),
    ]
    return T


def all_requests():
    return dict(request_table() + size_request_table())


def server_context():
    from pymodbus.datastore import ModbusSequentialDataBlock, ModbusSlaveContext
    return ModbusSlaveContext(
        di=ModbusSequentialDataBlock(0, [i % 3 == 0 for i in range(2100)]),
        co=ModbusSequentialDataBlock(0, [i % 2 == 0 for i in range(2100)]),
        hr=ModbusSequentialDataBlock(0, [0x100 + i for i in range(2100)]),
        ir=ModbusSequentialDataBlock(0, [0x200 + i for i in range(2100)]), zero_mode=True)


class RawMsg:
    """just enough of a message for framer.buildPacket: the PDU bytes are given"""
    protocol_id = 0

    def __init__(self, tid, uid, pdu):
        self.transaction_id, self.unit_id, self.function_code, self._body = tid, uid, pdu[0], bytes(pdu[1:])

    def encode(self):
        return self._body


def framer_class(kind):
    from pymodbus.transaction import ModbusSocketFramer, ModbusRtuFramer, ModbusAsciiFramer, ModbusBinaryFramer
    return {"FTcp": ModbusSocketFramer, "FRtu": ModbusRtuFramer, "FAscii": ModbusAsciiFramer,
            "FBin": ModbusBinaryFramer}[FRAMING[kind]]


def reset_singletons():
    from pymodbus.device import ModbusControlBlock
    cb = ModbusControlBlock()
    try:
        cb.reset()
        cb.Mode = "ASCII"
        cb.ListenOnly = False
    except Exception:  # noqa: BLE001
        pass


def reply_pdu(req_factory):
    """what a conformant server answers: the request executed by pymodbus' own server logic on a data store"""
    reset_singletons()
    rsp = req_factory().execute(server_context())
    return bytes([rsp.function_code]) + rsp.encode()


def other_pdu(fc):
    return b"\x01\x01\x05" if fc != 1 else b"\x03\x02\x00\x07"


def canon(v):
    if isinstance(v, bool):
        return int(v)
    if isinstance(v, (int, str)):
        return v
    if isinstance(v, bytes):
        return "b:" + v.hex()
    if isinstance(v, (list, tuple)):
        return [canon(x) for x in v]
    if isinstance(v, dict):
        return sorted((canon(k), canon(x)) for k, x in v.items())
    if v is None:
        return None
    if hasattr(v, "__dict__"):
        return [type(v).__name__, sorted((k, canon(x)) for k, x in vars(v).items())]
    return repr(type(v))


SKIP_ATTRS = ("transaction_id", "protocol_id", "unit_id", "skip_encode", "check")


def dump(obj):
    return repr((type(obj).__name__, sorted((k, canon(v)) for k, v in vars(obj).items() if k not in SKIP_ATTRS)))


def decoded_dump(pdu):
    from pymodbus.factory import ClientDecoder
    reset_singletons()
    o = ClientDecoder().decode(bytes(pdu))
    return None if o is None else dump(o)


# ----------------------------------------------------------------------------- one client under test

_RIG_COUNT = [0]


class Rig:
    def __init__(self, kind, retries=None, retry_on_empty=False, retry_on_invalid=False, broadcast_enable=False,
                 tid0=0, backoff=None, timeout=TIMEOUT):
        from pymodbus.client import sync
        self.kind = kind
        # every other rig talks to a port of the legacy pyserial style (inWaiting() only): both spellings are supported
        # by the client's shim and must behave alike
        _RIG_COUNT[0] += 1
        self.legacy_port = (_RIG_COUNT[0] % 2 == 0)
        self.clock = VClock()
        self.stream_tcp = kind in ("tcp", "tcp_rtu", "tcp_ascii", "tcp_binary")
        self.peer = Peer(self.clock, datagram=(kind == "udp"), stream_reset_on_reconnect=self.stream_tcp or kind == "udp")
        kw = dict(retry_on_empty=retry_on_empty, retry_on_invalid=retry_on_invalid)
        if timeout != "default":
            kw["timeout"] = timeout
        if retries is not None:
            kw["retries"] = retries
        if broadcast_enable:
            kw["broadcast_enable"] = True
        if backoff is not None:
            kw["backoff"] = backoff
        if kind == "tcp":
            c = sync.ModbusTcpClient("127.0.0.1", **kw)
        elif kind == "udp":
            c = sync.ModbusUdpClient("127.0.0.1", **kw)
        elif kind in ("rtu", "ascii", "binary"):
            c = sync.ModbusSerialClient(method=kind, port="/dev/null", **kw)
        else:
            c = sync.ModbusTcpClient("127.0.0.1", framer=framer_class(kind), **kw)
        self.client = c
        c.transaction.tid = tid0
        self.build_framer = framer_class(kind)(None)
        self.dumps = {}            # dump text -> id
        self.trace = []            # current transaction: calls
        self.fr_events = []        # current transaction: framer events
        self.states = {}           # framer state key -> id
        self.delivered = []
        self._in_process = False
        self._wire(c)

    # -- interning
    def dump_id(self, text):
        if text is None:
            return None
        return self.dumps.setdefault(text, len(self.dumps) + 1)

    def fstate(self):
        f = self.client.framer
        key = (bytes(f._buffer), repr(sorted((k, canon(v)) for k, v in f._header.items())))
        return self.states.setdefault(key, len(self.states))

    def msg_of(self, m):
        return (int(getattr(m, "transaction_id", 0) or 0), int(getattr(m, "unit_id", 0) or 0),
                int(m.function_code), self.dump_id(dump(m)))

    # -- wiring
    def _wire(self, c):
        from pymodbus.exceptions import ConnectionException
        rig = self

        def connect():
            if c.socket:
                return True
            ok = rig.peer.on_connect()
            rig.trace.append(("connect", ok))
            if ok:
                if rig.kind in ("rtu", "ascii", "binary"):
                    c.socket = FakeSerial(rig.peer, c.timeout)
                    if rig.legacy_port:
                        c.socket = c.socket.legacy()
                    if c.method == "rtu":
                        c.last_frame_end = None
                else:
                    c.socket = FakeSock(rig.peer)
                    c.socket.settimeout(c.timeout)
            return c.socket is not None
        c.connect = connect

        orig_send, orig_recv = c.send, c.recv

        def send(pkt):
            try:
                n = orig_send(pkt)
            except OSError:
                rig.trace.append(("send", bytes(pkt), "oserror"))
                raise
            except ConnectionException:
                rig.trace.append(("send", bytes(pkt), "notconn"))
                raise
            rig.trace.append(("send", bytes(pkt), "ok"))
            return n

        def recv(size):
            try:
                d = orig_recv(size)
            except OSError:
                rig.trace.append(("recv", size, "oserror", b""))
                raise
            except ConnectionException:
                rig.trace.append(("recv", size, "notconn", b""))
                raise
            rig.trace.append(("recv", size, "data", bytes(d)))
            return d
        c.send, c.recv = send, recv

        f = c.framer
        orig_proc, orig_reset = f.processIncomingPacket, f.resetFrame

        def process(data, callback, unit, **kw):
            s0 = rig.fstate()
            got = []

            def cb(m):
                got.append(rig.msg_of(m))
                callback(m)
            rig._in_process = True
            exc = None
            try:
                orig_proc(data, cb, unit, **kw)
            except Exception as e:  # noqa: BLE001 — the class is the observation; re-raised below
                exc = e
            finally:
                rig._in_process = False
            from lib.pyx import pyexn
            rig.fr_events.append(("process", s0, bytes(data), int(unit), rig.fstate(), list(got),
                                  None if exc is None else pyexn(exc)))
            rig.delivered += got
            if exc is not None:
                raise exc

        def reset():
            if rig._in_process:
                return orig_reset()
            s0 = rig.fstate()
            orig_reset()
            rig.fr_events.append(("reset", s0, rig.fstate()))
        f.processIncomingPacket, f.resetFrame = process, reset

    @contextlib.contextmanager
    def patched(self):
        from pymodbus.client import sync
        from pymodbus import transaction
        from pymodbus.framer import rtu_framer
        saved = (sync.time, sync.select, transaction.time, rtu_framer.time)
        sync.time = self.clock.mod("sync")
        sync.select = fake_select(self.peer)
        transaction.time = self.clock.mod("transaction")
        rtu_framer.time = self.clock.mod("rtu")
        try:
            yield
        finally:
            sync.time, sync.select, transaction.time, rtu_framer.time = saved

    # -- one transaction
    def transact(self, req_factory, unit, script, refuse=0):
        """run client.execute(request) against `script`; returns the observation dict"""
        from lib.pyx import pyexn
        from pymodbus.exceptions import ModbusIOException
        from pymodbus.pdu import ModbusResponse
        c = self.client
        req = req_factory()
        req.unit_id = unit
        pdu = reply_pdu(req_factory)
        fc = pdu[0]
        want_tid = (c.transaction.tid + 1) & 0xffff
        bf = self.build_framer

        def reply_for(packet):
            tid = req.transaction_id if FRAMING[self.kind] == "FTcp" else 0
            if FRAMING[self.kind] == "FTcp" and len(packet) >= 2:
                tid = struct.unpack(">H", packet[:2])[0]
            wu = unit % 200 + 1 if unit % 200 + 1 != unit else unit + 2
            return {
                "full": bf.buildPacket(RawMsg(tid, unit, pdu)),
                "exc": bf.buildPacket(RawMsg(tid, unit, bytes([fc | 0x80, 2]))),
                "wrongunit": bf.buildPacket(RawMsg(tid, wu, pdu)),
                "stale": bf.buildPacket(RawMsg((tid + 77) & 0xffff, unit, pdu)) if FRAMING[self.kind] == "FTcp"
                else bf.buildPacket(RawMsg(tid, unit, other_pdu(fc))),
                "stale_fc": bf.buildPacket(RawMsg(tid, unit, other_pdu(fc))),
                "bad": bf.buildPacket(RawMsg(tid, unit, b"\x60\x01")),
                "wrong_short": bf.buildPacket(RawMsg(tid, wu, other_pdu(fc))),
                "barefc": bf.buildPacket(RawMsg(tid, unit, pdu[:1])),
                "truncbc": bf.buildPacket(RawMsg(tid, unit, pdu[:2])),
                "unknownfc": bf.buildPacket(RawMsg(tid, unit, bytes([0x41]) + pdu[1:])),
            }
        self.peer.reply_for = reply_for
        self.last_full_frame = reply_for(b"\0\0")["full"]
        self.peer.script = list(script)
        self.peer.refuse = refuse
        # time passes between two calls: whatever was still on its way has arrived by now
        dues = [d for d, b in self.peer.q]
        if dues and max(dues) > self.clock.t:
            self.clock.t = max(dues) + DELTA
        self.peer.written = []
        self.trace, self.fr_events, self.delivered = [], [], []
        nsleep0 = len(self.clock.sleeps)
        entry_state = self.fstate()
        entry_nonempty = bool(c.framer._buffer)
        entry_noresp = list(c.transaction._no_response_devices)
        entry_tx = len(c.transaction.transactions)
        entry_connected = bool(c.socket)
        hang = False
        surplus_before = self.peer.avail()
        self.peer.waits = []
        t_start = self.clock.t
        with self.patched():
            try:
                r = c.execute(req)
                exc = None
            except HangForever:
                r, exc, hang = None, None, True
            except Exception as e:  # noqa: BLE001
                r, exc = None, e
        if hang:
            res = ("hang",)
        elif exc is not None:
            res = ("raise", pyexn(exc))
        elif isinstance(r, ModbusResponse):
            res = ("reply",) + self.msg_of(r)
        elif isinstance(r, ModbusIOException):
            res = ("err", r.fcode)
        elif isinstance(r, bytes):
            res = ("bcast",)
        elif r is None:
            res = ("none",)
        else:
            res = ("other", type(r).__name__)
        is_error = None
        if res[0] in ("reply", "err"):
            try:
                is_error = bool(r.isError())
            except Exception:  # noqa: BLE001
                is_error = None
        delays = [d for tag, d in self.clock.sleeps[nsleep0:] if tag == "transaction"]
        backoff = c.transaction.backoff
        size = getattr(req, "get_response_pdu_size", None)
        try:
            psize = None if size is None else size()
        except Exception:  # noqa: BLE001
            psize = None
        return {
            "unit": unit, "fc": int(req.function_code), "pdu_size": psize, "want_tid": want_tid,
            "req_tid_after": int(req.transaction_id),
            "expected": {"full": self.dump_id(decoded_dump(pdu)),
                         "exc": self.dump_id(decoded_dump(bytes([fc | 0x80, 2])))},
            "entry": {"state": entry_state, "nonempty": entry_nonempty, "noresp": entry_noresp,
                      "ntx": entry_tx, "connected": entry_connected},
            "trace": list(self.trace), "framer": list(self.fr_events), "delivered": list(self.delivered),
            "written": list(self.peer.written), "result": res, "is_error": is_error,
            "timeout": units(c.timeout or 0), "elapsed": units(self.clock.t - t_start),
            "max_wait": max([10 ** 9 if w is None else units(w) for w in self.peer.waits] or [0]),
            "sleeps": [int(round(d / backoff * 2)) for d in delays],
            "exit": {"ntx": len(c.transaction.transactions), "noresp": list(c.transaction._no_response_devices),
                     "tid": int(c.transaction.tid), "state": self.fstate(), "connected": bool(c.socket)},
            "full_frame": self.last_full_frame.hex(),
            "refused": any(t[0] == "connect" and not t[1] for t in self.trace),
            "surplus_before": surplus_before, "surplus_after": self.peer.avail(),
        }


# ----------------------------------------------------------------------------- Coq terms

def units(seconds):
    """virtual seconds -> 1/64 s, rounded up"""
    import math
    return int(math.ceil(float(seconds) * 64 - 1e-9))


def z(n):
    n = int(n)
    return "(%d)" % n if n < 0 else "%d" % n


def cbytes(b):
    return "[" + ";".join("%d%%N" % x for x in bytes(b)) + "]"


def cbool(b):
    return "true" if b else "false"


def copt(v):
    return "(@None Z)" if v is None else "(Some %s)" % z(v)


def cmsg(m):
    return "{| m_tid := %s; m_uid := %s; m_fc := %s; m_id := %s |}" % tuple(z(x) for x in m)


def clist(items):
    return "[" + "; ".join(items) + "]"


def cresult(r):
    if r[0] == "reply":
        return "(RReply %s)" % cmsg(r[1:])
    if r[0] == "err":
        return "(RErr %s)" % copt(r[1])
    if r[0] == "bcast":
        return "RBroadcast"
    if r[0] == "none":
        return "RNone"
    if r[0] == "raise":
        return "(RRaise %s)" % r[1]
    return "RStuck"          # hang / foreign object: never equal to a model result, never accepted by an oracle


BEH = {"slow": "BSlow", "wrongthenown": "BWrongThenOwn", "full": "BFull", "exc": "BExc", "nothing": "BNothing", "partial": "BPartial", "garbage": "BGarbage",
       "wrongunit": "BWrongUnit", "stale": "BStale", "late": "BLate", "oserror": "BOSError", "close": "BClose"}


def script_and_calls(trace):
    sc, calls = [], []
    for t in trace:
        if t[0] == "connect":
            calls.append("CConnect")
            sc.append("Nothing" if t[1] else "Closed")
        elif t[0] == "send":
            if t[2] == "notconn":
                continue
            calls.append("(CSend %s)" % cbytes(t[1]))
            sc.append("Nothing" if t[2] == "ok" else "RaiseOSError")
        else:
            if t[2] == "notconn":
                continue
            calls.append("(CRecv %s)" % copt(t[1]))
            sc.append("RaiseOSError" if t[2] == "oserror" else ("(Data %s)" % cbytes(t[3]) if t[3] else "Nothing"))
    return sc, calls


def txn_term(o, req_id, behs):
    sc, calls = script_and_calls(o["trace"])
    return ("{| x_req := {| r_unit := %s; r_fc := %s; r_psize := %s; r_id := %s |}; x_script := %s;\n"
            "   x_calls := %s; x_result := %s; x_sleeps := %s;\n"
            "   x_fs_exit := %s; x_noresp_exit := %s; x_tid_exit := %s; x_ntx_exit := %s; x_conn_exit := %s;\n"
            "   x_want_tid := %s; x_behs := %s; x_exp_full := %s; x_exp_exc := %s; x_delivered := %s; x_refused := %s;\n"
            "   x_is_error := %s; x_timeout := %s; x_elapsed := %s; x_max_wait := %s |}") % (
        z(o["unit"]), z(o["fc"]), copt(o["pdu_size"]), z(req_id), clist(sc),
        clist(calls), cresult(o["result"]), clist(z(x) for x in o["sleeps"]),
        z(o["exit"]["state"]), clist(z(x) for x in o["exit"]["noresp"]), z(o["exit"]["tid"]), z(o["exit"]["ntx"]),
        cbool(o["exit"]["connected"]),
        z(o["want_tid"]), clist(BEH.get(b, "BOther") for b in behs), z(o["expected"]["full"] or 0),
        z(o["expected"]["exc"] or 0), clist(cmsg(m) for m in o["delivered"]), cbool(o["refused"]),
        "None" if o["is_error"] is None else "(Some %s)" % cbool(o["is_error"]),
        z(o["timeout"]), z(o["elapsed"]), z(o["max_wait"]))


def table_term(rig, obs_list, req_ids):
    """the recorded framer: transitions seen in this case"""
    nonempty, reset, process, build = {}, {}, [], {}
    for o, rid in zip(obs_list, req_ids):
        nonempty[o["entry"]["state"]] = o["entry"]["nonempty"]
        for ev in o["framer"]:
            if ev[0] == "reset":
                reset[ev[1]] = ev[2]
            else:
                process.append(ev)
        for t in o["trace"]:
            if t[0] == "send" and t[2] != "notconn":
                tid = o["want_tid"]
                build[(rid, tid)] = t[1]
    return ("{| ft_nonempty := %s; ft_reset := %s;\n   ft_process := %s;\n   ft_build := %s |}" % (
        clist("(%s, %s)" % (z(k), cbool(v)) for k, v in sorted(nonempty.items())),
        clist("(%s, %s)" % (z(k), z(v)) for k, v in sorted(reset.items())),
        clist("(%s, %s, %s, (%s, %s, %s))" % (z(e[1]), cbytes(e[2]), z(e[3]), z(e[4]), clist(cmsg(m) for m in e[5]),
                                               "None" if e[6] is None else "(Some %s)" % e[6]) for e in process),
        clist("(%s, %s, %s)" % (z(k[0]), z(k[1]), cbytes(v)) for k, v in sorted(build.items()))))


def cfg_term(kind, retries, roe, roi, bcast=False):
    return "{| c_framing := %s; c_udp := %s; c_retries_kw := %s; c_roe := %s; c_roi := %s; c_bcast := %s |}" % (
        FRAMING[kind], cbool(kind == "udp"), copt(retries), cbool(roe), cbool(roi), cbool(bcast))


def run_case(spec):
    """spec: dict(kind, retries, roe, roi, tid0, bcast, txs=[dict(req=<name>, unit, script=[(beh, params)…], refuse)])
    -> (coq term, observations)"""
    T = all_requests()
    rig = Rig(spec["kind"], retries=spec.get("retries"), retry_on_empty=spec.get("roe", False),
              retry_on_invalid=spec.get("roi", False), broadcast_enable=spec.get("bcast", False),
              tid0=spec.get("tid0", 0), timeout=spec.get("timeout", TIMEOUT))
    fs0 = rig.fstate()
    names = sorted(T)
    obs, rids = [], []
    for tx in spec["txs"]:
        o = rig.transact(T[tx["req"]], tx["unit"], [(b, dict(p)) for b, p in tx.get("script", [])], refuse=tx.get("refuse", 0))
        obs.append(o)
        rids.append(names.index(tx["req"]) * 1000 + tx["unit"])
    term = "{| k_cfg := %s;\n k_table := %s;\n k_tid0 := %s; k_fs0 := %s;\n k_txs := %s |}" % (
        cfg_term(spec["kind"], spec.get("retries"), spec.get("roe", False), spec.get("roi", False), spec.get("bcast", False)),
        table_term(rig, obs, rids), z(spec.get("tid0", 0)), z(fs0),
        clist(txn_term(o, rid, [b for b, _ in tx.get("script", [])]) for o, rid, tx in zip(obs, rids, spec["txs"])))
    return term, obs
