"""C09 — Server sends exactly one matching response per accepted request."""
import struct

from lib import common
from lib.main import Case, Suite
from props import lib_server as L

ID = "C09"
GENERATORS = ["server"]
PROP_FILE = "C09"
CASE_DEPS = ["theories/CorrServer.vo", "Generated/GenServer.vo"]
RULE = ("histories on a live server object (delivered requests, plus hosted-set edits del context[u] / context[u] = new "
        "between reads in 260 enumerated and 20% of the random multi-unit scenarios); request sequences of 1-6 requests (write/read/diagnostic/listen-only/unknown function), unit ids from "
        "{0,1,2,17,247,255} + hosted + random, tids from {0,1,0x1234,65535} + random, one per read / pipelined / "
        "grouped, against single and multi-unit contexts (hosted sets incl. 0, 247, 255; healthy, raising and "
        "NoSuchSlave-raising datastores), ignore_missing_slaves and broadcast_enable on/off; every front-end "
        "(sync tcp/udp/serial, asyncio tcp/udp, Twisted tcp/udp) x socket framing, the stream front-ends x "
        "RTU framing, serial/asyncio x ASCII and sync/Twisted TCP x binary framing (15 combinations) are enumerated, never drawn.  A case is non-trivial when at least one request was delivered "
        "to the handler; distinct = distinct Coq case terms.  Python-side: byte-level end-to-end check (independent "
        "MBAP / RTU / ASCII / binary / TLS splitters) on 10 front-end x framing combinations incl. pipelined RTU and ASCII "
        "reads and reads mixing served and foreign units; UDP sender isolation at every cut 1..11.")
TRUSTED = [
    "generated from source on every run (Generated/GenServer.v): broadcast test, except ladder (order, ignore test, "
    "exception codes), send guard, which ids are copied, should_respond gate, the unit list given to the framer, "
    "_validate_unit_id, ExceptionOffset, PDU default ids; ModbusServerContext lookup is shape-checked",
    "modelled by hand, tied by correspondence: the control flow of try/except/for in Server.respond (Python semantics "
    "of an unbound local, of the first matching except clause)",
    "the harness wrappers around handler.execute / request.execute / framer.buildPacket (props/lib_server.py) only "
    "record and re-raise",
]
ASSUMPTIONS = [
    "request.execute raises only subclasses of Exception (not BaseException)",
    "buildPacket / encode of a response does not raise (C01/C03 territory)",
    "the framer is abstracted: theorems speak about the requests it delivered; the end-to-end byte statement is "
    "checked (not proved) for TCP framing and is known to fail in the regions of the open findings",
    "Twisted UDP is driven through datagramReceived like every other front-end (alive since /repo b36db33)",
]
IMPORTS = ("From PM.theories Require Import Base Server CorrServer.\n"
           "From PM.Generated Require Import GenServer.")
CHK = "chk_c09 code frontends"
STREAM = "C09.serve"


def make_case(sc):
    rec = L.run_scenario(sc)
    bad = L.sanity(rec)
    desc = {"scenario": sc, "observed": L.observation(rec), "harness": bad}
    return Case(L.case_term(sc, rec), desc, kind="%s/%s" % (sc["fe"], sc["framer"]),
                nontrivial=bool(rec.delivered)), bad


def suite_serve(tier, stream=STREAM, chk=CHK, multi_bias=0.5, edit_prob=0.2):
    r = common.rng(stream)
    per = 100 if tier == "quick" else 800
    cases, broken = [], []
    for fe, fr in L.COMBOS:
        scs = []
        for _ in range(per):
            sc = L.gen_scenario(r, fe, fr, multi_bias=multi_bias)
            if r.random() < edit_prob:
                sc = L.add_random_edits(r, sc)
            scs.append(sc)
        # enumerated histories that edit the hosted set of the live server object between reads
        for sc in scs + L.edit_histories(fe, fr):
            c, bad = make_case(sc)
            if sc.get("edits"):
                c.kind += "/edit"
            cases.append(c)
            broken += ["%s: %s" % (b, sc) for b in bad]
    return Suite("serve", IMPORTS, chk, cases, shard=120), broken


_BROKEN = []


def suites(tier):
    s, broken = suite_serve(tier)
    _BROKEN[:] = broken
    return [s]


# ----------------------------------------------------------------------------- end-to-end, byte level (python side)

def expected_frames(sc):
    """what the property demands on the wire for the frames the harness sent (all well-formed)"""
    cfg = sc["cfg"]
    hosted = [u for u, _ in sc["hosted"]]
    kinds = dict((u, k) for u, k in sc["hosted"])
    exp = []
    for q in sc["reqs"]:
        fc = bytes.fromhex(q["pdu"])[0]
        if cfg["bcast"] and q["uid"] == 0:
            continue
        if not cfg["single"] and q["uid"] not in hosted:
            if not cfg["ignore"]:     # C10: "answered either not at all or with a gateway exception"
                exp.append({"tid": q["tid"], "uid": q["uid"], "fcs": [fc | 0x80], "codes": [0x0A, 0x0B], "optional": True})
            continue
        if q["listen"]:
            continue
        kind = kinds[0 if cfg["single"] else q["uid"]]
        e = {"tid": q["tid"], "uid": q["uid"], "fcs": [fc, fc | 0x80], "codes": None}
        if kind == "noslave" and q["label"] not in ("echo", "slaveid", "illegal"):
            e["optional"] = True      # the datastore itself claims "no such slave": unconstrained
        exp.append(e)
    return exp


def e2e_one(sc):
    rec = L.run_scenario(sc)
    wire = b"".join(b for b, _ in rec.raw)
    if sc["framer"] in ("socket", "ascii"):      # self-delimiting on the wire: split the whole output stream
        got = L.split_adus(sc["framer"], wire)
    else:                                        # rtu / binary / tls: one transport write is one frame
        got = []
        for b, _ in rec.raw:
            g = L.split_adus(sc["framer"], b)
            got = None if (g is None or got is None) else got + g
    exp = expected_frames(sc)
    ok = got is not None
    if ok:
        i = 0
        for e in exp:
            if i < len(got):
                tid, uid, fc, body = got[i]
                m = (tid is None or tid == e["tid"]) and (uid is None or uid == e["uid"]) and fc in e["fcs"] and \
                    (e["codes"] is None or (len(body) == 1 and body[0] in e["codes"]))
            else:
                m = False
            if m:
                i += 1
            elif not e.get("optional"):
                ok = False
                break
        ok = ok and i == len(got)
    # the bytes are exactly the packets built from what request.execute returned, ids copied from the request
    if ok and sc["framer"] == "socket":
        j = 0
        for d in rec.delivered:
            mine = [s for s in rec.sent if s["for"] == d["tag"]]
            for s in mine:
                tid, uid, fc, body = got[j]
                j += 1
                key = 0 if sc["cfg"]["single"] else d["uid"]
                res = [x for u, x in d["results"] if u == key and x[0] == "ok"]
                if res and fc == res[0][1] and res[0][4] is not None and body != res[0][4]:
                    ok = False
    return ok, rec


def e2e_scenarios(tier):
    r = common.rng("C09.e2e")
    n = 100 if tier == "quick" else 800
    out = []
    # enumerated: one read mixing frames for foreign and served units; everything pipelined in one read
    for fe, fr in E2E_COMBOS:
        if fr == "tls":
            continue
        for ignore in (True, False):
            def q(label, uid, n):
                mk = (lambda i: bytes([6]) + struct.pack(">HH", (n + i) % L.NREG, 0x0102 + n + i)) if label == "w6" \
                    else (lambda i: bytes([3]) + struct.pack(">HH", i % L.NREG, 1))
                return {"label": label, "pdu": L.clean_pdu(fr, uid, mk).hex(), "uid": uid, "tid": 0x300 + n, "listen": False}
            reqs = [q("r3", 9, 0), q("w6", 1, 1), q("r3", 17, 2), q("r3", 2, 3), q("w6", 9, 4), q("r3", 1, 5)]
            out.append({"fe": fe, "framer": fr, "cfg": {"single": False, "bcast": False, "ignore": ignore},
                        "hosted": [[1, "ok"], [2, "ok"]], "reqs": reqs, "groups": [list(range(len(reqs)))],
                        "mode": "mixed-units-one-read", "direct": False})
    for fe, fr in E2E_COMBOS:
        for _ in range(n if fr in ("socket", "rtu") else n // 2):
            sc = L.gen_scenario(r, fe, fr, multi_bias=(0.0 if fr == "tls" else 0.5))
            if fr == "tls":      # TLS framing carries no unit id: single context only (multi-unit: finding F-C10-tls-multi-unit-keyerror)
                sc["cfg"]["bcast"] = False
            # a listen-only request silences a Twisted server for good (Modbus listen-only mode): keep it last
            idx = [i for i, q in enumerate(sc["reqs"]) if q["listen"]]
            if idx and idx[0] != len(sc["reqs"]) - 1:
                for i in idx:
                    sc["reqs"][i].update(label="echo", listen=False, pdu=L.clean_pdu(
                        fr, sc["reqs"][i]["uid"], lambda k: bytes([8]) + struct.pack(">HH", 0, 7 + k)).hex())
            out.append(sc)
    return out


E2E_COMBOS = [("sync_tcp", "socket"), ("aio_tcp", "socket"), ("tw_tcp", "socket"),
              ("sync_serial", "rtu"), ("aio_tcp", "rtu"), ("tw_tcp", "rtu"),
              ("sync_serial", "ascii"), ("aio_tcp", "ascii"),
              ("sync_tcp", "binary"), ("sync_tcp", "tls"),
              ("sync_udp", "socket"), ("aio_udp", "socket"), ("tw_udp", "socket")]


def foreign_before_end(sc):
    """some read contains a frame the framer's unit filter rejects, followed by another frame"""
    cfg = sc["cfg"]
    if cfg["single"]:
        return False
    units = [u for u, _ in sc["hosted"]]
    if cfg["bcast"] and sc["fe"] not in ("tw_tcp", "tw_udp") and 0 not in units:
        units = units + [0]
    if 0 in units or 255 in units:
        return False
    for g in sc["groups"]:
        for pos, i in enumerate(g):
            if sc["reqs"][i]["uid"] not in units and pos < len(g) - 1:
                return True
    return False


def extra_checks(tier):
    fails, keys, samples = [], [], []
    scs = e2e_scenarios(tier)
    for sc in scs:
        ok, rec = e2e_one(sc)
        keys.append(repr(sc))
        if not ok:
            fails.append({"scenario": sc, "observed": L.observation(rec)})
    samples = [{"scenario": sc} for sc in scs[:2]]
    res = {"e2e-bytes": {"evaluations": len(scs), "failures": fails, "broken": list(_BROKEN), "samples": samples, "keys": keys}}
    # Twisted UDP through its real entry point
    tw = []
    r = common.rng("C09.twudp")
    for _ in range(10):
        sc = L.gen_scenario(r, "tw_udp", "socket")
        sc["direct"] = False
        rec = L.run_scenario(sc)
        answerable = [e for e in expected_frames(sc) if not e.get("optional")]
        if rec.escaped or (answerable and not rec.raw):
            tw.append({"scenario": sc, "observed": L.observation(rec)})
    res["twisted-udp-entry"] = {"evaluations": 10, "failures": tw, "broken": [], "samples": [], "keys": []}
    res["udp-sender-isolation"] = udp_sender_isolation(tier)
    return res


def udp_isolation_one(fe, cut, tid_a, tid_b):
    """sender 1 sends a truncated datagram, then sender 2 a complete request: sender 2 must get exactly one
    response carrying its own transaction id, and nothing else may be transmitted"""
    a = L.adu("socket", tid_a, 1, bytes([6]) + struct.pack(">HH", 2, 77))
    b = L.adu("socket", tid_b, 1, bytes([3]) + struct.pack(">HH", 2, 1))
    rec = L.run(fe, "socket", {"single": True, "bcast": False, "ignore": False}, [(0, "ok")], [(a[:cut], 1), (b, 2)])
    got = [(L.split_adus("socket", data), dest) for data, dest in rec.raw]
    ok = len(got) == 1 and got[0][1] == 2 and got[0][0] is not None and len(got[0][0]) == 1 \
        and got[0][0][0][0] == tid_b and got[0][0][0][2] == 3
    return ok, rec


def udp_burst(tier, r=None):
    """two peers' datagrams delivered back to back to the asyncio datagram server (both queued before the serving
    coroutine runs, as a busy loop or uvloop does): each peer gets the answer to its OWN request"""
    r = r or common.rng("C09.udp.burst")
    fails, keys = [], []
    for n in range(4 if tier == "quick" else 40):
        ta, tb = r.randrange(1, 65536), r.randrange(1, 65536)
        if ta == tb:
            tb ^= 1
        a = L.adu("socket", ta, 1, bytes([3]) + struct.pack(">HH", 1, 1))
        b = L.adu("socket", tb, 1, bytes([3]) + struct.pack(">HH", 5, 2))
        rec = L.run("aio_udp", "socket", {"single": True, "bcast": False, "ignore": False}, [(0, "ok")],
                    [(a, 1, "burst"), (b, 2)])
        got = sorted((dest, [x[0] for x in (L.split_adus("socket", data) or [])]) for data, dest in rec.raw)
        keys.append(("aio_udp", "burst", ta, tb))
        if got != [(1, [ta]), (2, [tb])]:
            fails.append({"scenario": {"fe": "aio_udp", "framer": "socket", "burst": True, "tid_a": ta, "tid_b": tb},
                          "observed": L.observation(rec), "answers_by_peer": got})
    # a LONG burst: twenty datagrams from alternating peers, and a pipelined stream arriving in thirty-six one-byte
    # segments, all queued before the serving coroutine runs — nothing queued may be dropped
    for n in range(2 if tier == "quick" else 10):
        tids = [r.randrange(1, 65536) for _ in range(20)]
        reads = [(L.adu("socket", t, 1, bytes([6]) + struct.pack(">HH", i, 0x100 + i)), 1 + i % 2, "burst") for i, t in enumerate(tids)]
        reads[-1] = reads[-1][:2]
        rec = L.run("aio_udp", "socket", {"single": True, "bcast": False, "ignore": False}, [(0, "ok")], reads)
        got = [(dest, [x[0] for x in (L.split_adus("socket", data) or [])]) for data, dest in rec.raw]
        keys.append(("aio_udp", "burst20", tuple(tids)))
        if got != [(1 + i % 2, [t]) for i, t in enumerate(tids)]:
            fails.append({"scenario": {"fe": "aio_udp", "framer": "socket", "burst": 20, "tids": tids},
                          "observed": L.observation(rec), "answers_by_peer": got})
        stream = b"".join(L.adu("socket", t, 1, bytes([6]) + struct.pack(">HH", i, 0x200 + i)) for i, t in enumerate(tids[:3]))
        sreads = [(stream[i:i + 1], "burst") for i in range(len(stream) - 1)] + [stream[-1:]]
        rec = L.run("aio_tcp", "socket", {"single": True, "bcast": False, "ignore": False}, [(0, "ok")], sreads)
        out = b"".join(data for data, _ in rec.raw)
        keys.append(("aio_tcp", "burst36", tuple(tids[:3])))
        if [x[0] for x in (L.split_adus("socket", out) or [])] != tids[:3]:
            fails.append({"scenario": {"fe": "aio_tcp", "framer": "socket", "burst": len(stream), "tids": tids[:3]},
                          "observed": L.observation(rec)})
    return {"evaluations": len(keys), "failures": fails, "broken": [], "samples": fails[:1], "keys": keys}


def udp_sender_isolation(tier):
    r = common.rng("C09.udp")
    fails, keys = [], []
    for fe in ("sync_udp", "aio_udp", "tw_udp"):
        # every cut, including those inside the 7-byte MBAP prefix (the socket framer's error branch is gone: repair 9)
        for cut in range(1, 12):
            for _ in range(3 if tier == "quick" else 30):
                ta, tb = r.choice(L.TIDS + [r.randrange(65536)]), r.randrange(1, 65536)
                if ta == tb:
                    tb ^= 1
                ok, rec = udp_isolation_one(fe, cut, ta, tb)
                keys.append((fe, cut, ta, tb))
                if not ok:
                    fails.append({"scenario": {"fe": fe, "framer": "socket", "cut": cut, "tid_a": ta, "tid_b": tb},
                                  "observed": L.observation(rec)})
    bu = udp_burst(tier, r)
    fails += bu["failures"]
    keys += bu["keys"]
    return {"evaluations": len(keys), "failures": fails, "broken": [], "samples": [], "keys": keys}


# ----------------------------------------------------------------------------- findings

def classify(suite, desc):
    sc = desc.get("scenario")
    if sc is None:
        return None
    if suite == "twisted-udp-entry":
        return None        # F-C09-twisted-udp-dead is fixed (/repo b36db33): any failure here is reported
    if suite == "udp-sender-isolation":
        # the asyncio datagram handler and the Twisted UDP protocol keep ONE framer buffer for all senders; a truncated
        # datagram stays buffered and swallows the head of the next sender's datagram
        if sc["fe"] in ("aio_udp", "tw_udp") and sc.get("cut", 0) >= 1:
            return "F-C09-asyncio-udp-shared-buffer"
        return None
    if suite == "serve":
        # Twisted UDP _send has no should_respond gate: a listen-only response is transmitted
        if sc["fe"] == "tw_udp":
            for d in desc["observed"]["delivered"]:
                if any(r[1][0] == "ok" and r[1][2] is False for r in d["results"]) and \
                        any(s["for"] == d["tag"] for s in desc["observed"]["sent"]):
                    return "F-C09-twisted-udp-ignores-should-respond"
        return None
    if suite == "e2e-bytes" and sc["fe"] == "tw_udp":
        # on real traffic now: the listen-only response of a hosted unit is transmitted
        hosted = [u for u, _ in sc["hosted"]]
        if any(q["listen"] and (sc["cfg"]["single"] or q["uid"] in hosted) for q in sc["reqs"]):
            return "F-C09-twisted-udp-ignores-should-respond"
        return None
    if suite == "e2e-bytes":
        # RTU (repair 10) and socket/RTU/ASCII (repair 11) are fixed: anything failing there is reported
        if sc["framer"] == "tls" and any(len(g) > 1 for g in sc["groups"]):
            return "F-C09-tls-one-pdu-per-read"
        # pipelined binary frames work since /repo 7ea2a54 + d8b2fbf; what remains is the resetFrame() for a foreign unit
        if sc["framer"] == "binary" and foreign_before_end(sc):
            return "F-C09-binary-foreign-unit-drops-rest-of-read"
        return None
    return None


def _witness_scenario(w):
    return {"fe": w["fe"], "framer": w["framer"], "cfg": w["cfg"], "hosted": w["hosted"], "reqs": w["reqs"],
            "groups": w["groups"], "mode": "witness", "direct": w.get("direct", False)}


def replay_finding(f):
    w = f["witness"]
    if f["id"] in ("F-C09-asyncio-udp-shared-buffer", "F-C09-udp-short-datagram-bogus-response"):
        ok, _ = udp_isolation_one(w["fe"], w["cut"], w["tid_a"], w["tid_b"])
        return not ok
    sc = _witness_scenario(w)
    if f["id"] == "F-C09-twisted-udp-dead":
        rec = L.run_scenario(sc)
        return bool(rec.escaped) or not rec.raw         # fixed: the datagram must be answered
    if f["id"] == "F-C09-twisted-udp-ignores-should-respond":
        rec = L.run_scenario(sc)
        return len(rec.raw) == 1
    if f["id"] == "F-C09-udp-short-datagram-bogus-response":
        ok, _ = udp_isolation_one(w["fe"], w["cut"], w["tid_a"], w["tid_b"])
        return not ok
    if f["id"] in ("F-C09-rtu-one-frame-per-read", "F-C09-foreign-unit-drops-rest-of-read",
                   "F-C09-tls-one-pdu-per-read", "F-C09-binary-frames-behind-first-lost",
                   "F-C09-binary-foreign-unit-drops-rest-of-read"):
        ok, _ = e2e_one(sc)
        return not ok
    return None


def replay_case(suite, desc):
    import json
    from lib import coqrun
    sc = desc["scenario"]
    if suite == "serve":
        c, bad = make_case(sc)
        r = coqrun.eval_cases("C09_replay", IMPORTS, CHK, [c.term])
        print(json.dumps(c.desc["observed"])[:1500], r)
        return bool(r["propfail"] or r["errors"] or r["disagree"])
    if suite == "e2e-bytes":
        ok, rec = e2e_one(sc)
        print(json.dumps(L.observation(rec))[:1500])
        return not ok
    if suite == "udp-sender-isolation" and sc.get("burst") not in (None, True):
        return bool(udp_burst("quick")["failures"])
    if suite == "udp-sender-isolation" and sc.get("burst"):
        a = L.adu("socket", sc["tid_a"], 1, bytes([3]) + struct.pack(">HH", 1, 1))
        b = L.adu("socket", sc["tid_b"], 1, bytes([3]) + struct.pack(">HH", 5, 2))
        rec = L.run("aio_udp", "socket", {"single": True, "bcast": False, "ignore": False}, [(0, "ok")], [(a, 1, "burst"), (b, 2)])
        got = sorted((dest, [x[0] for x in (L.split_adus("socket", data) or [])]) for data, dest in rec.raw)
        return got != [(1, [sc["tid_a"]]), (2, [sc["tid_b"]])]
    if suite == "udp-sender-isolation":
        ok, rec = udp_isolation_one(sc["fe"], sc["cut"], sc["tid_a"], sc["tid_b"])
        print(json.dumps(L.observation(rec))[:1500])
        return not ok
    return True


def _fails(chk, sc, tagname):
    from lib import coqrun
    c, _ = make_case(sc)
    r = coqrun.eval_cases(tagname, IMPORTS, chk, [c.term])
    return bool(r["propfail"]), c


def shrink_serve(chk, desc, tagname):
    """delete-one-request / one-unit shrinking of a failing serve scenario (re-runs the real front-end each time)"""
    import copy
    sc = copy.deepcopy(desc["scenario"])
    best = None
    progress = True
    while progress and len(sc["reqs"]) > 1:
        progress = False
        for i in range(len(sc["reqs"])):
            cand = copy.deepcopy(sc)
            del cand["reqs"][i]
            cand["groups"] = [[j - (j > i) for j in g if j != i] for g in cand["groups"]]
            cand["groups"] = [g for g in cand["groups"] if g]
            bad, c = _fails(chk, cand, tagname)
            if bad:
                sc, best, progress = cand, c, True
                break
    return best.desc if best is not None else None


def shrink(suite, desc):
    if suite == "serve":
        return shrink_serve(CHK, desc, "C09_shrink")
    return None


MANIFEST = {
    "text": ("Coq theorems (Props/C09.v) about the execute/send path interpreted from the handler skeletons that are "
             "regenerated from server/sync.py, async_io.py and asynchronous.py on every run, for every request list, "
             "every unit/transaction id, every hosted set and every flag combination: at most one response per delivered "
             "request and none otherwise, in request order; the response carries the request's transaction id, unit id, "
             "sender and function code (or code|0x80); silence exactly for broadcast, ignored missing units and "
             "listen-only responses; nothing is sent when nothing was delivered.  Twisted UDP's missing should_respond "
             "gate is refuted by witness.  Handler tests count send() calls for one mocked request."),
    "note": ("Trusted: Coq kernel; translator shape matching; the hand-written try/except/for semantics of Server.respond, "
             "tied to the seven real front-ends by in-process correspondence (real TCP/RTU bytes in, recorded execute "
             "results, sent messages, per-unit execution logs) evaluated with vm_compute; the framer is outside the "
             "theorems (delivered-request abstraction) and the byte-level end-to-end statement is tested, with the "
             "known framer defects listed as findings."),
    "design_ref": "DESIGN.md section 8 (C09)",
}
