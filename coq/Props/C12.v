(* Props/C12.v — No received byte sequence can crash a server or corrupt its data.
   ONLY statements.  All of them are about [GenFrontends.code], the loop / except-ladder /
   framer-site skeletons regenerated from pymodbus/server/{sync,async_io,asynchronous}.py on
   every run, interpreted by theories/Frontends.v over an ARBITRARY framer and an ARBITRARY
   request execution ([env]: every theorem quantifies over it), every configuration, every
   server state, every connection and every input (bytes, empty read, socket.timeout,
   socket.error). *)
From PM.theories Require Import Base Ladder Frontends CorrFrontends.
From PM.Generated Require Import GenFrontends.
From PM.proofs Require Import Frontends_proofs FrontendsC12_proofs.
Open Scope list_scope.
Open Scope Z_scope.

(* --- no exception leaves the serving loop -------------------------------------------- *)

Definition C12_total_statement (fe : frontend) : Prop :=
  forall (FS Req Resp World : Type) (E : env FS Req Resp World) c sv k i,
    snd (serve_event FS Req Resp World code E fe c sv k i) <> Escape.

Theorem C12_total_sync_tcp : C12_total_statement SyncTcp.
Proof. intros FS Req Resp World E c sv k i. apply total_generated. reflexivity. Qed.
Print Assumptions C12_total_sync_tcp.

Theorem C12_total_sync_serial : C12_total_statement SyncSerial.
Proof. intros FS Req Resp World E c sv k i. apply total_generated. reflexivity. Qed.
Print Assumptions C12_total_sync_serial.

Theorem C12_total_sync_udp : C12_total_statement SyncUdp.
Proof. intros FS Req Resp World E c sv k i. apply total_generated. reflexivity. Qed.
Print Assumptions C12_total_sync_udp.

Theorem C12_total_asyncio_tcp : C12_total_statement AioTcp.
Proof. intros FS Req Resp World E c sv k i. apply total_generated. reflexivity. Qed.
Print Assumptions C12_total_asyncio_tcp.

Theorem C12_total_asyncio_udp : C12_total_statement AioUdp.
Proof. intros FS Req Resp World E c sv k i. apply total_generated. reflexivity. Qed.
Print Assumptions C12_total_asyncio_udp.

(* every server class found in the three modules (enumerated from the source; an unknown handler
   class or a server whose handler cannot be determined is a translator failure), TLS variants
   included: whichever of them serves with a catch-all handler never lets anything escape *)
Theorem C12_total_servers : forall name fe, In (name, fe) servers -> catch_all_fe fe = true ->
  C12_total_statement fe.
Proof. intros name fe _ H FS Req Resp World E c sv k i. apply total_generated. exact H. Qed.
Print Assumptions C12_total_servers.

Theorem C12_total_tls :
  (In ("sync.ModbusTlsServer"%string, SyncTcp) servers /\ C12_total_statement SyncTcp) /\
  (In ("async_io.ModbusTlsServer"%string, AioTcp) servers /\ C12_total_statement AioTcp) /\
  (* and the catalogue is complete: every listed server is threaded/asyncio (total) or Twisted (refuted) *)
  forall name fe, In (name, fe) servers -> catch_all_fe fe = true \/ fe = TwTcp \/ fe = TwUdp.
Proof.
  split; [split; [vm_compute; tauto | exact C12_total_sync_tcp]|].
  split; [split; [vm_compute; tauto | exact C12_total_asyncio_tcp]|].
  intros name fe H. vm_compute in H.
  repeat (destruct H as [H|H]; [inversion H; subst; vm_compute; tauto|]). contradiction.
Qed.
Print Assumptions C12_total_tls.

(* constructor wiring (generated table [server_wiring]: every `self.x = <param> or <default>`,
   `kwargs.get('<flag>', Defaults.X)` and the identity update of every server class): whatever a
   front-end's handlers read from their server object — context/store, framer, handler class, the
   two flags, the identity — is what the user passed to the constructor, and the default only when
   nothing was passed.  C17 (interchangeability) and C10 (hosted units) lean on this. *)
Theorem C12_server_wiring : forall srv fe, In (srv, fe) servers ->
  exists roles, assoc_s srv server_wiring = Some roles /\
    forall role, In role (required_roles fe) ->
      exists s, assoc_s role roles = Some s /\
        forall A (x d : A), configured s (Some x) d = x /\ configured s None d = d.
Proof. exact server_wiring_spec. Qed.
Print Assumptions C12_server_wiring.

(* every exception class of the framer/decoder/execute layer, every transport fault — and for
   the threaded TCP handler (bare `except:`) and asyncio (CancelledError) more than that *)
Theorem C12_ladders_total : forall fe, catch_all_fe fe = true ->
  forall empty r, ordinary r = true -> step_action (fc_loop code fe) empty (Some r) <> Escape.
Proof. exact generated_no_escape. Qed.
Print Assumptions C12_ladders_total.

Theorem C12_sync_tcp_contains_everything :
  forall empty r, step_action (fc_loop code SyncTcp) empty (Some r) <> Escape.
Proof. exact sync_tcp_contains_everything. Qed.
Print Assumptions C12_sync_tcp_contains_everything.

Theorem C12_asyncio_contains_cancel : forall fe empty, (fe = AioTcp \/ fe = AioUdp) ->
  step_action (fc_loop code fe) empty (Some RCancelled) = Continue.
Proof. exact aio_contains_cancel. Qed.
Print Assumptions C12_asyncio_contains_cancel.

(* "at worst it closes the offending connection or discards the offending data" *)
Theorem C12_recovers : forall fe empty e, catch_all_fe fe = true ->
  let a := step_action (fc_loop code fe) empty (Some (RPy e)) in
  a = StopReset \/ a = ResetFrame \/ a = CloseTransport.
Proof. exact generated_recovers. Qed.
Print Assumptions C12_recovers.

(* execute()/_execute(): whatever request.execute raises becomes exception 0x04 (0x0B or silence
   for a missing unit) — in all seven front-ends *)
Theorem C12_execute_policy : forall fe e,
  first_match (xs_ladder (fc_exec code fe)) (RPy e) =
  Some (match e with NoSuchSlaveExc => XIgnoreOrExc 11 | _ => XExc 4 end).
Proof. exact generated_exec_policy. Qed.
Print Assumptions C12_execute_policy.

(* --- Twisted: refuted ------------------------------------------------------------------ *)

Definition C12_full_statement : Prop := forall fe, C12_total_statement fe.

(* Twisted dataReceived / datagramReceived have no handler: whatever the framer raises escapes,
   and the bytes stay in the buffer *)
Theorem C12_twisted_escapes :
  forall (FS Req Resp World : Type) (E : env FS Req Resp World) fe c w cs bs ff e, tw_fe fe ->
    e_listen_only _ _ _ _ E w = false ->
    e_recv _ _ _ _ E (fargs_for _ _ _ _ E (fc_loop code fe) c w (is_empty bs)) (cs_f _ cs) bs = ([], ff, Some e) ->
    serve_step _ _ _ _ code E fe c w cs (IData bs) =
      (w, {| cs_f := ff; cs_running := cs_running _ cs && true; cs_closed := cs_closed _ cs |}, [], Escape).
Proof. intros FS Req Resp World E. exact (twisted_escapes FS Req Resp World E). Qed.
Print Assumptions C12_twisted_escapes.

(* witness: "truncated PDU -> struct.error escapes" in the toy environment *)
Theorem C12_twisted_tcp_refuted : ~ C12_total_statement TwTcp.
Proof.
  intro H.
  apply (H nat Z Z (list Z) toy_env toy_cfg (fresh_server _ _ _ _ toy_env []) O (IData [0%N; 3%N])).
  vm_compute. reflexivity.
Qed.
Print Assumptions C12_twisted_tcp_refuted.

(* the Twisted datagram server (alive since /repo b36db33) has the same defect *)
Theorem C12_twisted_udp_refuted : ~ C12_total_statement TwUdp.
Proof.
  intro H.
  apply (H nat Z Z (list Z) toy_env toy_cfg (fresh_server _ _ _ _ toy_env []) O (IData [0%N; 3%N])).
  vm_compute. reflexivity.
Qed.
Print Assumptions C12_twisted_udp_refuted.

Theorem C12_twisted_partial :
  forall (FS Req Resp World : Type) (E : env FS Req Resp World) fe c w cs bs, tw_fe fe ->
    (let '(ds, ff, exn) := e_recv _ _ _ _ E (fargs_for _ _ _ _ E (fc_loop code fe) c w (is_empty bs)) (cs_f _ cs) bs in
     snd (deliver _ _ _ _ E (fc_exec code fe) c w ds ff exn []) = None) ->
    snd (serve_step _ _ _ _ code E fe c w cs (IData bs)) <> Escape.
Proof. intros FS Req Resp World E. exact (twisted_partial FS Req Resp World E). Qed.
Print Assumptions C12_twisted_partial.

(* fixed by /repo b36db33: no datagram raises before the framer is reached any more, and the framer
   gets the unit list and the single flag *)
Theorem C12_twisted_udp_alive :
  pre_raise (fc_loop code TwUdp) = None /\ ls_units (fc_loop code TwUdp) = UnitsRaw /\
  ls_single (fc_loop code TwUdp) = true.
Proof. exact twisted_udp_alive. Qed.
Print Assumptions C12_twisted_udp_alive.

(* --- the shared state changes only through executed requests --------------------------- *)

Theorem C12_store_only_by_exec :
  forall (FS Req Resp World : Type) (E : env FS Req Resp World) fe c w cs i,
    fst (fst (fst (serve_step _ _ _ _ code E fe c w cs i))) = w \/
    exists bs, i = IData bs /\
      fst (fst (fst (serve_step _ _ _ _ code E fe c w cs i))) =
        exec_fold _ _ _ _ E (fc_exec code fe) c w
          (fst (fst (e_recv _ _ _ _ E (fargs_for _ _ _ _ E (fc_loop code fe) c w (is_empty bs)) (cs_f _ cs) bs))).
Proof. intros. apply serve_step_world. Qed.
Print Assumptions C12_store_only_by_exec.

Theorem C12_nothing_delivered_nothing_changes :
  forall (FS Req Resp World : Type) (E : env FS Req Resp World) fe c w cs bs,
    fst (fst (e_recv _ _ _ _ E (fargs_for _ _ _ _ E (fc_loop code fe) c w (is_empty bs)) (cs_f _ cs) bs)) = [] ->
    fst (fst (fst (serve_step _ _ _ _ code E fe c w cs (IData bs)))) = w.
Proof. intros. apply serve_step_nothing_delivered. assumption. Qed.
Print Assumptions C12_nothing_delivered_nothing_changes.

Theorem C12_transport_fault_changes_nothing :
  forall (FS Req Resp World : Type) (E : env FS Req Resp World) fe c w cs i,
    (i = ITimeout \/ i = ISockErr) -> fst (fst (fst (serve_step _ _ _ _ code E fe c w cs i))) = w.
Proof. intros. apply serve_step_fault_world. assumption. Qed.
Print Assumptions C12_transport_fault_changes_nothing.

(* --- a fresh connection is answered as on a fresh server -------------------------------- *)

(* stream front-ends and the threaded datagram handler build their framer per connection /
   per datagram: whatever earlier connections received, a new one starts from the initial
   framer state and its answer depends on the shared world only *)
Theorem C12_fresh_connection :
  forall (FS Req Resp World : Type) (E : env FS Req Resp World) fe c sv k i,
    ls_site (fc_loop code fe) <> PerServer ->
    conn_state _ _ _ _ code E fe (open_conn _ _ _ _ E sv k) k = fresh_conn _ _ _ _ E /\
    let r1 := serve_event _ _ _ _ code E fe c (open_conn _ _ _ _ E sv k) k i in
    let r2 := serve_event _ _ _ _ code E fe c (open_conn _ _ _ _ E (fresh_server _ _ _ _ E (sv_world _ _ sv)) k) k i in
    snd (fst r1) = snd (fst r2) /\ snd r1 = snd r2 /\ sv_world _ _ (fst (fst r1)) = sv_world _ _ (fst (fst r2)).
Proof.
  intros. split; [apply fresh_connection_state; assumption | apply fresh_connection_answer; assumption].
Qed.
Print Assumptions C12_fresh_connection.

Theorem C12_fresh_connection_sites :
  ls_site (fc_loop code SyncTcp) = PerConnection /\ ls_site (fc_loop code AioTcp) = PerConnection /\
  ls_site (fc_loop code TwTcp) = PerConnection /\ ls_site (fc_loop code SyncUdp) = PerDatagram /\
  ls_site (fc_loop code SyncSerial) = PerServer /\
  (* the asyncio and Twisted datagram servers keep ONE framer for all peers and datagrams *)
  ls_site (fc_loop code AioUdp) = PerServer /\ ls_site (fc_loop code TwUdp) = PerServer.
Proof. repeat split; reflexivity. Qed.
Print Assumptions C12_fresh_connection_sites.

(* non-vacuity: in the toy environment the threaded TCP handler answers a request, then meets a
   malformed chunk (StructError): it stops and resets; a new connection is answered again *)
Example C12_nonvacuous :
  let sv0 := open_conn _ _ _ _ toy_env (fresh_server _ _ _ _ toy_env []) 0 in
  let '(sv1, o1, a1) := serve_event _ _ _ _ code toy_env SyncTcp toy_cfg sv0 0 (IData [7%N]) in
  let '(sv2, o2, a2) := serve_event _ _ _ _ code toy_env SyncTcp toy_cfg sv1 0 (IData [0%N; 1%N]) in
  let '(sv3, o3, a3) := serve_event _ _ _ _ code toy_env SyncTcp toy_cfg (open_conn _ _ _ _ toy_env sv2 1) 1 (IData [9%N]) in
  (o1, a1, o2, a2, o3, a3, sv_world _ _ sv3) = ([[7%N]], Continue, [], StopReset, [[9%N]], Continue, [9; 7]).
Proof. vm_compute. reflexivity. Qed.
