(* Props/C04.v — Server executes data-access requests as a Modbus register file.
   ONLY statements.  [serve XC std] is Exec.serve interpreting GenExec.code — the guard
   scripts regenerated from the ten execute() methods, pdu.py, factory.py and the server
   wrappers — over the datastore model with GenStore.code (regenerated from store.py /
   context.py / interfaces.py).  [abs] maps a datastore to the abstract Modbus data model
   of ExecSpec.v (tables = maps protocol address -> value, shared storage by aliasing);
   [spec_exec] is the spec.  Addresses, quantities and values are unbounded Z; block
   sizes, key sets, zero-mode and slot aliasing are universally quantified ([inv] only
   asks that every table slot points at an existing block). *)
From PM.theories Require Import Base Expr Store Exec ExecSpec ExecView.
From PM.Generated Require Import GenStore GenExec.
From PM.proofs Require Import Store_proofs Exec_proofs Exec_req_proofs Exec_hist_proofs.
Open Scope list_scope.
Open Scope Z_scope.

(* the full property for one request: the step commutes with the abstraction and the
   response is the spec's, for EVERY wire request.  Refuted by the two C05 defects
   (Props/C05.v); true in the region [in_region] (C04_refines) and, everywhere, for the
   normalised request (C04_refines_normalised). *)
Definition C04_full_statement : Prop :=
  forall c w r, inv c -> decode_attrs w = Ok r -> other_ok w -> step_ok c r w.

Theorem C04_full_statement_refuted : ~ C04_full_statement.
Proof. exact full_step_statement_refuted. Qed.
Print Assumptions C04_full_statement_refuted.

(* one step: serve = spec_exec up to the abstraction; the invariant is preserved; the
   response is the spec's response; an exception leaves the store untouched *)
Theorem C04_refines : forall c w r,
  inv c -> decode_attrs w = Ok r -> other_ok w -> in_region w ->
  exists c' o, serve XC std c r = (c', o) /\ inv c' /\
    aeq (abs c') (fst (spec_exec (abs c) w)) /\
    vw o = Some (snd (spec_exec (abs c) w)) /\
    (forall fc code, o = Exc fc code -> c' = c).
Proof. exact step_refines. Qed.
Print Assumptions C04_refines.

(* everywhere: the implementation executes the spec on the normalised request (FC5: any
   word other than 0xFF00 is taken as 0x0000; FC15: quantity := min(quantity, 8*|data|)) *)
Theorem C04_refines_normalised : forall c w r,
  inv c -> decode_attrs w = Ok r -> other_ok w -> step_ok c r (normalize w).
Proof. exact step_norm. Qed.
Print Assumptions C04_refines_normalised.

(* arbitrary finite histories, by induction: final store and every response *)
Theorem C04_history : forall ws rs c s,
  inv c -> aeq (abs c) s ->
  Forall2 (fun w r => decode_attrs w = Ok r) ws rs ->
  Forall other_ok ws -> Forall in_region ws ->
  inv (fst (serve_all XC std c rs)) /\
  aeq (abs (fst (serve_all XC std c rs))) (fst (spec_exec_all s ws)) /\
  map vw (snd (serve_all XC std c rs)) = map Some (snd (spec_exec_all s ws)).
Proof. exact history_refines. Qed.
Print Assumptions C04_history.

Example C04_history_nonvacuous :
  let ws := [WWriteRegs 0 2 4 [1; 2; 3; 4]; WRead Holding 0 1; WMask 0 0 7; WRead Holding 0 1; WRead Holding 1 1] in
  let rs := map req_of ws in
  Forall2 (fun w r => decode_attrs w = Ok r) ws rs /\ Forall other_ok ws /\ Forall in_region ws /\
  map vw (snd (serve_all XC std (ctx1 0) rs)) =
    [Some (SExc 144 2); Some (SRead 3 [18]); Some (SMask 0 0 7); Some (SRead 3 [7]); Some (SExc 131 2)].
Proof. repeat split; try (repeat constructor). Qed.

(* a read after an accepted write returns exactly the values written *)
Theorem C04_read_returns_latest_write : forall c w r c1 o1 t a vs rr c2 o2,
  inv c -> decode_attrs w = Ok r -> other_ok w -> in_region w ->
  serve XC std c r = (c1, o1) ->
  spec_outcome (abs c) w = None -> written (abs c) w = Some (t, a, vs) ->
  in_range 1 (Z.of_nat (length vs)) (match t with Coils | Discrete => 2000 | _ => 125 end) = true ->
  decode_attrs (WRead t a (Z.of_nat (length vs))) = Ok rr ->
  serve XC std c1 rr = (c2, o2) ->
  c2 = c1 /\ vw o2 = Some (SRead (read_fc t) vs).
Proof. exact read_returns_latest_write. Qed.
Print Assumptions C04_read_returns_latest_write.

(* a request changes exactly the addressed cells of the storage behind the table selected
   by its function code: every other cell of every storage (other tables unless aliased)
   keeps its value, and no cell appears or disappears *)
Theorem C04_write_touches_only_addressed_cells : forall c w r c' o,
  inv c -> decode_attrs w = Ok r -> other_ok w -> in_region w ->
  serve XC std c r = (c', o) ->
  forall b k,
    a_cell (abs c') b k =
      match spec_outcome (abs c) w, written (abs c) w with
      | None, Some (t, a, vs) =>
          if Nat.eqb b (a_slot (abs c) t) && (a <=? k) && (k <? a + Z.of_nat (length vs))
          then nth_error vs (Z.to_nat (k - a)) else a_cell (abs c) b k
      | _, _ => a_cell (abs c) b k
      end.
Proof. exact write_touches_only. Qed.
Print Assumptions C04_write_touches_only_addressed_cells.

(* read/write-multiple: the read sees the store after the write *)
Theorem C04_rwm_write_before_read : forall c ra rn wa wn wbc data r c' o,
  inv c -> decode_attrs (WRWM ra rn wa wn wbc data) = Ok r ->
  serve XC std c r = (c', o) ->
  spec_outcome (abs c) (WRWM ra rn wa wn wbc data) = None ->
  let ws := firstn (Z.to_nat wn) (words_of_bytes data) in
  vw o = Some (SRead 23 (read (write (abs c) Holding wa ws) Holding ra rn)) /\
  aeq (abs c') (write (abs c) Holding wa ws).
Proof. exact rwm_write_before_read. Qed.
Print Assumptions C04_rwm_write_before_read.

Theorem C04_rwm_reads_own_write : forall c a n wbc data r c' o,
  inv c -> decode_attrs (WRWM a n a n wbc data) = Ok r ->
  serve XC std c r = (c', o) ->
  spec_outcome (abs c) (WRWM a n a n wbc data) = None ->
  vw o = Some (SRead 23 (firstn (Z.to_nat n) (words_of_bytes data))).
Proof. exact rwm_reads_own_write. Qed.
Print Assumptions C04_rwm_reads_own_write.

(* mask write: result = (cur AND and_mask) OR (or_mask AND NOT and_mask); masks echoed *)
Theorem C04_mask_write_formula : forall c a am om r c' o cur,
  inv c -> decode_attrs (WMask a am om) = Ok r ->
  serve XC std c r = (c', o) ->
  spec_outcome (abs c) (WMask a am om) = None ->
  cell (abs c) Holding a = Some cur ->
  cell (abs c') Holding a = Some (Z.lor (Z.land cur am) (Z.land om (Z.lnot am))) /\
  vw o = Some (SMask a am om).
Proof. exact mask_write_formula. Qed.
Print Assumptions C04_mask_write_formula.

(* the bridge lemmas between the datastore model and the data model (all layouts) *)
Theorem C04_validate_is_range_test : forall c fx t a n,
  inv c -> fx_tbl fx = Some t -> 1 <= n ->
  cx_validate SC c fx a n = Ok (range_ok (abs c) t a n).
Proof. exact cx_validate_abs. Qed.
Print Assumptions C04_validate_is_range_test.

Theorem C04_get_is_read : forall c fx t a n,
  inv c -> fx_tbl fx = Some t -> 1 <= n -> range_ok (abs c) t a n = true ->
  cx_get SC c fx a n = Ok (read (abs c) t a n).
Proof. exact cx_get_abs. Qed.
Print Assumptions C04_get_is_read.

Theorem C04_set_is_write : forall c fx t a vs,
  inv c -> fx_tbl fx = Some t -> vs <> [] -> range_ok (abs c) t a (Z.of_nat (length vs)) = true ->
  exists c', cx_set SC c fx a vs = Ok c' /\ inv c' /\ aeq (abs c') (write (abs c) t a vs).
Proof. exact cx_set_abs. Qed.
Print Assumptions C04_set_is_write.

(* non-vacuity: a shared-table, one-based layout; an accepted write, its read-back through
   the aliased table, the mask-write witness of DESIGN.md section 9 (0x12, 0xF2, 0x25 -> 0x17) *)
Example C04_nonvacuous :
  let c := {| cx_zero := false;
              cx_slots := [("c", 0%nat); ("d", 0%nat); ("h", 1%nat); ("i", 1%nat)]%string;
              cx_blocks := [BSeq {| sb_addr := 1; sb_vals := [0; 0; 0; 0; 0; 0; 0; 0; 0]; sb_def := 0 |};
                            BSp {| sp_vals := [(1, 18); (2, 7); (3, 9); (10, 4)]; sp_def := 0 |}] |} in
  inv c /\
  (let w := WWriteRegs 1 2 4 [1; 2; 3; 4] in
   spec_outcome (abs c) w = None /\ in_region w /\
   let '(c1, o1) := serve XC std c (req_of w) in
   vw o1 = Some (SEchoN 16 1 2) /\
   (let '(c2, o2) := serve XC std c1 (req_of (WRead Input 0 3)) in
    vw o2 = Some (SRead 4 [18; 258; 772]))) /\
  (let '(c3, o3) := serve XC std c (req_of (WMask 0 242 37)) in
   vw o3 = Some (SMask 0 242 37) /\ cx_get SC c3 3 0 1 = Ok [23]) /\
  (let '(c4, o4) := serve XC std c (req_of (WRead Holding 2 2)) in vw o4 = Some (SExc 131 2)).
Proof.
  split; [intros t; destruct t; eexists; (split; [reflexivity|cbn; lia])|].
  vm_compute. repeat split.
Qed.
