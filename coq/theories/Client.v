(* Client.v — executable model of the synchronous client transaction
   (pymodbus/transaction.py ModbusTransactionManager.execute / _transact / _recv,
   BaseModbusClient.execute) in VIRTUAL time.  NO proofs here.

   * Every call that reaches the transport (a real (re)connect, client.send, client.recv)
     consumes ONE element of the script [list tev]; an exhausted script answers [Nothing].
     Theorems quantify over all scripts.
   * The retry loop is the INTERPRETATION of the statement list [g_loop_body] that the
     translator (gen/gen_client.py) regenerates from transaction.py on every run; the
     constants (retries coercion, tid arithmetic, min sizes, ADU sizes, 0x80 threshold,
     caught exception tuple, tid=0 fallback) come from the same generated record.
   * The framer + decoder is an abstract record [framer FS] (what processIncomingPacket
     delivers to the callback / raises, buildPacket, resetFrame, "buffer non-empty").
     The correspondence check instantiates it with the transitions recorded from the real
     framer; the theorems state what they need of it as named hypotheses.
   * socket.error / OSError is the [pyexn] constructor [OtherExc]. *)
From PM.theories Require Import Base Expr.
Open Scope string_scope.
Open Scope list_scope.
Open Scope Z_scope.

Inductive framing := FTcp | FRtu | FAscii | FBin.

(* ------------------------------------------------------------------ generated skeleton *)

Inductive cond :=
| CResp            (* response            — the bytes _transact returned are non-empty *)
| CInNoResp        (* request.unit_id in self._no_response_devices *)
| CRetryEmpty      (* self.retry_on_empty *)
| CRetryInvalid    (* self.retry_on_invalid *)
| CUnitMatch       (* mbap.get('unit') == request.unit_id *)
| CHasLength       (* 'length' in mbap *)
| CExpLen          (* expected_response_length  (truthy) *)
| CLenMatch        (* mbap.get('length') == expected_response_length *)
| CBackoff         (* self.backoff *)
| CHasState        (* hasattr(self.client, "state") *)
| CNot (c : cond) | CAnd (a b : cond) | COr (a b : cond).

Inductive lstmt :=
| LTransact                     (* response, last_exception = self._transact(request, expected_response_length, full=full, broadcast=broadcast) *)
| LNoRespAppend | LNoRespRemove (* self._no_response_devices.append / .remove (request.unit_id) *)
| LBreak
| LDecode                       (* mbap = self.client.framer.decode_data(response) *)
| LStateIdle                    (* self.client.state = ModbusTransactionState.IDLE *)
| LSleep (e : expr)             (* delay = 2 ** e * self.backoff ; time.sleep(delay) *)
| LSetFull (b : bool) | LSetBroadcast (b : bool)
| LRetriesSub (k : Z)           (* retries -= k *)
| LIf (c : cond) (th el : list lstmt).

Record client_code := {
  g_retries_default : Z;        (* Defaults.Retries *)
  g_retries_or : Z;             (* kwargs.get('retries', Defaults.Retries) or <this> *)
  g_tid_init : Z;               (* Defaults.TransactionId *)
  g_next_tid : expr;            (* getNextTID over the atom "self.tid" *)
  g_retries_bump : Z;           (* retries += <this> before the loop *)
  g_loop_guard : expr;          (* while <this>  over the atom "retries" *)
  g_loop_body : list lstmt;
  g_fallback_tid : Z;           (* self.getTransaction(tid=<this>) *)
  g_read_size : Z;              (* Defaults.ReadSize *)
  g_ascii_mul : Z;              (* response_pdu_size * <this> on the ASCII framer *)
  g_base_adu : framing -> Z;    (* _set_adu_size *)
  g_exc_extra : framing -> Z;   (* _calculate_exception_length: base + <this> *)
  g_min_size : framing -> Z;    (* _recv: min_size *)
  g_err_threshold : Z;          (* func_code < <this> : not an error *)
  g_tcp_hsize : Z;              (* ModbusSocketFramer._hsize *)
  g_caught : list pyexn;        (* except (...) in _transact; socket.error = OtherExc *)
  g_rtu_tid_is_unit : bool;     (* rtu buildPacket: message.transaction_id = message.unit_id *)
  g_is_error_rsp : expr;        (* pdu.ModbusResponse.isError over the atom "self.function_code" *)
  g_is_error_exc : bool         (* exceptions.ModbusException.isError (inherited by ModbusIOException) *)
}.

(* ------------------------------------------------------------------ data *)

Record req := { r_unit : Z; r_fc : Z; r_psize : option Z; r_id : Z }.
Record msg := { m_tid : Z; m_uid : Z; m_fc : Z; m_id : Z }.

Definition msg_eqb (a b : msg) : bool :=
  (m_tid a =? m_tid b) && (m_uid a =? m_uid b) && (m_fc a =? m_fc b) && (m_id a =? m_id b).

Inductive result :=
| RReply (m : msg)              (* a decoded response object *)
| RErr (fc : option Z)          (* a ModbusIOException object RETURNED (its fcode) *)
| RBroadcast                    (* the broadcast short-cut's bytes literal *)
| RNone                         (* None returned *)
| RRaise (e : pyexn)            (* an exception escaped execute *)
| RStuck.                       (* model only: retry loop out of fuel — proved unreachable *)

Inductive tev := Data (bs : bytes) | Nothing | RaiseOSError | Closed.
Inductive call := CConnect | CSend (pkt : bytes) | CRecv (size : option Z).

Record framer (FS : Type) := {
  f_nonempty : FS -> bool;                       (* bool(framer._buffer) *)
  f_reset : FS -> FS;                            (* resetFrame() *)
  f_build : req -> Z -> bytes;                   (* buildPacket(request) with transaction id *)
  f_process : FS -> bytes -> Z -> FS * list msg * option pyexn
      (* processIncomingPacket(data, cb, unit): messages handed to cb in order, exception escaped *)
}.
Arguments f_nonempty {FS}. Arguments f_reset {FS}. Arguments f_build {FS}. Arguments f_process {FS}.

Record cfg := {
  c_framing : framing;
  c_udp : bool;                 (* "modbusudpclient" in str(client).lower() *)
  c_retries_kw : option Z;      (* the retries= keyword, None when not given *)
  c_roe : bool; c_roi : bool;   (* retry_on_empty, retry_on_invalid *)
  c_bcast : bool                (* broadcast_enable *)
}.

Record cstate (FS : Type) := {
  s_tid : Z;                    (* transaction manager counter *)
  s_tx : list (Z * msg);        (* DictTransactionManager.transactions, insertion order *)
  s_fs : FS;                    (* framer state *)
  s_noresp : list Z;            (* _no_response_devices *)
  s_conn : bool                 (* client.socket is not None *)
}.
Arguments s_tid {FS}. Arguments s_tx {FS}. Arguments s_fs {FS}. Arguments s_noresp {FS}. Arguments s_conn {FS}.
Arguments Build_cstate {FS}.

Record outcome := { o_res : result; o_calls : list call; o_sleeps : list Z }.

(* ------------------------------------------------------------------ small Python pieces *)

Definition py_or (a b : Z) : Z := if a =? 0 then b else a.

Definition zlen {A} (l : list A) : Z := Z.of_nat (length l).
Definition zmem (x : Z) (l : list Z) : bool := existsb (Z.eqb x) l.
Fixpoint zremove1 (x : Z) (l : list Z) : list Z :=
  match l with [] => [] | y :: t => if x =? y then t else y :: zremove1 x t end.

(* dict with insertion order: d[k] = v, d.pop(k, None) *)
Fixpoint d_set (d : list (Z * msg)) (k : Z) (v : msg) : list (Z * msg) :=
  match d with
  | [] => [(k, v)]
  | (k', v') :: t => if k =? k' then (k', v) :: t else (k', v') :: d_set t k v
  end.
Fixpoint d_pop (d : list (Z * msg)) (k : Z) : option msg * list (Z * msg) :=
  match d with
  | [] => (None, [])
  | (k', v') :: t => if k =? k' then (Some v', t)
                     else let '(r, t') := d_pop t k in (r, (k', v') :: t')
  end.

Definition nthb (d : bytes) (i : nat) : Z := Z.of_N (nth i d 0%N).

(* int(b, 16) for a byte string of at most two bytes (slices [1:3], [3:5]) *)
Definition is_ws (b : N) : bool := ((9 <=? b) && (b <=? 13) || (b =? 32))%N.
Definition hexval (b : N) : option Z :=
  if ((48 <=? b) && (b <=? 57))%N then Some (Z.of_N b - 48)
  else if ((65 <=? b) && (b <=? 70))%N then Some (Z.of_N b - 55)
  else if ((97 <=? b) && (b <=? 102))%N then Some (Z.of_N b - 87)
  else None.
Definition py_int16 (bs : bytes) : res Z :=
  match bs with
  | [a] => match hexval a with Some v => Ok v | None => Raise ValueError end
  | [a; b] =>
      match hexval a, hexval b with
      | Some x, Some y => Ok (16 * x + y)
      | None, Some y => if is_ws a then Ok y
                        else if (a =? 43)%N then Ok y
                        else if (a =? 45)%N then Ok (- y)
                        else Raise ValueError
      | Some x, None => if is_ws b then Ok x else Raise ValueError
      | None, None => Raise ValueError
      end
  | _ => Raise ValueError
  end.

Record mbap := { mb_unit : option Z; mb_len : option Z }.
Definition mbap0 : mbap := {| mb_unit := None; mb_len := None |}.

(* framer.decode_data(response) — per framing *)
Definition decode_data (hs : Z) (fr : framing) (d : bytes) : res mbap :=
  match fr with
  | FTcp => if zlen d >? hs
            then Ok {| mb_unit := Some (nthb d 6); mb_len := Some (nthb d 4 * 256 + nthb d 5) |}
            else Ok mbap0
  | FRtu => if zlen d >? 1 then Ok {| mb_unit := Some (nthb d 0); mb_len := None |} else Ok mbap0
  | FBin => if zlen d >? 1 then Ok {| mb_unit := Some (nthb d 1); mb_len := None |} else Ok mbap0
  | FAscii =>
      if zlen d >? 1 then
        do u <- py_int16 (firstn 2 (skipn 1 d));
        do f <- py_int16 (firstn 2 (skipn 3 d));
        Ok {| mb_unit := Some u; mb_len := None |}
      else Ok mbap0
  end.

(* ------------------------------------------------------------------ the transport *)

Record world := { w_script : list tev; w_calls : list call }.   (* calls: most recent first *)

Definition pop (w : world) (c : call) : tev * world :=
  match w_script w with
  | [] => (Nothing, {| w_script := []; w_calls := c :: w_calls w |})
  | e :: t => (e, {| w_script := t; w_calls := c :: w_calls w |})
  end.

(* client.connect(): no transport call when already connected *)
Definition t_connect (w : world) (conn : bool) : world * bool :=
  if conn then (w, true)
  else let '(e, w') := pop w CConnect in
       match e with Closed | RaiseOSError => (w', false) | _ => (w', true) end.

Definition t_send (w : world) (pkt : bytes) : world * res unit :=
  let '(e, w') := pop w (CSend pkt) in
  match e with RaiseOSError | Closed => (w', Raise OtherExc) | _ => (w', Ok tt) end.

Definition clip (size : option Z) (bs : bytes) : bytes :=
  match size with None => bs | Some n => firstn (Z.to_nat n) bs end.

Definition t_recv (w : world) (size : option Z) : world * res bytes :=
  let '(e, w') := pop w (CRecv size) in
  match e with
  | Data bs => (w', Ok (clip size bs))
  | Nothing | Closed => (w', Ok [])
  | RaiseOSError => (w', Raise OtherExc)
  end.

Section WithCode.
Variable C : client_code.
Variable FS : Type.
Variable F : framer FS.

Definition retries_eff (c : cfg) : Z :=
  py_or (match c_retries_kw c with Some r => r | None => g_retries_default C end) (g_retries_or C).

Definition next_tid (t : Z) : Z := eval (env_of [("self.tid", t)]) (g_next_tid C).

Definition exception_length (fr : framing) : Z := g_base_adu C fr + g_exc_extra C fr.

(* function-code peek of _recv *)
Definition func_code (fr : framing) (read_min : bytes) : res Z :=
  match fr with
  | FAscii => py_int16 (firstn 2 (skipn 3 read_min))
  | _ => Ok (Z.of_N (last read_min 0%N))
  end.

(* ModbusTransactionManager._recv(expected_response_length, full) *)
Definition recv_model (fr : framing) (w : world) (exp : option Z) (full : bool) : world * res bytes :=
  if full then t_recv w exp
  else
    let mn := g_min_size C fr in
    let '(w1, r1) := t_recv w (Some mn) in
    match r1 with
    | Raise e => (w1, Raise e)
    | Ok read_min =>
        if negb (zlen read_min =? mn) then (w1, Raise InvalidMessageExc)
        else
          let go (exp2 : option Z) :=
            let '(w2, r2) := t_recv w1 exp2 in
            match r2 with Raise e => (w2, Raise e) | Ok rest => (w2, Ok (read_min ++ rest)) end in
          match read_min with
          | [] => go exp
          | _ =>
              match func_code fr read_min with
              | Raise e => (w1, Raise e)
              | Ok fcode =>
                  if fcode <? g_err_threshold C then
                    let e1 := match fr with
                              | FTcp => Some (g_tcp_hsize C + (nthb read_min 4 * 256 + nthb read_min 5 - 1))
                              | _ => exp
                              end in
                    go (match e1 with Some x => Some (x - mn) | None => None end)
                  else go (Some (exception_length fr - mn))
              end
          end
    end.

Definition caught (e : pyexn) : bool := existsb (pyexn_eqb e) (g_caught C).

(* ModbusTransactionManager._transact: (world, connected, Ok response | Raise escaped) *)
Definition transact (fr : framing) (w : world) (conn : bool) (rq : req) (tid : Z)
                    (exp : option Z) (full bcast : bool) : world * bool * res bytes :=
  let '(w1, conn1) := t_connect w conn in
  let pkt := f_build F rq tid in
  if negb conn1 then (w1, conn1, Raise ConnectionExc)          (* _send: not self.socket *)
  else
    let '(w2, rs) := t_send w1 pkt in
    match rs with
    | Raise e => if caught e then (w2, false, Ok []) else (w2, conn1, Raise e)
    | Ok _ =>
        if bcast then (w2, conn1, Ok [])
        else
          let '(w3, rr) := recv_model fr w2 exp full in
          match rr with
          | Ok bs => (w3, conn1, Ok bs)
          | Raise e => if caught e then (w3, false, Ok []) else (w3, conn1, Raise e)
          end
    end.

(* ------------------------------------------------------------------ the retry loop *)

Record lst := {
  l_w : world; l_conn : bool; l_retries : Z; l_full : bool; l_bcast : bool;
  l_resp : bytes; l_noresp : list Z; l_mbap : mbap; l_sleeps : list Z (* most recent first *)
}.

Inductive flow := FNext | FBreak | FRaise (e : pyexn).

Record lenv := { e_cfg : cfg; e_req : req; e_tid : Z; e_exp : option Z }.

Definition opt_truthy (o : option Z) : bool := match o with Some x => negb (x =? 0) | None => false end.

Fixpoint eval_cond (E : lenv) (c : cond) (st : lst) : bool :=
  match c with
  | CResp => match l_resp st with [] => false | _ => true end
  | CInNoResp => zmem (r_unit (e_req E)) (l_noresp st)
  | CRetryEmpty => c_roe (e_cfg E)
  | CRetryInvalid => c_roi (e_cfg E)
  | CUnitMatch => match mb_unit (l_mbap st) with Some u => u =? r_unit (e_req E) | None => false end
  | CHasLength => match mb_len (l_mbap st) with Some _ => true | None => false end
  | CExpLen => opt_truthy (e_exp E)
  | CLenMatch => match mb_len (l_mbap st), e_exp E with Some a, Some b => a =? b | None, None => true | _, _ => false end
  | CBackoff => true            (* `backoff ... or 0.3`: never falsy (shape-checked by the translator) *)
  | CHasState => true
  | CNot a => negb (eval_cond E a st)
  | CAnd a b => eval_cond E a st && eval_cond E b st
  | COr a b => eval_cond E a st || eval_cond E b st
  end.

Definition set_resp (st : lst) (w : world) (conn : bool) (r : bytes) : lst :=
  {| l_w := w; l_conn := conn; l_retries := l_retries st; l_full := l_full st; l_bcast := l_bcast st;
     l_resp := r; l_noresp := l_noresp st; l_mbap := l_mbap st; l_sleeps := l_sleeps st |}.
Definition set_noresp (st : lst) (l : list Z) : lst :=
  {| l_w := l_w st; l_conn := l_conn st; l_retries := l_retries st; l_full := l_full st; l_bcast := l_bcast st;
     l_resp := l_resp st; l_noresp := l; l_mbap := l_mbap st; l_sleeps := l_sleeps st |}.
Definition set_mbap (st : lst) (m : mbap) : lst :=
  {| l_w := l_w st; l_conn := l_conn st; l_retries := l_retries st; l_full := l_full st; l_bcast := l_bcast st;
     l_resp := l_resp st; l_noresp := l_noresp st; l_mbap := m; l_sleeps := l_sleeps st |}.
Definition set_sleep (st : lst) (d : Z) : lst :=
  {| l_w := l_w st; l_conn := l_conn st; l_retries := l_retries st; l_full := l_full st; l_bcast := l_bcast st;
     l_resp := l_resp st; l_noresp := l_noresp st; l_mbap := l_mbap st; l_sleeps := d :: l_sleeps st |}.
Definition set_full (st : lst) (b : bool) : lst :=
  {| l_w := l_w st; l_conn := l_conn st; l_retries := l_retries st; l_full := b; l_bcast := l_bcast st;
     l_resp := l_resp st; l_noresp := l_noresp st; l_mbap := l_mbap st; l_sleeps := l_sleeps st |}.
Definition set_bcast (st : lst) (b : bool) : lst :=
  {| l_w := l_w st; l_conn := l_conn st; l_retries := l_retries st; l_full := l_full st; l_bcast := b;
     l_resp := l_resp st; l_noresp := l_noresp st; l_mbap := l_mbap st; l_sleeps := l_sleeps st |}.
Definition set_retries (st : lst) (r : Z) : lst :=
  {| l_w := l_w st; l_conn := l_conn st; l_retries := r; l_full := l_full st; l_bcast := l_bcast st;
     l_resp := l_resp st; l_noresp := l_noresp st; l_mbap := l_mbap st; l_sleeps := l_sleeps st |}.

(* 2 ** e * backoff, recorded in units of backoff/2 (the exponent starts at -1) *)
Definition sleep_units (E : lenv) (e : expr) (st : lst) : Z :=
  2 ^ (eval (env_of [("self.retries", retries_eff (e_cfg E)); ("retries", l_retries st)]) e + 1).

Fixpoint run_stmt (E : lenv) (s : lstmt) (st : lst) {struct s} : lst * flow :=
  let fix run_list (ss : list lstmt) (st : lst) {struct ss} : lst * flow :=
    match ss with
    | [] => (st, FNext)
    | s :: t => let '(st', f) := run_stmt E s st in
                match f with FNext => run_list t st' | _ => (st', f) end
    end in
  match s with
  | LTransact =>
      let '(w, conn, r) := transact (c_framing (e_cfg E)) (l_w st) (l_conn st) (e_req E) (e_tid E)
                                    (e_exp E) (l_full st) (l_bcast st) in
      match r with
      | Ok bs => (set_resp st w conn bs, FNext)
      | Raise e => (set_resp st w conn [], FRaise e)
      end
  | LNoRespAppend => (set_noresp st (l_noresp st ++ [r_unit (e_req E)]), FNext)
  | LNoRespRemove => (set_noresp st (zremove1 (r_unit (e_req E)) (l_noresp st)), FNext)
  | LBreak => (st, FBreak)
  | LDecode =>
      match decode_data (g_tcp_hsize C) (c_framing (e_cfg E)) (l_resp st) with
      | Ok m => (set_mbap st m, FNext)
      | Raise e => (st, FRaise e)
      end
  | LStateIdle => (st, FNext)
  | LSleep e => (set_sleep st (sleep_units E e st), FNext)
  | LSetFull b => (set_full st b, FNext)
  | LSetBroadcast b => (set_bcast st b, FNext)
  | LRetriesSub k => (set_retries st (l_retries st - k), FNext)
  | LIf c th el => if eval_cond E c st then run_list th st else run_list el st
  end.

Fixpoint run_list (E : lenv) (ss : list lstmt) (st : lst) : lst * flow :=
  match ss with
  | [] => (st, FNext)
  | s :: t => let '(st', f) := run_stmt E s st in
              match f with FNext => run_list E t st' | _ => (st', f) end
  end.

Definition guard (r : Z) : bool := z2b (eval (env_of [("retries", r)]) (g_loop_guard C)).

Inductive lend := LDone | LRaised (e : pyexn) | LOutOfFuel.

(* `while retries > 0:` — structural recursion on fuel; the fuel handed in is
   1 + the counter, and [LOutOfFuel] is proved unreachable for the generated body *)
Fixpoint loop (E : lenv) (fuel : nat) (st : lst) : lst * lend :=
  match fuel with
  | O => (st, LOutOfFuel)
  | S k =>
      if guard (l_retries st) then
        match run_list E (g_loop_body C) st with
        | (st', FNext) => loop E k st'
        | (st', FBreak) => (st', LDone)
        | (st', FRaise e) => (st', LRaised e)
        end
      else (st, LDone)
  end.

(* ------------------------------------------------------------------ execute *)

Definition expected_length (c : cfg) (rq : req) : option Z :=
  match c_framing c with
  | FTcp => None
  | fr =>
      match r_psize rq with
      | None => None
      | Some n =>
          let n' := match fr with FAscii => n * g_ascii_mul C | _ => n end in
          if n' =? 0 then None else Some (g_base_adu C fr + n')
      end
  end.

Definition mk_out (r : result) (w : world) (sl : list Z) : outcome :=
  {| o_res := r; o_calls := rev (w_calls w); o_sleeps := rev sl |}.

Definition add_all (tx : list (Z * msg)) (key : Z) (ms : list msg) : list (Z * msg) :=
  fold_left (fun d m => d_set d key m) ms tx.

(* BaseModbusClient.execute + ModbusTransactionManager.execute *)
Definition execute (c : cfg) (st : cstate FS) (rq : req) (script : list tev) : cstate FS * outcome :=
  let fr := c_framing c in
  let w0 := {| w_script := script; w_calls := [] |} in
  let '(w1, conn1) := t_connect w0 (s_conn st) in
  if negb conn1 then
    (Build_cstate (s_tid st) (s_tx st) (s_fs st) (s_noresp st) conn1, mk_out (RRaise ConnectionExc) w1 [])
  else
  let tid := next_tid (s_tid st) in
  let fs1 := if f_nonempty F (s_fs st) then f_reset F (s_fs st) else s_fs st in
  if c_bcast c && (r_unit rq =? 0) then
    let '(w2, conn2, r) := transact fr w1 conn1 rq tid None false true in
    (Build_cstate tid (s_tx st) fs1 (s_noresp st) conn2,
     mk_out (match r with Ok _ => RBroadcast | Raise e => RRaise e end) w2 [])
  else
    let exp0 := expected_length c rq in
    let full0 := zmem (r_unit rq) (s_noresp st) in
    let full := if c_udp c then true else full0 in
    let exp := if c_udp c then (if opt_truthy exp0 then exp0 else Some (g_read_size C)) else exp0 in
    let r0 := retries_eff c + g_retries_bump C in
    let E := {| e_cfg := c; e_req := rq; e_tid := tid; e_exp := exp |} in
    let l0 := {| l_w := w1; l_conn := conn1; l_retries := r0; l_full := full; l_bcast := false;
                 l_resp := []; l_noresp := s_noresp st; l_mbap := mbap0; l_sleeps := [] |} in
    let '(l1, fin) := loop E (S (Z.to_nat r0)) l0 in
    match fin with
    | LOutOfFuel =>
        (Build_cstate tid (s_tx st) fs1 (l_noresp l1) (l_conn l1), mk_out RStuck (l_w l1) (l_sleeps l1))
    | LRaised e =>
        (Build_cstate tid (s_tx st) fs1 (l_noresp l1) (l_conn l1), mk_out (RRaise e) (l_w l1) (l_sleeps l1))
    | LDone =>
        let key := if g_rtu_tid_is_unit C then (match fr with FRtu => r_unit rq | _ => tid end) else tid in
        let '(fs2, ms, ex) := f_process F fs1 (l_resp l1) (r_unit rq) in
        let tx1 := add_all (s_tx st) key ms in
        match ex with
        | Some ModbusIOExc =>
            (Build_cstate tid tx1 fs2 (l_noresp l1) (l_conn l1), mk_out (RErr None) (l_w l1) (l_sleeps l1))
        | Some e =>
            (Build_cstate tid tx1 fs2 (l_noresp l1) (l_conn l1), mk_out (RRaise e) (l_w l1) (l_sleeps l1))
        | None =>
            let '(r, tx2) := d_pop tx1 key in
            match r with
            | Some m =>
                (Build_cstate tid tx2 fs2 (l_noresp l1) (l_conn l1), mk_out (RReply m) (l_w l1) (l_sleeps l1))
            | None =>
                match tx2 with
                | [] => (Build_cstate tid tx2 fs2 (l_noresp l1) (l_conn l1),
                         mk_out (RErr (Some (r_fc rq))) (l_w l1) (l_sleeps l1))
                | _ => let '(r', tx3) := d_pop tx2 (g_fallback_tid C) in
                       (Build_cstate tid tx3 fs2 (l_noresp l1) (l_conn l1),
                        mk_out (match r' with Some m => RReply m | None => RNone end) (l_w l1) (l_sleeps l1))
                end
            end
        end
    end.

(* result.isError() of what execute returned (None: not an object with isError) *)
Definition is_error_fc (fc : Z) : bool := z2b (eval (env_of [("self.function_code", fc)]) (g_is_error_rsp C)).
Definition is_error_of (r : result) : option bool :=
  match r with
  | RReply m => Some (is_error_fc (m_fc m))
  | RErr _ => Some (g_is_error_exc C)
  | _ => None
  end.

Definition sent (o : outcome) : list bytes :=
  flat_map (fun c => match c with CSend p => [p] | _ => [] end) (o_calls o).

End WithCode.

(* ------------------------------------------------------------------ ModbusTcpClient._recv deadline loop
   (client/sync.py).  One iteration = one select + at most one socket.recv + one look at the clock.
   What the operating system does is the list [ticks]: per iteration the bytes recv returned ([] when
   select timed out or the peer has closed) and the time by which the clock advanced. *)
Record tick := { k_bytes : bytes; k_dt : Z }.

Fixpoint tcp_recv_loop (size : option Z) (recv_size : Z) (now end_ : Z) (got : bytes) (ticks : list tick)
  : option bytes :=                    (* None = the list of ticks ran out before the loop ended *)
  if recv_size >? 0 then
    match ticks with
    | [] => None
    | k :: t =>
        let data := firstn (Z.to_nat recv_size) (k_bytes k) in
        let got' := got ++ data in
        let now' := now + k_dt k in
        let recv_size' := match size with
                          | Some s => if s =? 0 then recv_size else s - zlen got'
                          | None => recv_size end in
        if now' >? end_ then Some got' else tcp_recv_loop size recv_size' now' end_ got' t
    end
  else Some got.

Definition tcp_recv (size : option Z) (now timeout : Z) (ticks : list tick) : option bytes :=
  tcp_recv_loop size (match size with Some s => s | None => 1 end) now (now + timeout) [] ticks.
