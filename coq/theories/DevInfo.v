(* DevInfo.v — executable model of Read Device Identification (FC 0x2B / MEI 0x0E), C20.

   Code side: pymodbus/mei_message.py (ReadDeviceInformationRequest.execute,
   ReadDeviceInformationResponse.encode/_encode_object/decode) and pymodbus/device.py
   (DeviceInformationFactory.get/__lookup/__get/__gets, ModbusDeviceIdentification item access).
   The numbers and comparisons (`253 - 6`, `-= 2 + len(data)`, `<= 0`, the range bounds and the
   skip range of every __lookup lambda, the two guards of execute, MoreData / DeviceInformation
   constants) are NOT written here: they are the record [devinfo_code] that gen/gen_devinfo.py
   regenerates from the source on every run (Generated/GenDevInfo.v).  Hand-written: the dict /
   loop / struct glue those expressions drive.

   Spec side ([category], [expected], [start_ok], [max_pdu]): Modbus Application Protocol
   v1.1b3 section 6.21 and the 253-byte PDU limit of section 4.1, independent of the code.

   An identity is a function object id -> value; the empty value means "not configured"
   (ModbusDeviceIdentification.__getitem__ is `setdefault(key, '')`).  Values are byte strings
   (list-valued multi-item entries are outside the property's quantifier and not modelled).
   No proofs in this file. *)
From PM.theories Require Import Base Expr.
Open Scope string_scope.
Open Scope list_scope.
Open Scope Z_scope.

(* ------------------------------------------------------------------ generated code record *)

(* range(lo, hi), optionally `if x not in range(slo, shi)`; atoms: i = the requested object id *)
Record idrange := { r_lo : expr; r_hi : expr; r_skip : option (expr * expr) }.

Inductive lookup :=
| LGets (r : idrange)                       (* c.__gets(r, <ids>) *)
| LGetsIfPresent (r r0 : idrange)           (* c.__gets(r, <ids> if c.__get(r, i)[i] else <ids0>) *)
| LGet.                                     (* c.__get(r, i) *)

Record devinfo_code := {
  c_fc : Z; c_sub : Z; c_conformity : Z;
  c_space_init : expr;                      (* self.space_left = 253 - 6 *)
  c_space_after : expr;                     (* self.space_left - (2 + len(data)) *)
  c_out_of_space : expr;                    (* self.space_left <= 0 *)
  c_reject_object_id : expr; c_exc_object_id : Z;
  c_reject_read_code : expr; c_exc_read_code : Z;
  c_lookup : list (Z * lookup);
  c_more_nothing : Z; c_more_keep : Z;
  c_basic : Z; c_regular : Z; c_extended : Z; c_specific : Z;
  (* configuration API of ModbusDeviceIdentification *)
  c_init_accepts : expr;                    (* __init__(info): the key filter, atom key *)
  c_setitem_excluded : list Z;              (* __setitem__: `if key not in [7, 8]` *)
  c_properties : list (string * Z)          (* VendorName = dict_property(lambda s: s.__data, 0) ... *)
}.

(* ------------------------------------------------------------------ identities, objects *)

Definition identity := Z -> bytes.
Definition object := (Z * bytes)%type.

Fixpoint id_of (l : list object) : identity :=
  fun k => match l with
           | [] => []
           | (k', v) :: t => if k' =? k then v else id_of t k
           end.

Definition nonempty (v : bytes) : bool := match v with [] => false | _ :: _ => true end.
Definition blen (v : bytes) : Z := Z.of_nat (length v).
Definition obj_nonempty (o : object) : bool := nonempty (snd o).

Definition objects_of (idn : identity) (ids : list Z) : list object :=
  filter obj_nonempty (map (fun k => (k, idn k)) ids).

(* ---- configuration histories: the public API through which an identity gets its content.
   All instances share ONE class-level dict, so every operation - including the constructor of
   a fresh ModbusDeviceIdentification - acts on the same map. *)
Inductive cfg_op :=
| CInit (l : list object)                   (* ModbusDeviceIdentification(info={k: v, ...}) *)
| CUpdate (l : list object)                 (* Identity.update({k: v, ...}) *)
| CSetItem (k : Z) (v : bytes)              (* Identity[k] = v *)
| CProp (name : string) (v : bytes).        (* Identity.VendorName = v, ... *)

(* the dict as a stack of writes; [id_of] reads the most recent write of a key *)
Definition cfg_set (m : list object) (k : Z) (v : bytes) : list object := (k, v) :: m.

(* ================================================================== SPEC SIDE ===== *)

(* what an identity holds after a configuration history: the last value written per object
   id; a blank value withdraws the object.  The constructor takes ids 0-6 and 0x80-0xFF,
   item assignment everything but the reserved ids 7 and 8 (docstrings of device.py). *)
Definition spec_prop_id (name : string) : option Z :=
  if String.eqb "VendorName" name then Some 0 else if String.eqb "ProductCode" name then Some 1
  else if String.eqb "MajorMinorRevision" name then Some 2 else if String.eqb "VendorUrl" name then Some 3
  else if String.eqb "ProductName" name then Some 4 else if String.eqb "ModelName" name then Some 5
  else if String.eqb "UserApplicationName" name then Some 6 else None.

Definition spec_apply (m : list object) (o : cfg_op) : list object :=
  match o with
  | CInit l => fold_left (fun m kv => if ((0 <=? fst kv) && (fst kv <=? 6)) || ((128 <=? fst kv) && (fst kv <=? 255))
                                      then cfg_set m (fst kv) (snd kv) else m) l m
  | CUpdate l => fold_left (fun m kv => cfg_set m (fst kv) (snd kv)) l m
  | CSetItem k v => if (k =? 7) || (k =? 8) then m else cfg_set m k v
  | CProp n v => match spec_prop_id n with Some k => cfg_set m k v | None => m end
  end.
Definition spec_configured (h : list cfg_op) : list object := fold_left spec_apply h [].

Definition basic_ids : list Z := [0; 1; 2].
Definition regular_ids : list Z := [0; 1; 2; 3; 4; 5; 6].
Definition extended_ids : list Z := regular_ids ++ zrange 128 128.      (* 0x80 .. 0xFF *)

(* object ids of the category a read code streams *)
Definition category (code : Z) : list Z :=
  if code =? 1 then basic_ids else if code =? 2 then regular_ids
  else if code =? 3 then extended_ids else [].

(* what a stream access must return in total: the configured (non-empty) objects of the
   category from the requested id onward, ascending *)
Definition expected (idn : identity) (code oid : Z) : list object :=
  objects_of idn (filter (fun k => oid <=? k) (category code)).

(* the starting ids for which the property demands completeness *)
Definition start_ok (idn : identity) (code oid : Z) : bool :=
  (oid =? 0) || (existsb (Z.eqb oid) (category code) && nonempty (idn oid)).

Definition max_pdu : Z := 253.

(* bytes of one object on the wire: id, length, value *)
Definition obj_size (o : object) : Z := 2 + blen (snd o).
Definition objs_size (l : list object) : Z := fold_right (fun o s => obj_size o + s) 0 l.

(* size of the smallest response PDU that carries object o: fc, mei, read code, conformity,
   more, next, count, then the object *)
Definition min_pdu_with (o : object) : Z := 7 + obj_size o.

(* ================================================================== CODE SIDE ===== *)

Section WithCode.
Variable C : devinfo_code.

Fixpoint zlookup {A} (k : Z) (l : list (Z * A)) : option A :=
  match l with
  | [] => None
  | (k', v) :: t => if k' =? k then Some v else zlookup k t
  end.

(* one configuration operation as the code performs it *)
Fixpoint slookup (k : string) (l : list (string * Z)) : option Z :=
  match l with [] => None | (k', v) :: t => if String.eqb k' k then Some v else slookup k t end.

Definition cfg_apply (m : list object) (o : cfg_op) : list object :=
  match o with
  | CInit l => fold_left (fun m kv => if beval (env_of [("key", fst kv)]) (c_init_accepts C)
                                      then cfg_set m (fst kv) (snd kv) else m) l m
  | CUpdate l => fold_left (fun m kv => cfg_set m (fst kv) (snd kv)) l m      (* self.__data.update(value) *)
  | CSetItem k v => if existsb (Z.eqb k) (c_setitem_excluded C) then m else cfg_set m k v
  | CProp n v => match slookup n (c_properties C) with Some k => cfg_set m k v | None => m end
  end.
Definition configured (h : list cfg_op) : list object := fold_left cfg_apply h [].

Definition ids_of_range (r : idrange) (i : Z) : list Z :=
  let rho := env_of [("i", i)] in
  let l := py_range (eval rho (r_lo r)) (eval rho (r_hi r)) in
  match r_skip r with
  | None => l
  | Some (a, b) => filter (fun x => negb ((eval rho a <=? x) && (x <? eval rho b))) l
  end.

(* DeviceInformationFactory.get(control, read_code, object_id) -> the information dict,
   in insertion order; KeyError for a read code that is not a key of __lookup *)
Definition factory_get (idn : identity) (code oid : Z) : res (list object) :=
  match zlookup code (c_lookup C) with
  | None => Raise KeyError
  | Some (LGets r) => Ok (objects_of idn (ids_of_range r oid))
  | Some (LGetsIfPresent r r0) =>
      Ok (objects_of idn (if nonempty (idn oid) then ids_of_range r oid else ids_of_range r0 oid))
  | Some LGet => Ok [(oid, idn oid)]
  end.

(* ReadDeviceInformationRequest.execute *)
Inductive exec_result := ExcResponse (code : Z) | InfoResponse (read_code : Z) (info : list object).

Definition execute (idn : identity) (code oid : Z) : res exec_result :=
  if beval (env_of [("self.object_id", oid)]) (c_reject_object_id C) then Ok (ExcResponse (c_exc_object_id C))
  else if beval (env_of [("self.read_code", code)]) (c_reject_read_code C) then Ok (ExcResponse (c_exc_read_code C))
  else do info <- factory_get idn code oid;
       (* ReadDeviceInformationResponse.__init__: read_code or DeviceInformation.Basic *)
       Ok (InfoResponse (if code =? 0 then c_basic C else code) info).

(* the try/for loop of encode with _encode_object's space accounting: the objects that fit,
   and the id at which _OutOfSpaceException was raised *)
Fixpoint page_objs (space : Z) (objs : list object) : list object * option Z :=
  match objs with
  | [] => ([], None)
  | (k, v) :: t =>
      let space' := eval (env_of [("self.space_left", space); ("len(data)", blen v)]) (c_space_after C) in
      if beval (env_of [("self.space_left", space')]) (c_out_of_space C) then ([], Some k)
      else let '(acc, oos) := page_objs space' t in ((k, v) :: acc, oos)
  end.

Definition space0 : Z := eval (env_of []) (c_space_init C).

(* one response, structured: what encode puts on the wire *)
Record page := { pg_code : Z; pg_more : Z; pg_next : Z; pg_objs : list object }.

Definition page_of (read_code : Z) (info : list object) : page :=
  let '(objs, oos) := page_objs space0 info in
  {| pg_code := read_code;
     pg_more := match oos with Some _ => c_more_keep C | None => c_more_nothing C end;
     pg_next := match oos with Some k => k | None => 0 end;
     pg_objs := objs |}.

(* ---- wire level *)

(* struct.pack('>B...B', v1, ..) *)
Fixpoint pack_bytes (vs : list Z) : res bytes :=
  match vs with
  | [] => Ok []
  | v :: t => if (0 <=? v) && (v <? 256) then (do r <- pack_bytes t; Ok (Z.to_N v :: r))
              else Raise StructError
  end.

Fixpoint ser_objs (objs : list object) : res bytes :=
  match objs with
  | [] => Ok []
  | (k, v) :: t => do h <- pack_bytes [k; blen v]; do r <- ser_objs t; Ok (h ++ v ++ r)
  end.

(* ReadDeviceInformationResponse.encode(): the PDU without its function code *)
Definition encode_page (p : page) : res bytes :=
  do h1 <- pack_bytes [c_sub C; pg_code p; c_conformity C];
  do body <- ser_objs (pg_objs p);
  do h2 <- pack_bytes [pg_more p; pg_next p; Z.of_nat (length (pg_objs p))];
  Ok (h1 ++ h2 ++ body).

(* the whole server side for a request (read_code, object_id) that arrived on the wire:
   the reply PDU, function code included *)
Definition server_reply (idn : identity) (code oid : Z) : res bytes :=
  do r <- execute idn code oid;
  match r with
  | ExcResponse e => do b <- pack_bytes [c_fc C + 128; e]; Ok b
  | InfoResponse rc info => do b <- encode_page (page_of rc info); Ok (Z.to_N (c_fc C) :: b)
  end.

(* ---- client decoder: ReadDeviceInformationResponse.decode *)

Inductive info_value := VOne (v : bytes) | VMany (l : list bytes).

Fixpoint info_add (info : list (Z * info_value)) (k : Z) (v : bytes) : list (Z * info_value) :=
  match info with
  | [] => [(k, VOne v)]
  | (k', x) :: t =>
      if k' =? k then (k', match x with VOne a => VMany [a; v] | VMany l => VMany (l ++ [v]) end) :: t
      else (k', x) :: info_add t k v
  end.

Inductive dec_objs := DecOk (info : list (Z * info_value)) | DecRaise (e : pyexn) | DecOutOfFuel.

(* `while count < len(data)`: [rest] = data[count:] *)
Fixpoint decode_objs (fuel : nat) (rest : bytes) (info : list (Z * info_value)) : dec_objs :=
  match rest with
  | [] => DecOk info
  | _ :: _ =>
      match fuel with
      | O => DecOutOfFuel
      | S f =>
          match rest with
          | a :: b :: rest' =>
              let n := N.to_nat b in
              decode_objs f (skipn n rest') (info_add info (Z.of_N a) (firstn n rest'))
          | _ => DecRaise StructError          (* struct.unpack('>BB', <one byte>) *)
          end
      end
  end.

Record response := {
  rs_sub : Z; rs_code : Z; rs_conformity : Z; rs_more : Z; rs_next : Z; rs_count : Z;
  rs_info : list (Z * info_value) }.

Inductive reply := RExc (fc code : Z) | RResp (r : response).
Inductive dec_reply := DOk (r : reply) | DRaise (e : pyexn) | DOutOfFuel.

(* ClientDecoder.decode of a reply PDU (function code first) *)
Definition decode_reply (pdu : bytes) : dec_reply :=
  match pdu with
  | [] => DRaise IndexError                       (* byte2int(data[0]) *)
  | fc :: data =>
      if (128 <? Z.of_N fc) then
        match data with
        | e :: _ => DOk (RExc (Z.of_N fc) (Z.of_N e))
        | [] => DRaise IndexError                 (* ExceptionResponse.decode: byte2int(data[0]) *)
        end
      else if negb (Z.of_N fc =? c_fc C) then DRaise ModbusExc   (* another response class: not modelled *)
      else
        match data with
        | s :: c :: cf :: m :: nx :: n :: rest =>
            match decode_objs (S (length rest)) rest [] with
            | DecOk info => DOk (RResp {| rs_sub := Z.of_N s; rs_code := Z.of_N c; rs_conformity := Z.of_N cf;
                                          rs_more := Z.of_N m; rs_next := Z.of_N nx; rs_count := Z.of_N n;
                                          rs_info := info |})
            | DecRaise e => DRaise e
            | DecOutOfFuel => DOutOfFuel
            end
        | _ => DRaise StructError              (* struct.unpack('>BBBBBB', data[0:6]) *)
        end
  end.

(* one request/response exchange as the client sees it *)
Definition transact (idn : identity) (code oid : Z) : dec_reply :=
  match server_reply idn code oid with
  | Ok pdu => decode_reply pdu
  | Raise e => DRaise e
  end.

(* ---- the chain a client performs while more-follows is 0xFF (spec: section 6.21) *)

Inductive chain_end := ChainDone | ChainExc (code : Z) | ChainRaises (e : pyexn) | ChainOutOfFuel.

Fixpoint chain (idn : identity) (code oid : Z) (fuel : nat) : list response * chain_end :=
  match fuel with
  | O => ([], ChainOutOfFuel)
  | S f =>
      match transact idn code oid with
      | DOk (RResp r) =>
          if rs_more r =? 255 then
            let '(rs, e) := chain idn code (rs_next r) f in (r :: rs, e)
          else ([r], ChainDone)
      | DOk (RExc _ e) => ([], ChainExc e)
      | DRaise e => ([], ChainRaises e)
      | DOutOfFuel => ([], ChainRaises OtherExc)
      end
  end.

(* the same chain on structured pages (no wire) — what the proofs reason about *)
Inductive pchain_end := PDone | PExc (code : Z) | PRaises (e : pyexn) | POutOfFuel.

Fixpoint pchain (idn : identity) (code oid : Z) (fuel : nat) : list page * pchain_end :=
  match fuel with
  | O => ([], POutOfFuel)
  | S f =>
      match execute idn code oid with
      | Ok (InfoResponse rc info) =>
          let p := page_of rc info in
          if pg_more p =? 255 then
            let '(ps, e) := pchain idn code (pg_next p) f in (p :: ps, e)
          else ([p], PDone)
      | Ok (ExcResponse e) => ([], PExc e)
      | Raise e => ([], PRaises e)
      end
  end.

End WithCode.

(* objects a decoded response carries, in wire order (a repeated id contributes all its values) *)
Definition info_objects (info : list (Z * info_value)) : list object :=
  flat_map (fun kv => match snd kv with
                      | VOne v => [(fst kv, v)]
                      | VMany l => map (fun v => (fst kv, v)) l
                      end) info.
