#!/usr/bin/env python3
"""tools/seedkeep.py Cxx n  — after tools/seedverify.sh and tools/seedrun.sh: store the seeded change under /verif/seeded/Cxx-n with what was run"""
import json, os, re, shutil, sys
p, n = sys.argv[1], sys.argv[2]
tag = os.environ.get("SEEDTAG", n)
src = "%s_%s/out/%s" % (os.environ.get("SEEDROOT", "/tmp/seed"), p, n)
dst = "/verif/seeded/%s-%s" % (p, tag)
os.makedirs(dst, exist_ok=True)
for f in ("patch.diff", "demo.py"):
    shutil.copy(os.path.join(src, f), os.path.join(dst, f))
meta = json.load(open(os.path.join(src, "meta.json")))
meta["breaks_property"] = p
meta["confirmed_by_maintainer"] = ("tools/seedverify.sh: patch applies to a clean worktree; demo.py exits 0 on the clean tree and 1 with the "
                                   "patch; all 354 baseline tests still pass with the patch")
log = open("/tmp/seedres/%s-%s.txt" % (p, tag)).read()
meta["base_commit_of_repo"] = os.popen("git -C /repo rev-parse --short HEAD").read().strip()
runs = []
for blk in re.split(r"(?m)^== ", log)[1:]:
    prop = blk.split()[0]
    viol = re.search(r"^VIOLATION.*$", blk, re.M)
    summ = re.search(r"^%s: .*$" % prop, blk, re.M)
    verdict = re.search(r"verdict: (\S+)", blk)
    runs.append({"check": "./check %s --tier quick (private copy of /verif against a worktree of /repo with the patch applied)" % prop,
                 "violation_line": bool(viol), "no_failing_input_found": bool(viol and "no-failing-input-found" in viol.group(0)),
                 "verdict": verdict.group(1) if verdict else None, "summary": summ.group(0) if summ else None})
meta["what_we_ran"] = runs
meta["caught"] = any(r["violation_line"] for r in runs)
json.dump(meta, open(os.path.join(dst, "meta.json"), "w"), indent=1)
print(dst, "caught=%s" % meta["caught"])
