"""C05 — Invalid requests get the right exception and change nothing."""
from lib import common
from lib.coqrun import z, pairs
from lib.main import Case, Suite
from props import lib_exec as X

ID = "C05"
GENERATORS = ["store", "exec"]
PROP_FILE = "C05"
CASE_DEPS = X.CASE_DEPS
RULE = ("per function code: quantities {limit-1, limit, limit+1, 0, 1, 65535} x addresses {start-1, start, end-1, end, "
        "65535, fitting} on layouts large enough for the limit (sizes 125 / 2000 / 65536) and small ones; byte counts "
        "off by one and byte counts larger than the data carried (5, 6, 255 with 4 data bytes; FC15/FC23 likewise); the "
        "outcome of ServerDecoder.decode is part of every observation (request object | None | exception class) and "
        "the oracle decides from the wire fields; all 237 unassigned function codes 0..255 through the real ServerDecoder; all 65536 FC5 value "
        "words (16 sweeps of 4096 on one store each, observation = outcome + coil state); datastore failures injected "
        "at the 1st..4th datastore call of the last request of a history; the two defect regions (FC5 word, FC15 "
        "quantity) paired with their prefix-only history; every history ends with a full store dump compared with "
        "the model and with the abstract data model; non-trivial = at least one exception response AND the final dump "
        "checked; distinct = distinct case terms")
TRUSTED = [
    "hand-modelled, tied by correspondence only: ExecView.decode_attrs, Store.v list/dict machinery, Exec.run, "
    "the fault-injecting datastore wrapper (Exec.faulty_ops vs props/lib_exec.FaultyContext)",
    "generated from source on every run: GenExec.v (guard scripts, exception codes, fc|0x80, function table, "
    "SlaveFailure arm), GenStore.v",
    "spec side: ExecSpec.spec_outcome, the decision table transcribed from the property text",
]
ASSUMPTIONS = ["requests reach execute() as objects decoded by ServerDecoder from a PDU (16-bit unsigned wire fields)",
               "PDUs whose decode() itself raises (struct.error on short register data) never reach execute and are "
               "out of scope here (C12)",
               "datastore failure = validate/getValues/setValues of the slave context raises"]
MANIFEST = {
    "text": ("Coq theorems (Props/C05.v) over the regenerated guard scripts: the outcome of every request outside the two "
             "known defect regions equals the decision table of the property (limits 2000/125/1968/123/125+121, byte "
             "count vs quantity, coil word, range inside the table, unsupported function) with fc|0x80; an exception "
             "response leaves the whole store syntactically unchanged for EVERY wire request; read/write-multiple "
             "writes nothing unless both ranges are valid; a datastore failure yields exception 04. The two defects "
             "(FC5 accepts any value word, FC15 ignores the wire quantity) are pinned by _refuted witnesses evaluated "
             "on the model and replayed on the real code on every run. Tests try two or three bad counts against a "
             "mock; the theorems cover every boundary, layout and history."),
    "note": ("Trusted: Coq kernel; translator shape matching; hand model of decoded attributes and Python lists/dicts; "
             "validated by exhaustive coil-word and function-code sweeps and boundary sweeps through the real decoder "
             "and the three front-ends' execute wrappers; ExecSpec.v as the reading of the property."),
    "design_ref": "DESIGN.md section 8 (C05)",
}

F_FC5 = "F-C05-fc5-value-word"
F_FC15 = "F-C05-fc15-wire-quantity"
F_FAULT = "F-C05-failure-after-write"
F_SHORT = "F-C05-short-register-data-raises-in-decode"


def big_layout(r, size, start, zero, sparse=False):
    return X.gen_layout(r, shared=False, zero=zero, start=start, size=size, sparse=sparse)


def boundary_addrs(L, t, q):
    cells = [a for a in X.table_cells(L, t) if 0 <= a <= 65535]
    if not cells:
        return [0, 65535]
    lo, hi = cells[0], cells[-1]
    cand = [lo - 1, lo, lo + 1, hi - q, hi - q + 1, hi - q + 2, hi, hi + 1, 65535, 65535 - q + 1, 0]
    return sorted(set(a for a in cand if 0 <= a <= 65535))


def limit_requests(r, L, fc):
    """quantity x address sweep for one function code on one layout"""
    out = []
    if fc in (1, 2, 3, 4, 15, 16):
        lim = X.LIMITS[fc]
        t = X.FC_TABLE[fc]
        for q in (lim - 1, lim, lim + 1, 0, 1, 2, 65535):
            for a in boundary_addrs(L, t, q):
                if fc in (1, 2, 3, 4):
                    out.append(("read", t, a, q))
                elif fc == 15:
                    if q > 2040:
                        bcs = [255]
                    else:
                        bcs = [(q + 7) // 8]
                    for bc in bcs:
                        out.append(("wcoils", a, q, bc, X.coil_bytes(r, bc)))
                else:
                    if q > 127:
                        continue       # byte count cannot carry it; decode needs 2*q bytes
                    out.append(("wregs", a, q, 2 * q, [r.randrange(256) for _ in range(2 * q)]))
    elif fc == 23:
        for rq in (124, 125, 126, 0, 1, 65535):
            for wq in (120, 121, 122, 0, 1):
                ras = boundary_addrs(L, "h", rq)
                was = boundary_addrs(L, "h", wq)
                for _ in range(3):
                    out.append(("rwm", r.choice(ras), rq, r.choice(was), wq, 2 * wq,
                                [r.randrange(256) for _ in range(2 * wq)]))
    elif fc == 5:
        for a in boundary_addrs(L, "c", 1):
            out.append(("wcoil", a, r.choice([0, 0xFF00])))
    elif fc == 6:
        for a in boundary_addrs(L, "h", 1):
            out.append(("wreg", a, r.choice([0, 0xFFFF, r.randrange(65536)])))
    elif fc == 22:
        for a in boundary_addrs(L, "h", 1):
            out.append(("mask", a, r.randrange(65536), r.randrange(65536)))
    return out


def run_list(L, ws, fe, kind, chunk=12):
    """split a request list into histories of `chunk` requests, each on a fresh store"""
    cases = []
    for i in range(0, len(ws), chunk):
        h = X.History(L, fe + i)
        for w in ws[i:i + chunk]:
            h.request(w)
        h.dump()
        cases.append(h.case(kind=kind, nontrivial=h.n_exc > 0))
    return cases


def suite_limits(tier):
    r = common.rng("C05.limits")
    cases = []
    fe = 0
    layouts = []
    reps = 1 if tier == "quick" else 6
    for _ in range(reps):
        for size, start in ((2000, 0), (2000, 1), (125, 100), (9, 2), (2100, 65530 - 2100), (1, 0), (2, 65530)):
            for zero in (False, True):
                layouts.append(big_layout(r, size, start, zero))
        layouts.append(big_layout(r, 9, 1, False, sparse=True))
        layouts.append(big_layout(r, 14, 100, True, sparse=True))
        layouts.append(X.gen_layout(r, shared=True, zero=False, start=1, size=125, sparse=False))
    for L in layouts:
        for fc in X.DATA_FCS:
            ws = limit_requests(r, L, fc)
            r.shuffle(ws)
            if tier == "quick":
                ws = ws[:24]
            cases += run_list(L, ws, fe, "limits-fc%d" % fc)
            fe += 1
    for L in (X.default_layout(False), X.samelist_layout(r, start=0, size=100), X.samelist_layout(r, start=1, size=40)):
        # ModbusSlaveContext() default tables / all tables from one Python list object: invalid requests
        # around valid writes, all blocks dumped
        ws = []
        for fc in X.DATA_FCS:
            ws += limit_requests(r, L, fc)[:4]
        r.shuffle(ws)
        cases += run_list(L, ws, fe, "limits-" + L["mode"], chunk=20)
    if True:
        L = big_layout(r, 65536, 0, True)
        ws = []
        for fc in X.DATA_FCS:
            ws += limit_requests(r, L, fc)[:6]
        r.shuffle(ws)
        cases += run_list(L, ws, fe, "limits-64k", chunk=30)
    return Suite("limits", X.IMPORTS, X.CHK_HIST, cases, shard=40)


def suite_bytecounts(tier):
    """byte count contradicting the quantity (data length = byte count, as a framer delivers it),
    kept clear of the FC15 defect region (quantity <= 8 * byte count)"""
    r = common.rng("C05.bytecounts")
    cases = []
    n = 40 if tier == "quick" else 1500
    for i in range(n):
        L = X.gen_layout(r, shared=r.random() < 0.2, size=r.choice([9, 20, 40]), sparse=False, start=r.choice([0, 1, 2]))
        ws = []
        for _ in range(10):
            k = r.choice(["wcoils", "wregs", "rwm", "ok"])
            if k == "wcoils":
                a, q = X.pick_range(r, L, "c", 40, True)
                if q > 8 and r.random() < 0.4:
                    # too SMALL while the PDU carries every data byte the quantity calls for (quantity <= 8 * bytes
                    # present, so outside the FC15 defect region): the byte-count field alone is wrong -> 03
                    bc = r.randrange(1, (q + 7) // 8)
                    ws.append(("wcoils", a, q, bc, X.coil_bytes(r, (q + 7) // 8)))
                else:
                    bc = (q + 7) // 8 + r.choice([1, 2, 1])          # too large: still quantity <= 8*bc
                    ws.append(("wcoils", a, q, bc, X.coil_bytes(r, bc)))
            elif k == "wregs":
                a, q = X.pick_range(r, L, "h", 20, True)
                bc = 2 * q + r.choice([1, 2, 3])                  # decode reads 2*q bytes: needs len >= 2q
                ws.append(("wregs", a, q, bc, [r.randrange(256) for _ in range(bc)]))
            elif k == "rwm":
                wa, wq = X.pick_range(r, L, "h", 20, True)
                ra, rq = X.pick_range(r, L, "h", 20, True)
                wbc = r.choice([2 * wq + 2, 2 * wq - 2, 2 * wq + 4]) if wq > 1 else 2 * wq + 2
                ws.append(("rwm", ra, rq, wa, wq, wbc, [r.randrange(256) for _ in range(max(wbc, 0))]))
            else:
                ws.append(X.gen_request(r, L, r.choice(X.DATA_FCS), valid=True))
        cases += run_list(L, ws, i, "bytecount", chunk=10)
    # byte count LARGER than the data carried (the decoder must still hand the request to execute -> 03), and
    # header fields that demand 03 on PDUs whose register data is too short for decode (last request of its case)
    k = 0
    for nd, variants in ((4, [("wregs", 2, 5), ("wregs", 2, 6), ("wregs", 2, 255), ("wregs", 1, 4), ("wregs", 3, 4),
                              ("wregs", 200, 4), ("rwm", 3, 4), ("rwm", 2, 6), ("rwm", 2, 255), ("rwm", 2, 5),
                              ("rwm", 1, 4)]),
                         (2, [("wcoils", 16, 5), ("wcoils", 16, 6), ("wcoils", 16, 255), ("wcoils", 9, 3),
                              ("wcoils", 8, 2)])):
        for kind, q, bc in variants:
            for rep in range(1 if tier == "quick" else 6):
                L = X.gen_layout(r, shared=False, size=r.choice([20, 40]), sparse=False, start=r.choice([0, 1]))
                data = [r.randrange(256) for _ in range(nd)]
                if kind == "rwm":
                    ra, rq = X.pick_range(r, L, "h", 5, True)
                    wa, _ = X.pick_range(r, L, "h", 1, True)
                    w = ("rwm", ra, rq, min(wa, 10), q, bc, data)
                else:
                    a, _ = X.pick_range(r, L, "c" if kind == "wcoils" else "h", 1, True)
                    w = (kind, min(a, 10), q, bc, data)
                h = X.History(L, k)
                k += 1
                for _ in range(r.choice([0, 2])):
                    h.request(X.gen_request(r, L, r.choice(X.DATA_FCS), valid=True))
                h.request(w)
                h.dump()
                cases.append(h.case(kind="bytecount-gt-data", nontrivial=True, extra={"last_wire": list(w)}))
    return Suite("bytecounts", X.IMPORTS, X.CHK_HIST, cases, shard=20)


def demands_03(w):
    """the header fields alone demand exception 03 (FC16 / FC23)"""
    if w[0] == "wregs":
        return not (1 <= w[2] <= 123) or w[3] != 2 * w[2]
    if w[0] == "rwm":
        return not (1 <= w[2] <= 125) or not (1 <= w[4] <= 121) or w[5] != 2 * w[4]
    return False


def short_for_decode(w):
    """the register data carried is shorter than what decode() reads"""
    if w[0] == "wregs":
        return 2 * w[2] > len(w[4])
    if w[0] == "rwm":
        return 2 * ((w[5] + 1) // 2) > len(w[6])
    return False


def suite_functions(tier):
    """every function code 0..255 that ServerDecoder does not know"""
    from pymodbus.factory import ServerDecoder
    r = common.rng("C05.functions")
    known = set(ServerDecoder()._ServerDecoder__lookup.keys())
    fcs = [fc for fc in range(256) if fc not in known]
    cases = []
    for i in range(0, len(fcs), 24):
        L = X.gen_layout(r, size=r.choice([2, 9]), sparse=False)
        ws = []
        for fc in fcs[i:i + 24]:
            ws.append(("other", fc, [r.randrange(256) for _ in range(r.choice([0, 1, 4, 5]))]))
            if r.random() < 0.2:
                ws.append(X.gen_request(r, L, r.choice(X.DATA_FCS), valid=True))
        cases += run_list(L, ws, i, "unassigned-fc", chunk=40)
    return Suite("functions", X.IMPORTS, X.CHK_HIST, cases, shard=4)


# ----------------------------------------------------------------------------- coil words

def sweep_case(r, lo, n, idx):
    L = X.gen_layout(r, shared=False, zero=(idx % 2 == 0), start=r.choice([0, 1, 2]), size=9, sparse=(idx % 4 == 3))
    fctx, blocks = X.build(L)
    h = X.make_handler(fctx)
    fes = X.front_ends()
    addr = r.choice([a for a in X.table_cells(L, "c") if a >= 0] or [0])
    if idx % 8 == 5:
        addr = max(X.table_cells(L, "c")) + 1        # outside the table: exception 02 for valid words
    obs = []
    for i, word in enumerate(range(lo, lo + n)):
        req = X.decode(("wcoil", addr, word))
        try:
            fes[(idx + i) % len(fes)][1](h, req)
            o = X.observe(h.sent[-1]) if len(h.sent) == 1 else ("Responses-%d" % len(h.sent), 0, [])
        except Exception:  # noqa: BLE001 — escaping exception = malformed outcome (code 100)
            o = ("Escaped", 0, [])
        if o[0] == "E":
            k = o[2] if o[1] == 0x85 else 100
        elif o[0] == "WriteSingleCoilResponse" and o[1] == 5 and o[2][0][1] == addr:
            k = 10 + o[2][1][1]
        else:
            k = 100
        try:
            coil = int(fctx.ctx.getValues(1, addr, 1)[0]) if fctx.ctx.validate(1, addr, 1) else -1
        except Exception:  # noqa: BLE001
            coil = -1
        obs.append((k, coil))
        del h.sent[:]
    term = "(%s, %s, %s, %s)" % (X.layout_term(L), z(addr), z(lo), pairs(obs))
    desc = {"layout": L, "addr": addr, "lo": lo, "n": n,
            "obs_rle": rle(obs), "valid_addr": addr in X.table_cells(L, "c")}
    return Case(term, desc, kind="coilwords", nontrivial=True)


def rle(obs):
    out = []
    for o in obs:
        if out and out[-1][0] == list(o):
            out[-1][1] += 1
        else:
            out.append([list(o), 1])
    return out


def suite_coilwords(tier):
    r = common.rng("C05.coilwords")
    n = 4096
    cases = [sweep_case(r, lo, n, i) for i, lo in enumerate(range(0, 65536, n))]
    return Suite("coilwords", X.IMPORTS, X.CHK_SWEEP, cases, shard=1)


def sweep_in_region(desc):
    """every deviation of the sweep from the property lies at a word outside {0x0000, 0xFF00} and is of the
    known kind (normal response echoing OFF); the words 0x0000 / 0xFF00 themselves behave per spec"""
    word = desc["lo"]
    coil = None
    for (k, c), cnt in desc["obs_rle"]:
        for _ in range(cnt):
            if word in (0, 0xFF00):
                want = (10 + (1 if word == 0xFF00 else 0), 1 if word == 0xFF00 else 0) if desc["valid_addr"] else (2, -1)
                if (k, c) != want:
                    return False
            else:
                ok_known = (k, c) == (10, 0) if desc["valid_addr"] else (k, c) == (2, -1)
                if not ok_known:
                    return False
            word += 1
    return True


# ----------------------------------------------------------------------------- datastore failures

def suite_faults(tier):
    r = common.rng("C05.faults")
    cases = []
    n = 50 if tier == "quick" else 1500
    for i in range(n):
        L = X.gen_layout(r, size=r.choice([2, 9, 20]))
        fc = X.DATA_FCS[i % len(X.DATA_FCS)]
        for j in (0, 1, 2, 3):
            h = X.History(L, i + j)
            for _ in range(r.choice([0, 1, 3])):
                h.request(X.gen_request(r, L, r.choice(X.DATA_FCS), valid=r.random() < 0.8))
            before = h.fctx.ticks
            plan = [False] * before + [False] * j + [True]
            h.fctx.plan = [False] * j + [True]
            w = X.gen_request(r, L, fc, valid=r.random() < 0.9)
            if not h.request(w):
                continue
            h.fctx.plan = []
            h.dump()
            last = h.desc[-2]
            cases.append(h.case(plan=plan, kind="fault-fc%s-call%d" % (fc, j + 1), nontrivial=last["faulted"],
                                extra={"fault_call": j + 1, "fault_after_set": last["set_done_before_fault"]}))
    return Suite("faults", X.IMPORTS, X.CHK_HIST, cases, shard=25)


# ----------------------------------------------------------------------------- the two defect regions

def suite_defects(tier):
    r = common.rng("C05.defects")
    cases = []
    n = 24 if tier == "quick" else 300
    for i in range(n):
        L = X.gen_layout(r, size=r.choice([9, 20, 40]), sparse=False, start=r.choice([0, 1]))
        prefix = [X.gen_request(r, L, r.choice(X.DATA_FCS), valid=r.random() < 0.8) for _ in range(r.choice([0, 2, 5]))]
        if i % 2 == 0:
            a, _ = X.pick_range(r, L, "c", 1, True)
            w = ("wcoil", a, r.choice([1, 0x00FF, 0xFF01, 0xFFFF, 0x1234, 0x0100, r.randrange(1, 0xFF00)]))
            fid = F_FC5
        else:
            bc = r.choice([1, 2, 3])
            a, _ = X.pick_range(r, L, "c", 8 * bc, True)
            a = min(a, max(0, min(X.table_cells(L, "c")[-1] - 8 * bc + 1, a)))
            w = ("wcoils", a, 8 * bc + r.choice([1, 4, 100, 2000, 60000]), bc, X.coil_bytes(r, bc))
            fid = F_FC15
        for with_defect in (False, True):
            h = X.History(L, i)
            for p in prefix:
                h.request(p)
            if with_defect:
                h.request(w)
            h.dump()
            cases.append(h.case(kind=("defect-" + fid) if with_defect else "defect-prefix-only",
                                extra={"defect": fid if with_defect else None}))
    return Suite("defects", X.IMPORTS, X.CHK_HIST, cases, shard=12)


def suites(tier):
    return [suite_limits(tier), suite_bytecounts(tier), suite_functions(tier), suite_coilwords(tier),
            suite_faults(tier), suite_defects(tier)]


# ----------------------------------------------------------------------------- findings

def last_request(desc):
    reqs = [it for it in desc["items"] if "wire" in it]
    return reqs[-1] if reqs else None


def _j(x):
    """tuples -> lists, as after a JSON round trip (descs are matched both fresh and from replay files)"""
    import json
    return json.loads(json.dumps(x))


def classify(suite, desc):
    """a failing case belongs to a known finding only if it lies in the finding's region AND shows the known
    behaviour; anything else in the same suites is reported"""
    if suite == "coilwords":
        return F_FC5 if sweep_in_region(desc) else None
    if suite == "defects" and desc.get("defect"):
        it = last_request(desc)
        w, o = _j(it["wire"]), _j(it["response"])
        if desc["defect"] == F_FC5 and w[0] == "wcoil" and w[2] not in (0, 0xFF00):
            if o in (["WriteSingleCoilResponse", 5, [["Z", w[1]], ["Z", 0]]], ["E", 0x85, 2]):
                return F_FC5
        if desc["defect"] == F_FC15 and w[0] == "wcoils" and w[2] > 8 * len(w[4]):
            if o in (["WriteMultipleCoilsResponse", 15, [["Z", w[1]], ["Z", 8 * len(w[4])]]], ["E", 0x8F, 2]):
                return F_FC15
        return None
    if suite == "bytecounts" and desc.get("last_wire"):
        it = last_request(desc)
        w = _j(it["wire"])
        if it.get("undecoded") == "StructError" and w == _j(desc["last_wire"]) and demands_03(w) and short_for_decode(w):
            return F_SHORT
        return None
    if suite == "faults" and desc.get("fault_after_set"):
        it = last_request(desc)
        w, o = _j(it["wire"]), _j(it["response"])
        if it["faulted"] and it["set_done_before_fault"] and w[0] in ("wcoil", "wreg", "rwm") \
                and o == ["E", X.wire_fc(w) | 0x80, 4]:
            return F_FAULT
    return None


def _one(L, w, plan=None):
    h = X.History(L)
    if plan:
        h.fctx.plan = list(plan)
    h.request(w)
    return h


W_LAYOUT = {"zero": True, "slots": {"c": 0, "d": 1, "h": 2, "i": 3},
            "blocks": [("seq", 0, [1] * 32), ("seq", 0, [0]), ("seq", 0, [18]), ("seq", 0, [0])]}


def replay_finding(f):
    """True when the witness still fails on the implementation"""
    wit = f.get("witness", {})
    if f["id"] == F_FC5:
        h = _one(W_LAYOUT, ("wcoil", wit["address"], wit["word"]))
        return h.last_obs[0] != "E" or h.last_obs[2] != 3
    if f["id"] == F_FC15:
        h = _one(W_LAYOUT, ("wcoils", wit["address"], wit["quantity"], wit["byte_count"], wit["data"]))
        return h.last_obs[0] != "E" or h.last_obs[2] != 3
    if f["id"] == F_SHORT:
        h = _one(W_LAYOUT, ("wregs", wit["address"], wit["quantity"], wit["byte_count"], wit["data"]))
        return h.last_obs == ("Undecoded", "StructError")
    if f["id"] == F_FAULT:
        before = [int(v) for v in X.build(W_LAYOUT)[1][0].values]
        h = _one(W_LAYOUT, ("wcoil", wit["address"], wit["word"]), plan=wit["plan"])
        after = [int(v) for v in h.blocks[0].values]
        return h.last_obs[0] == "E" and h.last_obs[2] == 4 and before != after
    return None


def replay_case(suite, desc):
    import json
    from lib import coqrun
    print(json.dumps(desc)[:3000])
    if suite == "coilwords":
        print("coil-word sweep: re-run ./check C05 (the sweep is deterministic given VERIF_SEED)")
        return True
    L = desc["layout"]
    L["blocks"] = [tuple([d[0], [tuple(p) for p in d[1]]]) if d[0] == "sp" else tuple(d) for d in L["blocks"]]
    h = X.History(L)
    plan = list(desc.get("plan", []))
    h.fctx.plan = list(plan)
    for it in desc["items"]:
        if "wire" in it:
            h.request(tuple(it["wire"]))
        else:
            h.dump()
    c = h.case(plan=plan)
    res = coqrun.eval_cases("C05_replay", X.IMPORTS, X.CHK_HIST, [c.term])
    print("now:", res)
    return bool(res["propfail"] or res["errors"])


def shrink(suite, desc):
    if suite == "coilwords":
        return None
    return X.shrink_history("C05", desc)
