(* ClientTcp.v — ADAPTER: the concrete socket-framer model (theories/FrTcp.v instantiated with the records
   regenerated from pymodbus/framer/socket_framer.py, Generated/GenFramerA.v) as an instance of the abstract
   [Client.framer] interface of the client transaction model.  No proofs.

   Mismatches between the two developments that this file bridges (see docs/C08.md):
   * deliveries: FrBaseA.delivery = (PDU bytes, tid, pid, uid); Client.msg = (tid, uid, function code, identity).
     [msg_of] takes the function code from the decoder oracle ([DMsg fc]) and uses an injective code of the PDU
     bytes as the identity.
   * outcome: FrBaseA.outc has [OutOfFuel]; the client interface has "exception or none".  [OutOfFuel] is mapped to
     an exception the client does not catch and is proved unreachable (no such lemma existed for the socket framer).
   * unit filter: processIncomingPacket gets a list of units and `single`; the client calls it with the request's
     unit and no `single` keyword: {| c_units := [u]; c_single := None |}.
   * "buffer non-empty" / resetFrame are fields of the framer state here, methods there.
   * buildPacket: FrTcp.t_build returns [res bytes] (struct.pack can raise); the client interface wants bytes:
     the raising case (ids out of range) is mapped to [] and excluded by the range hypotheses of the theorems. *)
From PM.theories Require Import Base Expr Struct FrBaseA FrTcp FrSpecA.
From PM.Generated Require Import GenFramerA.
From PM.theories Require Import Client.
Open Scope list_scope.
Open Scope Z_scope.

Definition pdu_id (pdu : bytes) : Z := fold_left (fun a b => a * 256 + Z.of_N b) pdu 1.

Section WithDecoder.
Variable dec : bytes -> dres.          (* ClientDecoder.decode as an oracle: message (function code) / None / raises *)

Definition msg_of (d : delivery) : msg :=
  {| m_tid := d_tid d; m_uid := d_uid d;
     m_fc := match dec (d_pdu d) with DMsg fc => fc | _ => 0 end;
     m_id := pdu_id (d_pdu d) |}.

Definition unit_cfg (u : Z) : FrBaseA.cfg := {| c_units := [u]; c_single := None |}.

Definition exc_of (o : outc) : option pyexn :=
  match o with Done => None | Exc e => Some e | OutOfFuel => Some ZeroDivisionError end.

Definition tcp_framer : framer tstate := {|
  f_nonempty := fun st => match t_buf st with [] => false | _ => true end;
  f_reset := t_reset tcp;
  f_build := fun rq tid => match t_build tcp tid 0 (r_unit rq) (r_fc rq) [] with Ok b => b | Raise _ => [] end;
  f_process := fun st data u =>
    let '(st', ds, o) := FrTcp.t_recv base tcp dec (unit_cfg u) st data in (st', map msg_of ds, exc_of o)
|}.

End WithDecoder.
