"""Mapping of Python exceptions raised by the implementation to the model's `pyexn` enum."""
import binascii
import struct


def pyexn(e):
    from pymodbus import exceptions as X
    if isinstance(e, struct.error):
        return "StructError"
    if isinstance(e, IndexError):
        return "IndexError"
    if isinstance(e, KeyError):
        return "KeyError"
    if isinstance(e, binascii.Error):
        return "BinasciiError"
    if isinstance(e, ValueError):
        return "ValueError"
    if isinstance(e, TypeError):
        return "TypeError"
    if isinstance(e, AttributeError):
        return "AttributeError"
    if isinstance(e, ZeroDivisionError):
        return "ZeroDivisionError"
    if isinstance(e, X.ModbusIOException):
        return "ModbusIOExc"
    if isinstance(e, X.InvalidMessageReceivedException):
        return "InvalidMessageExc"
    if isinstance(e, X.NotImplementedException):
        return "NotImplementedExc"
    if isinstance(e, X.NoSuchSlaveException):
        return "NoSuchSlaveExc"
    if isinstance(e, X.ConnectionException):
        return "ConnectionExc"
    if isinstance(e, X.ParameterException):
        return "ParameterExc"
    if isinstance(e, X.ModbusException):
        return "ModbusExc"
    return "OtherExc"
