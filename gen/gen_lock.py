"""GenLock.v — C15: where the transaction lock sits in ModbusTransactionManager.execute.

Reads pymodbus/transaction.py (execute, _transact, _send, _recv, __init__) and
pymodbus/client/sync.py (BaseModbusClient.execute) and emits DATA only:

  * lock_bindings      every assignment to `<x>._transaction_lock` in the package:
                       (function it sits in, constructor called)
  * execute_sites      every call site / state assignment of execute() (with _transact inlined)
                       that touches shared client state, in program order, with `Acquire` /
                       `Release` where the `with self._transaction_lock:` block starts / ends,
                       each tagged main-path or alternate-path (broadcast, local echo, retry
                       tail, tid-0 fallback, except handlers)
  * sk_before_loop / sk_loop / sk_after_loop   the main path split at the retry `while`
  * client_prefix      what BaseModbusClient.execute does before calling transaction.execute

Every call inside these functions must be either a recognised shared-state operation or on
the list of calls known not to touch shared client state; anything else fails closed.
The semantics (what an operation does, what `well_bracketed` means) is in theories/Lock.v.
"""
import ast
import os

from . import core
from .core import Src, TranslatorFail, coq_list

# calls that touch shared state -> abstract operation
OPS = {
    "self.getNextTID": "TidAlloc",
    "self.client.framer.resetFrame": "FramerReset",
    "self.client.connect": "Connect",
    "self._send": "Send",
    "self._recv": "Recv",
    "self.client.framer.processIncomingPacket": "Process",
    "self.getTransaction": "Pickup",
    "self.client.close": "Close",
}
# calls that do not touch the transport, the tid counter, the transaction table, the framer
# buffer or the lock (pure helpers, logging, per-request objects, the retry bookkeeping list)
PURE = {
    "hexlify_packets", "ModbusTransactionState.to_string", "isinstance", "hasattr", "str", "len",
    "partial", "request.get_response_pdu_size", "self._calculate_response_length",
    "self.client.framer.decode_data", "mbap.get", "time.sleep", "c_str.lower", "c_str.lower().strip",
    "self._no_response_devices.append", "self._no_response_devices.remove", "ModbusIOException",
    "self.client.framer.buildPacket", "_logger.isEnabledFor", "_logger.debug", "_logger.exception",
    "_logger.info", "_logger.warning", "_logger.error",
}
# `if` tests whose body is not on the main path (the main path = one unicast attempt that is answered)
ALT_TESTS = {
    "broadcast",
    "hasattr(self.client, 'handle_local_echo') and self.client.handle_local_echo is True",
    "not response",
}


class Walker:
    def __init__(self, src, inline, broadcast=False):
        self.src = src
        self.broadcast = broadcast    # which value of `broadcast` the main path follows
        self.inline = inline          # name -> FunctionDef to inline (e.g. self._transact)
        self.sites = []               # (op, main?, region) region in {"before","loop","after"}
        self.region = "before"
        self.loops = 0

    def emit(self, op, main):
        self.sites.append((op, main, self.region))

    # -- expressions: calls in evaluation order (arguments before the call itself)
    def expr(self, node, main):
        if node is None:
            return
        for call in self.calls_postorder(node):
            name = ast.unparse(call.func)
            if name.startswith("'") or name.startswith('"') or name.endswith(".format"):
                continue            # string formatting
            if name in self.inline:
                self.stmts(self.inline[name].body, main)
            elif name in OPS:
                op = OPS[name]
                if op == "Send" and self.broadcast:
                    op = "SendB"
                self.emit(op, main)
            elif name in PURE:
                continue
            else:
                self.src.fail(call, "call not classified as shared-state operation or pure helper: %s" % name)

    def calls_postorder(self, node):
        out = []

        def rec(n):
            for c in ast.iter_child_nodes(n):
                rec(c)
            if isinstance(n, ast.Call):
                out.append(n)
        rec(node)
        return out

    def is_state_target(self, t):
        return ast.unparse(t) == "self.client.state"

    def stmts(self, body, main):
        seen_break = False
        for st in body:
            m = main and not seen_break
            self.stmt(st, m)
            if self.in_loop_body is body and any(isinstance(x, ast.Break) for x in ast.walk(st)):
                seen_break = True     # after the if/elif ... break chain: the retry tail
            if self.broadcast and isinstance(st, ast.If) and ast.unparse(st.test) == "broadcast" \
                    and st.body and isinstance(st.body[-1], ast.Return):
                seen_break = True     # broadcast path: `if broadcast: ...; return` — the rest is not reached

    in_loop_body = None

    def stmt(self, st, main):
        src = self.src
        if core.is_docstring(st) or isinstance(st, (ast.Pass, ast.Break)):
            return
        if isinstance(st, ast.Expr):
            self.expr(st.value, main)
            return
        if isinstance(st, (ast.Assign, ast.AugAssign)):
            self.expr(st.value, main)
            targets = st.targets if isinstance(st, ast.Assign) else [st.target]
            for t in targets:
                txt = ast.unparse(t)
                if self.is_state_target(t):
                    self.emit("SetState", main)
                elif "_transaction_lock" in txt:
                    src.fail(st, "assignment to the lock inside execute path")
                elif txt.startswith("self.") and txt not in ():
                    src.fail(st, "assignment to manager attribute inside execute path: %s" % txt)
                elif isinstance(t, (ast.Name, ast.Tuple)) or txt == "request.transaction_id":
                    pass
                else:
                    src.fail(st, "unsupported assignment target: %s" % txt)
            return
        if isinstance(st, ast.Return):
            self.expr(st.value, main)
            return
        if isinstance(st, ast.If):
            self.expr(st.test, main)
            test = ast.unparse(st.test)
            if test == "broadcast" and self.broadcast:
                self.stmts(st.body, main)
                self.stmts(st.orelse, False)
                return
            alt = test in ALT_TESTS
            self.stmts(st.body, main and not alt)
            self.stmts(st.orelse, main)
            return
        if isinstance(st, ast.While):
            if st.orelse:
                src.fail(st, "while/else")
            self.loops += 1
            if self.loops > 1 or self.region != "before":
                src.fail(st, "more than one loop in the execute path")
            self.expr(st.test, main)
            self.region = "loop"
            saved = self.in_loop_body
            self.in_loop_body = st.body
            self.stmts(st.body, main)
            self.in_loop_body = saved
            self.region = "after"
            return
        if isinstance(st, ast.With):
            if len(st.items) != 1 or st.items[0].optional_vars is not None \
                    or ast.unparse(st.items[0].context_expr) != "self._transaction_lock":
                src.fail(st, "unrecognised with-statement: %s" % ast.unparse(st.items[0]))
            self.emit("Acquire", True)
            self.stmts(st.body, main)
            self.emit("Release", True)
            return
        if isinstance(st, ast.Try):
            if st.orelse or st.finalbody:
                src.fail(st, "try with else/finally")
            self.stmts(st.body, main)
            for h in st.handlers:
                self.stmts(h.body, False)
            return
        src.fail(st, "unsupported statement in execute path: %s" % ast.unparse(st).split("\n")[0])


def lock_bindings(tx):
    """every binding of an attribute/name `_transaction_lock` in the package"""
    root = os.path.join(core.REPO, "pymodbus")
    out = []
    for dirpath, _dirs, files in os.walk(root):
        for fn in sorted(files):
            if not fn.endswith(".py"):
                continue
            path = os.path.join(dirpath, fn)
            rel = os.path.relpath(path, core.REPO)
            try:
                text = open(path).read()
            except OSError as e:
                raise TranslatorFail(rel, 0, "cannot read: %s" % e)
            if "_transaction_lock" not in text:
                continue
            if rel != tx.rel:
                raise TranslatorFail(rel, 0, "_transaction_lock mentioned outside transaction.py")
    # inside transaction.py: walk with function context
    uses = 0
    for cls in [n for n in tx.mod.body if isinstance(n, ast.ClassDef)]:
        for fn in [n for n in cls.body if isinstance(n, ast.FunctionDef)]:
            for node in ast.walk(fn):
                if isinstance(node, (ast.Assign, ast.AugAssign, ast.AnnAssign)):
                    targets = node.targets if isinstance(node, ast.Assign) else [node.target]
                    for t in targets:
                        if "_transaction_lock" in ast.unparse(t):
                            if ast.unparse(t) != "self._transaction_lock" or not isinstance(node, ast.Assign):
                                tx.fail(node, "unrecognised binding of the lock: %s" % ast.unparse(node))
                            if cls.name != "ModbusTransactionManager":
                                tx.fail(node, "lock bound in class %s" % cls.name)
                            site = {"__init__": "SiteInit", "execute": "SiteExecute"}.get(fn.name, "SiteOther")
                            if site == "SiteInit" and node not in fn.body:
                                site = "SiteOther"     # conditional / nested binding
                            v = node.value
                            ctor = "CtorOther"
                            if isinstance(v, ast.Call) and not v.args and not v.keywords:
                                ctor = {"RLock": "CtorRLock", "Lock": "CtorLock"}.get(ast.unparse(v.func), "CtorOther")
                            out.append((site, ctor))
                            uses += 1
                elif isinstance(node, ast.Attribute) and node.attr == "_transaction_lock":
                    uses += 0
                elif isinstance(node, ast.Call) and ast.unparse(node.func) in ("setattr", "delattr") \
                        and "_transaction_lock" in ast.unparse(node):
                    tx.fail(node, "setattr/delattr of the lock")
                elif isinstance(node, ast.Delete) and "_transaction_lock" in ast.unparse(node):
                    tx.fail(node, "del of the lock")
    # RLock must be threading.RLock and not rebound
    imports = [n for n in tx.mod.body if isinstance(n, ast.ImportFrom) and n.module == "threading"]
    names = [a.name for n in imports for a in n.names if (a.asname or a.name) == "RLock"]
    if names != ["RLock"]:
        tx.fail(tx.mod.body[0], "RLock is not `from threading import RLock`")
    for node in ast.walk(tx.mod):
        if isinstance(node, (ast.FunctionDef, ast.ClassDef)) and node.name in ("RLock", "Lock"):
            tx.fail(node, "RLock/Lock redefined")
        if isinstance(node, ast.Assign) and any(ast.unparse(t) in ("RLock", "Lock") for t in node.targets):
            tx.fail(node, "RLock/Lock rebound")
    return out


def generate():
    tx = Src("pymodbus/transaction.py")
    cl = Src("pymodbus/client/sync.py")
    M = "ModbusTransactionManager"

    binds = lock_bindings(tx)

    ex = tx.func(M, "execute")
    tr = tx.func(M, "_transact")
    for name in ("_send", "_recv", "getNextTID"):
        tx.func(M, name)
    # subclasses must not override the locked path
    for c in ("DictTransactionManager", "FifoTransactionManager"):
        for name in ("execute", "_transact", "_send", "_recv", "getNextTID"):
            if tx.has_func(c, name):
                tx.fail(tx.cls(c), "%s overrides %s" % (c, name))
    if [a.arg for a in ex.args.args] != ["self", "request"] or ex.decorator_list:
        tx.fail(ex, "execute signature/decorators changed")
    w = Walker(tx, {"self._transact": tr})
    w.stmts(ex.body, True)
    if w.loops != 1:
        tx.fail(ex, "expected exactly one retry loop")
    wb = Walker(tx, {"self._transact": tr}, broadcast=True)
    wb.stmts(ex.body, True)
    # the broadcast decision itself: broadcast = self.client.broadcast_enable and request.unit_id == 0
    bdef = [n for n in ast.walk(ex) if isinstance(n, ast.Assign) and ast.unparse(n.targets[0]) == "broadcast"]
    if [ast.unparse(n.value) for n in bdef] != ["self.client.broadcast_enable and request.unit_id == 0", "False"]:
        tx.fail(ex, "unrecognised definition of `broadcast`")
    # _send must be the transport write
    sb = [s for s in tx.func(M, "_send").body if not core.is_docstring(s)]
    if len(sb) != 1 or ast.unparse(sb[0]) != "return self.client.framer.sendPacket(packet)":
        tx.fail(tx.func(M, "_send"), "_send is not `return self.client.framer.sendPacket(packet)`")
    rv = tx.func(M, "_recv")
    if not any(isinstance(n, ast.Call) and ast.unparse(n.func) == "self.client.framer.recvPacket" for n in ast.walk(rv)):
        tx.fail(rv, "_recv does not read from the transport")
    for n in ast.walk(rv):
        if isinstance(n, ast.Call) and ast.unparse(n.func) in OPS and ast.unparse(n.func) != "self._recv":
            tx.fail(n, "_recv performs another shared-state operation")
        if isinstance(n, ast.With):
            tx.fail(n, "with-statement inside _recv")
    for n in ast.walk(tr):
        if isinstance(n, ast.With):
            tx.fail(n, "with-statement inside _transact")

    # BaseModbusClient.execute: connect check, then the manager
    ce = cl.func("BaseModbusClient", "execute")
    body = [s for s in ce.body if not core.is_docstring(s)]
    want = ["if not self.connect():\n    raise ConnectionException('Failed to connect[%s]' % self.__str__())",
            "return self.transaction.execute(request)"]
    if [ast.unparse(s) for s in body] != want:
        cl.fail(ce, "BaseModbusClient.execute has an unrecognised shape")
    for c in [n for n in cl.mod.body if isinstance(n, ast.ClassDef)]:
        if c.name != "BaseModbusClient" and any(isinstance(n, ast.FunctionDef) and n.name == "execute" for n in c.body):
            cl.fail(c, "%s overrides execute" % c.name)
    prefix = ["ConnectCheck"]

    def part(region):
        return coq_list([op for op, main, rg in w.sites if main and rg == region])

    out = [
        "(* GENERATED by /verif/gen/gen_lock.py from /repo's current source on every run. Do not edit. *)",
        "From PM.theories Require Import Base Lock.",
        "Open Scope list_scope.",
        "",
        "(* every assignment to self._transaction_lock in the package: (where, constructor) *)",
        "Definition lock_bindings : list (lock_site * lock_ctor) := %s." %
        coq_list("(%s, %s)" % b for b in binds),
        "",
        "(* BaseModbusClient.execute before it calls transaction.execute *)",
        "Definition client_prefix : list lop := %s." % coq_list(prefix),
        "",
        "(* every shared-state site of ModbusTransactionManager.execute (_transact inlined), program",
        "   order, (operation, on the main path?) *)",
        "Definition execute_sites : list (lop * bool) :=\n  %s." %
        coq_list("(%s, %s)" % (op, "true" if main else "false") for op, main, _ in w.sites),
        "",
        "Definition sk_before_loop : list lop := %s." % part("before"),
        "Definition sk_loop : list lop := %s." % part("loop"),
        "Definition sk_after_loop : list lop := %s." % part("after"),
        "",
        "(* the path of a broadcast request (client.broadcast_enable and unit_id == 0) *)",
        "Definition broadcast_skeleton : list lop := %s." % coq_list([op for op, main, _ in wb.sites if main]),
        "Definition broadcast_allsites : list lop := %s." % coq_list([op for op, _, _ in wb.sites]),
        "Definition broadcast_call_skeleton : list lop := client_prefix ++ broadcast_skeleton.",
        "",
        "Definition execute_allsites : list lop := map fst execute_sites.",
        "Definition execute_mainpath : list lop := map fst (filter snd execute_sites).",
        "(* the transaction with the retry loop taken n times *)",
        "Definition execute_unrolled (n : nat) : list lop := sk_before_loop ++ repeat_ops n sk_loop ++ sk_after_loop.",
        "Definition execute_skeleton : list lop := execute_unrolled 1.",
        "(* one client.execute(request) call *)",
        "Definition call_skeleton : list lop := client_prefix ++ execute_skeleton.",
        "",
    ]
    return {"GenLock.v": "\n".join(out)}
