(* Exec_req_proofs.v — part 2: one request.  [serve] interpreting the GENERATED guard
   scripts (GenExec.code) over the datastore model with the GENERATED arithmetic
   (GenStore.code) refines ExecSpec.spec_exec on the *normalised* wire request:
   [normalize] is the identity except for the two known defects (FC5 treats every value
   word other than 0xFF00 as 0x0000; FC15 uses len(values) = min(quantity, 8*|data|)
   instead of the wire quantity).  Every limit, guard order, validate call, the order of
   setValues / getValues and the mask expression of the scripts is used by these proofs:
   changing one of them in /repo changes GenExec.v and breaks a step below. *)
From PM.theories Require Import Base Expr Store Exec ExecSpec ExecView.
From PM.Generated Require Import GenStore GenExec.
From PM.proofs Require Import Store_proofs Exec_proofs.
From Coq Require Import ZifyBool.
Open Scope string_scope.
Open Scope list_scope.
Open Scope Z_scope.
Ltac Zify.zify_post_hook ::= Z.to_euclidean_division_equations.

Notation SC := GenStore.code.
Notation XC := GenExec.code.
Definition std : ctxops slavectx := std_ops SC.

Ltac exec_simpl :=
  cbv [run_script run do_exception exc_fc std std_ops o_validate o_get o_set
       eval_lexpr eval_rarg eval_rargs bind assoc_str
       beval eval eval_bin eval_cmp env_of req_env app String.eqb Ascii.eqb Bool.eqb
       GenExec.code x_exc_fc x_slave_failure x_illegal_code
       r_fc r_address r_count r_value r_byte_count r_and_mask r_or_mask r_read_address r_read_count
       r_write_address r_write_count r_write_byte_count r_values r_write_registers
       GenExec.ReadCoilsRequest GenExec.ReadDiscreteInputsRequest GenExec.ReadHoldingRegistersRequest
       GenExec.ReadInputRegistersRequest GenExec.WriteSingleCoilRequest GenExec.WriteSingleRegisterRequest
       GenExec.WriteMultipleCoilsRequest GenExec.WriteMultipleRegistersRequest
       GenExec.MaskWriteRegisterRequest GenExec.ReadWriteMultipleRegistersRequest];
  rewrite ?z2b_b2z.

(* ServerDecoder's class for each data-access function code *)
Lemma dispatch_1 : dispatch XC 1 = DScript "ReadCoilsRequest" GenExec.ReadCoilsRequest. Proof. reflexivity. Qed.
Lemma dispatch_2 : dispatch XC 2 = DScript "ReadDiscreteInputsRequest" GenExec.ReadDiscreteInputsRequest. Proof. reflexivity. Qed.
Lemma dispatch_3 : dispatch XC 3 = DScript "ReadHoldingRegistersRequest" GenExec.ReadHoldingRegistersRequest. Proof. reflexivity. Qed.
Lemma dispatch_4 : dispatch XC 4 = DScript "ReadInputRegistersRequest" GenExec.ReadInputRegistersRequest. Proof. reflexivity. Qed.
Lemma dispatch_5 : dispatch XC 5 = DScript "WriteSingleCoilRequest" GenExec.WriteSingleCoilRequest. Proof. reflexivity. Qed.
Lemma dispatch_6 : dispatch XC 6 = DScript "WriteSingleRegisterRequest" GenExec.WriteSingleRegisterRequest. Proof. reflexivity. Qed.
Lemma dispatch_15 : dispatch XC 15 = DScript "WriteMultipleCoilsRequest" GenExec.WriteMultipleCoilsRequest. Proof. reflexivity. Qed.
Lemma dispatch_16 : dispatch XC 16 = DScript "WriteMultipleRegistersRequest" GenExec.WriteMultipleRegistersRequest. Proof. reflexivity. Qed.
Lemma dispatch_22 : dispatch XC 22 = DScript "MaskWriteRegisterRequest" GenExec.MaskWriteRegisterRequest. Proof. reflexivity. Qed.
Lemma dispatch_23 : dispatch XC 23 = DScript "ReadWriteMultipleRegistersRequest" GenExec.ReadWriteMultipleRegistersRequest. Proof. reflexivity. Qed.

(* ------------------------------------------------------------------ the two known deviations *)

Definition normalize (w : wreq) : wreq :=
  match w with
  | WWriteCoil a word => WWriteCoil a (if word =? 65280 then 65280 else 0)
  | WWriteCoils a n bc data =>
      WWriteCoils a (Z.of_nat (length (firstn (Z.to_nat n) (bits_of_bytes data)))) bc data
  | _ => w
  end.

(* where the implementation conforms *)
Definition in_region (w : wreq) : Prop :=
  match w with
  | WWriteCoil _ word => word = 0 \/ word = 65280
  | WWriteCoils _ n _ data => n <= 8 * Z.of_nat (length data)
  | _ => True
  end.

Definition supported (fc : Z) : bool := existsb (Z.eqb fc) (x_known_fcs XC).

(* [WOther fc] stands for a function code outside ServerDecoder's function table *)
Definition other_ok (w : wreq) : Prop :=
  match w with WOther fc => supported fc = false | _ => True end.

Lemma bits_of_bytes_length data : length (bits_of_bytes data) = (8 * length data)%nat.
Proof. induction data as [|b t IH]; [reflexivity|]. cbn [bits_of_bytes flat_map]. rewrite app_length. cbn [length bits_of_byte map]. fold (bits_of_bytes t). lia. Qed.

Lemma normalize_in_region w : in_region w -> forall s, spec_exec s (normalize w) = spec_exec s w.
Proof.
  destruct w; cbn [in_region normalize]; intros H s; try reflexivity.
  - destruct H as [-> | ->]; reflexivity.
  - rewrite firstn_length, bits_of_bytes_length.
    destruct (Z_lt_le_dec qty 0) as [Hneg|Hpos].
    + (* negative quantity: both are rejected with 03 *)
      replace (Z.to_nat qty) with O by lia. cbn [Nat.min Z.of_nat].
      unfold spec_exec, spec_outcome, in_range.
      replace ((1 <=? 0) && (0 <=? 1968)) with false by lia.
      replace ((1 <=? qty) && (qty <=? 1968)) with false by lia. reflexivity.
    + replace (Z.of_nat (Nat.min (Z.to_nat qty) (8 * length data))) with qty by lia. reflexivity.
Qed.

(* ------------------------------------------------------------------ decode helpers *)

Lemma take_words_spec n data vs :
  take_words n data = Ok vs -> vs = firstn n (words_of_bytes data) /\ length vs = n.
Proof.
  revert data vs. induction n as [|n IH]; intros data vs H.
  - cbn in H. injection H as <-. split; reflexivity.
  - cbn [take_words] in H. destruct data as [|hi [|lo t]]; try discriminate.
    destruct (take_words n t) as [r|] eqn:E; cbn [bind] in H; [|discriminate].
    injection H as <-. destruct (IH t r E) as [-> Hl]. cbn [words_of_bytes firstn length].
    split; [reflexivity|]. rewrite Hl. reflexivity.
Qed.

(* ------------------------------------------------------------------ result shape *)

Definition vw : rsp -> option srsp := view XC.

Definition step_ok (c : slavectx) (r : req) (w : wreq) : Prop :=
  exists c' o, serve XC std c r = (c', o) /\ inv c' /\
    aeq (abs c') (fst (spec_exec (abs c) w)) /\
    vw o = Some (snd (spec_exec (abs c) w)) /\
    (forall fc code, o = Exc fc code -> c' = c).

Ltac finish_exc :=
  eexists; eexists; split; [reflexivity|]; split; [assumption|]; split; [apply aeq_refl|];
  split; [reflexivity|]; intros; reflexivity.

Ltac finish_ok :=
  split; [assumption|]; split; [first [apply aeq_refl | assumption]|];
  split; [reflexivity|]; intros ? ? Hx; discriminate Hx.

(* ------------------------------------------------------------------ FC 1-4 *)

Ltac read_case c a n Hi :=
  exec_simpl; unfold spec_exec, spec_outcome, in_range; cbn [wfc read_fc];
  match goal with |- context [negb ((1 <=? n) && (n <=? ?lim))] =>
    let G := fresh "G" in
    destruct (negb ((1 <=? n) && (n <=? lim))) eqn:G; [finish_exc|];
    match goal with |- context [cx_validate SC c ?fx a n] =>
      rewrite (cx_validate_abs c fx _ a n Hi eq_refl ltac:(lia));
      match goal with |- context [range_ok (abs c) ?t a n] =>
        let R := fresh "R" in
        destruct (range_ok (abs c) t a n) eqn:R; cbn [negb]; [|finish_exc];
        rewrite (cx_get_abs c fx _ a n Hi eq_refl ltac:(lia) R);
        eexists; eexists; split; [reflexivity|]; cbn [spec_apply fst snd read_fc]; finish_ok
      end
    end
  end.

Lemma step_read c t a n : inv c ->
  forall r, decode_attrs (WRead t a n) = Ok r -> step_ok c r (WRead t a n).
Proof.
  intros Hi r Hd. cbn [decode_attrs] in Hd. injection Hd as <-. unfold step_ok, serve. cbn [r_fc].
  destruct t; cbn [read_fc].
  - rewrite dispatch_1. read_case c a n Hi.
  - rewrite dispatch_2. read_case c a n Hi.
  - rewrite dispatch_3. read_case c a n Hi.
  - rewrite dispatch_4. read_case c a n Hi.
Qed.

(* ------------------------------------------------------------------ a successful single-cell write + read-back *)

Lemma write1_readback c fx t a v :
  inv c -> fx_tbl fx = Some t -> range_ok (abs c) t a 1 = true ->
  exists c', cx_set SC c fx a [v] = Ok c' /\ inv c' /\ aeq (abs c') (write (abs c) t a [v]) /\
             cx_get SC c' fx a 1 = Ok [v].
Proof.
  intros Hi Hf Hr.
  destruct (cx_set_abs c fx t a [v] Hi Hf ltac:(discriminate) Hr) as (c' & Hs & Hi' & Ha).
  exists c'. split; [exact Hs|]. split; [exact Hi'|]. split; [exact Ha|].
  assert (Hr' : range_ok (abs c') t a 1 = true).
  { rewrite (range_ok_aeq _ _ t a 1 Ha). rewrite (range_ok_write (abs c) t a [v] t a 1 Hr). exact Hr. }
  rewrite (cx_get_abs c' fx t a 1 Hi' Hf ltac:(lia) Hr').
  rewrite (read_aeq _ _ t a 1 Ha). f_equal. apply (read_write_same (abs c) t a [v]).
Qed.

(* ------------------------------------------------------------------ FC 5 *)

Lemma step_wcoil c a word : inv c ->
  forall r, decode_attrs (WWriteCoil a word) = Ok r -> step_ok c r (normalize (WWriteCoil a word)).
Proof.
  intros Hi r Hd. cbn [decode_attrs] in Hd. injection Hd as <-. unfold step_ok, serve. cbn [r_fc normalize].
  rewrite dispatch_5. exec_simpl.
  unfold spec_exec, spec_outcome; cbn [wfc].
  replace (negb (((if word =? 65280 then 65280 else 0) =? 0) || ((if word =? 65280 then 65280 else 0) =? 65280)))
    with false by (destruct (word =? 65280); reflexivity).
  rewrite (cx_validate_abs c 5 Coils a 1 Hi eq_refl ltac:(lia)).
  destruct (range_ok (abs c) Coils a 1) eqn:R; cbn [negb]; [|finish_exc].
  destruct (write1_readback c 5 Coils a (b2z (word =? 65280)) Hi eq_refl R) as (c' & Hs & Hi' & Ha & Hg).
  rewrite Hs, Hg.
  eexists; eexists; split; [reflexivity|]. cbn [spec_apply fst snd].
  replace ((if word =? 65280 then 65280 else 0) =? 65280) with (word =? 65280)
    by (destruct (word =? 65280); reflexivity).
  replace (if word =? 65280 then 1 else 0) with (b2z (word =? 65280)) by reflexivity.
  finish_ok.
Qed.

(* ------------------------------------------------------------------ FC 6 *)

Lemma step_wreg c a v : inv c ->
  forall r, decode_attrs (WWriteReg a v) = Ok r -> step_ok c r (WWriteReg a v).
Proof.
  intros Hi r Hd. cbn [decode_attrs] in Hd. injection Hd as <-. unfold step_ok, serve. cbn [r_fc].
  rewrite dispatch_6. exec_simpl.
  unfold spec_exec, spec_outcome, in_range; cbn [wfc].
  destruct (negb ((0 <=? v) && (v <=? 65535))) eqn:G; [finish_exc|].
  rewrite (cx_validate_abs c 6 Holding a 1 Hi eq_refl ltac:(lia)).
  destruct (range_ok (abs c) Holding a 1) eqn:R; cbn [negb]; [|finish_exc].
  destruct (write1_readback c 6 Holding a v Hi eq_refl R) as (c' & Hs & Hi' & Ha & Hg).
  rewrite Hs, Hg.
  eexists; eexists; split; [reflexivity|]. cbn [spec_apply fst snd]. finish_ok.
Qed.

(* ------------------------------------------------------------------ FC 15 *)

Lemma firstn_length_firstn {A} (l : list A) k : firstn (length (firstn k l)) l = firstn k l.
Proof.
  revert l. induction k as [|k IH]; intros [|x l]; cbn; try reflexivity. f_equal. apply IH.
Qed.

Lemma step_wcoils c a n bc data : inv c ->
  forall r, decode_attrs (WWriteCoils a n bc data) = Ok r -> step_ok c r (normalize (WWriteCoils a n bc data)).
Proof.
  intros Hi r Hd. cbn [decode_attrs] in Hd. injection Hd as <-. unfold step_ok, serve. cbn [r_fc normalize].
  rewrite dispatch_15. exec_simpl.
  set (vals := firstn (Z.to_nat n) (bits_of_bytes data)).
  set (m := Z.of_nat (length vals)).
  unfold spec_exec, spec_outcome, in_range; cbn [wfc].
  destruct (negb ((1 <=? m) && (m <=? 1968))) eqn:G; cbn [orb]; [finish_exc|].
  destruct (negb (bc =? (m + 7) / 8)) eqn:G2; [finish_exc|].
  rewrite (cx_validate_abs c 15 Coils a m Hi eq_refl ltac:(lia)).
  destruct (range_ok (abs c) Coils a m) eqn:R; cbn [negb]; [|finish_exc].
  assert (Hne : vals <> []) by (intros E; subst m; rewrite E in G; cbn in G; discriminate).
  destruct (cx_set_abs c 15 Coils a vals Hi eq_refl Hne R) as (c' & Hs & Hi' & Ha).
  rewrite Hs.
  eexists; eexists; split; [reflexivity|]. cbn [spec_apply fst snd].
  subst m. rewrite Nat2Z.id.
  replace (firstn (length vals) (bits_of_bytes data)) with vals
    by (unfold vals; rewrite firstn_length_firstn; reflexivity).
  finish_ok.
Qed.

(* ------------------------------------------------------------------ FC 16 *)

Lemma step_wregs c a n bc data : inv c ->
  forall r, decode_attrs (WWriteRegs a n bc data) = Ok r -> step_ok c r (WWriteRegs a n bc data).
Proof.
  intros Hi r Hd. cbn [decode_attrs] in Hd.
  destruct (take_words (Z.to_nat n) data) as [vs|] eqn:Et; cbn [bind] in Hd; [|discriminate].
  injection Hd as <-. destruct (take_words_spec _ _ _ Et) as [Hvs Hl].
  unfold step_ok, serve. cbn [r_fc]. rewrite dispatch_16. exec_simpl.
  unfold spec_exec, spec_outcome, in_range; cbn [wfc].
  destruct (negb ((1 <=? n) && (n <=? 123))) eqn:G; cbn [orb]; [finish_exc|].
  destruct (negb (bc =? n * 2)) eqn:G2; [finish_exc|].
  rewrite (cx_validate_abs c 16 Holding a n Hi eq_refl ltac:(lia)).
  destruct (range_ok (abs c) Holding a n) eqn:R; cbn [negb]; [|finish_exc].
  assert (Hn : Z.of_nat (length vs) = n) by lia.
  assert (Hne : vs <> []) by (intros E; rewrite E in Hn; cbn in Hn; lia).
  rewrite <- Hn in R.
  destruct (cx_set_abs c 16 Holding a vs Hi eq_refl Hne R) as (c' & Hs & Hi' & Ha).
  rewrite Hs.
  eexists; eexists; split; [reflexivity|]. cbn [spec_apply fst snd]. rewrite <- Hvs.
  finish_ok.
Qed.

(* ------------------------------------------------------------------ FC 22 *)

Lemma read1 s t a : read s t a 1 = [match cell s t a with Some v => v | None => 0 end].
Proof. reflexivity. Qed.

Lemma step_mask c a am om : inv c ->
  forall r, decode_attrs (WMask a am om) = Ok r -> step_ok c r (WMask a am om).
Proof.
  intros Hi r Hd. cbn [decode_attrs] in Hd. injection Hd as <-. unfold step_ok, serve. cbn [r_fc].
  rewrite dispatch_22. exec_simpl.
  unfold spec_exec, spec_outcome, in_range; cbn [wfc].
  destruct (negb ((0 <=? am) && (am <=? 65535))) eqn:G; cbn [orb]; [finish_exc|].
  destruct (negb ((0 <=? om) && (om <=? 65535))) eqn:G2; [finish_exc|].
  rewrite (cx_validate_abs c 22 Holding a 1 Hi eq_refl ltac:(lia)).
  destruct (range_ok (abs c) Holding a 1) eqn:R; cbn [negb]; [|finish_exc].
  rewrite (cx_get_abs c 22 Holding a 1 Hi eq_refl ltac:(lia) R). rewrite read1.
  set (cur := match cell (abs c) Holding a with Some v => v | None => 0 end).
  destruct (cx_set_abs c 22 Holding a [Z.lor (Z.land cur am) (Z.land om (Z.lnot am))] Hi eq_refl
              ltac:(discriminate) R) as (c' & Hs & Hi' & Ha).
  rewrite Hs.
  eexists; eexists; split; [reflexivity|]. cbn [spec_apply fst snd]. fold cur. unfold mask_result.
  finish_ok.
Qed.

(* ------------------------------------------------------------------ FC 23 *)

Lemma step_rwm c ra rn wa wn wbc data : inv c ->
  forall r, decode_attrs (WRWM ra rn wa wn wbc data) = Ok r -> step_ok c r (WRWM ra rn wa wn wbc data).
Proof.
  intros Hi r Hd. cbn [decode_attrs] in Hd.
  destruct (take_words (Z.to_nat ((wbc + 1) / 2)) data) as [vs|] eqn:Et; cbn [bind] in Hd; [|discriminate].
  injection Hd as <-. destruct (take_words_spec _ _ _ Et) as [Hvs Hl].
  unfold step_ok, serve. cbn [r_fc]. rewrite dispatch_23. exec_simpl.
  unfold spec_exec, spec_outcome, in_range; cbn [wfc].
  destruct (negb ((1 <=? rn) && (rn <=? 125))) eqn:G; cbn [orb]; [finish_exc|].
  destruct (negb ((1 <=? wn) && (wn <=? 121))) eqn:G2; cbn [orb]; [finish_exc|].
  destruct (negb (wbc =? wn * 2)) eqn:G3; [finish_exc|].
  rewrite (cx_validate_abs c 23 Holding wa wn Hi eq_refl ltac:(lia)).
  destruct (range_ok (abs c) Holding wa wn) eqn:Rw; cbn [negb orb]; [|finish_exc].
  rewrite (cx_validate_abs c 23 Holding ra rn Hi eq_refl ltac:(lia)).
  destruct (range_ok (abs c) Holding ra rn) eqn:Rr; cbn [negb]; [|finish_exc].
  assert (Hk : Z.to_nat ((wbc + 1) / 2) = Z.to_nat wn) by lia.
  rewrite Hk in Hvs, Hl.
  assert (Hn : Z.of_nat (length vs) = wn) by lia.
  assert (Hne : vs <> []) by (intros E; rewrite E in Hn; cbn in Hn; lia).
  rewrite <- Hn in Rw.
  destruct (cx_set_abs c 23 Holding wa vs Hi eq_refl Hne Rw) as (c' & Hs & Hi' & Ha).
  rewrite Hs.
  assert (Rr' : range_ok (abs c') Holding ra rn = true).
  { rewrite (range_ok_aeq _ _ Holding ra rn Ha). rewrite (range_ok_write (abs c) Holding wa vs Holding ra rn Rw). exact Rr. }
  rewrite (cx_get_abs c' 23 Holding ra rn Hi' eq_refl ltac:(lia) Rr').
  eexists; eexists; split; [reflexivity|]. cbn [spec_apply fst snd]. rewrite <- Hvs.
  rewrite (read_aeq _ _ Holding ra rn Ha).
  finish_ok.
Qed.

(* ------------------------------------------------------------------ unsupported function codes *)

Lemma dispatch_unsupported fc : supported fc = false -> dispatch XC fc = DIllegal.
Proof.
  intros H. unfold dispatch. fold (supported fc). rewrite H.
  unfold supported in H. cbn [x_known_fcs GenExec.code existsb] in H.
  cbn [x_scripts GenExec.code assoc_z].
  repeat match goal with
         | |- context [?k =? fc] =>
             let E := fresh "E" in
             destruct (k =? fc) eqn:E;
             [apply Z.eqb_eq in E; subst fc; cbn in H; discriminate H|]
         end.
  reflexivity.
Qed.

Lemma step_other c fc : inv c -> supported fc = false ->
  forall r, decode_attrs (WOther fc) = Ok r -> step_ok c r (WOther fc).
Proof.
  intros Hi Hs r Hd. cbn [decode_attrs] in Hd. injection Hd as <-. unfold step_ok, serve, req0. cbn [r_fc].
  rewrite (dispatch_unsupported fc Hs). exec_simpl.
  unfold spec_exec, spec_outcome; cbn [wfc]. finish_exc.
Qed.

(* ------------------------------------------------------------------ one step, every request *)

Theorem step_norm c w r :
  inv c -> decode_attrs w = Ok r -> other_ok w -> step_ok c r (normalize w).
Proof.
  intros Hi Hd Ho. destruct w; cbn [other_ok] in Ho.
  - apply step_read; assumption.
  - apply step_wcoil; assumption.
  - apply step_wreg; assumption.
  - apply step_wcoils; assumption.
  - apply step_wregs; assumption.
  - apply step_mask; assumption.
  - apply step_rwm; assumption.
  - apply step_other; assumption.
Qed.

Theorem step_refines c w r :
  inv c -> decode_attrs w = Ok r -> other_ok w -> in_region w -> step_ok c r w.
Proof.
  intros Hi Hd Ho Hr. pose proof (step_norm c w r Hi Hd Ho) as H.
  unfold step_ok in *. rewrite (normalize_in_region w Hr) in H. exact H.
Qed.
