(* Props/C06_tcpascii.v — C06 (framing is independent of the chunking), half for the socket
   and ASCII framers.  [feed recv s chunks] = (final state, all deliveries, true iff no call
   raised or ran out of fuel).  Frames, chunk lists and the decoder are universally
   quantified; empty chunks are ordinary elements of the list. *)
From PM.theories Require Import Base Expr Struct FrBaseA Lrc FrTcp FrAscii FrSpecA.
From PM.Generated Require Import GenFramerA.
From PM.proofs Require Import FrA_tcp_proofs FrA_ascii_proofs.
Open Scope list_scope.
Open Scope Z_scope.

(* ASCII: for every stream of valid frames and EVERY division of it into reads, exactly the
   frames are delivered, in order, and no call raises *)
Theorem C06_ascii : forall (dec : bytes -> dres) (c : cfg) (frames : list frame) (chunks : list bytes),
  Forall (valid_frame KAscii dec c) frames ->
  concat chunks = concat (map (spec_adu KAscii) frames) ->
  exists s', feed (a_recv base lrc ascii dec c) (a_init ascii) chunks
             = (s', map (spec_delivery KAscii) frames, true).
Proof. exact ascii_chunking. Qed.
Print Assumptions C06_ascii.

(* TCP: the full statement is refuted by the code as it is (open finding
   F-C06-tcp-short-buffer-error-path) ... *)
Definition C06_tcp_full_statement : Prop :=
  forall (dec : bytes -> dres) (c : cfg) (frames : list frame) (chunks : list bytes),
  Forall (valid_frame KTcp dec c) frames ->
  concat chunks = concat (map (spec_adu KTcp) frames) ->
  exists s', feed (t_recv base tcp dec c) (t_init tcp) chunks = (s', map (spec_delivery KTcp) frames, true).

Theorem C06_tcp_refuted : exists dec c f chunks,
  valid_frame KTcp dec c f /\ concat chunks = spec_adu KTcp f /\
  snd (feed (t_recv base tcp dec c) (t_init tcp) chunks) = false.
Proof.
  exists tcp_refute_dec, tcp_refute_cfg, tcp_refute_frame, tcp_refute_chunks. exact tcp_refuted.
Qed.
Print Assumptions C06_tcp_refuted.

(* ... and holds under exactly the hypothesis that delimits the defect: no read ends 1..7 bytes
   into a frame ([cut_inside adus n k]: stream position n lies k bytes inside a frame) *)
Theorem C06_tcp_partial : forall (dec : bytes -> dres) (c : cfg) (frames : list frame) (chunks : list bytes),
  Forall (valid_frame KTcp dec c) frames ->
  concat chunks = concat (map (spec_adu KTcp) frames) ->
  (forall cs1 cs2 k, chunks = cs1 ++ cs2 ->
     cut_inside (map (spec_adu KTcp) frames) (length (concat cs1)) k -> (8 <= k)%nat) ->
  exists s', feed (t_recv base tcp dec c) (t_init tcp) chunks = (s', map (spec_delivery KTcp) frames, true).
Proof. exact tcp_chunking. Qed.
Print Assumptions C06_tcp_partial.

(* the hypotheses are satisfiable: a frame cut 9 bytes in *)
Example C06_nonvacuous :
  let f := {| f_tid := 1; f_pid := 0; f_uid := 1; f_pdu := [3%N; 0%N; 0%N; 0%N; 1%N] |} in
  let c := {| c_units := [1]; c_single := None |} in
  let chunks := [firstn 9 (spec_adu KTcp f); []; skipn 9 (spec_adu KTcp f)] in
  valid_frame KTcp (fun _ => DMsg 3) c f /\
  feed (t_recv base tcp (fun _ => DMsg 3) c) (t_init tcp) chunks = (t_init tcp, [spec_delivery KTcp f], true).
Proof. split; [repeat split; cbn; lia|vm_compute; reflexivity]. Qed.
