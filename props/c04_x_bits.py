"""C04 add-on: utilities.pack_bitstring / unpack_bitstring are pinned statement by statement and their constants
regenerated (gen/gen_bits.py, Props/C01_bits.v) — the bit lists of C04's messages / payloads go through them."""
GENERATORS = ["bits"]
PROP_FILES = ["C01_bits"]


def suites(tier):
    return []
