"""Regenerates /verif/MANIFEST.json from props/*.py metadata (each module's MANIFEST dict)
and props/not_applicable.json.  Run: ./check --manifest"""
import glob
import importlib
import json
import os

from . import common
from .common import VERIF

BASELINE_OFF = ("cd /repo && env -u PYMODBUS_VERIF /venv/bin/python -m pytest -ra -q -p no:cacheprovider "
                "--timeout=900 --continue-on-collection-errors")


def write():
    props = json.loads("[" + ",".join(l for l in open(os.path.join(VERIF, "properties.jsonl")) if l.strip()) + "]")
    ids = [p["id"] for p in props]
    checks = []
    claimed = set()
    for p in sorted(glob.glob(os.path.join(VERIF, "props", "c[0-9]*.py"))):
        pid = os.path.basename(p)[:-3].upper()
        mod = importlib.import_module("props." + pid.lower())
        m = getattr(mod, "MANIFEST", None)
        if m is None or pid not in ids:
            continue
        claimed.add(pid)
        m = dict(m)
        for xp in sorted(glob.glob(os.path.join(VERIF, "props", pid.lower() + "_x_*.py"))):
            xm = importlib.import_module("props." + os.path.basename(xp)[:-3])
            add = getattr(xm, "MANIFEST_ADD", None)
            if add:
                m["text"] = m["text"] + " " + add.get("text", "")
                m["note"] = m["note"] + " " + add.get("note", "")
        checks.append({
            "property_id": pid,
            "quick_cmd": "./check %s --tier quick" % pid,
            "thorough_cmd": "./check %s --tier thorough" % pid,
            "evidence_file": "/verif/evidence/%s.json" % pid,
            "replay_cmd_template": "./check %s --replay {path}" % pid,
            "engine": "coq-model+translator+correspondence",
            "level_claimed": {"category": "proof", "text": m["text"], "design_ref": m.get("design_ref", "DESIGN.md section 8, " + pid)},
            "level_note": m["note"],
            "technique": m.get("technique", "machine-checked proof in Coq 8.16.1 over a model regenerated from source "
                                            "(translator) and tied by differential correspondence (vm_compute)"),
        })
    na_path = os.path.join(VERIF, "props", "not_applicable.json")
    na = json.load(open(na_path)) if os.path.exists(na_path) else {}
    not_app = []
    for pid in ids:
        if pid not in claimed:
            not_app.append({"property_id": pid,
                            "reason": na.get(pid, "not yet covered by the Coq development at this commit (work in progress, see DESIGN.md section 14)")})
    man = {
        "version": 1,
        "setup_cmd": "./check --setup",
        "hooks": {"guard": "PYMODBUS_VERIF",
                  "enable": "no source hook exists: every adapter works through public objects, instance attributes and fake transports; the guard variable is reserved and exported by ./check",
                  "baseline_off_cmd": BASELINE_OFF, "source_commits": [], "add_only": True},
        "engines": [
            {"name": "coq-model", "path": "/verif/coq", "serves_properties": sorted(claimed),
             "kind_free_text": "Gallina models (theories/), lemmas (proofs/), property theorems (Props/), Coq 8.16.1"},
            {"name": "translator", "path": "/verif/gen", "serves_properties": sorted(claimed),
             "kind_free_text": "fail-closed Python-ast translator regenerating coq/Generated/*.v from /repo on every run"},
            {"name": "correspondence", "path": "/verif/props", "serves_properties": sorted(claimed),
             "kind_free_text": "differential check: real pymodbus classes vs the model and vs the Coq spec oracle, evaluated by vm_compute"},
        ],
        "checks": checks,
        "not_applicable": not_app,
        "notes": "See DESIGN.md. Known findings: /verif/findings/<id>.json (committed; never written at run time).",
    }
    common.jdump(man, os.path.join(VERIF, "MANIFEST.json"))
    print("MANIFEST.json: %d checks, %d not yet claimed" % (len(checks), len(not_app)))
    return 0
