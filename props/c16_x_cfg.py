"""C16 add-on: the Twisted client protocol keeps the framer instance it is given (Props/C16_cfg.v) — see props/lib_wiring.py."""
from lib.main import Suite
from props import lib_wiring as W

GENERATORS = W.GENERATORS
PROP_FILES = ["C16_cfg"]
CASE_DEPS = W.CASE_DEPS
TRUSTED = W.TRUSTED
ASSUMPTIONS = W.ASSUMPTIONS


def suites(tier):
    cases = [c for c in W.truth_cases() if c.desc["site"].startswith("twisted.")]
    return [Suite("truth", W.IMPORTS, "chk_truth truth_facts", cases, shard=400)]


classify = W.classify
replay_case = W.replay_case

MANIFEST_ADD = {"text": 'Add-on Props/C16_cfg.v (C16_cfg_supplied_framer_instance_kept): the Twisted client protocol keeps the framer INSTANCE it is given, whatever its buffer holds (no framer class defines __bool__ / __len__); tied by constructing the three protocol classes with instances of the four framers.',
                "note": ''}
