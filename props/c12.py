"""C12 — No received byte sequence can crash a server or corrupt its data.

How the real front-ends are driven (props/lib_frontends.py): the threaded stream handlers' `handle()`
is entered once per scripted read; the scripted `recv` leaves the loop after that read by raising
socket.error (TCP handler: its `except socket.error` arm only clears `running`) or by clearing
`running` and returning b'' (serial handler: `if data:` skips everything).  This is equivalent to
one long `handle()` because the loop carries no state between iterations except `reset_frame`,
which its `finally` clears — a shape the translator checks (gen/gen_frontends.py fails closed
otherwise).  The socketserver datagram handler is built afresh per datagram exactly as socketserver
does; asyncio protocols run on a private event loop with a recording transport whose close()
triggers connection_lost like a real transport; Twisted protocols get a recording transport.
"""
import socket
import struct

from lib import common
from lib.coqrun import z, zlist, nat, boolean, lst
from lib.main import Case, Suite
from props import lib_frontends as L

ID = "C12"
GENERATORS = ["frontends"]
PROP_FILE = "C12"
CASE_DEPS = ["theories/CorrFrontends.vo", "Generated/GenFrontends.vo"]
RULE = ("sessions on every front-end x framer pair (7 x 5, enumerated): valid read/write/identification requests "
        "interleaved with hostile chunks whose KIND is enumerated round-robin (PDU truncated at every offset with "
        "consistent framing, over-long PDU, byte-count mismatch, unknown function / sub-function / MEI code, "
        "zero-length PDU, MBAP length 0/1/65535, frame cut at a random offset, random bytes, bit-flip / substitute "
        "/ insert / delete mutations of valid frames, empty read, socket.timeout, socket.error, failing send) and "
        "whose field values are random; single and multi-unit contexts, broadcast and ignore_missing_slaves flags; "
        "each handler activation is one `ladder` case (distinct = distinct Coq term; non-trivial = the framer was "
        "reached); per session one `store` case (MBAP framing) and one `probe` case on a fresh connection")
TRUSTED = [
    "generated from source on every run (Generated/GenFrontends.v): loop shape, empty-read policy, units/single "
    "arguments, ListenOnly gate, except ladders (class -> action), finally reset, framer construction site, "
    "execute() ladders and tail of all seven front-ends",
    "hand-written: the exception-class lattice Ladder.catches (socket.timeout < OSError < Exception; "
    "CancelledError/KeyboardInterrupt are BaseExceptions) and the interpreter Frontends.serve_step; tied by the "
    "`ladder` suite (raised class, handler action, framer arguments observed on the real handlers)",
    "abstract in every theorem: the framer (any function from state and bytes to deliveries/exception) and the "
    "request execution (any function); their concrete behaviour is C06/C07/C04/C05/C09's subject",
    "runtimes driven around, not modelled: socketserver accept loop and threads, asyncio loop, Twisted reactor",
]
ASSUMPTIONS = [
    "the peer address of an asyncio TCP connection is a 2-tuple (IPv4): the handler formats it with '%s:%s' inside "
    "its except arm; a 4-tuple (IPv6) peername would raise TypeError there",
    "what escapes dataReceived/datagramReceived counts as escaping the serving loop (the Twisted reactor logs it and "
    "drops the connection; the property observes the callback)",
]

IMPORTS = ("From PM.theories Require Import Base Ladder Frontends CorrFrontends.\n"
           "From PM.Generated Require Import GenFrontends.")

# ----------------------------------------------------------------------------- traffic

VALID_KINDS = ["r1", "r2", "r3", "r4", "w5", "w6", "w15", "w16", "w22", "w23", "dev", "diag0", "fc7", "fc17"]
HOSTILE_KINDS = ["trunc", "overlong", "bytecount", "unknown_fc", "unknown_sub", "zero_pdu", "mbap_len", "cut",
                 "random", "flip", "subst", "insert", "delete", "split", "pipelined",
                 "noise_trunc", "trunc_split", "bytecount_pad"]


def valid_pdu(r, kind, size):
    a = r.randrange(0, size - 4)
    n = r.randrange(1, 4)
    if kind in ("r1", "r2", "r3", "r4"):
        return L.pdu_read(int(kind[1]), a, n)
    if kind == "w5":
        return L.pdu_write_coil(a, r.random() < 0.5)
    if kind == "w6":
        return L.pdu_write_reg(a, r.randrange(65536))
    if kind == "w15":
        return L.pdu_write_coils(a, [r.randrange(2) for _ in range(n)])
    if kind == "w16":
        return L.pdu_write_regs(a, [r.randrange(65536) for _ in range(n)])
    if kind == "w22":
        return L.pdu_mask(a, r.randrange(65536), r.randrange(65536))
    if kind == "w23":
        return L.pdu_rwm(a, n, r.randrange(0, size - 4), [r.randrange(65536) for _ in range(r.randrange(1, 3))])
    if kind == "dev":
        # read code 0 makes execute() raise KeyError: the catch-all of execute() answers exception 04
        return L.pdu_devinfo(r.choice([0, 1, 2, 3, 4]), r.choice([0, 1, 2, 3, 6]))
    if kind == "diag0":
        return L.pdu_diag(0, r.randrange(65536))
    if kind == "fc7":
        return b"\x07"
    return b"\x11"


def hostile(r, kind, framer, uid, size):
    """-> list of chunks (bytes)"""
    tid = r.randrange(65536)
    base = valid_pdu(r, r.choice(VALID_KINDS), size)
    if kind == "trunc":
        k = r.randrange(0, len(base)) if len(base) > 1 else 0
        return [L.frame(framer, tid, uid, base[:max(k, 1)])]
    if kind in ("noise_trunc", "trunc_split"):
        # a well-framed request with a truncated PDU (the decoder raises on it) that does NOT sit at the start of
        # the read: noise bytes in front of it in the same read, or its tail arriving in a read of its own
        k = r.randrange(1, len(base)) if len(base) > 1 else 1
        f = L.frame(framer, tid, uid, base[:k])
        if kind == "noise_trunc":
            noise = bytes(r.choice([0x00, 0x80, 0xFE, 0x21, 0x47]) for _ in range(r.choice([1, 2, 3])))
            return [noise + f]
        c = r.randrange(1, len(f)) if len(f) > 1 else 1
        return [f[:c], f[c:]]
    if kind == "overlong":
        return [L.frame(framer, tid, uid, base + bytes(r.randrange(256) for _ in range(r.choice([1, 2, 7]))))]
    if kind == "bytecount":
        p = bytearray(valid_pdu(r, r.choice(["w15", "w16", "w23"]), size))
        i = 5 if p[0] in (15, 16) else 9
        p[i] = r.choice([0, 1, p[i] + 1, p[i] - 1 if p[i] else 3, 255])
        return [L.frame(framer, tid, uid, bytes(p))]
    if kind == "bytecount_pad":
        # register writes whose byte count is 2*quantity + 1 / + 2 and which carry data for the LARGER count: the
        # quantity says N registers, anything written beyond them (or at all) is unexplained
        p = bytearray(valid_pdu(r, r.choice(["w16", "w23"]), size))
        i = 5 if p[0] == 16 else 9
        extra = r.choice([1, 2])
        p[i] = p[i] + extra
        return [L.frame(framer, tid, uid, bytes(p) + bytes(r.randrange(1, 256) for _ in range(2)))]
    if kind == "unknown_fc":
        return [L.frame(framer, tid, uid, bytes([r.choice([0, 9, 10, 0x19, 0x63, 0x7F, 0x80, 0x83, 0xFF])]) + base[1:])]
    if kind == "unknown_sub":
        if r.random() < 0.5:
            return [L.frame(framer, tid, uid, struct.pack(">BHH", 8, r.choice([0x13, 0x16, 0x99, 0xFFFF]), 0))]
        return [L.frame(framer, tid, uid, bytes([0x2B, r.choice([0x0D, 0x0F, 0x00, 0xFF]), 1, 0]))]
    if kind == "zero_pdu":
        return [L.frame(framer, tid, uid, b"")]
    if kind == "mbap_len":
        f = bytearray(L.frame("socket", tid, uid, base))
        f[4:6] = struct.pack(">H", r.choice([0, 1, 65535, 2, len(base)]))
        return [bytes(f)] if framer == "socket" else [L.frame(framer, tid, uid, bytes(f[7:]))[:-1]]
    f = L.frame(framer, tid, uid, base)
    if kind == "cut":
        return [f[:r.randrange(1, len(f))]] if len(f) > 1 else [f]
    if kind == "random":
        return [bytes(r.randrange(256) for _ in range(r.choice([1, 2, 3, 7, 8, 9, 20, 40])))]
    b = bytearray(f)
    if kind == "flip":
        i = r.randrange(len(b))
        b[i] ^= 1 << r.randrange(8)
        return [bytes(b)]
    if kind == "subst":
        b[r.randrange(len(b))] = r.randrange(256)
        return [bytes(b)]
    if kind == "insert":
        b.insert(r.randrange(len(b) + 1), r.randrange(256))
        return [bytes(b)]
    if kind == "delete":
        if len(b) > 1:
            del b[r.randrange(len(b))]
        return [bytes(b)]
    if kind == "split":      # a valid frame in two chunks
        k = r.randrange(1, len(f)) if len(f) > 1 else 1
        return [f[:k], f[k:]]
    g = L.frame(framer, (tid + 1) & 0xFFFF, uid, valid_pdu(r, r.choice(VALID_KINDS), size))
    return [f + g]           # pipelined


# ----------------------------------------------------------------------------- Coq terms

def raised_term(x):
    return "None" if x is None else "(Some %s)" % x


def blist(bs):
    return zlist(list(bs))


def lcase_term(fe, its, obs, units, ctxsingle, bcast):
    flags = "{| f_stop := %s; f_reset := %s; f_close := %s; f_escape := %s |}" % (
        boolean(not obs.running), boolean(obs.resets > 0), boolean(obs.closed), boolean(obs.escaped is not None))
    if obs.pip_calls:
        u, s, _ = obs.pip_calls[0]
        if u == "MISSING" or s == "MISSING" or not isinstance(u, list):
            args = "(Some ([-1], false))"
        else:
            args = "(Some (%s, %s))" % (zlist(u), boolean(bool(s)))
    else:
        args = "None"
    return ("{| lc_fe := %s; lc_its := %s; lc_obs := %s; lc_pips := %s; lc_bcast := %s; lc_slaves := %s; "
            "lc_ctx_single := %s; lc_args := %s; lc_delivered := %s; lc_store_changed := %s; lc_listen_only := %s |}" % (
                fe, lst("(%s, %s)" % (boolean(e), raised_term(x)) for e, x in its), flags, nat(len(obs.pip_calls)),
                boolean(bcast), zlist(units), boolean(ctxsingle), args, nat(obs.delivered),
                boolean(obs.store_changed), boolean(obs.listen_only)))


def iterations(fe, item, obs):
    """per loop iteration of this activation: (read was empty, what reached the try)"""
    empty = (not isinstance(item, BaseException)) and len(item) == 0
    if isinstance(item, BaseException):
        return [(False, obs.raised)]
    if fe == "SyncUdp":
        its = []
        for i, x in enumerate(obs.pip_raised):
            its.append((empty if i == 0 else True, x))
        if not its:
            its = [(empty, obs.raised)]
        return its
    if fe in ("SyncTcp", "SyncSerial") and len(obs.pip_raised) > 1:     # a write longer than one recv(1024)
        return [(False, x) for x in obs.pip_raised]
    if obs.pip_calls or obs.raised is not None:
        return [(empty, obs.raised)]
    return [(empty, None)]


# ----------------------------------------------------------------------------- sessions

def ctx_specs(r):
    k = r.random()
    zm = r.random() < 0.6
    if k < 0.5:
        return {"single": True, "units": [0], "size": 16, "base": 0, "zero_mode": zm}
    return {"single": False, "units": r.choice([[1], [1, 2], [0, 3], [2, 17, 247]]), "size": 16, "base": 0, "zero_mode": zm}


# contexts for the boundary sessions: the default-like 65536-cell tables (address field 0xFFFE/0xFFFF
# is the top) and small blocks with a non-zero base, each with both zero_mode settings
BOUNDARY_CTX = [{"single": True, "units": [0], "size": 65536, "base": 0, "zero_mode": False},
                {"single": True, "units": [0], "size": 65536, "base": 0, "zero_mode": True},
                {"single": True, "units": [0], "size": 8, "base": 10, "zero_mode": False},
                {"single": True, "units": [0], "size": 8, "base": 10, "zero_mode": True},
                {"single": True, "units": [0], "size": 16, "base": 0, "zero_mode": False},
                {"single": False, "units": [1, 2], "size": 8, "base": 3, "zero_mode": False},
                # contexts built with NO blocks: the default tables (four separate ones per unit)
                {"single": True, "units": [0], "size": 65536, "base": 0, "zero_mode": True, "defaults": True},
                {"single": False, "units": [1, 2], "size": 65536, "base": 0, "zero_mode": False, "defaults": True}]


def pdu_at(r, kind, addr):
    if kind in ("r1", "r3"):
        return L.pdu_read(int(kind[1]), addr, r.choice([1, 2]))
    if kind == "w5":
        return L.pdu_write_coil(addr, r.random() < 0.5)
    if kind == "w6":
        return L.pdu_write_reg(addr, r.randrange(1, 65536))
    if kind == "w15":
        return L.pdu_write_coils(addr, [r.randrange(2) for _ in range(r.choice([1, 2]))])
    if kind == "w16":
        return L.pdu_write_regs(addr, [r.randrange(1, 65536) for _ in range(r.choice([1, 2]))])
    if kind == "w22":
        return L.pdu_mask(addr, r.randrange(65536), r.randrange(65536))
    return L.pdu_rwm(addr, 1, addr, [r.randrange(1, 65536) for _ in range(r.choice([1, 2]))])


def boundary_addresses(spec):
    """wire addresses around the first and the last cell of the configured tables"""
    off = 0 if spec["zero_mode"] else 1
    lo, top = spec["base"] - off, spec["base"] + spec["size"] - off     # first valid wire address, first invalid one
    cands = [lo - 1, lo, lo + 1, top - 3, top - 2, top - 1, top, top + 1, 0xFFFE, 0xFFFF]
    return sorted(set(a for a in cands if 0 <= a <= 0xFFFF))


def boundary_items(r, framer, spec, uid):
    items = []
    for a in boundary_addresses(spec):
        for kind in r.sample(["w5", "w6", "w15", "w16", "w22", "w23", "r1", "r3"], 4):
            items.append(("edge/%s@%d" % (kind, a), [L.frame(framer, r.randrange(65536), uid, pdu_at(r, kind, a))]))
    r.shuffle(items)
    return items


FRAMING = {"socket": "FSocket", "ascii": "FAscii", "binary": "FBinary", "tls": "FTls"}


def short_write_pdus(r, size):
    """FC15/16/23 (and FC21 file record) requests with a CONSISTENT header (quantity / byte count agree) and
    at least three data words, to be cut at EVERY offset — in particular inside the data block at even
    offsets, where a decoder that reads 'as many words as are there' would not raise"""
    a = r.randrange(0, size - 6)
    regs = [r.randrange(1, 65536) for _ in range(3)]
    # (the coil write must be VALID when complete — inside the table — or no truncation of it could ever execute:
    #  9..16 coils from an address that leaves room for them, i.e. two data bytes, cut after the first)
    nc = r.choice([9, 12, 16])
    return {15: L.pdu_write_coils(r.randrange(0, max(1, size - nc + 1)), [r.randrange(2) for _ in range(nc)]),
            16: L.pdu_write_regs(a, regs),
            23: L.pdu_rwm(r.randrange(0, size - 6), 2, a, regs),
            21: bytes([21, 13, 6, 0, 1, 0, 0, 0, 3]) + b"".join(bytes([v >> 8, v & 255]) for v in regs)}


def truncation_items(r, framer, fc, uid, size):
    """every proper prefix of the PDU, each in a frame of its own with consistent framing"""
    pdu = short_write_pdus(r, size)[fc]
    return [("trunc@%d/fc%d" % (k, fc), [L.frame(framer, r.randrange(65536), uid, pdu[:k])]) for k in range(1, len(pdu))]


def run_session(r, fe, framer, hostile_kinds, tier, trunc_fc=None, wd=None, boundary=None):
    """-> dict(ladder=[Case], store=Case|None, probe=Case|None, py=[python-side failure descs], keys=[...])"""
    spec = dict(boundary) if boundary is not None else ctx_specs(r)
    cfg = {"broadcast_enable": r.random() < 0.3 and boundary is None, "ignore_missing_slaves": r.random() < 0.3}
    off = 0 if spec.get("zero_mode", True) else 1
    script = []
    if wd is not None:
        wd.update(fe=fe, framer=framer, ctx=spec, cfg=cfg, script=script)
    run = L.Run(fe, framer, spec, cfg)
    out = {"ladder": [], "store": None, "probe": None, "py": [], "keys": []}
    try:
        units_hosted = [0] if spec["single"] else spec["units"]
        cid = 0
        run.open(cid)
        streams = {0: b""}
        steps = []
        items = []
        if trunc_fc is not None:
            uid0 = r.choice(units_hosted) if not spec["single"] else r.choice([0, 1, 7])
            items = truncation_items(r, framer, trunc_fc, uid0, spec["size"])
            hostile_kinds = []
        if boundary is not None:
            items = boundary_items(r, framer, spec, r.choice(units_hosted) if not spec["single"] else 1)
            hostile_kinds = []
        for hk in hostile_kinds:
            uid = r.choice(units_hosted + [r.choice(units_hosted)] * 2 + [r.choice([0, 1, 9, 255])])
            if r.random() < 0.7:
                items.append(("valid", [L.frame(framer, r.randrange(65536), r.choice(units_hosted),
                                                valid_pdu(r, r.choice(VALID_KINDS), spec["size"]))]))
            items.append((hk, hostile(r, hk, framer, uid, spec["size"])))
        if fe in ("SyncTcp", "SyncSerial") and trunc_fc is None and boundary is None:
            k = r.random()
            if k < 0.25:
                items.insert(r.randrange(len(items) + 1), ("timeout", [socket.timeout("timed out")]))
            elif k < 0.45:
                items.insert(r.randrange(len(items) + 1), ("sockerr", [OSError(104, "reset by peer")]))
            elif k < 0.6:
                items.insert(r.randrange(len(items) + 1), ("empty", [b""]))
            elif k < 0.7:
                items.append(("sendfault", [L.frame(framer, 7, units_hosted[0], L.pdu_read(3, 0, 1))]))
        if fe == "SyncUdp" and r.random() < 0.2 and boundary is None:
            items.append(("empty", [b""]))
        for kind, chunks in items:
            for ch in chunks:
                script.append(ch.hex() if isinstance(ch, (bytes, bytearray)) else repr(ch))
                sf = OSError(32, "broken pipe") if kind == "sendfault" else None
                obs = run.feed(cid, ch, send_fault=sf) if sf is not None else run.feed(cid, ch)
                if not isinstance(ch, BaseException):
                    if fe in L.DGRAM_FES or framer == "tls":     # TLS framing: one read = one frame
                        streams[len(streams) + 1000] = bytes(ch)
                    else:
                        streams[cid] = streams.get(cid, b"") + bytes(ch)
                its = iterations(fe, ch, obs)
                desc = {"fe": fe, "framer": framer, "ctx": spec, "cfg": cfg, "kind": kind,
                        "chunk": ch.hex() if isinstance(ch, (bytes, bytearray)) else repr(ch), "obs": obs.to_json(),
                        "history": [h for h in steps[-6:]]}
                steps.append(desc["chunk"])
                term = lcase_term(fe, its, obs, run.ctx.slaves(), spec["single"], cfg["broadcast_enable"])
                out["ladder"].append(Case(term, desc, kind="%s/%s/%s" % (fe, framer, kind),
                                          nontrivial=bool(obs.pip_calls),
                                          key=(fe, framer, desc["chunk"], tuple(steps[-4:]))))
                if obs.eof_spin:
                    out["py"].append({"what": "the handler keeps reading a connection its peer has closed: handle() never "
                                              "returns (stopped after 64 empty reads)", "fe": fe, "framer": framer,
                                      "ctx": spec, "cfg": cfg, "script": list(script)})
                    break
                out.setdefault("steps", []).append((obs.delivered, obs.store_changed))
                if obs.escaped is not None:
                    out["escaped_seen"] = True
                if fe in ("AioUdp", "TwUdp") and run.shared is not None and len(run.shared.framer._buffer):
                    out["shared_leftover"] = True
                    if obs.raised is not None:      # NOT the known finding: a handler that raised must have reset
                        out["leftover_after_raise"] = True
                # a stream connection that was stopped / closed / died is replaced by a new one
                if fe in ("SyncTcp", "AioTcp") and obs.action() in ("Stop", "StopReset", "CloseTransport", "Escape"):
                    cid += 1
                    run.open(cid)
                    streams[cid] = b""
                # python-side: only write requests may change the datastore
        bad_exec = [fc for fc, _ in run.executed if fc not in (5, 6, 15, 16, 22, 23)]
        for (u, t, a, old, new) in run.cells:
            if t > 1:
                out["py"].append({"what": "input table changed", "cell": [u, t, a, old, new], "fe": fe, "framer": framer})
        # ---- store case (MBAP framing: the Coq oracle scans the received bytes for contained writes)
        if framer in FRAMING:
            extents = lst("(%s, %s, %s, %s)" % (z(u), z(t), z(spec.get("base", 0)), z(spec.get("base", 0) + spec["size"]))
                          for u in ([0] if spec["single"] else sorted(spec["units"])) for t in range(4))
            sterm = ("{| sc_framing := %s; sc_single := %s; sc_bcast := %s; sc_zero_mode := %s; sc_extents := %s; "
                     "sc_streams := %s; sc_cells := %s; sc_steps := %s |}" % (
                FRAMING[framer], boolean(spec["single"]), boolean(cfg["broadcast_enable"]),
                boolean(spec.get("zero_mode", True)), extents,
                lst(blist(s) for _, s in sorted(streams.items()) if s),
                lst("{| ce_unit := %s; ce_table := %s; ce_addr := %s; ce_old := %s; ce_new := %s |}" % tuple(z(x) for x in c)
                    for c in run.cells),
                lst("(%s, %s)" % (nat(d), boolean(ch)) for d, ch in out.get("steps", []))))
            out["store"] = Case(sterm, {"fe": fe, "framer": framer, "ctx": spec, "cfg": cfg,
                                        "escaped_seen": out.get("escaped_seen", False),
                                        "streams": [s.hex() for _, s in sorted(streams.items())],
                                        "cells": [list(c) for c in run.cells],
                                        "shared_leftover": out.get("shared_leftover", False),
                                        "leftover_after_raise": out.get("leftover_after_raise", False)},
                                kind="%s/%s/store" % (fe, framer), nontrivial=bool(run.cells))
        # ---- probe on a fresh connection / from a new peer
        listen_only = bool(run.control.ListenOnly)
        dump = run._dump()
        # any unit id reaches a single context; unit 0 is the broadcast address under broadcast_enable
        cand = [1, 5, 17] if spec["single"] else [u for u in units_hosted if not (cfg["broadcast_enable"] and u == 0)]
        if not cand or (framer == "tls" and cfg["broadcast_enable"]):
            return out      # the TLS framing carries no unit id: every request is unit 0 = broadcast
        pu = r.choice(cand)
        pa, pn, ptid = r.randrange(0, 12), r.randrange(1, 4), r.randrange(1, 65536)
        base, size = spec.get("base", 0), spec["size"]
        if boundary is not None:      # probe the top of the table: last cells and the first address beyond
            pa, pn = r.choice([base + size - off - 2, base + size - off - 1, base + size - off]), r.choice([1, 2])
            pa = max(0, min(pa, 0xFFFF))
        # validity is decided against the CONFIGURED table (the cells that exist before any request)
        pvalid = base <= pa + off and pa + off + pn <= base + size
        vals = dump[0 if spec["single"] else pu]["hr"][pa + off - base:pa + off - base + pn] if pvalid else []
        probe = L.frame(framer, ptid, pu, L.pdu_read(3, pa, pn))
        pcid = 1000
        leftover = None
        if fe in ("AioUdp", "TwUdp") and run.shared is not None:
            leftover = bytes(run.shared.framer._buffer)
        if fe == "SyncSerial":
            leftover = bytes(run.conns[cid].framer._buffer)
        if fe == "SyncSerial" and leftover:
            return out      # one serial line, no fresh connection: resynchronisation is C11's subject
        if fe == "SyncSerial":
            pcid = cid      # the one line; its framer is in its initial/reset state here
        else:
            run.open(pcid)
        script.append("probe:" + probe.hex())
        pobs = run.feed(pcid, probe)
        answer = [bytes(o) for o in pobs.out]
        expect_pdu = L.expected_read_response_pdu(3, vals) if pvalid else bytes([0x83, 0x02])
        expect = L.frame(framer, ptid if framer in ("socket",) else 0, pu, expect_pdu, escape=True)
        pdesc = {"fe": fe, "framer": framer, "ctx": spec, "cfg": cfg, "history": steps[-8:], "probe": probe.hex(),
                 "answer": [a.hex() for a in answer], "expected": expect.hex(), "leftover": leftover.hex() if leftover else "",
                 "probe_obs": pobs.to_json(), "listen_only": listen_only,
                 "leftover_after_raise": out.get("leftover_after_raise", False)}
        if not listen_only:
            # what a brand-new server holding the same datastore answers
            run2 = L.Run(fe, framer, spec, cfg)
            try:
                for u in dump:
                    sl = run2.ctx[u]
                    for t in L.TABLES:
                        sl.store[t[0]].values[:] = dump[u][t]
                run2.open(0)
                fresh = [bytes(o) for o in run2.feed(0, probe).out]
            finally:
                run2.close()
            pdesc["fresh_answer"] = [a.hex() for a in fresh]
            if framer == "socket":
                pterm = ("{| pc_tid := %s; pc_uid := %s; pc_fc := 3; pc_valid := %s; pc_vals := %s; pc_answer := %s; pc_fresh_answer := %s |}" % (
                    z(ptid), z(pu), boolean(pvalid), zlist(vals), lst(blist(a) for a in answer), lst(blist(a) for a in fresh)))
                out["probe"] = Case(pterm, pdesc, kind="%s/probe" % fe, nontrivial=True)
            else:
                if answer != [expect]:
                    out["py"].append(dict(pdesc, what="probe on a fresh connection not answered correctly"))
                out["keys"].append(("probe", fe, framer, probe, tuple(answer)))
    finally:
        run.close()
    return out


_CACHE = {}


class watchdog:
    """hard per-session limit.  A front-end that does not return from handle()/data_received()/
    dataReceived() on some input stops serving: that IS a C12 violation, and the bytes fed so far (the
    last one being the input it hangs on) are the failing input.  `what` is updated by the session as it
    goes (`script`: hex chunks / exception reprs in feeding order, plus front-end, framer, context, flags),
    so the replay file can be re-run with `./check Cxx --replay <file>` (in a child process, under a
    timeout)."""

    def __init__(self, pid, what, seconds=None):
        import os
        self.pid, self.what = pid, what
        self.seconds = seconds or int(os.environ.get("VERIF_WATCHDOG_S", "60"))

    def _fire(self):
        import os
        import sys
        import faulthandler
        from lib import main as M
        path = M.write_replay(self.pid, {"property": self.pid, "verdict": "failing-input", "seed": common.seed(),
                                         "failing": [{"suite": "watchdog", "case": dict(self.what, watchdog_s=self.seconds),
                                                      "how": "a front-end did not return within %ss on the last input of "
                                                             "`script`: it has stopped serving" % self.seconds}]})
        faulthandler.dump_traceback(file=sys.stderr)
        print("VIOLATION property=%s replay=%s" % (self.pid, path), flush=True)
        os._exit(1)

    def __enter__(self):
        import threading
        self.t = threading.Timer(self.seconds, self._fire)
        self.t.daemon = True
        self.t.start()
        return self

    def __exit__(self, *a):
        self.t.cancel()
        return False


def build(tier):
    if tier in _CACHE:
        return _CACHE[tier]
    r = common.rng("C12.sessions")
    per_pair = 20 if tier == "quick" else 200
    nh = 4
    ladder, store, probe, py, keys = [], [], [], [], []
    hk_i = 0
    for fe in L.FRONTENDS:
        for framer in L.FRAMER_NAMES:
            for _ in range(per_pair):
                hks = [HOSTILE_KINDS[(hk_i + j) % len(HOSTILE_KINDS)] for j in range(nh)]
                hk_i += nh
                wd = {"hostile_kinds": hks}
                with watchdog("C12", wd):
                    s = run_session(r, fe, framer, hks, tier, wd=wd)
                ladder += s["ladder"]
                if s["store"] is not None:
                    store.append(s["store"])
                if s["probe"] is not None:
                    probe.append(s["probe"])
                py += s["py"]
                keys += s["keys"]
    # a RUN of the same kind of hostile input, each in a read of its own (six well-framed requests with a broken PDU in
    # a row, six unknown function codes, six bad byte counts): no number of consecutive bad frames may end the serving
    for fe in L.FRONTENDS:
        for framer in L.FRAMER_NAMES:
            for hk in ("trunc", "bytecount", "unknown_fc"):
                hks = [hk] * 6
                wd = {"hostile_kinds": hks}
                with watchdog("C12", wd):
                    s = run_session(r, fe, framer, hks, tier, wd=wd)
                ladder += s["ladder"]
                if s["store"] is not None:
                    store.append(s["store"])
                if s["probe"] is not None:
                    probe.append(s["probe"])
                py += s["py"]
                keys += s["keys"]
    # every truncation offset of consistent-header FC15/16/23/21 requests, framings that do not size the
    # frame from the byte count, every front-end
    for fe in L.FRONTENDS:
        for framer in ("socket", "ascii", "binary", "tls"):
            for fc in (15, 16, 23, 21):
                for _ in range(1 if tier == "quick" else 4):
                    wd = {"trunc_fc": fc}
                    with watchdog("C12", wd):
                        s = run_session(r, fe, framer, [], tier, trunc_fc=fc, wd=wd)
                    ladder += s["ladder"]
                    if s["store"] is not None:
                        store.append(s["store"])
                    if s["probe"] is not None:
                        probe.append(s["probe"])
                    py += s["py"]
                    keys += s["keys"]
    # boundary traffic: reads and writes around the first and the last cell of the configured tables
    # (0xFFFE/0xFFFF against 65536-cell tables, small blocks with a non-zero base, both zero_mode settings)
    for fe in L.FRONTENDS:
        for framer in (("socket", "ascii") if tier == "quick" else ("socket", "ascii", "binary", "tls")):
            for bspec in BOUNDARY_CTX:
                if framer != "socket" and bspec["size"] > 100:
                    continue
                if framer == "tls" and not bspec["single"]:
                    continue
                wd = {"boundary": bspec}
                with watchdog("C12", wd):
                    s = run_session(r, fe, framer, [], tier, wd=wd, boundary=bspec)
                ladder += s["ladder"]
                if s["store"] is not None:
                    store.append(s["store"])
                if s["probe"] is not None:
                    probe.append(s["probe"])
                py += s["py"]
                keys += s["keys"]
    _CACHE[tier] = (ladder, store, probe, py, keys)
    return _CACHE[tier]


# ----------------------------------------------------------------------------- constructor wiring

FLAG_DEFAULT = {"ignore_missing_slaves": "IgnoreMissingSlaves", "broadcast_enable": "broadcast_enable"}


def construct_server(name, given):
    """build the REAL server class `name` (loopback port 0 / patched serial port / unawaited asyncio
    factory — nothing is served) with marker arguments (given) or with nothing; -> {role: (obs_given, obs_default)}"""
    import asyncio
    import ssl
    from pymodbus.constants import Defaults
    from pymodbus.datastore import ModbusServerContext
    from pymodbus.device import ModbusDeviceIdentification
    from pymodbus.server import sync as S, async_io as A, asynchronous as T
    from pymodbus.transaction import ModbusRtuFramer
    control = L.reset_control()
    ctx = L.make_context({"single": True, "units": [0], "size": 4})
    mod, cls = name.split(".")
    M = {"sync": S, "async_io": A, "asynchronous": T}[mod]

    class MarkFramer(ModbusRtuFramer):
        pass
    base_handler = {"sync.ModbusTcpServer": S.ModbusConnectedRequestHandler, "sync.ModbusTlsServer": S.ModbusConnectedRequestHandler,
                    "sync.ModbusUdpServer": S.ModbusDisconnectedRequestHandler,
                    "async_io.ModbusTcpServer": A.ModbusConnectedRequestHandler, "async_io.ModbusTlsServer": A.ModbusConnectedRequestHandler,
                    "async_io.ModbusUdpServer": A.ModbusDisconnectedRequestHandler}.get(name)
    MarkHandler = type("MarkHandler", (base_handler,), {}) if base_handler else None
    # ModbusDeviceIdentification keeps its data in a CLASS-level dict shared by all instances, so whether
    # the identity was handed on cannot be seen in the values: the update() call itself is recorded
    updates = []
    orig_update = ModbusDeviceIdentification.update
    ModbusDeviceIdentification.update = lambda self, value: (updates.append(value), orig_update(self, value))[1]
    ident = ModbusDeviceIdentification() if given else None
    kw = {}
    if given:
        kw = dict(framer=MarkFramer, identity=ident, ignore_missing_slaves=True)
        if mod != "asynchronous":
            kw["broadcast_enable"] = True
        if MarkHandler is not None:
            kw["handler"] = MarkHandler
    loop = None
    old_serial = S.serial.Serial
    srv = None
    try:
        if mod == "sync" and cls == "ModbusSerialServer":
            class FakeSerial:
                def __init__(self, **k):
                    pass

                def write(self, b):
                    return len(b)

                def read(self, n):
                    return b""

                def close(self):
                    pass
            S.serial.Serial = FakeSerial
            srv = M.ModbusSerialServer(ctx if given else None, port="verif", **kw)
        elif mod == "sync":
            if cls == "ModbusTlsServer":
                kw["sslctx"] = ssl.SSLContext(ssl.PROTOCOL_TLS_SERVER)
            srv = getattr(M, cls)(ctx if given else None, address=("127.0.0.1", 0), **kw)
        elif mod == "async_io":
            loop = asyncio.new_event_loop()
            # (Python 3.12 no longer accepts reuse_address= in create_datagram_endpoint: the call the
            #  constructor makes is stubbed, the endpoint is never opened here anyway)
            loop.create_datagram_endpoint = lambda *a, **k: None
            if cls == "ModbusTlsServer":
                kw["sslctx"] = ssl.SSLContext(ssl.PROTOCOL_TLS_SERVER)
            srv = getattr(M, cls)(ctx if given else None, address=("127.0.0.1", 0), loop=loop, **kw)
        else:
            srv = getattr(M, cls)(ctx if given else None, **kw)
        obs = {}
        c = getattr(srv, "context", None) if mod != "asynchronous" else getattr(srv, "store", None)
        obs["context"] = (c is ctx, "ModbusServerContext()" if isinstance(c, ModbusServerContext) and c is not ctx else repr(type(c)))
        f = srv.framer
        if name == "asynchronous.ModbusUdpProtocol":
            obs["framer"] = (isinstance(f, MarkFramer), type(f).__name__)
        else:
            obs["framer"] = (f is MarkFramer, getattr(f, "__name__", repr(f)))
        if mod != "asynchronous":
            h = srv.handler
            if cls == "ModbusSerialServer":
                ok = h is not None and h.server is srv and type(h.framer) is (MarkFramer if given else type(h.framer))
                obs["handler"] = (False, type(h).__name__ if ok else "broken:" + repr(h))
            else:
                installed = (getattr(srv, "RequestHandlerClass", h) is h)
                owner_ok = (mod != "async_io" or cls == "ModbusUdpServer" or getattr(h, "server", None) is srv)
                obs["handler"] = (h is MarkHandler and installed and owner_ok,
                                  h.__name__ if installed and owner_ok else "not-installed")
        for flag, dname in FLAG_DEFAULT.items():
            if flag == "broadcast_enable" and mod == "asynchronous":
                continue
            v = getattr(srv, flag, "MISSING")
            obs[flag] = (v is True, "Defaults." + dname if v == getattr(Defaults, dname) and v is not True else repr(v))
        obs["identity"] = (given and any(v is ident for v in updates), "no update" if not updates else "updated")
        return obs
    finally:
        S.serial.Serial = old_serial
        ModbusDeviceIdentification.update = orig_update
        try:
            if mod == "sync" and cls != "ModbusSerialServer" and srv is not None:
                srv.server_close()
            if mod == "async_io" and srv is not None and srv.server_factory is not None:
                srv.server_factory.close()
            if loop is not None:
                loop.close()
        except Exception:  # noqa: BLE001
            pass
        L.reset_control()


SERVER_CLASSES = ["sync.ModbusSerialServer", "sync.ModbusTcpServer", "sync.ModbusTlsServer", "sync.ModbusUdpServer",
                  "async_io.ModbusTcpServer", "async_io.ModbusTlsServer", "async_io.ModbusUdpServer",
                  "asynchronous.ModbusServerFactory", "asynchronous.ModbusUdpProtocol"]


def wiring_cases():
    from lib.coqrun import string
    cases = []
    for name in SERVER_CLASSES:
        for given in (True, False):
            try:
                obs = construct_server(name, given)
            except Exception as e:  # noqa: BLE001 — a constructor that no longer works is reported case by case
                obs = {r: (False, "constructor raised %s" % type(e).__name__) for r in
                       ("context", "framer", "ignore_missing_slaves", "identity")}
            for role, (og, od) in sorted(obs.items()):
                g = given and not (name == "sync.ModbusSerialServer" and role == "handler")
                term = "{| wc_server := %s; wc_role := %s; wc_given := %s; wc_obs_given := %s; wc_obs_default := %s |}" % (
                    string(name), string(role), boolean(g), boolean(og), string(od))
                cases.append(Case(term, {"server": name, "role": role, "given": g, "observed_is_given": og, "observed": od},
                                  kind="wiring/%s" % name, nontrivial=True))
    return cases


def suites(tier):
    ladder, store, probe, _, _ = build(tier)
    return [Suite("ladder", IMPORTS, "chk_ladder code", ladder, shard=250),
            Suite("store", IMPORTS, "chk_store", store, shard=40),
            Suite("probe", IMPORTS, "chk_probe", probe, shard=100),
            Suite("wiring", IMPORTS, "chk_wiring server_wiring", wiring_cases(), shard=200)]


def extra_checks(tier):
    _, _, _, py, keys = build(tier)
    return {"py_probe_and_tables": {"evaluations": len(keys), "failures": py, "broken": [], "samples": py[:2],
                                    "keys": [repr(k) for k in keys]}}


# ----------------------------------------------------------------------------- findings

def classify(suite, desc):
    fe = desc.get("fe")
    if suite == "ladder":
        if fe == "TwUdp" and desc["obs"]["escaped"] is not None:
            return "F-C12-twisted-udp-escape"
        if fe == "TwTcp" and desc["obs"]["escaped"] is not None:
            return "F-C12-twisted-tcp-escape"
        return None
    if suite == "store":
        # datagrams glued together by the shared framer of the asyncio datagram server
        if fe == "AioUdp" and desc.get("shared_leftover") and not desc.get("leftover_after_raise"):
            return "F-C12-udp-shared-framer"
        # Twisted TCP keeps the bytes of a frame that made it raise: later chunks are glued to them
        if fe == "TwTcp" and desc.get("escaped_seen"):
            return "F-C12-twisted-tcp-escape"
        # the Twisted datagram protocol: same (bytes kept after an escape), plus the shared framer
        if fe == "TwUdp" and desc.get("escaped_seen"):
            return "F-C12-twisted-udp-escape"
        if fe == "TwUdp" and desc.get("shared_leftover"):
            return "F-C12-udp-shared-framer"
        return None
    if suite in ("probe", "py_probe_and_tables") and "probe" in desc:
        if fe == "TwUdp" and (desc["probe_obs"]["escaped"] is not None or
                              (desc.get("leftover") and desc.get("leftover_after_raise"))):
            return "F-C12-twisted-udp-escape"
        if fe in ("AioUdp", "TwUdp") and desc.get("leftover") and not desc.get("leftover_after_raise"):
            return "F-C12-udp-shared-framer"
        if desc.get("framer") == "tls" and not desc["ctx"]["single"]:
            return "F-C12-tls-multi-unit"
        if fe == "TwTcp" and desc["probe_obs"]["escaped"] is not None:
            return "F-C12-twisted-tcp-escape"
    return None


def replay_finding(f):
    import logging
    logging.disable(logging.CRITICAL)
    w = f.get("witness", {})
    spec = {"single": True, "units": [0], "size": 16}
    if f["id"] == "F-C12-twisted-tcp-escape":
        run = L.Run("TwTcp", "socket", spec, {})
        try:
            run.open(0)
            o1 = run.feed(0, bytes.fromhex(w["chunk"]))
            o2 = run.feed(0, bytes.fromhex(w["then"]))
            return o1.escaped is not None and o2.escaped is not None
        finally:
            run.close()
    if f["id"] == "F-C12-twisted-udp-dead":      # fixed: the witness datagram must be answered
        run = L.Run("TwUdp", "socket", spec, {})
        try:
            run.open(0)
            o = run.feed(0, bytes.fromhex(w["datagram"]))
            return o.escaped is not None or [x.hex() for x in o.out] != [w["expected"]]
        finally:
            run.close()
    if f["id"] == "F-C12-twisted-udp-escape":
        run = L.Run("TwUdp", "socket", spec, {})
        try:
            run.open(0)
            o1 = run.feed(0, bytes.fromhex(w["datagram"]))
            run.open(1)
            o2 = run.feed(1, bytes.fromhex(w["then"]))
            return o1.escaped is not None and o2.escaped is not None
        finally:
            run.close()
    if f["id"] == "F-C12-udp-shared-framer":
        bad = []
        for fe in ("AioUdp", "TwUdp"):
          for first in (w["datagram1"], w.get("short_datagram1", w["datagram1"])):
            run = L.Run(fe, "socket", spec, {})
            try:
                run.open(0)
                run.feed(0, bytes.fromhex(first))
                run.open(1)
                o = run.feed(1, bytes.fromhex(w["probe"]))
                bad.append([x.hex() for x in o.out] != [w["expected"]])
            finally:
                run.close()
        return all(bad)
    if f["id"] == "F-C12-short-chunk-raised":
        still = False
        for fe in ("SyncTcp", "AioTcp", "TwTcp"):
            run = L.Run(fe, "socket", spec, {})
            try:
                run.open(0)
                o1 = run.feed(0, bytes.fromhex(w["chunk"]))
                o2 = run.feed(0, bytes.fromhex(w["rest"]))
                still = still or o1.raised is not None or o1.escaped is not None or [x.hex() for x in o2.out] != [w["expected"]]
            finally:
                run.close()
        return still
    if f["id"] == "F-C12-overlong-pdu-executed":
        run = L.Run("SyncTcp", "socket", spec, {})
        try:
            run.open(0)
            o = run.feed(0, bytes.fromhex(w["chunk"]))
            return bool(o.store_changed)
        finally:
            run.close()
    if f["id"] == "F-C12-tls-multi-unit":
        run = L.Run("SyncTcp", "tls", {"single": False, "units": [1, 2], "size": 16}, {})
        try:
            run.open(0)
            o = run.feed(0, bytes.fromhex(w["chunk"]))
            return o.raised == "(RPy KeyError)" and not o.out
        finally:
            run.close()
    return None


def feed_script(desc):
    """re-run a recorded byte script (used in a child process for watchdog replays)"""
    run = L.Run(desc["fe"], desc.get("framer", "socket"), desc["ctx"], desc.get("cfg", {}))
    try:
        cid = 0
        run.open(cid)
        for h in desc["script"]:
            if h.startswith("probe:"):
                cid += 1000
                run.open(cid)
                item = bytes.fromhex(h[6:])
            else:
                try:
                    item = bytes.fromhex(h)
                except ValueError:
                    item = socket.timeout("timed out") if "imeout" in h else OSError(104, "reset by peer")
            o = run.feed(cid, item)
            if o.action() in ("Stop", "StopReset", "CloseTransport", "Escape") and desc["fe"] in ("SyncTcp", "AioTcp"):
                cid += 1
                run.open(cid)
    finally:
        run.close()


def replay_hang(module, desc):
    """True when re-feeding the script still does not return (child process killed after the limit)"""
    import json
    import subprocess
    import sys
    code = ("import sys, json, logging; logging.disable(logging.CRITICAL); from props import %s as m; "
            "m.feed_script(json.loads(sys.argv[1]))" % module)
    try:
        p = subprocess.run([sys.executable, "-c", code, json.dumps(desc)], timeout=desc.get("watchdog_s", 60) + 5)
        return p.returncode != 0
    except subprocess.TimeoutExpired:
        return True


def replay_case(suite, desc):
    import json
    print(json.dumps(desc)[:3000])
    if suite == "watchdog":
        return replay_hang("c12", desc)
    if "fe" not in desc:
        return True
    spec, cfg = desc["ctx"], desc.get("cfg", {})
    run = L.Run(desc["fe"], desc.get("framer", "socket"), spec, cfg)
    try:
        run.open(0)
        bad = False
        for h in desc.get("history", []) + ([desc["chunk"]] if "chunk" in desc else []):
            try:
                ch = bytes.fromhex(h)
            except ValueError:
                continue
            o = run.feed(0, ch)
            print("  feed", h[:60], "->", o.action(), o.raised)
            bad = bad or o.escaped is not None
            if o.action() in ("Stop", "StopReset", "CloseTransport", "Escape") and desc["fe"] in ("SyncTcp", "AioTcp"):
                run.open(0)
        if "probe" in desc:
            run.open(1)
            o = run.feed(1, bytes.fromhex(desc["probe"]))
            print("  probe ->", [x.hex() for x in o.out], "expected", desc["expected"])
            bad = bad or [x.hex() for x in o.out] != [desc["expected"]]
        return bad
    finally:
        run.close()


MANIFEST = {
    "text": ("Coq theorems (Props/C12.v, closed under the global context) about the loop / except-ladder / framer-site "
             "skeletons of all seven server front-ends, regenerated from server/{sync,async_io,asynchronous}.py on "
             "every run and interpreted over an ARBITRARY framer and request execution: for the five threaded and "
             "asyncio handlers no exception class of the framer/decoder/execute layer and no transport fault escapes "
             "the loop for any input, state and configuration (the bare except of the threaded TCP handler and the "
             "CancelledError arm of asyncio are covered too), every such exception ends in reset-or-close, the shared "
             "state changes only through execute() of requests the framer delivered, execute() itself turns every "
             "exception into a Modbus exception response, and a new connection starts from the initial framer state so "
             "its answer depends on the datastore only. Twisted TCP/UDP are refuted with witnesses (open findings). "
             "Tests inject one mocked exception per handler; the theorems cover every class x input x state."),
    "note": ("Trusted: Coq kernel; the translator's shape matching; the exception-class lattice and the loop interpreter "
             "(hand-written, tied on every run by feeding generated hostile traffic through the seven real front-ends x "
             "five framers and comparing raised class, handler action and framer arguments inside Coq); framer and "
             "execute are abstract here (other properties model them); the runtimes (socketserver, asyncio loop, "
             "reactor) are driven around."),
    "design_ref": "DESIGN.md section 8 (C12)",
}
