(* Props/C19_floats.v — the float-VALUE corollary of C19, in its own file because it goes
   through Flocq's [binary_float_of_bits_of_binary_float] and therefore depends on the
   classical axioms of Coq's real-number library (printed below); the bit-pattern
   theorems of Props/C19.v are closed under the global context.
   Every IEEE-754 binary16 / binary32 / binary64 value — signed zeros, subnormals,
   infinities, NaNs with their payload — written as its IEEE encoding (what struct's
   'e' / 'f' / 'd' produce; that step is outside the model) survives builder + decoder
   under every byte-order x word-order pair, for sequences of any length. *)
From PM.theories Require Import Base Struct Payload.
From PM.Generated Require Import GenPayload.
From PM.proofs Require Import Payload_floats_proofs.
Open Scope list_scope.
Open Scope Z_scope.

Theorem C19_float_values_roundtrip : forall bo wo fs,
  let vs := map value_of_float fs in
  exists s vs', to_string code bo wo vs = Ok s /\
    decode_seq code bo wo (types vs) s = Ok (vs', length s) /\
    map float_of_value vs' = map Some fs.
Proof. exact float_values_roundtrip. Qed.
Print Assumptions C19_float_values_roundtrip.

(* non-vacuity: the smallest positive subnormal binary32 and minus infinity binary64 *)
Example C19_floats_nonvacuous :
  value_of_float (FV32 (Flocq.IEEE754.Bits.b32_of_bits 1)) = F32 1 /\
  value_of_float (FV64 (Flocq.IEEE754.Bits.b64_of_bits 0xFFF0000000000000)) = F64 0xFFF0000000000000.
Proof. split; vm_compute; reflexivity. Qed.
Print Assumptions C19_floats_nonvacuous.
