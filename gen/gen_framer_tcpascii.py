"""GenFramerA.v — socket (TCP/MBAP), ASCII and TLS framers, the unit filter and the LRC.

Sources: pymodbus/framer/{__init__,socket_framer,ascii_framer,tls_framer}.py, pymodbus/utilities.py.

Every method is matched against a *template* (Python source with HOLE_<name> identifiers):
the statement structure must be identical (docstrings and logging calls are ignored), the
holes capture the expressions / literals, which are then printed as Expr terms, integers,
struct formats or header literals.  processIncomingPacket is read into a small skeleton ADT
(loop kind, if/elif/else tree over isFrameReady / checkFrame / _validate_unit_id / header
tests, leaves _process / resetFrame / break / ...), so that a changed branch structure is a
*different skeleton* (a proof obligation `skeleton = expected` fails) rather than a
translator abort.  Anything not recognised: TranslatorFail (fail closed).
"""
import ast

from . import core
from .core import Src, ExprTr, TranslatorFail, coq_z, coq_str, coq_list, coq_bool


# ------------------------------------------------------------------ template matching

def clean(stmts):
    return [s for s in stmts if not (core.is_docstring(s) or core.is_log_call(s))]


def is_hole(n):
    return isinstance(n, ast.Name) and n.id.startswith("HOLE_")


def match(src, t, a, holes, where):
    """structural comparison of template node t and actual node a; holes capture"""
    if is_hole(t):
        if t.id in holes and ast.dump(holes[t.id]) != ast.dump(a):
            src.fail(a, "%s: hole %s bound twice to different expressions" % (where, t.id))
        holes[t.id] = a
        return
    if type(t) is not type(a):
        src.fail(a if hasattr(a, "lineno") else None,
                 "%s: expected %s, found %s" % (where, ast.unparse(t) if isinstance(t, ast.AST) else t,
                                                  ast.unparse(a) if isinstance(a, ast.AST) else a))
    if isinstance(t, ast.Constant):
        if t.value != a.value or type(t.value) is not type(a.value):
            src.fail(a, "%s: expected constant %r, found %r" % (where, t.value, a.value))
        return
    for field in t._fields:
        if field in ("ctx", "type_comment", "kind", "lineno", "col_offset"):
            continue
        tv, av = getattr(t, field, None), getattr(a, field, None)
        if isinstance(tv, list):
            if tv and isinstance(tv[0], ast.stmt) or (av and isinstance(av, list) and av and isinstance(av[0], ast.stmt)):
                tv, av = clean(tv), clean(av or [])
            if not isinstance(av, list) or len(tv) != len(av):
                src.fail(a, "%s: different number of %s (expected %d: %s)" % (
                    where, field, len(tv), "; ".join(ast.unparse(x).split("\n")[0] for x in tv if isinstance(x, ast.AST))))
            for x, y in zip(tv, av):
                match(src, x, y, holes, where)
        elif isinstance(tv, ast.AST):
            if not isinstance(av, ast.AST):
                src.fail(a, "%s: missing %s" % (where, field))
            match(src, tv, av, holes, where)
        else:
            if tv != av:
                src.fail(a, "%s: field %s differs (%r vs %r)" % (where, field, tv, av))


def template(src, fn, code):
    """match the body of fn against the template source; returns the holes"""
    t = clean(ast.parse(code).body)
    a = clean(fn.body)
    holes = {}
    where = "%s.%s" % (src.rel.split("/")[-1], fn.name)
    if len(t) != len(a):
        src.fail(fn, "%s: expected %d statements, found %d:\n%s" % (
            where, len(t), len(a), "\n".join(ast.unparse(s) for s in a)))
    for x, y in zip(t, a):
        match(src, x, y, holes, where)
    return holes


class Tr(ExprTr):
    """ExprTr with aliases: a sub-expression whose source text is a key of `alias` becomes that atom"""

    def __init__(self, src, atoms, alias=None, **kw):
        super().__init__(src, atoms, **kw)
        self.alias = dict(alias or {})

    def _tr(self, n, subst):
        if not isinstance(n, ast.Constant):
            text = ast.unparse(n)
            if text in self.alias:
                return "(EAtom %s)" % coq_str(self.alias[text]), False
        return super()._tr(n, subst)

    def truth(self, n):
        """translate a test; an integer-valued expression is tested for != 0 (Python truthiness)"""
        txt, isb = self._tr(n, {})
        return txt if isb else "(ECmp Ne %s (EInt 0))" % txt


FMTC = {"B": "FB", "b": "Fb", "H": "FH", "h": "Fh", "I": "FI", "i": "Fi", "Q": "FQ", "q": "Fq"}


def str_const(src, node, consts):
    """string literal, or a module-level name / concatenation of such, resolved through `consts`"""
    if isinstance(node, ast.Constant) and isinstance(node.value, str):
        return node.value
    if isinstance(node, ast.Name) and node.id in consts:
        return consts[node.id]
    if isinstance(node, ast.BinOp) and isinstance(node.op, ast.Add):
        return str_const(src, node.left, consts) + str_const(src, node.right, consts)
    src.fail(node, "cannot resolve string constant: %s" % ast.unparse(node))


def fmt_term(src, node, s):
    if not s or s[0] not in "><!":
        src.fail(node, "struct format without explicit byte order: %r" % s)
    cs = []
    for ch in s[1:]:
        if ch not in FMTC:
            src.fail(node, "unsupported struct format character %r in %r" % (ch, s))
        cs.append(FMTC[ch])
    return coq_bool(s[0] in ">!"), coq_list(cs)


def bytes_const(src, node):
    if isinstance(node, ast.Constant) and isinstance(node.value, bytes) and len(node.value) > 0:
        return coq_list("%d%%N" % b for b in node.value)
    src.fail(node, "expected a non-empty bytes literal: %s" % ast.unparse(node))


def hdr_dict(src, node):
    """{'k': literal, ...} -> ordered list of (key, value) with int or str values"""
    if not isinstance(node, ast.Dict):
        src.fail(node, "expected a dict literal for the header: %s" % ast.unparse(node))
    out = []
    for k, v in zip(node.keys, node.values):
        if not (isinstance(k, ast.Constant) and isinstance(k.value, str)):
            src.fail(node, "header key is not a string literal")
        if isinstance(v, ast.Constant) and isinstance(v.value, (int, str)) and not isinstance(v.value, bool):
            out.append((k.value, v.value))
        else:
            src.fail(node, "header value is not an int/str literal: %s" % ast.unparse(v))
    return out


def tcp_hdr(src, node):
    d = hdr_dict(src, node)
    if [k for k, _ in d] != ["tid", "pid", "len", "uid"] or not all(isinstance(v, int) for _, v in d):
        src.fail(node, "socket header literal must be {'tid','pid','len','uid'} -> int: %s" % ast.unparse(node))
    dd = dict(d)
    return "{| h_tid := %s; h_pid := %s; h_len := %s; h_uid := %s |}" % tuple(coq_z(dd[k]) for k in ("tid", "pid", "len", "uid"))


def ascii_hdr(src, node):
    d = hdr_dict(src, node)
    dd = dict(d)
    if sorted(dd) != ["len", "lrc", "uid"] or not isinstance(dd["len"], int) or not isinstance(dd["uid"], int):
        src.fail(node, "ascii header literal must be {'lrc','len','uid'}: %s" % ast.unparse(node))
    lrc = "None" if isinstance(dd["lrc"], str) else "(Some %s)" % coq_z(dd["lrc"])
    return "{| a_lrc := %s; a_len := %s; a_uid := %s |}" % (lrc, coq_z(dd["len"]), coq_z(dd["uid"]))


def header_key(src, node):
    """self._header['k'] -> 'k'"""
    if isinstance(node, ast.Subscript) and ast.unparse(node.value) == "self._header" \
            and isinstance(node.slice, ast.Constant) and isinstance(node.slice.value, str):
        return node.slice.value
    src.fail(node, "expected self._header['<key>']: %s" % ast.unparse(node))


def populate(src, fn):
    out = []
    for s in clean(fn.body):
        if isinstance(s, ast.Return) and s.value is None:
            continue
        if not (isinstance(s, ast.Assign) and len(s.targets) == 1 and isinstance(s.targets[0], ast.Attribute)
                and ast.unparse(s.targets[0].value) == "result"):
            src.fail(s, "populateResult: expected `result.<attr> = self._header['<key>']`")
        out.append("(%s, %s)" % (coq_str(s.targets[0].attr), coq_str(header_key(src, s.value))))
    return coq_list(out)


# ------------------------------------------------------------------ skeleton of processIncomingPacket

INLINE_DELIVER = """
frame = self.getFrame()
result = self.decoder.decode(frame)
if result is None:
    raise ModbusIOException(HOLE_msg)
self.populateResult(result)
self.advanceFrame()
callback(result)
"""


class Skel:
    def __init__(self, src, fn, tr, tags):
        self.src, self.fn, self.tr, self.tags = src, fn, tr, list(tags)
        self.exprs = {}
        self.drop_lo = None
        self.drop_hdr = None

    def cond(self, n):
        t = ast.unparse(n)
        if t == "self.isFrameReady()":
            return "PReady"
        if t == "self.checkFrame()":
            return "PCheck"
        if t == "self._validate_unit_id(unit, single)":
            return "PUnit"
        if t == "len(self._buffer)":
            return "PBufNonEmpty"
        tag = self.tags.pop(0) if self.tags else "extra%d" % len(self.exprs)
        self.exprs[tag] = self.tr.truth(n)
        return "(PHdr %s)" % coq_str(tag)

    def stmts(self, body):
        body = clean(body)
        out = []
        i = 0
        while i < len(body):
            s = body[i]
            t = ast.unparse(s)
            if isinstance(s, ast.If):
                out.append("(PIf %s %s %s)" % (self.cond(s.test), self.stmts(s.body), self.stmts(s.orelse)))
            elif t == "self._process(callback)":
                out.append("(PProcess false)")
            elif t == "self._process(callback, error=True)":
                out.append("(PProcess true)")
            elif t == "self.resetFrame()":
                out.append("PReset")
            elif t == "self.advanceFrame()":
                out.append("PAdvance")
            elif isinstance(s, ast.Break):
                out.append("PBreak")
            elif t == "frame = self.getFrame()":
                tmpl = clean(ast.parse(INLINE_DELIVER).body)
                seg = body[i:i + len(tmpl)]
                if len(seg) != len(tmpl):
                    self.src.fail(s, "processIncomingPacket: truncated inline delivery sequence")
                for x, y in zip(tmpl, seg):
                    match(self.src, x, y, {}, "processIncomingPacket")
                out.append("PDeliverInline")
                i += len(tmpl) - 1
            elif isinstance(s, ast.Assign) and ast.unparse(s.targets[0]) == "self._buffer":
                h = {}
                match(self.src, ast.parse("self._buffer = self._buffer[HOLE_lo:]").body[0], s, h, "processIncomingPacket")
                if i + 1 >= len(body):
                    self.src.fail(s, "processIncomingPacket: buffer drop without header reset")
                h2 = {}
                match(self.src, ast.parse("self._header = HOLE_hdr").body[0], body[i + 1], h2, "processIncomingPacket")
                self.drop_lo, self.drop_hdr = h["HOLE_lo"], h2["HOLE_hdr"]
                out.append("PDropOne")
                i += 1
            else:
                self.src.fail(s, "processIncomingPacket: unrecognised statement: %s" % t.split("\n")[0])
            i += 1
        return coq_list(out)

    def run(self, prefix_tmpl):
        body = clean(self.fn.body)
        pre = clean(ast.parse(prefix_tmpl).body)
        holes = {}
        if len(body) != len(pre) + 1:
            self.src.fail(self.fn, "processIncomingPacket: expected %d prefix statements and one loop/if" % len(pre))
        for x, y in zip(pre, body):
            match(self.src, x, y, holes, "processIncomingPacket")
        last = body[-1]
        if isinstance(last, ast.While) and not last.orelse:
            t = ast.unparse(last.test)
            if t == "True":
                loop = "LWhileTrue"
            elif t == "self.isFrameReady()":
                loop = "LWhileReady"
            else:
                self.src.fail(last, "processIncomingPacket: unrecognised loop condition %s" % t)
            sk = self.stmts(last.body)
        elif isinstance(last, ast.If):
            loop = "LOnce"
            sk = self.stmts([last])
        else:
            self.src.fail(last, "processIncomingPacket: expected a while loop or an if")
        single = holes.get("HOLE_single")
        if not (isinstance(single, ast.Constant) and isinstance(single.value, bool)):
            self.src.fail(self.fn, "processIncomingPacket: default of `single` is not a bool literal")
        return "{| sk_loop := %s; sk_body := %s |}" % (loop, sk), single.value


PREFIX = """
if not isinstance(unit, (list, tuple)):
    unit = [unit]
single = kwargs.get(HOLE_key, HOLE_single)
self.addToFrame(data)
"""

PROCESS = """
data = self.getRawFrame() if error else self.getFrame()
result = self.decoder.decode(data)
if result is None:
    raise ModbusIOException(HOLE_msg)
elif error and HOLE_errfc:
    raise InvalidMessageReceivedException(result)
else:
    self.populateResult(result)
    self.advanceFrame()
    callback(result)
"""


def pack_call(src, stmt, target):
    """`<target> = struct.pack(fmt, a, b, ...)` -> (fmt node, [arg nodes])"""
    if not (isinstance(stmt, ast.Assign) and len(stmt.targets) == 1 and ast.unparse(stmt.targets[0]) == target
            and isinstance(stmt.value, ast.Call) and ast.unparse(stmt.value.func) == "struct.pack"
            and not stmt.value.keywords and len(stmt.value.args) >= 1):
        src.fail(stmt, "expected `%s = struct.pack(fmt, ...)`" % target)
    return stmt.value.args[0], stmt.value.args[1:]


def record(name, typ, fields):
    return "Definition %s : %s := {|\n%s\n|}.\n" % (name, typ, ";\n".join("  %s := %s" % kv for kv in fields))


# ------------------------------------------------------------------ generate

def generate():
    ini = Src("pymodbus/framer/__init__.py")
    sk = Src("pymodbus/framer/socket_framer.py")
    asc = Src("pymodbus/framer/ascii_framer.py")
    tls = Src("pymodbus/framer/tls_framer.py")
    ut = Src("pymodbus/utilities.py")

    # ---- module string constants of framer/__init__.py (+ ASCII_FRAME_HEADER)
    consts = {}
    for n in ini.mod.body:
        if isinstance(n, ast.Assign) and len(n.targets) == 1 and isinstance(n.targets[0], ast.Name):
            try:
                consts[n.targets[0].id] = str_const(ini, n.value, consts)
            except TranslatorFail:
                pass
    for n in asc.mod.body:
        if isinstance(n, ast.Assign) and len(n.targets) == 1 and isinstance(n.targets[0], ast.Name) \
                and n.targets[0].id == "ASCII_FRAME_HEADER":
            consts["ASCII_FRAME_HEADER"] = str_const(asc, n.value, consts)

    out = [core.HEADER, "From PM.theories Require Import Struct FrBaseA Lrc FrTcp FrAscii FrTls.\nOpen Scope list_scope.\n"]

    # ---- unit filter
    fn = ini.func("ModbusFramer", "_validate_unit_id")
    h = template(ini, fn, """
if single:
    return True
else:
    if HOLE_any:
        return True
    return self._header['uid'] in units
""")
    anyn = h["HOLE_any"]
    vals = anyn.values if isinstance(anyn, ast.BoolOp) and isinstance(anyn.op, ast.Or) else [anyn]
    lits = []
    for v in vals:
        if not (isinstance(v, ast.Compare) and len(v.ops) == 1 and isinstance(v.ops[0], ast.In)
                and ast.unparse(v.comparators[0]) == "units"):
            ini.fail(v, "_validate_unit_id: expected `<literal> in units`")
        lits.append(coq_z(core.const_int(ini, v.left)))
    out.append(record("base", "base_code", [("v_any", coq_list(lits))]))

    # ---- LRC
    SUM = "sum((byte2int(a) for a in data))"
    trl = Tr(ut, {"lrc"}, alias={SUM: "sum"})
    h = template(ut, ut.func(None, "computeLRC"), "lrc = HOLE_mask\nlrc = HOLE_step\nreturn HOLE_ret\n")
    if SUM not in ast.unparse(h["HOLE_mask"]):
        ut.fail(h["HOLE_mask"], "computeLRC: expected the byte sum `%s`" % SUM)
    trc = Tr(ut, {"computeLRC(data)", "check"})
    hc = template(ut, ut.func(None, "checkLRC"), "return HOLE_check\n")
    out.append(record("lrc", "lrc_code", [
        ("l_mask", trl.tr(h["HOLE_mask"])), ("l_step", trl.tr(h["HOLE_step"])),
        ("l_ret", trl.tr(h["HOLE_ret"])), ("l_check", trc.tr_bool(hc["HOLE_check"]))]))

    # ---- socket framer
    S = "ModbusSocketFramer"
    tr = Tr(sk, {"self._hsize", "self._header['len']", "len(self._buffer)", "length", "result.function_code",
                 "message.transaction_id", "message.protocol_id", "message.unit_id", "message.function_code",
                 "len(data)"})
    h = template(sk, sk.func(S, "__init__"), """
self._buffer = b''
self._header = HOLE_hdr
self._hsize = HOLE_hsize
self.decoder = decoder
self.client = client
""")
    F = [("t_hsize", coq_z(core.const_int(sk, h["HOLE_hsize"]))), ("t_hdr_init", tcp_hdr(sk, h["HOLE_hdr"]))]
    h = template(sk, sk.func(S, "advanceFrame"), """
length = HOLE_len
self._buffer = self._buffer[length:]
self._header = HOLE_hdr
""")
    F += [("t_hdr_adv", tcp_hdr(sk, h["HOLE_hdr"])), ("t_adv_len", tr.tr(h["HOLE_len"]))]
    h = template(sk, sk.func(S, "resetFrame"), "self._buffer = b''\nself._header = HOLE_hdr\n")
    F += [("t_hdr_reset", tcp_hdr(sk, h["HOLE_hdr"]))]
    h = template(sk, sk.func(S, "checkFrame"), """
if self.isFrameReady():
    HOLE_targets = struct.unpack(HOLE_fmt, self._buffer[HOLE_lo:HOLE_hi])
    if HOLE_short:
        self.advanceFrame()
    elif HOLE_complete:
        return True
return False
""")
    tg = h["HOLE_targets"]
    if not isinstance(tg, ast.Tuple):
        sk.fail(tg, "checkFrame: expected a tuple of header items as unpack target")
    big, fm = fmt_term(sk, h["HOLE_fmt"], str_const(sk, h["HOLE_fmt"], consts))
    F += [("t_unpack_big", big), ("t_unpack_fmt", fm),
          ("t_unpack_targets", coq_list(coq_str(header_key(sk, e)) for e in tg.elts)),
          ("t_unpack_lo", tr.tr(h["HOLE_lo"])), ("t_unpack_hi", tr.tr(h["HOLE_hi"])),
          ("t_cf_short", tr.tr_bool(h["HOLE_short"])), ("t_cf_complete", tr.tr_bool(h["HOLE_complete"]))]
    h = template(sk, sk.func(S, "isFrameReady"), "return HOLE_ready\n")
    F += [("t_ready", tr.tr_bool(h["HOLE_ready"]))]
    template(sk, sk.func(S, "addToFrame"), "self._buffer += message\n")
    template(sk, sk.func(S, "getRawFrame"), "return self._buffer\n")
    h = template(sk, sk.func(S, "getFrame"), "length = HOLE_len\nreturn self._buffer[HOLE_lo:HOLE_hi]\n")
    F += [("t_get_len", tr.tr(h["HOLE_len"])), ("t_get_lo", tr.tr(h["HOLE_lo"])), ("t_get_hi", tr.tr(h["HOLE_hi"]))]
    F += [("t_populate", populate(sk, sk.func(S, "populateResult")))]
    s = Skel(sk, sk.func(S, "processIncomingPacket"), tr, ["wait"])
    skel, single = s.run(PREFIX)
    F += [("t_wait", s.exprs.get("wait", "(EInt 0)"))]
    h = template(sk, sk.func(S, "_process"), PROCESS)
    F += [("t_errfc", tr.tr_bool(h["HOLE_errfc"])), ("t_skel", skel)]
    b = clean(sk.func(S, "buildPacket").body)
    if len(b) != 4 or ast.unparse(b[0]) != "data = message.encode()" or ast.unparse(b[2]) != "packet += data" \
            or ast.unparse(b[3]) != "return packet":
        sk.fail(sk.func(S, "buildPacket"), "buildPacket: unrecognised shape")
    fnode, args = pack_call(sk, b[1], "packet")
    big, fm = fmt_term(sk, fnode, str_const(sk, fnode, consts))
    F += [("t_build_big", big), ("t_build_fmt", fm), ("t_build_args", coq_list(tr.tr(a) for a in args)),
          ("t_single_default", coq_bool(single))]
    out.append(record("tcp", "tcp_code", F))

    # ---- ascii framer
    A = "ModbusAsciiFramer"
    tr = Tr(asc, {"self._hsize", "self._header['len']", "len(self._buffer)", "start", "end",
                  "message.unit_id", "message.function_code"})
    h = template(asc, asc.func(A, "__init__"), """
self._buffer = b''
self._header = HOLE_hdr
self._hsize = HOLE_hsize
self._start = HOLE_start
self._end = HOLE_end
self.decoder = decoder
self.client = client
""")
    F = [("a_hsize", coq_z(core.const_int(asc, h["HOLE_hsize"]))),
         ("a_start", bytes_const(asc, h["HOLE_start"])), ("a_end", bytes_const(asc, h["HOLE_end"])),
         ("a_hdr_init", ascii_hdr(asc, h["HOLE_hdr"]))]
    h = template(asc, asc.func(A, "advanceFrame"), "self._buffer = self._buffer[HOLE_lo:]\nself._header = HOLE_hdr\n")
    F += [("a_hdr_adv", ascii_hdr(asc, h["HOLE_hdr"])), ("a_adv_lo", tr.tr(h["HOLE_lo"]))]
    h = template(asc, asc.func(A, "resetFrame"), "self._buffer = b''\nself._header = HOLE_hdr\n")
    F += [("a_hdr_reset", ascii_hdr(asc, h["HOLE_hdr"]))]
    h = template(asc, asc.func(A, "isFrameReady"), "return HOLE_ready\n")
    F += [("a_ready", tr.tr_bool(h["HOLE_ready"]))]
    template(asc, asc.func(A, "addToFrame"), "self._buffer += message\n")
    h = template(asc, asc.func(A, "checkFrame"), """
start = self._buffer.find(self._start)
if HOLE_nostart:
    return False
if HOLE_skip:
    self._buffer = self._buffer[start:]
    start = 0
end = self._buffer.find(self._end)
if HOLE_hasend:
    self._header['len'] = end
    try:
        self._header['uid'] = int(self._buffer[HOLE_uid_lo:HOLE_uid_hi], 16)
        lrc = a2b_hex(self._buffer[HOLE_lrc_lo:HOLE_lrc_hi])
        self._header['lrc'] = int(b2a_hex(lrc), 16)
        data = a2b_hex(self._buffer[HOLE_data_lo:HOLE_data_hi])
    except ValueError:
        return False
    return HOLE_result
return False
""")
    res = ast.unparse(h["HOLE_result"])
    if res == "checkLRC(data, self._header['lrc'])":
        uses = True
    elif res == "True":
        uses = False
    else:
        asc.fail(h["HOLE_result"], "checkFrame: unrecognised final result %s" % res)
    F += [("a_nostart", tr.tr_bool(h["HOLE_nostart"])), ("a_skip", tr.tr_bool(h["HOLE_skip"])),
          ("a_hasend", tr.tr_bool(h["HOLE_hasend"]))]
    for k in ("uid_lo", "uid_hi", "lrc_lo", "lrc_hi", "data_lo", "data_hi"):
        F.append(("a_" + k, tr.tr(h["HOLE_" + k])))
    F += [("a_check_lrc", coq_bool(uses))]
    h = template(asc, asc.func(A, "getFrame"), """
start = HOLE_start
end = HOLE_end
buffer = self._buffer[start:end]
if HOLE_guard:
    return a2b_hex(buffer)
return b''
""")
    F += [("a_get_start", tr.tr(h["HOLE_start"])), ("a_get_end", tr.tr(h["HOLE_end"])),
          ("a_get_guard", tr.tr_bool(h["HOLE_guard"]))]
    F += [("a_populate", populate(asc, asc.func(A, "populateResult")))]
    s = Skel(asc, asc.func(A, "processIncomingPacket"), tr, ["droptest"])
    skel, single = s.run(PREFIX)
    F += [("a_droptest", s.exprs.get("droptest", "(EInt 0)")),
          ("a_drop_lo", tr.tr(s.drop_lo) if s.drop_lo is not None else "(EInt 0)"),
          ("a_hdr_drop", ascii_hdr(asc, s.drop_hdr) if s.drop_hdr is not None else "{| a_lrc := None; a_len := 0; a_uid := 0 |}"),
          ("a_skel", skel)]
    b = clean(asc.func(A, "buildPacket").body)
    if len(b) != 11 or ast.unparse(b[0]) != "encoded = message.encode()" or ast.unparse(b[3]) != "packet = bytearray()":
        asc.fail(asc.func(A, "buildPacket"), "buildPacket: unrecognised shape")
    fnode, args = pack_call(asc, b[1], "buffer")
    big, fm = fmt_term(asc, fnode, str_const(asc, fnode, consts))
    hh = {}
    match(asc, ast.parse("checksum = computeLRC(HOLE_arg)").body[0], b[2], hh, "buildPacket")
    order = []

    def flat(n):
        if isinstance(n, ast.BinOp) and isinstance(n.op, ast.Add):
            flat(n.left)
            flat(n.right)
        elif isinstance(n, ast.Name) and n.id in ("encoded", "buffer"):
            order.append(n.id)
        else:
            asc.fail(n, "buildPacket: unrecognised computeLRC argument")
    flat(hh["HOLE_arg"])
    if ast.unparse(b[4]) != "params = (%s)" % ", ".join(ast.unparse(a) for a in args):
        asc.fail(b[4], "buildPacket: params differ from the packed header fields")
    PIECES = {"packet.extend(self._start)": "PcStart",
              "packet.extend(('%02x%02x' % params).encode())": "PcParams",
              "packet.extend(b2a_hex(encoded))": "PcEncoded",
              "packet.extend(('%02x' % checksum).encode())": "PcChecksum",
              "packet.extend(self._end)": "PcEnd"}
    pcs = []
    for st in b[5:10]:
        t = ast.unparse(st)
        if t not in PIECES:
            asc.fail(st, "buildPacket: unrecognised packet piece: %s" % t)
        pcs.append(PIECES[t])
    ret = ast.unparse(b[10])
    if ret == "return bytes(packet).upper()":
        up = True
    elif ret == "return bytes(packet)":
        up = False
    else:
        asc.fail(b[10], "buildPacket: unrecognised return")
    F += [("a_build_big", big), ("a_build_fmt", fm), ("a_build_args", coq_list(tr.tr(a) for a in args)),
          ("a_build_lrc_order", coq_list(coq_str(o) for o in order)), ("a_build_pieces", coq_list(pcs)),
          ("a_build_upper", coq_bool(up)), ("a_single_default", coq_bool(single))]
    out.append(record("ascii", "ascii_code", F))

    # ---- tls framer
    T = "ModbusTlsFramer"
    tr = Tr(tls, {"self._hsize", "len(self._buffer)", "message.function_code", "result.function_code"})
    h = template(tls, tls.func(T, "__init__"), """
self._buffer = b''
self._header = HOLE_hdr
self._hsize = HOLE_hsize
self.decoder = decoder
self.client = client
""")
    keys = [k for k, _ in hdr_dict(tls, h["HOLE_hdr"])]
    F = [("s_hsize", coq_z(core.const_int(tls, h["HOLE_hsize"]))), ("s_hdr_keys", coq_list(coq_str(k) for k in keys))]
    h2 = template(tls, tls.func(T, "advanceFrame"), "self._buffer = b''\nself._header = HOLE_hdr\n")
    if [k for k, _ in hdr_dict(tls, h2["HOLE_hdr"])] != keys:
        tls.fail(h2["HOLE_hdr"], "advanceFrame: header literal differs from __init__")
    template(tls, tls.func(T, "resetFrame"), "self._buffer = b''\n")
    h = template(tls, tls.func(T, "isFrameReady"), "return HOLE_ready\n")
    F += [("s_ready", tr.tr_bool(h["HOLE_ready"]))]
    h = template(tls, tls.func(T, "checkFrame"), """
if self.isFrameReady():
    if HOLE_complete:
        return True
return False
""")
    F += [("s_cf_complete", tr.tr_bool(h["HOLE_complete"]))]
    template(tls, tls.func(T, "addToFrame"), "self._buffer += message\n")
    template(tls, tls.func(T, "getRawFrame"), "return self._buffer\n")
    h = template(tls, tls.func(T, "getFrame"), "return self._buffer[HOLE_lo:]\n")
    F += [("s_get_lo", tr.tr(h["HOLE_lo"])), ("s_populate", populate(tls, tls.func(T, "populateResult")))]
    s = Skel(tls, tls.func(T, "processIncomingPacket"), tr, [])
    skel, single = s.run(PREFIX)
    template(tls, tls.func(T, "_process"), PROCESS)
    F += [("s_skel", skel)]
    b = clean(tls.func(T, "buildPacket").body)
    if len(b) != 4 or ast.unparse(b[0]) != "data = message.encode()" or ast.unparse(b[2]) != "packet += data" \
            or ast.unparse(b[3]) != "return packet":
        tls.fail(tls.func(T, "buildPacket"), "buildPacket: unrecognised shape")
    fnode, args = pack_call(tls, b[1], "packet")
    big, fm = fmt_term(tls, fnode, str_const(tls, fnode, consts))
    F += [("s_build_big", big), ("s_build_fmt", fm), ("s_build_args", coq_list(tr.tr(a) for a in args)),
          ("s_single_default", coq_bool(single))]
    out.append(record("tls", "tls_code", F))

    return {"GenFramerA.v": "\n".join(out)}
