"""C13 — Client transactions end in bounded time with a result and recover."""
from . import lib_client as L
from . import lib_client_suites as S

ID = "C13"
GENERATORS = ["client", "framer_tcpascii", "framer_rtubin"]
PROP_FILE = "C13"
PROP_FILES = ["C13", "C13_tcp", "C13_rtu"]
CASE_DEPS = S.CASE_DEPS
RULE = ("real ModbusTcpClient / ModbusUdpClient / ModbusSerialClient(rtu, ascii, binary) / framer-over-TCP clients over a "
        "scripted fake transport in virtual time: EVERY script of the ten peer behaviours (full, exception, nothing, k of n "
        "bytes, garbage, wrong unit, stale, late, OSError, close) of length retries+1 for retries 0 and 1 x 4 flag settings x 8 "
        "client kinds, sampled scripts for retries 2, 3 and the default (all length-3 scripts in the thorough tier), request type / "
        "unit / initial transaction id (incl. wrap) rotating, each followed by a healthy follow-up transaction; plus special "
        "histories (every request type, broadcast, refused connect, not-responding device, two frames in one read, unit 0/255). "
        "A case is non-trivial when at least one of its transactions returns a decoded reply; distinct = distinct Coq case terms")
TRUSTED = [
    "generated from source on every run (Generated/GenClient.v): the retry loop of ModbusTransactionManager.execute as a "
    "statement list, `retries or 0`, Defaults.Retries/TransactionId/ReadSize, getNextTID, the tid=0 fallback, _set_adu_size, "
    "_calculate_exception_length, the min_size chain and 0x80 test of _recv, the exception tuple of _transact, RTU re-keying; "
    "the straight-line remainder of execute/_transact/_recv/Dict+Fifo managers/BaseModbusClient.execute is shape-checked (fail closed)",
    "hand-modelled, tied by correspondence only: the interpreter of the loop statements, _recv's two-phase read, decode_data per "
    "framing, int(..,16) on two bytes, the dict-shaped transaction table, ModbusTcpClient._recv's deadline loop (own suite)",
    "abstract in the model: framer + decoder (processIncomingPacket/resetFrame/buildPacket) — in correspondence cases the "
    "transitions recorded from the REAL framer during the run; in theorems named hypotheses (proc_clean, conformant_frame, framer_raises_io)",
    "the fake transports of props/lib_client.py (queue semantics of a socket / serial port / datagram socket, virtual clock)",
]
ASSUMPTIONS = [
    "deadline_progress: each iteration of ModbusTcpClient._recv's loop receives >= 1 byte or advances the clock by >= delta > 0 "
    "(Section hypothesis of C13_tcp_recv_terminates); wall-clock latency, OS socket timeouts and select are outside the model",
    "retries >= 0; handle_local_echo is False; requests are addressed with an integer unit id",
    "client.state / RTU inter-frame waiting (sendPacket's sleep loop) only consumes virtual time and is not modelled",
]
MANIFEST = {
    "text": ("Coq theorems (Props/C13.v) over the retry loop REGENERATED from transaction.py on every run and interpreted by the "
             "model: for every transport script, every prior history and every retry setting the client writes at most "
             "1 + retries frames (termination of the loop is the fuel lemma proved for the generated body), returns a reply or an "
             "error object unless the connection cannot be established (modulo the listed findings), keeps framer/table invariants "
             "so that a healthy follow-up returns its own reply, and honours retry_on_empty / retry_on_invalid. The model is run "
             "against the real TCP/UDP/serial clients on all fault scripts up to the tier's length bound in virtual time."),
    "note": ("Partial on wall clock: number of transport operations and virtual time are bounded; real latency is the runtime's. "
             "Trusted: Coq kernel, translator shape matching, fake transports, recorded framer transitions."),
    "design_ref": "DESIGN.md section 8 (C13)",
}


def suites(tier):
    out = S.client_suites(tier, "chk_c13")
    for mk in (S.suite_tcp_recv, S.suite_int16):
        try:
            out.append(mk(tier))
        except Exception as e:  # noqa: BLE001 — a crashing helper suite must not hide the client scripts
            from lib.main import Case, Suite
            out.append(Suite(mk.__name__ + "_crashed", S.IMPORTS, "chk_int16",
                             [Case("([48%N], (@None Z))", {"crash": repr(e)[:500]}, kind="crash")]))
    return out


def classify(suite, desc):
    if suite in ("scripts", "special"):
        return S.classify_case("C13", desc)
    return None


def replay_finding(f):
    w = f["witness"]
    if f["id"] == "F-C13-udp-default-timeout-blocks":
        T = dict(L.request_table())
        rig = L.Rig("udp", retries=0, timeout="default")
        o = rig.transact(T["read_holding"], 5, [("nothing", {})])
        return o["result"][0] == "hang"
    if f["id"] == "F-C13-serial-timeout0-wait-for-data-hangs":
        rig = L.Rig(w["kind"], retries=0, timeout=w["timeout"])
        o = rig.transact(L.all_requests()[w["req"]], w["unit"], [(b, dict(p)) for b, p in w["script"]])
        return o["result"][0] == "hang"
    spec = dict(w)
    spec["txs"] = [dict(req=t["req"], unit=t["unit"], script=[(b, p) for b, p in t.get("script", [])]) for t in w["txs"]]
    c = S.make_case(spec, "replay")
    if f.get("status") == "fixed":
        return bool(S.failing_txns("C13", c.desc))       # the witness must pass from now on
    return S.classify_case("C13", c.desc) == f["id"]


def replay_case(suite, desc):
    import json
    print(json.dumps(desc)[:3000])
    if "spec" not in desc:
        return True
    return S.replay_spec("C13", desc["spec"])
