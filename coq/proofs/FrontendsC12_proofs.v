(* FrontendsC12_proofs.v — C12 lemmas about the GENERATED loop / execute skeletons. *)
From PM.theories Require Import Base Ladder Frontends.
From PM.Generated Require Import GenFrontends.
From PM.proofs Require Import Frontends_proofs.
Open Scope list_scope.
Open Scope Z_scope.
Arguments step_action : simpl never.
Arguments apply_action : simpl never.

(* ------------------------------------------------------------------------------------- *)
(* Part 2 — the skeletons regenerated from pymodbus/server/{sync,async_io,asynchronous}.py *)
(* ------------------------------------------------------------------------------------- *)

(* the front-ends whose loop ends in a catch-all *)
Definition catch_all_fe (fe : frontend) : bool :=
  match fe with SyncTcp | SyncSerial | SyncUdp | AioTcp | AioUdp => true | TwTcp | TwUdp => false end.

Lemma generated_no_escape : forall fe, catch_all_fe fe = true -> no_escape_on_ordinary (fc_loop code fe).
Proof.
  intros fe Hfe b r Hr.
  destruct fe; try discriminate Hfe; destruct b;
    destruct r as [e| | | |]; try discriminate Hr; try destruct e; vm_compute; discriminate.
Qed.

(* the bare `except:` of the threaded TCP handler also contains BaseExceptions *)
Lemma sync_tcp_contains_everything : forall b r, step_action (fc_loop code SyncTcp) b (Some r) <> Escape.
Proof. intros b r; destruct b; destruct r as [e| | | |]; try destruct e; vm_compute; discriminate. Qed.

(* asyncio: task cancellation is caught as well *)
Lemma aio_contains_cancel : forall fe b, (fe = AioTcp \/ fe = AioUdp) ->
  step_action (fc_loop code fe) b (Some RCancelled) = Continue.
Proof. intros fe b [H|H]; subst; destruct b; reflexivity. Qed.

(* after an exception of the framer/decoder/execute layer the offending data is discarded or the
   connection is closed — the handler never carries on with the poisoned buffer *)
Lemma generated_recovers : forall fe b e, catch_all_fe fe = true ->
  let a := step_action (fc_loop code fe) b (Some (RPy e)) in
  a = StopReset \/ a = ResetFrame \/ a = CloseTransport.
Proof.
  intros fe b e Hfe. destruct fe; try discriminate Hfe; destruct b; destruct e; vm_compute; tauto.
Qed.

(* the execute()/_execute() ladders: every exception class is turned into a Modbus exception
   response (or silence, for a missing unit under ignore_missing_slaves) *)
Lemma generated_exec_policy : forall fe e,
  first_match (xs_ladder (fc_exec code fe)) (RPy e) =
  Some (match e with NoSuchSlaveExc => XIgnoreOrExc 11 | _ => XExc 4 end).
Proof. intros fe e; destruct fe; destruct e; reflexivity. Qed.

(* the Twisted protocols (stream and, since /repo b36db33, the live datagram one): no handler at all *)
Definition tw_fe (fe : frontend) : Prop := fe = TwTcp \/ fe = TwUdp.

Lemma twisted_ladder_empty : forall fe b r, tw_fe fe -> step_action (fc_loop code fe) b (Some r) = Escape.
Proof. intros fe b r [H|H]; subst; destruct b; reflexivity. Qed.

Section Generated.
  Variables FS Req Resp World : Type.
  Variable E : env FS Req Resp World.
  Notation serve_step := (serve_step FS Req Resp World code E).
  Notation serve_data := (serve_data FS Req Resp World code E).
  Notation serve_event := (serve_event FS Req Resp World code E).
  Notation deliver := (deliver FS Req Resp World E).
  Notation callback := (callback FS Req Resp World E).
  Notation fargs_for := (fargs_for FS Req Resp World E).

  Lemma total_generated : forall fe c sv k i, catch_all_fe fe = true ->
    snd (serve_event fe c sv k i) <> Escape.
  Proof. intros. apply serve_event_no_escape. apply generated_no_escape. assumption. Qed.

  (* what the framer raises on a chunk/datagram escapes dataReceived/datagramReceived; nothing is
     reset, so the same bytes are still in the buffer when the next one arrives *)
  Lemma twisted_escapes : forall fe c w cs bs ff e, tw_fe fe ->
    e_listen_only _ _ _ _ E w = false ->
    e_recv _ _ _ _ E (fargs_for (fc_loop code fe) c w (is_empty bs)) (cs_f _ cs) bs = ([], ff, Some e) ->
    serve_step fe c w cs (IData bs) =
      (w, {| cs_f := ff; cs_running := cs_running _ cs && true; cs_closed := cs_closed _ cs |}, [], Escape).
  Proof.
    intros fe c w cs bs ff e Hfe Hl Hr. unfold Frontends.serve_step.
    assert (Hp : pre_raise (fc_loop code fe) = None) by (destruct Hfe; subst; reflexivity).
    assert (Hg : ls_listen_gate (fc_loop code fe) = true) by (destruct Hfe; subst; reflexivity).
    assert (Hs : empty_skips (fc_loop code fe) = false) by (destruct Hfe; subst; reflexivity).
    assert (Hu : ls_units (fc_loop code fe) = UnitsRaw) by (destruct Hfe; subst; reflexivity).
    assert (Hlo : ls_loops (fc_loop code fe) = false) by (destruct Hfe; subst; reflexivity).
    rewrite Hp, Hg, Hl, Hs. cbn [andb]. rewrite Bool.andb_false_r.
    unfold Frontends.serve_data. rewrite Hu, Hr. cbn [Frontends.deliver option_map].
    rewrite (twisted_ladder_empty fe _ _ Hfe). unfold Frontends.apply_action. rewrite Hlo. reflexivity.
  Qed.

  (* where nothing is raised the Twisted front-ends are as good as the others *)
  Lemma twisted_partial : forall fe c w cs bs, tw_fe fe ->
    (let '(ds, ff, exn) := e_recv _ _ _ _ E (fargs_for (fc_loop code fe) c w (is_empty bs)) (cs_f _ cs) bs in
     snd (deliver (fc_exec code fe) c w ds ff exn []) = None) ->
    snd (serve_step fe c w cs (IData bs)) <> Escape.
  Proof.
    intros fe c w cs bs Hfe H. unfold Frontends.serve_step.
    assert (Hp : pre_raise (fc_loop code fe) = None) by (destruct Hfe; subst; reflexivity).
    assert (Hs : empty_skips (fc_loop code fe) = false) by (destruct Hfe; subst; reflexivity).
    assert (Hu : ls_units (fc_loop code fe) = UnitsRaw) by (destruct Hfe; subst; reflexivity).
    rewrite Hp, Hs.
    destruct (ls_listen_gate (fc_loop code fe) && e_listen_only _ _ _ _ E w); [cbn; discriminate|].
    rewrite Bool.andb_false_r.
    unfold Frontends.serve_data. rewrite Hu.
    destruct (e_recv _ _ _ _ E _ (cs_f _ cs) bs) as [[ds ff] exn].
    destruct (deliver (fc_exec code fe) c w ds ff exn []) as [[[w' f'] outs] exn'].
    cbn in H. subst exn'. cbn [snd option_map]. apply step_action_none.
  Qed.

  (* the Twisted datagram server is alive: it hands (units, single) to the framer like the stream
     protocol does, and nothing is raised before the framer is reached *)
  Lemma twisted_udp_alive :
    pre_raise (fc_loop code TwUdp) = None /\ ls_units (fc_loop code TwUdp) = UnitsRaw /\
    ls_single (fc_loop code TwUdp) = true.
  Proof. repeat split; reflexivity. Qed.
End Generated.


(* ---- constructor wiring ---------------------------------------------------------------------- *)
From PM.theories Require Import CorrFrontends.

Definition wiring_ok_b : bool :=
  forallb (fun sf : string * frontend =>
    match assoc_s (fst sf) server_wiring with
    | Some roles => forallb (fun role => match assoc_s role roles with
                                         | Some s => user_configurable s
                                         | None => false
                                         end) (required_roles (snd sf))
    | None => false
    end) servers.

Lemma wiring_ok : wiring_ok_b = true.
Proof. vm_compute. reflexivity. Qed.

Lemma configured_spec : forall s, user_configurable s = true ->
  forall A (x d : A), configured s (Some x) d = x /\ configured s None d = d.
Proof. intros s H A x d. destruct s; cbn in *; try discriminate; split; reflexivity. Qed.

Lemma server_wiring_spec : forall srv fe, In (srv, fe) servers ->
  exists roles, assoc_s srv server_wiring = Some roles /\
    forall role, In role (required_roles fe) ->
      exists s, assoc_s role roles = Some s /\
        forall A (x d : A), configured s (Some x) d = x /\ configured s None d = d.
Proof.
  intros srv fe Hin.
  pose proof wiring_ok as H. unfold wiring_ok_b in H. rewrite forallb_forall in H.
  specialize (H (srv, fe) Hin). cbn [fst snd] in H.
  destruct (assoc_s srv server_wiring) as [roles|]; [|discriminate].
  exists roles. split; [reflexivity|]. intros role Hr.
  rewrite forallb_forall in H. specialize (H role Hr).
  destruct (assoc_s role roles) as [s|]; [|discriminate].
  exists s. split; [reflexivity|]. apply configured_spec. exact H.
Qed.
