(* Props/C16.v — Asynchronous (Twisted) client matches pipelined replies by transaction id.
   ONLY statements; proofs in proofs/Async_proofs.v (generic in the code record, by induction over
   arbitrary histories) and proofs/AsyncGen_proofs.v (facts about the regenerated record and the
   refutation witnesses).  Everything below is about [GenAsync.code], the record the translator
   regenerates from twisted/__init__.py, transaction.py and constants.py on every run.
   A history is ANY list of Execute / ExecuteE / ExecuteC / Segment (reply frames) / Lost / Made /
   Close / Skip n; ExecuteE / ExecuteC are requests whose errback / callback calls protocol.execute again
   (re-entrant user code); deferreds are named by the allocation index of their transaction id.
   [plain ops] = no ExecuteE / ExecuteC in the history. *)
From PM.theories Require Import Base AsyncClient.
From PM.Generated Require Import GenAsync.
From PM.proofs Require Import Async_proofs AsyncGen_proofs.
From Coq Require Import Permutation.
Open Scope list_scope.
Open Scope N_scope.

(* the regenerated record has the increment, mask, guards, loops and exception classes the
   theorems rely on (mask 0xff, a dropped errback loop, a missing guard ... break this) *)
Theorem C16_generated_good : good_code code.
Proof. exact gen_good. Qed.
Print Assumptions C16_generated_good.

(* --- fires at most once / exactly once ----------------------------------------------------- *)

(* every deferred ever returned is, at every point of every history, in exactly one of:
   displaced from the table, pending, fired — and there exactly once (both variants) *)
Theorem C16_partition : forall v ops,
  let σ := arun code v ops (init_state code) in
  Permutation (a_lost σ ++ pending_dids σ ++ fired_dids σ) (issued σ) /\ NoDup (issued σ).
Proof. exact (partition_all_histories code gen_good). Qed.
Print Assumptions C16_partition.

Theorem C16_once : forall v ops, NoDup (fired_dids (arun code v ops (init_state code))).
Proof. exact (once_all_histories code gen_good). Qed.
Print Assumptions C16_once.

(* once the table is empty (e.g. right after connectionLost, or after the last reply) and no slot
   was ever overwritten, every deferred handed out has fired exactly once *)
Theorem C16_exactly_once : forall v ops,
  let σ := arun code v ops (init_state code) in
  a_pending σ = [] -> a_lost σ = [] -> Permutation (fired_dids σ) (issued σ) /\ NoDup (fired_dids σ).
Proof. exact (exactly_once_when_drained code gen_good). Qed.
Print Assumptions C16_exactly_once.

(* window hypothesis (fewer than 65536 tids handed out since every registered request was issued,
   checked at each Execute) => no slot is ever overwritten *)
Theorem C16_no_overwrite : forall v ops, plain ops = true -> safe_run code v ops (init_state code) = true ->
  a_lost (arun code v ops (init_state code)) = [].
Proof. exact (no_overwrite_from_init code gen_good). Qed.
Print Assumptions C16_no_overwrite.

(* --- the right reply (dictionary variant, any arrival order) ---------------------------------- *)

Theorem C16_right_reply : forall ops d tid rid,
  let σ := arun code VDict ops (init_state code) in
  In (d, OCb tid rid) (a_fired σ) -> In (d, tid) (a_sent σ).
Proof. exact (right_reply_all_histories code gen_good). Qed.
Print Assumptions C16_right_reply.

(* a reply whose tid is pending fires exactly that deferred with exactly that reply (then that
   deferred's user callback runs) *)
Theorem C16_solicited_delivered : forall σ u tid rid d p',
  dpop (a_pending σ) tid = Some (d, p') ->
  astep code VDict σ (Segment [(u, tid, rid)]) =
  react code VDict (move_fired σ p' d (OCb tid rid)) d (OCb tid rid).
Proof. exact (solicited_delivered code gen_good). Qed.
Print Assumptions C16_solicited_delivered.

(* --- distinct transaction ids ------------------------------------------------------------------ *)

Theorem C16_tid_on_wire : forall v ops d t,
  In (d, t) (a_sent (arun code v ops (init_state code))) -> t = (ac_tid_init code + d) mod 65536 /\ t < 65536.
Proof. exact (sent_tid_formula code gen_good). Qed.
Print Assumptions C16_tid_on_wire.

Theorem C16_distinct : forall v ops d1 d2 t1 t2,
  let σ := arun code v ops (init_state code) in
  (forall d, In d (outstanding σ) -> a_alloc σ - d < 65536) ->      (* window σ < 65536 *)
  In d1 (outstanding σ) -> In d2 (outstanding σ) -> d1 <> d2 ->
  In (d1, t1) (a_sent σ) -> In (d2, t2) (a_sent σ) -> t1 <> t2.
Proof. exact (distinct_in_window code gen_good). Qed.
Print Assumptions C16_distinct.

(* the property text has no window hypothesis; without it the statement is false: *)
Definition C16_distinct_full_statement : Prop := forall ops d1 d2 t,
  let σ := arun code VDict ops (init_state code) in
  In d1 (outstanding σ) -> In d2 (outstanding σ) ->
  sent_tid (a_sent σ) d1 = Some t -> sent_tid (a_sent σ) d2 = Some t -> d1 = d2.

Theorem C16_distinct_refuted :
  let σ := arun code VDict wrap_history (init_state code) in
  In 1 (outstanding σ) /\ In 65537 (outstanding σ) /\
  sent_tid (a_sent σ) 1 = Some 1 /\ sent_tid (a_sent σ) 65537 = Some 1 /\ a_lost σ = [1].
Proof. exact wrap_same_tid. Qed.
Print Assumptions C16_distinct_refuted.

(* ... and the overwritten deferred never fires, not even at connectionLost *)
Theorem C16_once_refuted :
  let σ := arun code VDict (wrap_history ++ [Reply 1 7; Lost]) (init_state code) in
  In 1 (issued σ) /\ ~ In 1 (fired_dids σ) /\ a_pending σ = [] /\ a_fired σ = [(65537, OCb 1 7)].
Proof. exact wrap_never_fires. Qed.
Print Assumptions C16_once_refuted.

Theorem C16_window_is_sharp :
  safe_run code VDict [Made; Execute; Skip 65534; Execute] (init_state code) = true /\
  safe_run code VDict wrap_history (init_state code) = false.
Proof. exact wrap_window_ok. Qed.
Print Assumptions C16_window_is_sharp.

(* --- unsolicited and duplicate replies (dictionary variant) -------------------------------------- *)

Theorem C16_unsolicited_dropped : forall ops u tid rid,
  let σ := arun code VDict ops (init_state code) in
  ~ In tid (map fst (a_pending σ)) -> astep code VDict σ (Segment [(u, tid, rid)]) = σ.
Proof. exact (unsolicited_dropped code gen_good). Qed.
Print Assumptions C16_unsolicited_dropped.

Theorem C16_duplicate_dropped : forall ops u tid rid u' rid', plain ops = true ->
  let σ := arun code VDict ops (init_state code) in
  let σ1 := astep code VDict σ (Segment [(u, tid, rid)]) in
  astep code VDict σ1 (Segment [(u', tid, rid')]) = σ1.
Proof. exact (duplicate_dropped code gen_good). Qed.
Print Assumptions C16_duplicate_dropped.

(* --- connection loss ----------------------------------------------------------------------------- *)

(* also when errbacks call execute() again while connectionLost is still running: the table ends up
   empty, nothing that had fired is forgotten, every deferred that was pending got ConnectionException *)
Theorem C16_lost : forall v σ,
  let σ' := astep code v σ Lost in
  a_pending σ' = [] /\ a_conn σ' = false /\
  (forall x, In x (a_fired σ) -> In x (a_fired σ')) /\
  (forall k d, In (k, d) (a_pending σ) -> In (d, OErr ConnectionExc) (a_fired σ')).
Proof. exact (lost_errbacks_all code gen_good). Qed.
Print Assumptions C16_lost.

Theorem C16_execute_after_lost : forall v σ, a_conn σ = false ->
  let σ' := astep code v σ Execute in
  a_pending σ' = a_pending σ /\ a_conn σ' = false /\
  a_fired σ' = a_fired σ ++ [(a_alloc σ + 1, OErr ConnectionExc)].
Proof. exact (execute_when_disconnected code gen_good). Qed.
Print Assumptions C16_execute_after_lost.

(* protocol.close() clears the flag at once: a request issued after close() fails at once, also
   before connectionLost is reported; what was outstanding is errbacked at connectionLost *)
Theorem C16_close : forall v σ,
  let σ' := astep code v σ Close in
  a_conn σ' = false /\ a_pending σ' = a_pending σ /\ a_fired σ' = a_fired σ /\ a_sent σ' = a_sent σ.
Proof. exact (close_disconnects code gen_good). Qed.
Print Assumptions C16_close.

Theorem C16_close_then_execute :
  let σ := arun code VDict [Made; Execute; Close; Execute; Lost] (init_state code) in
  a_pending σ = [] /\ a_fired σ = [(2, OErr ConnectionExc); (1, OErr ConnectionExc)].
Proof. exact close_then_execute. Qed.
Print Assumptions C16_close_then_execute.

Theorem C16_stays_lost : forall v ops σ, a_conn σ = false -> no_made ops = true ->
  a_conn (arun code v ops σ) = false.
Proof. exact (disconnected_stays code gen_good). Qed.
Print Assumptions C16_stays_lost.

(* --- limits of the unmodified code, as witnesses ---------------------------------------------------- *)

(* replies for different units coalesced into one segment: a reply for another unit than the first
   frame's is skipped and its deferred stays pending (dataReceived takes the unit filter from the
   first frame); the frames behind it are delivered (framer repair 11) *)
Theorem C16_mixed_unit_refuted :
  let σ := arun code VDict [Made; Execute; Execute; Execute; Segment [(1, 1, 11); (2, 2, 12); (1, 3, 13)]] (init_state code) in
  a_fired σ = [(1, OCb 1 11); (3, OCb 3 13)] /\ a_pending σ = [(2, 2)].
Proof. exact mixed_unit_dropped. Qed.
Print Assumptions C16_mixed_unit_refuted.

(* the unit filter exactly: a segment that starts with a reply from unit 0xFF or 0 delivers every
   reply in it (wildcard on the EXPECTED unit); one that starts with unit 1 delivers only unit 1 *)
Theorem C16_wildcard_first_delivers_all :
  let σ := arun code VDict [Made; Execute; Execute; Execute; Execute;
                            Segment [(255, 1, 11); (1, 2, 12); (0, 3, 13); (2, 4, 14)]] (init_state code) in
  a_pending σ = [] /\ a_fired σ = [(1, OCb 1 11); (2, OCb 2 12); (3, OCb 3 13); (4, OCb 4 14)].
Proof. exact wildcard_first_delivers_all. Qed.
Print Assumptions C16_wildcard_first_delivers_all.

Theorem C16_plain_unit_first_filters :
  let σ := arun code VDict [Made; Execute; Execute; Execute; Execute;
                            Segment [(1, 2, 12); (255, 1, 11); (0, 3, 13); (2, 4, 14)]] (init_state code) in
  a_pending σ = [(1, 1); (3, 3); (4, 4)] /\ a_fired σ = [(2, OCb 2 12)].
Proof. exact plain_unit_first_filters. Qed.
Print Assumptions C16_plain_unit_first_filters.

(* FIFO (serial) variant: no transaction id on the wire, so an unsolicited frame cannot be dropped;
   it is handed to the oldest pending request *)
Theorem C16_fifo_unsolicited_misdelivered :
  let σ := arun code VFifo [Made; Execute; Execute; Segment [(1, 999, 5)]] (init_state code) in
  a_fired σ = [(1, OCb 999 5)] /\ a_pending σ = [(2, 2)].
Proof. exact fifo_unsolicited. Qed.
Print Assumptions C16_fifo_unsolicited_misdelivered.

(* --- re-entrant user code --------------------------------------------------------------------------- *)

(* an errback that re-issues a request while connectionLost is draining the table: _connected is
   already False, so the new request fails at once and nothing is left behind *)
Theorem C16_reentrant_errback :
  let σ := arun code VDict [Made; ExecuteE; Execute; Lost] (init_state code) in
  a_pending σ = [] /\ a_conn σ = false /\
  a_fired σ = [(1, OErr ConnectionExc); (3, OErr ConnectionExc); (2, OErr ConnectionExc)].
Proof. exact reentrant_errback_ok. Qed.
Print Assumptions C16_reentrant_errback.

(* the order matters: with the flag cleared AFTER the loop (everything else as generated) the
   re-issued request is filed behind the snapshot being drained and never fires *)
Theorem C16_clear_first_needed :
  (let σ := arun code_clear_late VDict [Made; ExecuteE; Lost] (init_state code_clear_late) in
   a_pending σ = [(2, 2)] /\ a_conn σ = false /\ a_fired σ = [(1, OErr ConnectionExc)]) /\
  (let σ := arun code_clear_late VFifo [Made; ExecuteE; Lost] (init_state code_clear_late) in
   a_pending σ = [(2, 2)] /\ a_conn σ = false /\ a_fired σ = [(1, OErr ConnectionExc)]).
Proof. exact reentrant_errback_needs_clear_first. Qed.
Print Assumptions C16_clear_first_needed.

Theorem C16_reentrant_callback :
  let σ := arun code VDict [Made; ExecuteC; Reply 1 10; Reply 2 20] (init_state code) in
  a_pending σ = [] /\ a_fired σ = [(1, OCb 1 10); (2, OCb 2 20)] /\ a_sent σ = [(1, 1); (2, 2)].
Proof. exact reentrant_callback_ok. Qed.
Print Assumptions C16_reentrant_callback.

(* the hypotheses above are satisfiable together on a history in which deferreds really fire *)
Example C16_nonvacuous :
  let ops := [Made; Execute; Execute; Execute; Reply 3 30; Reply 1 10; Reply 9 90; Reply 1 11; Lost; Execute] in
  let σ := arun code VDict ops (init_state code) in
  plain ops = true /\ safe_run code VDict ops (init_state code) = true /\
  a_fired σ = [(3, OCb 3 30); (1, OCb 1 10); (2, OErr ConnectionExc); (4, OErr ConnectionExc)] /\
  a_pending σ = [] /\ a_lost σ = [].
Proof. exact nonvacuous_history. Qed.
Print Assumptions C16_nonvacuous.
