"""Shared harness code of C04 / C05: layouts, wire requests, driving the real
ServerDecoder + request.execute through the three front-ends' execute wrappers,
observation of responses and stores, printing of CorrExec case terms."""
import struct

from lib.coqrun import z, zlist, nat, boolean, string, lst, pairs
from lib.main import Case
from lib.pyx import pyexn

IMPORTS = ("From PM.theories Require Import Base Expr Store Exec ExecSpec ExecView CorrExec.\n"
           "From PM.Generated Require Import GenStore GenExec.\n"
           "Open Scope string_scope.")
CASE_DEPS = ["theories/CorrExec.vo", "Generated/GenStore.vo", "Generated/GenExec.vo"]
CHK_HIST = "chk_hist GenStore.code GenExec.code"
CHK_SWEEP = "chk_sweep GenStore.code GenExec.code"

TABLES = ["c", "d", "h", "i"]                     # ExecSpec.tbl order: Coils Discrete Holding Input
TBL_CTOR = {"c": "Coils", "d": "Discrete", "h": "Holding", "i": "Input"}
READ_FC = {"c": 1, "d": 2, "h": 3, "i": 4}
FC_TABLE = {1: "c", 2: "d", 3: "h", 4: "i", 5: "c", 6: "h", 15: "c", 16: "h", 22: "h", 23: "h"}
LIMITS = {1: 2000, 2: 2000, 3: 125, 4: 125, 15: 1968, 16: 123}
DIGEST_ABOVE = 300
MOD = 1000000007


# ----------------------------------------------------------------------------- layouts
# block description: ("seq", start, [vals]) | ("fill", start, n, a, b, m) | ("sp", [(k, v), ...])

def desc_cells(d):
    if d[0] == "seq":
        return [(d[1] + i, v) for i, v in enumerate(d[2])]
    if d[0] == "fill":
        _, s, n, a, b, m = d
        return [(s + i, (a * i + b) & m) for i in range(n)]
    return list(d[1])


def desc_term(d):
    if d[0] == "seq":
        return "(DSeq %s %s)" % (z(d[1]), zlist(d[2]))
    if d[0] == "fill":
        return "(DSeqFill %s)" % " ".join(z(x) for x in d[1:])
    return "(DSp %s)" % pairs(d[1])


def mk_block(d):
    from pymodbus.datastore import ModbusSequentialDataBlock, ModbusSparseDataBlock
    if d[0] in ("seq", "fill"):
        return ModbusSequentialDataBlock(d[1], [v for _, v in desc_cells(d)])
    return ModbusSparseDataBlock(dict(d[1]))


def layout_term(L):
    slots = lst("(%s, %s)" % (string(l), nat(i)) for l, i in sorted(L["slots"].items()))
    return "{| l_zero := %s; l_slots := %s; l_blocks := %s |}" % (
        boolean(L["zero"]), slots, lst(desc_term(d) for d in L["blocks"]))


def gen_block(r, table, start=None, size=None, sparse=None):
    """one block for a bit table ('c','d') or a register table ('h','i')"""
    bits = table in ("c", "d")
    m = 2 if bits else 65536
    mask = m - 1
    if sparse is None:
        sparse = r.random() < 0.3
    if start is None:
        start = r.choice([0, 1, 2, 100, 65530])
    if sparse:
        keys, k = [], start
        for _ in range(size or r.choice([1, 2, 5, 9, 14])):
            keys.append(k)
            k += r.choice([1, 1, 1, 1, 2, 3])
        if r.random() < 0.25:
            r.shuffle(keys)
        return ("sp", [(k, r.randrange(m)) for k in keys])
    if size is None:
        size = r.choice([1, 2, 9, 9, 9, 20, 125])
    if size > 40:
        return ("fill", start, size, r.choice([1, 3, 7, 12345]), r.randrange(m), mask)
    return ("seq", start, [r.randrange(m) for _ in range(size)])


def gen_layout(r, shared=None, zero=None, **kw):
    """slots: letter -> block index.  shared: None = random, else True/False"""
    if zero is None:
        zero = r.random() < 0.5
    if shared is None:
        shared = r.random() < 0.25
    if shared:
        nb = r.choice([1, 2, 3])
        order = list(range(nb)) + [r.randrange(nb) for _ in range(4 - nb)]
        r.shuffle(order)
    else:
        nb, order = 4, [0, 1, 2, 3]
    slots = dict(zip(TABLES, order))
    blocks = []
    for i in range(nb):
        owners = [t for t in TABLES if slots[t] == i]
        # a block shared between a bit table and a register table holds register-sized values
        t = "h" if any(o in ("h", "i") for o in owners) else owners[0]
        blocks.append(gen_block(r, t, **kw))
    return {"zero": zero, "slots": slots, "blocks": blocks}


DATASTORE_FAILURES = [RuntimeError, KeyError, IndexError, ValueError, AttributeError, TypeError, OSError, LookupError]


class FaultyContext(object):
    """ModbusSlaveContext whose datastore calls raise according to a plan (True = raise)."""

    def __init__(self, ctx):
        self.ctx, self.plan, self.ticks = ctx, [], 0
        self.raised = False
        self.set_done = False

    def begin(self):
        self.raised, self.set_done = False, False

    def _tick(self):
        self.ticks += 1
        if self.plan and self.plan.pop(0):
            self.raised = True
            # every class a failing datastore naturally raises (dict-, list-, file- or network-backed blocks): all of
            # them are "the datastore raised" to the server, none is "no such unit"
            raise DATASTORE_FAILURES[self.ticks % len(DATASTORE_FAILURES)]("injected datastore failure")

    def validate(self, fx, address, count=1):
        self._tick()
        return self.ctx.validate(fx, address, count)

    def getValues(self, fx, address, count=1):
        self._tick()
        return self.ctx.getValues(fx, address, count)

    def setValues(self, fx, address, values):
        self._tick()
        self.ctx.setValues(fx, address, values)
        self.set_done = True


def default_layout(zero=False):
    """ModbusSlaveContext() with its default tables: four create() blocks, 65536 zero cells from address 0"""
    return {"zero": zero, "mode": "default", "slots": {"c": 0, "d": 1, "h": 2, "i": 3},
            "blocks": [("fill", 0, 65536, 0, 0, 1), ("fill", 0, 65536, 0, 0, 1),
                       ("fill", 0, 65536, 0, 0, 65535), ("fill", 0, 65536, 0, 0, 65535)]}


def samelist_layout(r, zero=None, start=None, size=None):
    """the user pattern `init = [0]*n; ModbusSequentialDataBlock(a, init)` for every table of two contexts:
    eight blocks built from THE SAME Python list object (the model: eight distinct blocks)"""
    if zero is None:
        zero = r.random() < 0.5
    start = r.choice([0, 1]) if start is None else start
    size = r.choice([16, 40, 100]) if size is None else size
    vals = [0] * size if r.random() < 0.6 else [r.randrange(2) for _ in range(size)]
    return {"zero": zero, "mode": "samelist", "slots": {"c": 0, "d": 1, "h": 2, "i": 3},
            "blocks": [("seq", start, list(vals)) for _ in range(8)]}


def build(L):
    from pymodbus.datastore import ModbusSlaveContext, ModbusSequentialDataBlock
    s = L["slots"]
    mode = L.get("mode")
    if mode == "default":
        ctx = ModbusSlaveContext(zero_mode=True) if L["zero"] else ModbusSlaveContext()
        blocks = [ctx.store[k] for k in sorted(s, key=lambda k: s[k])]
        return FaultyContext(ctx), blocks
    if mode == "samelist":
        init = list(L["blocks"][0][2])                       # ONE list object for every block
        blocks = [ModbusSequentialDataBlock(L["blocks"][0][1], init) for _ in L["blocks"]]
    else:
        blocks = [mk_block(d) for d in L["blocks"]]
    ctx = ModbusSlaveContext(di=blocks[s["d"]], co=blocks[s["c"]], ir=blocks[s["i"]], hr=blocks[s["h"]],
                             zero_mode=L["zero"])
    if mode == "samelist":                                   # a second context over the remaining blocks
        L["_sibling"] = ModbusSlaveContext(di=blocks[5], co=blocks[4], ir=blocks[7], hr=blocks[6], zero_mode=L["zero"])
    return FaultyContext(ctx), blocks


def off(L):
    return 0 if L["zero"] else 1


def table_cells(L, t):
    """sorted protocol addresses configured in table t"""
    return sorted(k - off(L) for k, _ in desc_cells(L["blocks"][L["slots"][t]]))


def runs(addrs):
    """maximal runs of consecutive addresses -> [(lo, hi)] (inclusive)"""
    out = []
    for a in addrs:
        if out and a == out[-1][1] + 1:
            out[-1][1] = a
        else:
            out.append([a, a])
    return [tuple(x) for x in out]


# ----------------------------------------------------------------------------- wire requests
# ("read", t, addr, qty) ("wcoil", addr, word) ("wreg", addr, value) ("wcoils", addr, qty, bc, data)
# ("wregs", addr, qty, bc, data) ("mask", addr, and, or) ("rwm", ra, rq, wa, wq, wbc, data) ("other", fc, junk)

def wire_fc(w):
    return {"read": lambda: READ_FC[w[1]], "wcoil": lambda: 5, "wreg": lambda: 6, "wcoils": lambda: 15,
            "wregs": lambda: 16, "mask": lambda: 22, "rwm": lambda: 23, "other": lambda: w[1]}[w[0]]()


def pdu_of(w):
    k = w[0]
    if k == "read":
        return bytes([READ_FC[w[1]]]) + struct.pack(">HH", w[2], w[3])
    if k == "wcoil":
        return b"\x05" + struct.pack(">HH", w[1], w[2])
    if k == "wreg":
        return b"\x06" + struct.pack(">HH", w[1], w[2])
    if k == "wcoils":
        return b"\x0f" + struct.pack(">HHB", w[1], w[2], w[3]) + bytes(w[4])
    if k == "wregs":
        return b"\x10" + struct.pack(">HHB", w[1], w[2], w[3]) + bytes(w[4])
    if k == "mask":
        return b"\x16" + struct.pack(">HHH", w[1], w[2], w[3])
    if k == "rwm":
        return b"\x17" + struct.pack(">HHHHB", w[1], w[2], w[3], w[4], w[5]) + bytes(w[6])
    return bytes([w[1]]) + bytes(w[2])


def wire_term(w):
    k = w[0]
    if k == "read":
        return "WRead %s %s %s" % (TBL_CTOR[w[1]], z(w[2]), z(w[3]))
    if k == "wcoil":
        return "WWriteCoil %s %s" % (z(w[1]), z(w[2]))
    if k == "wreg":
        return "WWriteReg %s %s" % (z(w[1]), z(w[2]))
    if k == "wcoils":
        return "WWriteCoils %s %s %s %s" % (z(w[1]), z(w[2]), z(w[3]), zlist(w[4]))
    if k == "wregs":
        return "WWriteRegs %s %s %s %s" % (z(w[1]), z(w[2]), z(w[3]), zlist(w[4]))
    if k == "mask":
        return "WMask %s %s %s" % (z(w[1]), z(w[2]), z(w[3]))
    if k == "rwm":
        return "WRWM %s %s %s %s %s %s" % (z(w[1]), z(w[2]), z(w[3]), z(w[4]), z(w[5]), zlist(w[6]))
    return "WOther %s" % z(w[1])


SCALARS = ["address", "count", "value", "byte_count", "and_mask", "or_mask", "read_address", "read_count",
           "write_address", "write_count", "write_byte_count"]


def attrs_of(request):
    """the attribute record of a decoded request object (absent attributes read 0 / [])"""
    d = request.__dict__
    a = {"fc": int(request.function_code)}
    for s in SCALARS:
        a[s] = int(d.get(s, 0) or 0)
    a["values"] = [int(v) for v in (d.get("values") or [])]
    a["write_registers"] = [int(v) for v in (d.get("write_registers") or [])]
    return a


def attrs_term(a):
    return ("{| r_fc := %s; " % z(a["fc"]) + "; ".join("r_%s := %s" % (s, z(a[s])) for s in SCALARS) +
            "; r_values := %s; r_write_registers := %s |}" % (zlist(a["values"]), zlist(a["write_registers"])))


RESP_FIELDS = {
    "ReadCoilsResponse": [("L", "bits")], "ReadDiscreteInputsResponse": [("L", "bits")],
    "ReadHoldingRegistersResponse": [("L", "registers")], "ReadInputRegistersResponse": [("L", "registers")],
    "ReadWriteMultipleRegistersResponse": [("L", "registers")],
    "WriteSingleCoilResponse": [("Z", "address"), ("Z", "value")],
    "WriteSingleRegisterResponse": [("Z", "address"), ("Z", "value")],
    "WriteMultipleCoilsResponse": [("Z", "address"), ("Z", "count")],
    "WriteMultipleRegistersResponse": [("Z", "address"), ("Z", "count")],
    "MaskWriteRegisterResponse": [("Z", "address"), ("Z", "and_mask"), ("Z", "or_mask")],
}


def observe(resp):
    """canonical observation of a response object: ('E', fc, code) | (cls, fc, [fields])"""
    from pymodbus.pdu import ExceptionResponse
    if isinstance(resp, ExceptionResponse):
        return ("E", int(resp.function_code), int(resp.exception_code))
    name = type(resp).__name__
    fields = []
    for kind, attr in RESP_FIELDS.get(name, []):
        v = getattr(resp, attr)
        fields.append(("L", [int(x) for x in v]) if kind == "L" else ("Z", int(v)))
    return (name, int(resp.function_code), fields)


def obs_term(o):
    if o[0] == "E":
        return "OExc %s %s" % (z(o[1]), z(o[2]))
    args = lst(("VL " + zlist(v)) if k == "L" else ("VZ " + z(v)) for k, v in o[2])
    return "ORsp %s %s %s" % (string(o[0]), z(o[1]), args)


class _NS(object):
    pass


def front_ends():
    """the execute wrappers of the three server front-ends, called unbound on a stand-in handler"""
    import pymodbus.server.sync as sync_mod
    import pymodbus.server.async_io as aio_mod
    fes = [("sync", sync_mod.ModbusBaseRequestHandler.execute), ("async_io", aio_mod.ModbusBaseRequestHandler.execute)]
    try:
        import pymodbus.server.asynchronous as tw_mod
        fes.append(("twisted-tcp", tw_mod.ModbusTcpProtocol._execute))
    except Exception:  # noqa: BLE001 — Twisted not importable: two front-ends are still covered
        pass
    return fes


def make_handler(fctx):
    from pymodbus.datastore import ModbusServerContext
    h = _NS()
    h.sent = []
    h.server = _NS()
    h.server.context = ModbusServerContext(slaves=fctx, single=True)
    h.server.broadcast_enable = False
    h.server.ignore_missing_slaves = False
    h.factory = _NS()
    h.factory.store = h.server.context
    h.factory.ignore_missing_slaves = False
    h.send = lambda m, *a: h.sent.append(m)
    h._send = lambda m, *a: h.sent.append(m)
    return h


_DECODER = []


def decode_outcome(w):
    """real ServerDecoder on the PDU bytes -> (request object | None, 'ok' | 'none' | exception class name)"""
    from pymodbus.factory import ServerDecoder
    if not _DECODER:
        _DECODER.append(ServerDecoder())
    try:
        req = _DECODER[0].decode(pdu_of(w))
    except Exception as e:  # noqa: BLE001 — the exception class is the observation
        return None, pyexn(e)
    return (req, "ok") if req is not None else (None, "none")


def decode(w):
    return decode_outcome(w)[0]


def adus(pdu, uid=1, tid=7):
    """the same PDU framed for the socket, RTU and ASCII framers (hand-built ADUs)"""
    import binascii
    from pymodbus.utilities import computeCRC, computeLRC
    body = bytes([uid]) + pdu
    return [("socket", struct.pack(">HHHB", tid, 0, len(pdu) + 1, uid) + pdu),
            ("rtu", body + struct.pack(">H", computeCRC(body))),
            ("ascii", b":" + binascii.hexlify(body + bytes([computeLRC(body)])).upper() + b"\r\n")]


def decode_via_framer(w, which):
    """the request object a server-side framer delivers for this PDU, or None if that framer delivers
    nothing for it (e.g. RTU frame-size oracle vs an inconsistent byte count): the caller then falls back
    to the bare ServerDecoder"""
    from pymodbus.factory import ServerDecoder
    from pymodbus.framer.socket_framer import ModbusSocketFramer
    from pymodbus.framer.rtu_framer import ModbusRtuFramer
    from pymodbus.framer.ascii_framer import ModbusAsciiFramer
    name, adu = adus(pdu_of(w))[which % 3]
    cls = {"socket": ModbusSocketFramer, "rtu": ModbusRtuFramer, "ascii": ModbusAsciiFramer}[name]
    got = []
    try:
        cls(ServerDecoder()).processIncomingPacket(adu, got.append, unit=[1], single=True)
    except Exception:  # noqa: BLE001 — framing robustness is C06/C07/C12, not this property
        return None, name
    if len(got) != 1:
        return None, name
    return got[0], name


def digest(vals):
    acc = 0
    for i, v in enumerate(vals):
        acc += (i + 1) * (int(v) + 1)
    return acc


def dump_blocks(blocks, near_keys=()):
    out = []
    for b in blocks:
        cells = [(int(k), int(v)) for k, v in list(b)]
        if len(cells) <= DIGEST_ABOVE:
            out.append(("F", cells))
        else:
            d = dict(cells)
            near = sorted(set(k for k in near_keys if k in d))[:60]
            out.append(("D", len(cells), digest(v for _, v in cells), [(k, d[k]) for k in near]))
    return out


def dump_term(ds):
    return "HDump " + lst(("DFull " + pairs(d[1])) if d[0] == "F" else
                          ("DDigest %s %s %s" % (z(d[1]), z(d[2]), pairs(d[3]))) for d in ds)


def touched(w, o):
    """block-level addresses worth showing in a digest dump"""
    ks = []
    if w[0] == "rwm":
        spans = [(w[1], w[2]), (w[3], w[4])]
    elif w[0] == "read":
        spans = [(w[2], w[3])]
    elif w[0] in ("wcoils", "wregs"):
        spans = [(w[1], w[2])]
    elif w[0] == "other":
        spans = []
    else:
        spans = [(w[1], 1)]
    for a, n in spans:
        n = min(n, 2100)
        for k in (a - 1, a, a + 1, a + n - 2, a + n - 1, a + n, a + n + 1):
            ks += [k + o, k]
    return ks


class History(object):
    """runs a history of wire requests on one real context, recording the case items"""

    def __init__(self, L, fe_index=0, framers=False):
        self.L = L
        self.framers = framers
        self.fctx, self.blocks = build(L)
        self.h = make_handler(self.fctx)
        self.fes = front_ends()
        self.fe = fe_index
        self.items, self.desc = [], []
        self.near = []
        self.n_ok_write = self.n_ok_read = self.n_exc = 0
        self.last_obs = None

    def request(self, w):
        """returns False if the PDU never became a request object (recorded as HUndecoded)"""
        req, how = decode_outcome(w)
        if req is None:
            self.items.append("HUndecoded (%s) %s" % (wire_term(w), "DecodedNone" if how == "none" else "(DecodeRaised %s)" % how))
            self.desc.append({"wire": list(w), "undecoded": how})
            self.last_obs = ("Undecoded", how)
            return False
        via = "ServerDecoder"
        if self.framers:
            # same PDU through a real framer; the object it delivers is the one that gets executed
            r2, fname = decode_via_framer(w, self.fe)
            if r2 is not None:
                req, via = r2, fname
        a = attrs_of(req)
        name, fn = self.fes[self.fe % len(self.fes)]
        self.fe += 1
        self.fctx.begin()
        n0 = len(self.h.sent)
        try:
            fn(self.h, req)
            escaped = None
        except Exception as e:  # noqa: BLE001 — an exception escaping the front-end wrapper is an observation
            escaped = pyexn(e)
        if escaped is not None:
            o = ("Escaped-" + escaped, 0, [])
        elif len(self.h.sent) != n0 + 1:
            o = ("Responses-%d" % (len(self.h.sent) - n0), 0, [])
        else:
            o = observe(self.h.sent[-1])
        # the bytes the server would put on the wire for this response
        pdu = [-1]
        if escaped is None and len(self.h.sent) == n0 + 1:
            try:
                rp = self.h.sent[-1]
                pdu = list(bytes([rp.function_code]) + rp.encode())
            except Exception:  # noqa: BLE001 — a response that cannot be encoded
                pdu = [-1]
        self.last_obs = o
        self.last_terms = (wire_term(w), attrs_term(a), obs_term(o), zlist(pdu))
        self.items.append("HReq (%s) %s (%s) %s %s" % (wire_term(w), attrs_term(a), obs_term(o),
                                                       boolean(self.fctx.raised), zlist(pdu)))
        self.desc.append({"wire": list(w), "front_end": name, "decoded_by": via, "attrs": a, "response": list(o), "response_pdu": bytes(pdu).hex() if pdu != [-1] else None,
                          "faulted": self.fctx.raised, "set_done_before_fault": self.fctx.raised and self.fctx.set_done})
        self.near += touched(w, off(self.L))
        if o[0] == "E":
            self.n_exc += 1
        elif w[0] in ("read",):
            self.n_ok_read += 1
        else:
            self.n_ok_write += 1
        return True

    def dump(self):
        ds = dump_blocks(self.blocks, self.near)
        self.items.append(dump_term(ds))
        self.desc.append({"dump": [list(d[:3]) if d[0] == "D" else ["F", len(d[1])] for d in ds]})

    def case(self, plan=(), kind="history", nontrivial=None, extra=None):
        term = "(%s, (%s : list bool), %s)" % (layout_term(self.L), lst(boolean(b) for b in plan), lst(self.items))
        desc = {"layout": {k: v for k, v in self.L.items() if not k.startswith("_")},
                "plan": [bool(b) for b in plan], "items": self.desc}
        if extra:
            desc.update(extra)
        if nontrivial is None:
            nontrivial = self.n_ok_write + self.n_ok_read > 0
        return Case(term, desc, kind=kind, nontrivial=nontrivial)


# ----------------------------------------------------------------------------- request generators

def coil_bytes(r, nbytes):
    return [r.randrange(256) for _ in range(nbytes)]


def pick_range(r, L, t, maxq, valid=True):
    """(addr, qty): wholly inside table t if valid, else crossing/outside a boundary"""
    cells = table_cells(L, t)
    rs = runs([a for a in cells if 0 <= a <= 65535])
    if not rs:
        return r.choice([0, 1, 65535]), 1
    lo, hi = r.choice(rs)
    if valid:
        n = hi - lo + 1
        q = min(n, maxq, r.choice([1, 1, 2, 3, 8, 9, 16, 17, n, maxq]))
        q = max(q, 1)
        a = r.choice([lo, hi - q + 1, r.randint(lo, hi - q + 1)])
        return a, q
    q = r.choice([1, 1, 2, 3, min(maxq, 9)])
    cand = [lo - 1, lo - q, hi + 1, hi - q + 2, hi, 65535, 65535 - q + 1, 0, lo - 2]
    cand = [a for a in cand if 0 <= a <= 65535]
    cs = set(cells)
    bad = [a for a in cand if not all((a + i) in cs for i in range(q))]
    if not bad:
        return 65535, 2 if maxq >= 2 else 1
    return r.choice(bad), q


def gen_request(r, L, fc, valid=True, unknown_fcs=(9, 10, 13, 14, 18, 19, 25, 99, 127, 128, 200, 255)):
    """one wire request of function code fc (or 'other'); field values valid for the layout if asked"""
    if fc == "other":
        return ("other", r.choice(unknown_fcs), [r.randrange(256) for _ in range(r.choice([0, 1, 4]))])
    if fc in (1, 2, 3, 4):
        t = FC_TABLE[fc]
        a, q = pick_range(r, L, t, LIMITS[fc], valid)
        return ("read", t, a, q)
    if fc == 5:
        a, _ = pick_range(r, L, "c", 1, valid)
        return ("wcoil", a, r.choice([0, 0xFF00]))
    if fc == 6:
        a, _ = pick_range(r, L, "h", 1, valid)
        return ("wreg", a, r.choice([0, 1, 0xFFFF, r.randrange(65536)]))
    if fc == 15:
        a, q = pick_range(r, L, "c", LIMITS[15], valid)
        bc = (q + 7) // 8
        return ("wcoils", a, q, bc, coil_bytes(r, bc))
    if fc == 16:
        a, q = pick_range(r, L, "h", LIMITS[16], valid)
        return ("wregs", a, q, 2 * q, [r.randrange(256) for _ in range(2 * q)])
    if fc == 22:
        a, _ = pick_range(r, L, "h", 1, valid)
        return ("mask", a, r.choice([0, 0xFFFF, 0x00FF, 0xF2, r.randrange(65536)]),
                r.choice([0, 0xFFFF, 0x25, r.randrange(65536)]))
    if fc == 23:
        which = "ok" if valid else r.choice(["w", "r", "both"])
        wa, wq = pick_range(r, L, "h", 121, which in ("ok", "r"))
        ra, rq = pick_range(r, L, "h", 125, which in ("ok", "w"))
        return ("rwm", ra, rq, wa, wq, 2 * wq, [r.randrange(256) for _ in range(2 * wq)])
    raise ValueError(fc)


DATA_FCS = [1, 2, 3, 4, 5, 6, 15, 16, 22, 23]


# ----------------------------------------------------------------------------- replay / shrink

def norm_layout(L):
    """layout as loaded back from JSON -> the tuple form used by the generators"""
    L = dict(L)
    L["blocks"] = [("sp", [tuple(p) for p in d[1]]) if d[0] == "sp" else tuple(d) for d in L["blocks"]]
    return L


def rebuild(L, wires, plan=(), final_dump=True):
    h = History(L)
    h.fctx.plan = list(plan)
    for w in wires:
        h.request(tuple(w))
    if final_dump:
        h.dump()
    return h.case(plan=plan)


def shrink_history(pid, desc):
    """a smaller history that still fails the property oracle: the shortest failing prefix, then without
    the earlier requests that are not needed (each candidate is re-run on the real code)"""
    from lib import coqrun
    if desc.get("plan") or "items" not in desc:
        return None
    L = norm_layout(desc["layout"])
    wires = [it["wire"] for it in desc["items"] if "wire" in it]
    if len(wires) <= 1:
        return None
    if any(d[0] == "fill" and d[2] > 4000 for d in L["blocks"]):
        wires = wires[-6:] if len(wires) > 6 else wires      # 64K layouts: keep the shrinking cheap

    def failing(cands):
        r = coqrun.eval_cases(pid + "_shrink", IMPORTS, CHK_HIST, [c.term for c in cands], shard=50)
        return sorted(set(r["propfail"]))
    cands = [rebuild(L, wires[:k]) for k in range(1, len(wires) + 1)]
    f = failing(cands)
    if not f:
        return None
    base = wires[:f[0] + 1]
    best = cands[f[0]]
    if len(base) > 1:
        singles = [rebuild(L, base[:i] + base[i + 1:]) for i in range(len(base) - 1)]
        drop = set(failing(singles))
        keep = [w for i, w in enumerate(base) if i not in drop]
        if len(keep) < len(base):
            c = rebuild(L, keep)
            if failing([c]):
                best = c
            elif drop:
                i = min(drop)
                best = singles[i]
    d = dict(best.desc)
    d["shrunk_from_requests"] = len(wires)
    for k in ("defect", "fault_call", "fault_after_set"):
        if k in desc:
            d[k] = desc[k]
    return d
