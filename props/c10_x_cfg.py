"""C10 add-on: configuration wiring (Props/C10_cfg.v) — see props/lib_wiring.py."""
from props import lib_wiring as W

GENERATORS = W.GENERATORS
PROP_FILES = ["C10_cfg"]
CASE_DEPS = W.CASE_DEPS
TRUSTED = W.TRUSTED
ASSUMPTIONS = W.ASSUMPTIONS
suites = W.suites
classify = W.classify
replay_case = W.replay_case
