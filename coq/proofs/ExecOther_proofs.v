(* ExecOther_proofs.v — the execute() scripts of the non-datastore request classes
   (GenExecOther.code) against ExecOtherSpec: refinement inside the conformance region,
   refutation witnesses outside it, and which requests can change the counters. *)
From PM.theories Require Import Base Expr Store PduCls Pdu Device Exec ExecOther ExecOtherSpec ExecOtherView.
From PM.Generated Require GenExec GenExecOther.
From Coq Require Import ZifyBool.
Open Scope string_scope.
Open Scope list_scope.
Open Scope Z_scope.

Notation XC := GenExec.code.
Notation YC := GenExecOther.code.

Arguments Z.shiftr : simpl never.
Arguments Z.shiftl : simpl never.
Arguments Z.land : simpl never.
Arguments Z.lor : simpl never.
Arguments Z.mul : simpl never.
Arguments Z.add : simpl never.
Arguments summary_from : simpl never.
Arguments reg_of_flags : simpl never.
Arguments py_pack_bitstring : simpl never.
Arguments slave_identifier : simpl never.
Arguments get_events : simpl never.

(* ModbusControlBlock always has its nine counters and sixteen diagnostic flags *)
Definition wf_dev (dv : device) : Prop :=
  length (d_counters dv) = 9%nat /\ length (d_diag dv) = 16%nat.

(* the step for wire request w from control block dv is the specification's *)
Definition refines_at (dv : device) (w : owire) : Prop :=
  exists q dv' r, obj_of_wire w = Some q /\ serve_other XC YC dv q = Some (dv', r) /\
    view_other r = Some (snd (spec_other (abs_dev dv) w)) /\
    sdev_eqb (abs_dev dv') (fst (spec_other (abs_dev dv) w)) = true /\ wf_dev dv'.

Lemma zl_eqb_refl l : zl_eqb l l = true.
Proof. induction l as [|x l IH]; [reflexivity|]. unfold zl_eqb in *. cbn. rewrite Z.eqb_refl, IH. reflexivity. Qed.

Lemma beqb_refl b : Bool.eqb b b = true.
Proof. destruct b; reflexivity. Qed.

Lemma sdev_eqb_refl s : sdev_eqb s s = true.
Proof. unfold sdev_eqb. rewrite !Z.eqb_refl, !zl_eqb_refl, !beqb_refl. reflexivity. Qed.

Ltac dev_destruct dv Hwf :=
  let cs := fresh "cs" in
  destruct dv as [cs dg ev li de pl idn]; destruct Hwf as [Hc Hd]; cbn [d_counters d_diag] in Hc, Hd;
  do 9 (destruct cs as [|? cs]; [discriminate Hc|]); destruct cs; [|discriminate Hc].

Ltac close_state :=
  unfold sdev_eqb, get_events, slave_identifier; cbn;
  rewrite ?Z2N.id by lia; rewrite ?Z.eqb_refl, ?zl_eqb_refl, ?beqb_refl; reflexivity.

Ltac finish_same Hd :=
  eexists; eexists; eexists; split; [reflexivity|]; split; [reflexivity|]; split; [reflexivity|];
  split; [apply sdev_eqb_refl|]; split; [reflexivity|exact Hd].

(* ---- FC 7, 11, 12, 17 *)
Lemma summary9_event0 c0 c1 c2 c3 c4 c5 c6 c7 :
  summary_from [c0; c1; c2; c3; c4; c5; c6; c7; 0] 1 0 = summary_from [c0; c1; c2; c3; c4; c5; c6; c7] 1 0.
Proof. reflexivity. Qed.

Theorem refines_exc_status dv : wf_dev dv -> cnt dv 8 = 0 -> refines_at dv WExcStatus.
Proof.
  intros Hwf He. dev_destruct dv Hwf. unfold cnt in He. cbn in He. subst.
  eexists; eexists; eexists. split; [reflexivity|]. split; [reflexivity|].
  split; [cbn; unfold summary; cbn [d_counters]; rewrite summary9_event0; reflexivity|].
  split; [apply sdev_eqb_refl|]. split; [reflexivity|exact Hd].
Qed.

Theorem refines_ev_counter dv : wf_dev dv -> refines_at dv WEvCounter.
Proof. intros Hwf. dev_destruct dv Hwf. finish_same Hd. Qed.

Theorem refines_ev_log dv : wf_dev dv -> refines_at dv WEvLog.
Proof. intros Hwf. dev_destruct dv Hwf. finish_same Hd. Qed.

Theorem refines_report_id dv : wf_dev dv -> refines_at dv WReportId.
Proof. intros Hwf. dev_destruct dv Hwf. finish_same Hd. Qed.

(* ---- FC 8 *)
Lemma delim_byte data :
  Z.shiftr (Z.land data 65280) 8 = Z.land (Z.shiftr data 8) 255 /\ 0 <= Z.land (Z.shiftr data 8) 255 < 256.
Proof.
  split.
  - rewrite Z.shiftr_land. reflexivity.
  - change 255 with (Z.ones 8). rewrite Z.land_ones by lia. apply Z.mod_pos_bound. reflexivity.
Qed.

(* the sub-functions where the code does what the document says, except 02 (see refines_diag_register) *)
Definition diag_proved (sub : Z) : bool :=
  (sub =? 0) || (sub =? 3) || (sub =? 4) || ((11 <=? sub) && (sub <=? 18)) || (sub =? 20).

Theorem refines_diag dv sub data : wf_dev dv -> diag_proved sub = true -> refines_at dv (WDiag sub data).
Proof.
  intros Hwf Hs. dev_destruct dv Hwf. unfold diag_proved in Hs.
  assert (Hcases : sub = 0 \/ sub = 3 \/ sub = 4 \/ sub = 11 \/ sub = 12 \/ sub = 13 \/ sub = 14 \/ sub = 15 \/
                   sub = 16 \/ sub = 17 \/ sub = 18 \/ sub = 20) by lia.
  clear Hs.
  destruct Hcases as [H|[H|[H|[H|[H|[H|[H|[H|[H|[H|[H|H]]]]]]]]]]]; subst sub.
  - finish_same Hd.
  - (* 03 change ASCII input delimiter *)
    destruct (delim_byte data) as [He Hr].
    eexists; eexists; eexists. split; [reflexivity|]. split.
    { cbn. rewrite He. replace ((0 <=? Z.land (Z.shiftr data 8) 255) && (Z.land (Z.shiftr data 8) 255 <? 256)) with true by lia.
      reflexivity. }
    split; [reflexivity|]. split; [|split; [reflexivity|exact Hd]].
    close_state.
  - (* 04 force listen only *)
    eexists; eexists; eexists. split; [reflexivity|]. split; [reflexivity|]. split; [reflexivity|].
    split; [|split; [reflexivity|exact Hd]].
    close_state.
  - finish_same Hd.
  - finish_same Hd.
  - finish_same Hd.
  - finish_same Hd.
  - finish_same Hd.
  - finish_same Hd.
  - finish_same Hd.
  - finish_same Hd.
  - (* 20 clear overrun counter *)
    eexists; eexists; eexists. split; [reflexivity|]. split; [reflexivity|]. split; [reflexivity|].
    split; [|split; [reflexivity|exact Hd]].
    close_state.
Qed.

(* 0A clear counters and diagnostic register: conforms when the event log is empty (the code wipes it too) *)
Lemma reg_of_flags_false n w : reg_of_flags (repeat false n) w = 0.
Proof. revert w. induction n as [|n IH]; intros w; [reflexivity|]. cbn [repeat]. unfold reg_of_flags; fold reg_of_flags. rewrite IH. reflexivity. Qed.

Theorem refines_clear_counters dv data : wf_dev dv -> d_events dv = [] -> refines_at dv (WDiag 10 data).
Proof.
  intros Hwf Hev. dev_destruct dv Hwf. cbn in Hev. subst.
  eexists; eexists; eexists. split; [reflexivity|]. split; [reflexivity|]. split; [reflexivity|].
  split; [|split; [reflexivity|reflexivity]].
  unfold sdev_eqb, get_events, slave_identifier; cbn.
  match goal with |- context [reg_of_flags ?l 1] => replace (reg_of_flags l 1) with 0 by reflexivity end.
  rewrite ?Z.eqb_refl, ?zl_eqb_refl, ?beqb_refl. reflexivity.
Qed.

(* ---- the region covered by the lemmas above: conforms_region minus sub-function 02 (whose
   conformance on byte-symmetric registers is checked by evaluation, see diag_register_* below)
   and minus FC 7 with a non-zero event counter *)
Definition proved_region (dv : device) (w : owire) : Prop :=
  match w with
  | WExcStatus => cnt dv 8 = 0
  | WEvCounter | WEvLog | WReportId => True
  | WDiag sub _ => diag_proved sub = true \/ (sub = 10 /\ d_events dv = [])
  | _ => False
  end.

Theorem other_refines dv w : wf_dev dv -> proved_region dv w -> refines_at dv w.
Proof.
  intros Hwf Hr. destruct w; cbn [proved_region] in Hr; try contradiction.
  - apply refines_exc_status; assumption.
  - apply refines_ev_counter; assumption.
  - apply refines_ev_log; assumption.
  - apply refines_report_id; assumption.
  - destruct Hr as [Hr|[-> He]]; [apply refines_diag; assumption|apply refines_clear_counters; assumption].
Qed.

Lemma proved_in_conforms dv w : proved_region dv w -> conforms_region (abs_dev dv) w = true.
Proof.
  destruct w; cbn [proved_region conforms_region]; intros H; try contradiction; try reflexivity.
  - cbn. lia.
  - destruct H as [H|[-> He]].
    + unfold diag_proved in H. unfold diag_defined.
      destruct (sub =? 1) eqn:E1; [lia|]. destruct (sub =? 2) eqn:E2; [lia|]. destruct (sub =? 10) eqn:E3; [lia|]. lia.
    + cbn. unfold get_events. rewrite He. reflexivity.
Qed.

(* ---- which requests can change the counters: a syntactic check of the generated scripts plus a
   lemma about the interpreter *)
Definition s_counter_free (s : sstmt) : bool :=
  match s with TReset | TSetCounter _ _ => false | _ => true end.
Definition counter_free (st : ostmt) : bool :=
  match st with
  | TS s => s_counter_free s
  | TIfEq _ _ th el => forallb s_counter_free th && forallb s_counter_free el
  | _ => true
  end.

Lemma run_s_counters Y dv s lo st dv' lo' :
  s_counter_free st = true -> run_s Y dv s lo st = Ok (dv', lo') -> d_counters dv' = d_counters dv.
Proof.
  destruct st; cbn [s_counter_free run_s]; intros Hf H; try discriminate Hf.
  - destruct (eval_d Y dv s lo d); cbn [bind] in H; [|discriminate]. injection H as <- _. reflexivity.
  - destruct (eval_d Y dv s lo d) as [v|]; cbn [bind] in H; [|discriminate].
    destruct (Store.assoc_str lo x) as [[| | | |]|]; try discriminate; destruct v; try discriminate.
    injection H as <- _. reflexivity.
  - destruct (eval_d Y dv s lo d) as [v|]; cbn [bind] in H; [|discriminate].
    destruct v; try (injection H as <- _; reflexivity).
    destruct ((0 <=? z) && (z <? 256)); [|discriminate]. injection H as <- _. reflexivity.
  - destruct (eval_d Y dv s lo d); cbn [bind] in H; [|discriminate]. injection H as <- _. reflexivity.
  - injection H as <- _. reflexivity.
Qed.

Lemma run_ss_counters Y dv s lo l :
  forallb s_counter_free l = true -> d_counters (fst (run_ss Y dv s lo l)) = d_counters dv.
Proof.
  revert dv lo. induction l as [|st l IH]; intros dv lo Hf; [reflexivity|].
  cbn [forallb] in Hf. apply andb_true_iff in Hf as [H1 H2]. cbn [run_ss].
  destruct (run_s Y dv s lo st) as [[dv' lo']|] eqn:E; [|reflexivity].
  rewrite IH by exact H2. eapply run_s_counters; eassumption.
Qed.

Theorem run_o_counters X Y sc fc dv s lo :
  forallb counter_free sc = true -> d_counters (fst (run_o X Y sc fc dv s lo)) = d_counters dv.
Proof.
  revert dv lo. induction sc as [|st k IH]; intros dv lo Hf; [reflexivity|].
  cbn [forallb] in Hf. apply andb_true_iff in Hf as [H1 H2]. destruct st; cbn [run_o counter_free] in *.
  - destruct (run_s Y dv s lo s0) as [[dv' lo']|] eqn:E; [|reflexivity].
    rewrite IH by exact H2. eapply run_s_counters; eassumption.
  - apply andb_true_iff in H1 as [Ht He].
    destruct (eval_d Y dv s lo a) as [va|]; [|reflexivity].
    destruct (eval_d Y dv s lo b) as [vb|]; [|reflexivity].
    pose proof (run_ss_counters Y dv s lo (if oval_eqb va vb then th else el)) as Hc.
    destruct (run_ss Y dv s lo (if oval_eqb va vb then th else el)) as [dv' [lo'|e]].
    + rewrite IH by exact H2. apply Hc. destruct (oval_eqb va vb); assumption.
    + apply Hc. destruct (oval_eqb va vb); assumption.
  - destruct (oenv s); [|reflexivity]. destruct (beval _ _); [reflexivity|]. apply IH. exact H2.
  - destruct (eval_args Y dv s lo args); reflexivity.
  - reflexivity.
Qed.

(* of the 25 generated scripts exactly two contain a statement that can change a counter *)
Theorem only_two_scripts_touch_counters :
  forallb (fun p => Bool.eqb (forallb counter_free (snd p))
                             (negb (String.eqb (fst p) "ClearCountersRequest" || String.eqb (fst p) "ClearOverrunCountRequest")))
          (y_scripts YC) = true.
Proof. vm_compute. reflexivity. Qed.

Theorem counters_frame dv q dv' r :
  serve_other XC YC dv q = Some (dv', r) ->
  cls_name (class_of q) <> "ClearCountersRequest" -> cls_name (class_of q) <> "ClearOverrunCountRequest" ->
  d_counters dv' = d_counters dv.
Proof.
  unfold serve_other, execute_other. intros H N1 N2.
  destruct (Store.assoc_str (y_scripts YC) (cls_name (class_of q))) as [sc|] eqn:Ea; [|discriminate].
  destruct (obj_fc q) as [fc|]; [|discriminate].
  assert (Hf : forallb counter_free sc = true).
  { pose proof only_two_scripts_touch_counters as Hall. rewrite forallb_forall in Hall.
    assert (Hin : In (cls_name (class_of q), sc) (y_scripts YC)).
    { revert Ea. generalize (y_scripts YC). induction l as [|[k v] l IHl]; cbn; [discriminate|].
      destruct (String.eqb k (cls_name (class_of q))) eqn:Ek.
      - intros Hv. injection Hv as ->. apply String.eqb_eq in Ek. subst. left. reflexivity.
      - intros Hv. right. apply IHl. exact Hv. }
    specialize (Hall _ Hin). cbn [fst snd] in Hall.
    apply String.eqb_neq in N1, N2. rewrite N1, N2 in Hall. cbn in Hall.
    destruct (forallb counter_free sc); [reflexivity|discriminate Hall]. }
  pose proof (run_o_counters XC YC sc fc dv (self_of q) [] Hf) as Hc.
  destruct (run_o XC YC sc fc dv (self_of q) []) as [dv1 [r1|e]]; injection H as <- _; exact Hc.
Qed.

(* ---- deviations from the document: witnesses evaluated on the model (and replayed on the real
   code by the other_… suites, which compare every response and control-block dump) *)
Definition dev_ex : device :=
  {| d_counters := [5; 0; 0; 3; 0; 0; 0; 2; 9]; d_diag := true :: repeat false 15;
     d_events := [[4%N]; [0%N]]; d_listen := true; d_delim := [13%N]; d_plus := repeat 0 110; d_ident := [] |}.

Definition sv (dv : device) (w : owire) : option (device * obj) :=
  match obj_of_wire w with Some q => serve_other XC YC dv q | None => None end.
Definition rsp_of (dv : device) (w : owire) : option sresp :=
  match sv dv w with Some (_, r) => view_other r | None => None end.

(* 6.7: with a non-zero event counter the "status byte" has a ninth bit (and cannot be encoded) *)
Theorem exc_status_ninth_bit : rsp_of dev_ex WExcStatus = Some (SStatus 393) /\ 255 < 393.
Proof. vm_compute. split; reflexivity. Qed.

(* 6.8/01: Restart Communications Option restarts nothing: counters, listen-only mode and event log stay *)
Theorem restart_does_nothing :
  option_map fst (sv dev_ex (WDiag 1 65280)) = Some dev_ex /\
  sc_bus_msg (fst (spec_other (abs_dev dev_ex) (WDiag 1 65280))) = 0 /\
  s_listen (fst (spec_other (abs_dev dev_ex) (WDiag 1 65280))) = false.
Proof. vm_compute. repeat split. Qed.

(* 6.8/02: the diagnostic register is sent low byte first: flag 0 arrives as 0x0100 *)
Theorem diag_register_byte_swapped :
  rsp_of dev_ex (WDiag 2 0) = Some (SDiag 2 [256]) /\
  snd (spec_other (abs_dev dev_ex) (WDiag 2 0)) = SDiag 2 [1].
Proof. vm_compute. split; reflexivity. Qed.

(* … and conforms when both bytes of the register are equal *)
Example diag_register_symmetric :
  let dv := {| d_counters := repeat 0 9; d_diag := [true; false; true; false; false; false; false; false;
                                                    true; false; true; false; false; false; false; false];
               d_events := []; d_listen := false; d_delim := [13%N]; d_plus := repeat 0 110; d_ident := [] |} in
  conforms_region (abs_dev dv) (WDiag 2 0) = true /\
  rsp_of dv (WDiag 2 0) = Some (snd (spec_other (abs_dev dv) (WDiag 2 0))).
Proof. vm_compute. split; reflexivity. Qed.

(* 6.8/0A: Clear Counters also wipes the event log *)
Theorem clear_counters_wipes_log :
  option_map (fun p => d_events (fst p)) (sv dev_ex (WDiag 10 0)) = Some [] /\
  s_events (fst (spec_other (abs_dev dev_ex) (WDiag 10 0))) = [4; 0].
Proof. vm_compute. split; reflexivity. Qed.

(* 6.8: a sub-function outside the table is answered with exception 04 (no execute method), the
   document's answer to an unsupported function is 01 *)
Theorem unknown_subfunction_is_04 : rsp_of dev_ex (WDiag 5 0) = Some (SOExc 136 4).
Proof. vm_compute. reflexivity. Qed.

(* 6.14 / 6.15 / 6.19: nothing is configured, yet the answers are normal responses *)
Theorem file_and_fifo_answered_normally :
  rsp_of dev_ex (WFifo 1246) = Some (SFifo []) /\
  snd (spec_other (abs_dev dev_ex) (WFifo 1246)) = SOExc 152 2 /\
  option_map snd (serve_other XC YC dev_ex (OFileRecs ReadFileRecordRequest
      [{| fr_ref := 6; fr_file := 4; fr_recno := 1; fr_data := []; fr_len := 2; fr_rlen := 5 |}]))
    = Some (OFileRecs ReadFileRecordResponse []) /\
  snd (spec_other (abs_dev dev_ex) (WReadFile [(6, 4, 1, 2)])) = SOExc 148 2.
Proof. vm_compute. repeat split. Qed.

(* Modbus Plus statistics: 55 words after the operation word (the tables of the Modicon guide have 54) *)
Theorem modbus_plus_55_words :
  match rsp_of dev_ex (WDiag 21 3) with Some (SDiag 21 l) => length l = 56%nat | _ => False end.
Proof. vm_compute. reflexivity. Qed.
