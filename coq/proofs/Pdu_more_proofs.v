(* Pdu_more_proofs.v — C01: dispatch over the generated factory tables, exception layout,
   struct.error on out-of-width fields, refutation witnesses. *)
From PM.theories Require Import Base Struct PduCls PduSpec Pdu CorrPdu.
From PM.Generated Require Import GenPdu.
From PM.proofs Require Import Struct_proofs Pdu_bits_proofs Pdu_proofs.
From Coq Require Import ZifyBool.
Open Scope string_scope.
Open Scope list_scope.
Open Scope Z_scope.
Ltac Zify.zify_post_hook ::= Z.to_euclidean_division_equations.

(* the specification's dispatch tables (spec_request_class, ...) are in theories/PduSpec.v *)

(* case analysis on the code, one constant at a time (no sweep): in the equal case both sides compute *)
Ltac split_code x k :=
  let E := fresh "E" in
  destruct (x =? k) eqn:E; [apply Z.eqb_eq in E; subst x; vm_compute; reflexivity|apply Z.eqb_neq in E].

Ltac neq_to_false :=
  repeat match goal with
  | H : ?x <> ?k |- context [?k =? ?x] => replace (k =? x) with false by (symmetry; apply Z.eqb_neq; congruence)
  | H : ?x <> ?k |- context [?x =? ?k] => replace (x =? k) with false by (symmetry; apply Z.eqb_neq; congruence)
  end.

Lemma lookup_fc_unfold table fc :
  lookup_fc table fc = fold_left (fun acc f => if option_eqb Z.eqb (fc_of f) (Some fc) then Some f else acc) table None.
Proof. reflexivity. Qed.

Ltac fc_codes fc :=
  split_code fc 1; split_code fc 2; split_code fc 3; split_code fc 4; split_code fc 5; split_code fc 6;
  split_code fc 7; split_code fc 8; split_code fc 11; split_code fc 12; split_code fc 15; split_code fc 16;
  split_code fc 17; split_code fc 20; split_code fc 21; split_code fc 22; split_code fc 23; split_code fc 24;
  split_code fc 43.

Theorem dispatch_server fc : lookup_fc server_function_table fc = spec_request_class fc.
Proof.
  fc_codes fc.
  unfold spec_request_class, lookup_fc, server_function_table. cbn [fold_left]. tab. cbn [option_eqb].
  neq_to_false. reflexivity.
Qed.

Theorem dispatch_client fc : lookup_fc client_function_table fc = spec_response_class fc.
Proof.
  fc_codes fc.
  unfold spec_response_class, lookup_fc, client_function_table. cbn [fold_left]. tab. cbn [option_eqb].
  neq_to_false. reflexivity.
Qed.

Ltac sub_tab :=
  repeat match goal with
  | |- context [sub_of_cls ?c] => is_constructor c; let x := eval vm_compute in (sub_of_cls c) in change (sub_of_cls c) with x
  end.

Ltac closed_eqb :=
  change (8 =? 8) with true; change (43 =? 8) with false; change (8 =? 43) with false; change (43 =? 43) with true.

Ltac sub_codes s :=
  split_code s 0; split_code s 1; split_code s 2; split_code s 3; split_code s 4; split_code s 10;
  split_code s 11; split_code s 12; split_code s 13; split_code s 14; split_code s 15; split_code s 16;
  split_code s 17; split_code s 18; split_code s 19; split_code s 20; split_code s 21.

Theorem subdispatch_server fc sub : lookup_sub server_sub_function_table fc sub = spec_request_subclass fc sub.
Proof.
  destruct (fc =? 8) eqn:E8; [apply Z.eqb_eq in E8; subst fc; sub_codes sub|apply Z.eqb_neq in E8].
  - unfold spec_request_subclass, lookup_sub, server_sub_function_table. cbn [fold_left]. tab. sub_tab.
    cbn [option_eqb]. closed_eqb. cbn [andb]. neq_to_false. reflexivity.
  - destruct (fc =? 43) eqn:E43; [apply Z.eqb_eq in E43; subst fc|apply Z.eqb_neq in E43].
    + split_code sub 14.
      unfold spec_request_subclass, lookup_sub, server_sub_function_table. cbn [fold_left]. tab. sub_tab.
      cbn [option_eqb]. closed_eqb. cbn [andb]. neq_to_false. reflexivity.
    + unfold spec_request_subclass, lookup_sub, server_sub_function_table. cbn [fold_left]. tab. sub_tab.
      cbn [option_eqb]. neq_to_false. cbn [andb]. reflexivity.
Qed.

Theorem subdispatch_client fc sub : lookup_sub client_sub_function_table fc sub = spec_response_subclass fc sub.
Proof.
  destruct (fc =? 8) eqn:E8; [apply Z.eqb_eq in E8; subst fc; sub_codes sub|apply Z.eqb_neq in E8].
  - unfold spec_response_subclass, lookup_sub, client_sub_function_table. cbn [fold_left]. tab. sub_tab.
    cbn [option_eqb]. closed_eqb. cbn [andb]. neq_to_false. reflexivity.
  - destruct (fc =? 43) eqn:E43; [apply Z.eqb_eq in E43; subst fc|apply Z.eqb_neq in E43].
    + split_code sub 14.
      unfold spec_response_subclass, lookup_sub, client_sub_function_table. cbn [fold_left]. tab. sub_tab.
      cbn [option_eqb]. closed_eqb. cbn [andb]. neq_to_false. reflexivity.
    + unfold spec_response_subclass, lookup_sub, client_sub_function_table. cbn [fold_left]. tab. sub_tab.
      cbn [option_eqb]. neq_to_false. cbn [andb]. reflexivity.
Qed.

(* ---- exception responses --------------------------------------------------------------- *)

Lemma in_zrange : forall n lo x, lo <= x < lo + Z.of_nat n -> In x (zrange lo n).
Proof.
  induction n as [|n IH]; intros lo x H; [lia|].
  cbn [zrange]. destruct (Z.eq_dec x lo) as [->|Hne]; [now left|right]. apply IH. lia.
Qed.

Lemma exc_bits fc : 128 < fc < 256 -> Z.land fc 127 = fc - 128 /\ Z.lor (fc - 128) 128 = fc.
Proof.
  intros H.
  assert (G : forallb (fun f => (Z.land f 127 =? f - 128) && (Z.lor (f - 128) 128 =? f)) (zrange 129 127) = true)
    by (vm_compute; reflexivity).
  rewrite forallb_forall in G. specialize (G fc (in_zrange 127 129 fc ltac:(lia))).
  apply andb_true_iff in G as [G1 G2]. apply Z.eqb_eq in G1, G2. split; assumption.
Qed.

Lemma lor_offset fc : 0 <= fc < 128 -> Z.lor fc 128 = fc + 128.
Proof.
  intros H.
  assert (G : forallb (fun f => Z.lor f 128 =? f + 128) (zrange 0 128) = true) by (vm_compute; reflexivity).
  rewrite forallb_forall in G. specialize (G fc (in_zrange 128 0 fc ltac:(lia))). now apply Z.eqb_eq in G.
Qed.

(* ExceptionResponse(fc, ec): function_code = fc | 0x80; the PDU is [fc + 0x80; ec] *)
Theorem exception_encode fc ec : 1 <= fc < 128 -> is_u8 ec = true ->
  py_pdu (OExc fc (Z.lor fc exception_offset) ec) = Ok [Z.to_N (fc + 128); Z.to_N ec].
Proof.
  intros Hf He. change exception_offset with 128. rewrite lor_offset by lia.
  apply (enc_conf_exc fc (fc + 128) ec (MException fc ec)).
  unfold abs. cbn [abs_raw]. rewrite Z.eqb_refl. cbn [spec_wf]. unfold is_u8 in *.
  replace ((1 <=? fc) && (fc <? 128) && ((0 <=? ec) && (ec <? 256))) with true by lia. reflexivity.
Qed.

(* the client decoder turns [fc; ec] with fc strictly above 0x80 into an exception response *)
Theorem exception_decode fc ec : 128 < fc < 256 -> (ec < 256)%N ->
  py_decode_client [Z.to_N fc; ec] = Ok (OExc (fc - 128) fc (Z.of_N ec)).
Proof.
  intros Hf He. unfold py_decode_client. cbn [data0 bind]. rewrite Z2N.id by lia.
  rewrite dispatch_client. unfold spec_response_class.
  repeat match goal with |- context [fc =? ?k] => replace (fc =? k) with false by lia end.
  change client_exc_threshold with 128. replace (fc >? 128) with true by lia.
  change client_exc_mask with 127. change exception_offset with 128.
  destruct (exc_bits fc Hf) as [-> ->]. cbn [skipn decode_into data0 bind]. reflexivity.
Qed.

(* 0x80 itself is not an exception response (strict comparison) and is no function code *)
Theorem exception_decode_0x80 rest : py_decode_client (128%N :: rest) = Raise ModbusExc.
Proof. reflexivity. Qed.

(* ---- struct.error on fields that do not fit their wire width --------------------------- *)

Lemma enc_words_raises l : all_u16 l = false -> enc_words l = Raise StructError.
Proof.
  induction l as [|v t IH]; intros H; [discriminate H|].
  cbn [all_u16 forallb] in H. cbn [enc_words]. unfold pk. rewrite pack_cons.
  destruct (is_u16 v) eqn:E.
  - rewrite pack1_H by exact E. cbn [bind pack]. rewrite IH by exact H. reflexivity.
  - rewrite pack1_H_raises by exact E. reflexivity.
Qed.

Ltac pk_case :=
  match goal with
  | |- context [pack1 true FH ?v] =>
      let E := fresh "E" in destruct (is_u16 v) eqn:E;
      [rewrite (pack1_H v) by exact E | rewrite (pack1_H_raises v) by exact E]
  | |- context [pack1 true FB ?v] =>
      let E := fresh "E" in destruct (is_u8 v) eqn:E;
      [rewrite (pack1_B v) by exact E | rewrite (pack1_B_raises v) by exact E]
  end; cbn [bind].

Theorem encode_rejects_fixed c a m :
  abs_raw (OFixed c a) = Some m -> spec_wf m = false -> py_pdu (OFixed c a) = Raise StructError.
Proof.
  intros Hr Hw.
  destruct c; cbn [abs_raw] in Hr; try discriminate Hr;
  unfold at2, at3 in Hr;
  repeat match type of Hr with context [assoc_str ?k a] => destruct (assoc_str k a) eqn:? ; try discriminate Hr end;
  try (match type of Hr with context [?s =? 14] => destruct (s =? 14) eqn:E14; [apply Z.eqb_eq in E14; subst s|discriminate Hr] end);
  try discriminate Hr;
  injection Hr as <-; cbn [spec_wf] in Hw;
  open_pdu; unfold enc_fixed; tab; cbn [bind attr_values];
  repeat match goal with E : assoc_str _ a = Some _ |- _ => rewrite E; clear E end; cbn [bind];
  rewrite ?pack_cons, ?pack_nil;
  repeat (first [pk_case | rewrite (pack1_B 14) by reflexivity; cbn [bind]]);
  try reflexivity;
  repeat match goal with E : _ = true |- _ => rewrite E in Hw; clear E end; discriminate Hw.
Qed.

Theorem encode_rejects_regs c regs m :
  abs_raw (ORegsRsp c regs) = Some m -> spec_wf m = false -> py_pdu (ORegsRsp c regs) = Raise StructError.
Proof.
  intros Hr Hw.
  destruct c; cbn [abs_raw] in Hr; try discriminate Hr; injection Hr as <-; cbn [spec_wf] in Hw;
  open_pdu; replace (zlen regs * 2) with (2 * len regs) by (unfold zlen, len; lia);
  unfold int2byte; unfold pk; rewrite pack_cons, pack_nil; pk_case; try reflexivity;
  try rewrite E in Hw; cbn [andb] in Hw; rewrite enc_words_raises by exact Hw; reflexivity.
Qed.

(* ---- refutations (witnesses confirmed against the real classes, see findings/C01.json) --- *)

Theorem fifo_encode_refuted :
  exists o m, abs o = Some m /\ class_of o = ReadFifoQueueResponse /\ py_pdu o <> Ok (spec_pdu m).
Proof. exists (OFifoRsp [4660; 22136]), (MReadFifoRsp [4660; 22136]). repeat split; vm_compute; discriminate. Qed.

Definition decoded_matches (m : msg) (r : res obj) : bool :=
  match r with
  | Ok o => cls_eqb (class_of o) (spec_class m) && match abs o with Some d => msg_matches m d | None => false end
  | Raise _ => false
  end.

Theorem fifo_decode_refuted :
  exists m, spec_wf m = true /\ decoded_matches m (py_decode false (spec_pdu m)) = false.
Proof. exists (MReadFifoRsp [4660; 22136]). split; vm_compute; reflexivity. Qed.

Theorem file_response_encode_refuted :
  exists o m, abs o = Some m /\ class_of o = ReadFileRecordResponse /\ py_pdu o <> Ok (spec_pdu m).
Proof.
  exists (OFileRecs ReadFileRecordResponse [mk_frec 0 0 [13; 254; 0; 32]%N 2 5]), (MReadFileRsp [[3582; 32]]).
  repeat split; vm_compute; discriminate.
Qed.

Theorem slave_id_decode_refuted :
  exists m, spec_wf m = true /\ decoded_matches m (py_decode false (spec_pdu m)) = false.
Proof. exists (MReportSlaveIdRsp [17; 34]%N true). split; vm_compute; reflexivity. Qed.

Theorem diag_request_decode_refuted :
  exists m, spec_wf m = true /\ py_decode true (spec_pdu m) = Raise StructError.
Proof. exists (MDiagReq 0 [1; 2]). split; vm_compute; reflexivity. Qed.
