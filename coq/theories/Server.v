(* Server.v — executable model of the execute/send path of the pymodbus server front-ends
   (server/sync.py, server/async_io.py, server/asynchronous.py) and of the framer's unit
   filter (framer/__init__.py _validate_unit_id).

   The framer is abstracted away: the model's input is the list of requests the framer
   DELIVERED to the handler callback.  Each carries its transaction id, unit id, function
   code, the sender (0 for a stream) and an abstract effect [rq_exec : S -> S * res rsp]
   (what `request.execute(context)` does to a unit's datastore and what it returns or
   raises).  The output is the list of responses handed to the transport plus the per-unit
   stores.  Stores are an arbitrary type [S].

   What is NOT written here: the conditions, the except ladder, which fields are copied and
   what gates the send.  Those are the [skel] records and the [server_code] record that
   gen/gen_server.py regenerates from the source on every run (Generated/GenServer.v).
   No proofs in this file. *)
From PM.theories Require Import Base.
Open Scope list_scope.
Open Scope Z_scope.

(* ---------------------------------------------------------------- conditions *)

Inductive cnd :=
| CTrue | CFalse
| CBcastEnable                 (* self.server.broadcast_enable *)
| CIgnoreMissing               (* <owner>.ignore_missing_slaves *)
| CUnitIs (k : Z)              (* request.unit_id == k *)
| CBroadcastVar                (* the local variable `broadcast` *)
| CShouldRespond               (* message.should_respond *)
| CSingle                      (* single *)
| CInUnits (k : Z)             (* k in units *)
| CHdrInUnits                  (* self._header['uid'] in units *)
| CAnd (a b : cnd) | COr (a b : cnd) | CNot (a : cnd)
| CIf (c a b : cnd).           (* if c: return a ... return b *)

Record cenv := {
  ce_bcast_enable : bool; ce_ignore : bool; ce_single : bool;
  ce_uid : Z; ce_bvar : bool; ce_respond : bool; ce_units : list Z
}.

Definition zmem (k : Z) (l : list Z) : bool := existsb (Z.eqb k) l.

Fixpoint ceval (e : cenv) (c : cnd) : bool :=
  match c with
  | CTrue => true | CFalse => false
  | CBcastEnable => ce_bcast_enable e
  | CIgnoreMissing => ce_ignore e
  | CUnitIs k => ce_uid e =? k
  | CBroadcastVar => ce_bvar e
  | CShouldRespond => ce_respond e
  | CSingle => ce_single e
  | CInUnits k => zmem k (ce_units e)
  | CHdrInUnits => zmem (ce_uid e) (ce_units e)
  | CAnd a b => ceval e a && ceval e b
  | COr a b => ceval e a || ceval e b
  | CNot a => negb (ceval e a)
  | CIf c a b => if ceval e c then ceval e a else ceval e b
  end.

(* ---------------------------------------------------------------- generated records *)

Inductive arm :=
| ArmNoSlave (ignore : cnd) (code : Z)   (* except NoSuchSlaveException: if ignore: return; response = doException(code) *)
| ArmAny (code : Z).                     (* except Exception: response = doException(code) *)

Record skel := {
  sk_bcast : option cnd;       (* test of the broadcast branch; None: the front-end has none *)
  sk_ladder : list arm;        (* except clauses in source order *)
  sk_send_guard : cnd;         (* condition around copy + send (`if not broadcast:`) *)
  sk_copy_tid : bool;          (* response.transaction_id = request.transaction_id *)
  sk_copy_uid : bool;          (* response.unit_id = request.unit_id *)
  sk_send_gate : cnd;          (* condition inside send (`if message.should_respond:`) *)
  sk_append0 : cnd;            (* handle(): when 0 is appended to the unit list given to the framer *)
  sk_passes_units : bool       (* processIncomingPacket is given the unit list at all *)
}.

Record server_code := {
  sc_exc_offset : Z;           (* ExceptionResponse.ExceptionOffset *)
  sc_dflt_tid : Z;             (* Defaults.TransactionId: tid of a freshly built response *)
  sc_dflt_uid : Z;             (* Defaults.UnitId: unit id of a freshly built response *)
  sc_single_key : Z;           (* Defaults.UnitId: the key of the only context in single mode *)
  sc_unit_filter : cnd         (* _validate_unit_id *)
}.

(* ---------------------------------------------------------------- requests, responses *)

(* what request.execute returned: function code byte, should_respond, exception code if any *)
Record rsp := { rs_fc : Z; rs_respond : bool; rs_code : option Z }.

(* what reaches the transport *)
Record out := { o_tid : Z; o_uid : Z; o_fc : Z; o_code : option Z; o_dest : Z }.

Record scfg := { cf_single : bool; cf_bcast : bool; cf_ignore : bool }.

Section Model.
Variable S : Type.

Record dreq := {
  rq_tid : Z; rq_uid : Z; rq_fc : Z; rq_dest : Z;
  rq_exec : S -> S * res rsp
}.

Definition units := list (Z * S).      (* ModbusServerContext._slaves, in dict order *)

Fixpoint u_get (l : units) (k : Z) : option S :=
  match l with
  | [] => None
  | (k', s) :: t => if k' =? k then Some s else u_get t k
  end.

Fixpoint u_set (l : units) (k : Z) (v : S) : units :=
  match l with
  | [] => []
  | (k', s) :: t => if k' =? k then (k', v) :: t else (k', s) :: u_set t k v
  end.

Definition u_keys (l : units) : list Z := map fst l.     (* context.slaves() *)

Variable C : server_code.

(* context[slave]: single mode maps every id to Defaults.UnitId *)
Definition ctx_key (cfg : scfg) (u : Z) : Z := if cf_single cfg then sc_single_key C else u.

(* request.execute(context[k]); None = NoSuchSlaveException from the lookup *)
Definition exec_on (cfg : scfg) (l : units) (k : Z) (rq : dreq) : option (units * res rsp) :=
  match u_get l (ctx_key cfg k) with
  | None => None
  | Some s => let '(s', r) := rq_exec rq s in Some (u_set l (ctx_key cfg k) s', r)
  end.

(* for unit_id in context.slaves(): response = request.execute(context[unit_id]) *)
Fixpoint bcast_loop (cfg : scfg) (ks : list Z) (l : units) (rq : dreq) (last : option rsp)
  : units * option rsp * option pyexn :=
  match ks with
  | [] => (l, last, None)
  | k :: t =>
      match exec_on cfg l k rq with
      | None => (l, last, Some NoSuchSlaveExc)
      | Some (l', Ok r) => bcast_loop cfg t l' rq (Some r)
      | Some (l', Raise e) => (l', last, Some e)
      end
  end.

Definition exc_rsp (fc code : Z) : rsp :=
  {| rs_fc := Z.lor fc (sc_exc_offset C); rs_respond := true; rs_code := Some code |}.

Inductive lres := LReturn | LResp (r : rsp) | LEscape (e : pyexn).

Fixpoint run_ladder (env : cenv) (arms : list arm) (fc : Z) (e : pyexn) : lres :=
  match arms with
  | [] => LEscape e
  | ArmNoSlave ign code :: t =>
      if pyexn_eqb e NoSuchSlaveExc
      then (if ceval env ign then LReturn else LResp (exc_rsp fc code))
      else run_ladder env t fc e
  | ArmAny code :: _ => LResp (exc_rsp fc code)
  end.

Definition mkenv (cfg : scfg) (uid : Z) (bvar resp : bool) (us : list Z) : cenv :=
  {| ce_bcast_enable := cf_bcast cfg; ce_ignore := cf_ignore cfg; ce_single := cf_single cfg;
     ce_uid := uid; ce_bvar := bvar; ce_respond := resp; ce_units := us |}.

(* the tail of execute(): [if guard:] copy ids; send(response) *)
Definition finish (sk : skel) (cfg : scfg) (rq : dreq) (bvar : bool) (l : units) (resp : option rsp)
  : units * list out * option pyexn :=
  if ceval (mkenv cfg (rq_uid rq) bvar true []) (sk_send_guard sk) then
    match resp with
    | None => (l, [], Some OtherExc)            (* UnboundLocalError: `response` never assigned *)
    | Some r =>
        if ceval (mkenv cfg (rq_uid rq) bvar (rs_respond r) []) (sk_send_gate sk)
        then (l, [{| o_tid := if sk_copy_tid sk then rq_tid rq else sc_dflt_tid C;
                     o_uid := if sk_copy_uid sk then rq_uid rq else sc_dflt_uid C;
                     o_fc := rs_fc r; o_code := rs_code r; o_dest := rq_dest rq |}], None)
        else (l, [], None)
    end
  else (l, [], None).

(* execute(request): new stores, what is sent, exception escaping to the framer's caller *)
Definition respond (sk : skel) (cfg : scfg) (l : units) (rq : dreq) : units * list out * option pyexn :=
  let bvar := match sk_bcast sk with
              | Some c => ceval (mkenv cfg (rq_uid rq) false true []) c
              | None => false
              end in
  let '(l1, resp, exn) :=
    if bvar then bcast_loop cfg (u_keys l) l rq None
    else match exec_on cfg l (rq_uid rq) rq with
         | None => (l, None, Some NoSuchSlaveExc)
         | Some (l', Ok r) => (l', Some r, None)
         | Some (l', Raise e) => (l', None, Some e)
         end in
  match exn with
  | None => finish sk cfg rq bvar l1 resp
  | Some e =>
      match run_ladder (mkenv cfg (rq_uid rq) bvar true []) (sk_ladder sk) (rq_fc rq) e with
      | LReturn => (l1, [], None)
      | LResp r => finish sk cfg rq bvar l1 (Some r)
      | LEscape e' => (l1, [], Some e')
      end
  end.

(* the callback applied to every delivered request in turn; an escaping exception ends the read *)
Fixpoint serve (sk : skel) (cfg : scfg) (l : units) (rqs : list dreq) : units * list out * option pyexn :=
  match rqs with
  | [] => (l, [], None)
  | rq :: t =>
      let '(l1, o1, e1) := respond sk cfg l rq in
      match e1 with
      | Some e => (l1, o1, Some e)
      | None => let '(l2, o2, e2) := serve sk cfg l1 t in (l2, o1 ++ o2, e2)
      end
  end.

(* ---------------------------------------------------------------- the framer side *)

(* the unit list handle() gives to processIncomingPacket *)
Definition unit_list (sk : skel) (cfg : scfg) (hosted : list Z) : list Z :=
  if ceval (mkenv cfg 0 false true hosted) (sk_append0 sk) then hosted ++ [0] else hosted.

(* _validate_unit_id(units, single) for a frame whose header carries [uid] *)
Definition unit_filter (us : list Z) (single : bool) (uid : Z) : bool :=
  ceval {| ce_bcast_enable := false; ce_ignore := false; ce_single := single;
           ce_uid := uid; ce_bvar := false; ce_respond := true; ce_units := us |} (sc_unit_filter C).

(* is a well-formed frame for [uid] handed to execute()?  Raise TypeError: the entry point
   calls processIncomingPacket without the unit argument *)
Definition accepts (sk : skel) (cfg : scfg) (hosted : list Z) (uid : Z) : res bool :=
  if sk_passes_units sk
  then Ok (unit_filter (unit_list sk cfg hosted) (cf_single cfg) uid)
  else Raise TypeError.

End Model.

Arguments rq_tid {S}. Arguments rq_uid {S}. Arguments rq_fc {S}. Arguments rq_dest {S}.
Arguments rq_exec {S}.
