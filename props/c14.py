"""C14 — Predicted reply length equals the length the server really sends."""
import struct

from lib import common
from lib.coqrun import z, boolean, string, lst
from lib.main import Case, Suite

ID = "C14"
GENERATORS = ["sizes"]
PROP_FILE = "C14"
CASE_DEPS = ["theories/CorrSizes.vo", "Generated/GenSizes.vo"]
RULE = ("suite pdu: every request class with get_response_pdu_size, EVERY quantity (bits 1..2000 for FC1/FC2, "
        "registers 1..125 for FC3/FC4/FC23, plus 0 and limit+1), all 17 diagnostic sub-function classes, echo data "
        "of 1..125 words; prediction is taken on the client-side object, then its encoding is decoded by the real "
        "ServerDecoder, executed on a real slave context and the response encoded.  suite recv: 5 framers x request "
        "classes x quantities around boundaries x {normal, exception} replies: the real ModbusTransactionManager "
        "runs against a scripted byte-stream transport holding the frame that the server-side framer built; "
        "observed = the sizes passed to recv; before the cases of a framing ANOTHER client object of the process has had a request to the same unit id go unanswered (its list of silent units must stay its own).  non-trivial = the class predicts and the quantity is legal; "
        "distinct = distinct Coq case terms.  pdu window cases: blocks with base 1, 4, 40 and FC1/2/3/4/23 windows "
        "inside, touching and past the block end.  suite tcp: the same request set through the real ModbusTcpClient "
        "(select + socket.recv) over a socketpair, unit ids 5 and 200; diagnostic classes are enumerated by "
        "introspection of the real module")
TRUSTED = [
    "generated from source on every run (Generated/GenSizes.v): every get_response_pdu_size body, base_adu_size "
    "table, _calculate_response_length/_calculate_exception_length arithmetic, min_size table, the *2 ASCII rule, "
    "the < 0x80 test and the subtraction/addition of _recv",
    "modelled by hand, validated by correspondence only (coq/theories/Sizes.v): None propagation, the isinstance "
    "chains read as first-match table lookups, the two-read structure of _recv, a byte-stream transport that "
    "returns min(asked, available) bytes",
    "spec side written from the Modbus documents: spec_response_pdu_len, spec_adu_len (coq/theories/Sizes.v)",
]
ASSUMPTIONS = ["the transport is a byte stream (serial line / TLS socket) that returns at most the number of bytes asked for",
               "diagnostic data are 16-bit words (int or list of int messages)"]

IMPORTS = ("From PM.theories Require Import Base Expr Sizes CorrSizes.\n"
           "Open Scope string_scope.")

F_PLUS = "F-C14-modbusplus-size"
F_LISTEN = "F-C14-listen-only-predicts"
F_TLSEXC = "F-C14-tls-exception-reply"
F_BINESC = "F-C14-binary-escape"


def optz(v):
    return "None" if v is None else "(Some %s)" % z(v)


# ----------------------------------------------------------------------------- real classes

def mk_based_context(base, size):
    """all four blocks start at a NON-ZERO base address and hold `size` cells"""
    from pymodbus.datastore import ModbusSlaveContext, ModbusSequentialDataBlock
    return ModbusSlaveContext(di=ModbusSequentialDataBlock(base, [1, 0, 1, 1] * (size // 4) + [1] * (size % 4)),
                              co=ModbusSequentialDataBlock(base, [0, 1] * (size // 2) + [1] * (size % 2)),
                              hr=ModbusSequentialDataBlock(base, [0x1234] * size),
                              ir=ModbusSequentialDataBlock(base, [0x0102] * size), zero_mode=True)


def mk_context(n=2100):
    from pymodbus.datastore import ModbusSlaveContext, ModbusSequentialDataBlock
    return ModbusSlaveContext(di=ModbusSequentialDataBlock(0, [1, 0, 1] * (n // 3 + 1)),
                              co=ModbusSequentialDataBlock(0, [0, 1] * (n // 2 + 1)),
                              hr=ModbusSequentialDataBlock(0, [0x1234] * 300),
                              ir=ModbusSequentialDataBlock(0, [0x0102] * 300), zero_mode=True)


def reset_globals():
    from pymodbus.device import ModbusControlBlock
    mcb = ModbusControlBlock()
    mcb.ListenOnly = False
    mcb.Delimiter = '\r'


DIAG_SIMPLE = {1: "RestartCommunicationsOptionRequest", 2: "ReturnDiagnosticRegisterRequest",
               3: "ChangeAsciiInputDelimiterRequest", 10: "ClearCountersRequest",
               11: "ReturnBusMessageCountRequest", 12: "ReturnBusCommunicationErrorCountRequest",
               13: "ReturnBusExceptionErrorCountRequest", 14: "ReturnSlaveMessageCountRequest",
               15: "ReturnSlaveNoResponseCountRequest", 16: "ReturnSlaveNAKCountRequest",
               17: "ReturnSlaveBusyCountRequest", 18: "ReturnSlaveBusCharacterOverrunCountRequest",
               19: "ReturnIopOverrunCountRequest", 20: "ClearOverrunCountRequest"}


def diag_classes_of_module():
    """{sub_function_code: class} of every concrete diagnostic request class the real module defines"""
    import inspect
    import pymodbus.diag_message as dm
    out = {}
    for name, cls in inspect.getmembers(dm, inspect.isclass):
        if issubclass(cls, dm.DiagnosticStatusRequest) and isinstance(getattr(cls, "sub_function_code", None), int) \
                and cls.__module__ == dm.__name__:
            out[cls.sub_function_code] = cls
    return out


def build(q, addr=0, fill=0x1234):
    """spec-side request (tuple) -> (Coq term of q, fresh real request object)"""
    import pymodbus.bit_read_message as br
    import pymodbus.bit_write_message as bw
    import pymodbus.register_read_message as rr
    import pymodbus.register_write_message as rw
    import pymodbus.diag_message as dm
    k = q[0]
    if k == "QReadCoils":
        return "(QReadCoils %s)" % z(q[1]), br.ReadCoilsRequest(addr, q[1])
    if k == "QReadDiscreteInputs":
        return "(QReadDiscreteInputs %s)" % z(q[1]), br.ReadDiscreteInputsRequest(addr, q[1])
    if k == "QReadHolding":
        return "(QReadHolding %s)" % z(q[1]), rr.ReadHoldingRegistersRequest(addr, q[1])
    if k == "QReadInput":
        return "(QReadInput %s)" % z(q[1]), rr.ReadInputRegistersRequest(addr, q[1])
    if k == "QReadWriteRegs":
        return "(QReadWriteRegs %s)" % z(q[1]), rr.ReadWriteMultipleRegistersRequest(
            read_address=addr, read_count=q[1], write_address=addr, write_registers=[fill, 2])
    if k == "QWriteCoil":
        return "QWriteCoil", bw.WriteSingleCoilRequest(addr, True)
    if k == "QWriteRegister":
        return "QWriteRegister", rw.WriteSingleRegisterRequest(addr, fill)
    if k == "QWriteCoils":
        return "QWriteCoils", bw.WriteMultipleCoilsRequest(addr, [True, False, True] * q[1])
    if k == "QWriteRegisters":
        return "QWriteRegisters", rw.WriteMultipleRegistersRequest(addr, [fill] * q[1])
    if k == "QMaskWrite":
        return "QMaskWrite", rw.MaskWriteRegisterRequest(addr, 0xF2, 0x25)
    if k == "QDiagEcho":
        return "(QDiagEcho %s)" % z(q[1]), dm.ReturnQueryDataRequest([(fill + i) & 0xffff for i in range(q[1])] if q[1] != 1 or q[2] else fill)
    if k == "QDiagSimple":
        cls = diag_classes_of_module()[q[1]]
        return "(QDiagSimple %s)" % z(q[1]), (cls() if q[1] != 3 else cls(0x0d00))
    if k == "QDiagListenOnly":
        return "QDiagListenOnly", dm.ForceListenOnlyModeRequest()
    if k == "QPlusGet":
        return "QPlusGet", dm.GetClearModbusPlusRequest(data=3)
    if k == "QPlusClear":
        return "QPlusClear", dm.GetClearModbusPlusRequest(data=4)
    raise ValueError(q)


def msg_shape(req):
    if not hasattr(req, "message") or req.message is None:
        return "MNone"
    m = req.message
    if isinstance(m, bool) or isinstance(m, int):
        return "(MInt %s)" % z(int(m))
    if isinstance(m, list):
        return "(MList %s)" % z(len(m))
    return "MNone"


def intattr(req, name):
    v = getattr(req, name, 0)
    return int(v) if isinstance(v, int) else 0


def server_response(req, ctx, via_decoder=True):
    """what the server side makes of the request's encoding: the response object"""
    from pymodbus.factory import ServerDecoder
    wire = bytes([req.function_code]) + req.encode()
    sreq = None
    if via_decoder:
        try:
            sreq = ServerDecoder().decode(wire)
        except Exception:  # noqa: BLE001 — multi-word diagnostic data cannot be decoded server side (C01/C12)
            sreq = None
    if sreq is None or not hasattr(sreq, "execute"):     # undecodable, or a class the decoder does not know
        sreq = req.__class__.__new__(req.__class__)
        sreq.__dict__.update({k: (list(v) if isinstance(v, list) else v) for k, v in req.__dict__.items()})
    sreq.unit_id = req.unit_id
    sreq.transaction_id = req.transaction_id
    rsp = sreq.execute(ctx)
    rsp.unit_id = req.unit_id
    rsp.transaction_id = req.transaction_id
    return rsp


def pdu_case(q, ctx, label, addr=0, ctxinfo=None):
    qterm, req = build(q, addr)
    cls = type(req).__name__
    obs = "{| a_count := %s; a_read_count := %s; a_message := %s |}" % (
        z(intattr(req, "count")), z(intattr(req, "read_count")), msg_shape(req))
    pred = req.get_response_pdu_size() if hasattr(req, "get_response_pdu_size") else None
    after = msg_shape(req)
    rsp = server_response(req, ctx)
    reset_globals()
    actual = (1 + len(rsp.encode())) if rsp.should_respond else None
    normal = type(rsp).__name__ != "ExceptionResponse"
    term = ("{| pc_q := %s; pc_cls := %s; pc_obs := %s; pc_pred := %s; pc_msg_after := %s; pc_actual := %s; pc_normal := %s |}"
            % (qterm, string(cls), obs, optz(pred), after, optz(actual), boolean(normal)))
    desc = {"q": list(q), "cls": cls, "predicted": pred, "actual_pdu_len": actual, "response": type(rsp).__name__,
            "addr": addr, "context": ctxinfo}
    return Case(term, desc, kind=label, nontrivial=pred is not None and type(rsp).__name__ != "ExceptionResponse")


def pdu_requests(tier):
    qs = []
    for n in list(range(1, 2001)) + [0, 2001, 2008]:
        qs.append((("QReadCoils", n), "read-bits"))
        qs.append((("QReadDiscreteInputs", n), "read-bits"))
    for n in list(range(1, 126)) + [0, 126, 200]:
        qs.append((("QReadHolding", n), "read-regs"))
        qs.append((("QReadInput", n), "read-regs"))
        qs.append((("QReadWriteRegs", n), "read-write-regs"))
    for n in (1, 2, 5, 41):
        qs.append((("QWriteCoils", n), "write"))
        qs.append((("QWriteRegisters", n), "write"))
    qs += [(("QWriteCoil",), "write"), (("QWriteRegister",), "write"), (("QMaskWrite",), "mask-write")]
    for n in range(1, 126):
        qs.append((("QDiagEcho", n, True), "diag-echo"))
    qs.append((("QDiagEcho", 1, False), "diag-echo"))
    # every diagnostic class the real module defines (a class the model does not know shows up as a
    # QDiagSimple case whose class name disagrees with the model)
    for s in sorted(diag_classes_of_module()):
        if s not in (0, 4, 21):
            qs.append((("QDiagSimple", s), "diag-simple"))
    qs += [(("QDiagListenOnly",), "diag-listen-only"), (("QPlusGet",), "modbus-plus"), (("QPlusClear",), "modbus-plus")]
    return qs


def window_cases():
    """blocks with a non-zero base address; read windows inside, touching and past the block end
    (and before its start): whenever the server answers normally, prediction = 1 + len(encoded response)"""
    cases = []
    for base in (1, 4, 40):
        for size in (10, 64):
            ctx = mk_based_context(base, size)
            end = base + size                      # first address behind the block
            for kind in ("QReadCoils", "QReadDiscreteInputs", "QReadHolding", "QReadInput", "QReadWriteRegs"):
                for count in (1, 2, 7, 8, 9, size):
                    starts = {base, base + 1, end - count - 1, end - count, end - count + 1, end - count + base,
                              end - count + base + 1, end - 1, end, base - 1, 0}
                    for addr in sorted(a for a in starts if a >= 0):
                        cases.append(pdu_case((kind, count), ctx, "window-base%d" % base, addr,
                                              {"base": base, "size": size}))
    return cases


def suite_pdu(tier):
    ctx = mk_context()
    cases = [pdu_case(q, ctx, label) for q, label in pdu_requests(tier)]
    cases += window_cases()
    return Suite("pdu", IMPORTS, "chk_pdu", cases, shard=400)


# ----------------------------------------------------------------------------- scripted client

FRAMINGS = ["FRtu", "FAscii", "FBinary", "FTls", "FSocket"]


def framer_cls(name):
    from pymodbus.framer.rtu_framer import ModbusRtuFramer
    from pymodbus.framer.ascii_framer import ModbusAsciiFramer
    from pymodbus.framer.binary_framer import ModbusBinaryFramer
    from pymodbus.framer.tls_framer import ModbusTlsFramer
    from pymodbus.framer.socket_framer import ModbusSocketFramer
    return {"FRtu": ModbusRtuFramer, "FAscii": ModbusAsciiFramer, "FBinary": ModbusBinaryFramer,
            "FTls": ModbusTlsFramer, "FSocket": ModbusSocketFramer}[name]


def scripted_client(fname):
    from pymodbus.client.sync import BaseModbusClient
    from pymodbus.factory import ClientDecoder
    from pymodbus.utilities import ModbusTransactionState

    class Scripted(BaseModbusClient):
        def __init__(self):
            BaseModbusClient.__init__(self, framer_cls(fname)(ClientDecoder(), self), retries=0)
            self.state = ModbusTransactionState.IDLE
            self.timeout = 0
            self.silent_interval = 0
            self.last_frame_end = 0
            self.sent, self.asked, self.reply = [], [], b""

        def connect(self):
            return True

        def is_socket_open(self):
            return True

        def close(self):
            pass

        def _send(self, data):
            self.sent.append(bytes(data))
            return len(data)

        def _recv(self, size):
            self.asked.append(size)
            if size is None:
                r, self.reply = self.reply, b""
            else:
                n = max(int(size), 0)
                r, self.reply = self.reply[:n], self.reply[n:]
            return r

        def __str__(self):
            return "ScriptedClient"
    return Scripted()


def run_transaction(fname, q, ctx, addr=0, fill=0x1234, unit=5, cli=None):
    """one real client transaction against the frame the server side builds.
    -> dict(pred, frame, pdu, esc, fc, mbap, asked, left, outcome, cls, exception)"""
    from pymodbus.factory import ServerDecoder
    _, req = build(q, addr, fill)
    req.unit_id = unit
    cli = cli or scripted_client(fname)
    cli.asked, cli.sent = [], []
    # what the server does with this request (the client has not touched the object yet; the
    # prediction's rewrite of .message does not change the encoding)
    _, sreq = build(q, addr, fill)
    sreq.unit_id = unit
    sreq.transaction_id = 1
    rsp = server_response(sreq, ctx)
    reset_globals()
    rsp.transaction_id = 1
    body = rsp.encode()
    if rsp.should_respond:
        frame = framer_cls(fname)(ServerDecoder(), None).buildPacket(rsp)
    else:
        frame = b""
    pdu = 1 + len(body) if rsp.should_respond else 0
    esc = sum(1 for b in body if b in (0x7B, 0x7D)) if fname == "FBinary" else 0
    fc, mbap = -1, 0
    try:
        if fname == "FRtu":
            fc = frame[1]
        elif fname == "FAscii":
            fc = int(frame[3:5], 16)
        elif fname == "FBinary":
            fc = frame[2]
        elif fname == "FSocket":
            fc, mbap = frame[7], struct.unpack(">H", frame[4:6])[0]
        elif fname == "FTls":
            fc = frame[0]
    except (IndexError, ValueError):
        fc = -1
    pred = req.get_response_pdu_size() if hasattr(req, "get_response_pdu_size") else None
    # a second, untouched object goes through the real transaction manager
    _, req2 = build(q, addr, fill)
    req2.unit_id = unit
    cli.reply = frame
    try:
        out = cli.execute(req2)
        outcome = type(out).__name__
    except Exception as e:  # noqa: BLE001
        outcome = "raised " + type(e).__name__
    return {"pred": pred, "frame": len(frame), "pdu": pdu, "esc": esc, "fc": fc, "mbap": mbap,
            "asked": list(cli.asked), "left": len(cli.reply), "outcome": outcome,
            "cls": type(req).__name__, "exception": type(rsp).__name__ == "ExceptionResponse",
            "frame_hex": frame[:24].hex()}


def recv_case(fname, q, ctx, label, addr=0, fill=0x1234, cli=None):
    o = run_transaction(fname, q, ctx, addr, fill, cli=cli)
    term = ("{| rc_f := %s; rc_pred := %s; rc_frame := %s; rc_pdu := %s; rc_esc := %s; rc_fc := %s; "
            "rc_mbap := %s; rc_asked := %s; rc_left := %s |}"
            % (fname, optz(o["pred"]), z(o["frame"]), z(o["pdu"]), z(o["esc"]), z(o["fc"]), z(o["mbap"]),
               lst(optz(a) for a in o["asked"]), z(o["left"])))
    desc = dict(o, framing=fname, q=list(q), addr=addr, fill=fill)
    return Case(term, desc, kind="%s:%s" % (fname, label), nontrivial=o["pred"] is not None and o["frame"] > 0)


def recv_requests(r, tier):
    """(q, label, addr, fill): normal replies (addr 0) and exception replies (addr beyond the blocks)"""
    out = []
    bits = [1, 2, 7, 8, 9, 15, 16, 17, 1999, 2000] + [r.randrange(1, 2001) for _ in range(6 if tier == "quick" else 60)]
    regs = [1, 2, 3, 61, 62, 63, 124, 125] + [r.randrange(1, 126) for _ in range(4 if tier == "quick" else 40)]
    for n in bits:
        out.append((("QReadCoils", n), "read-bits", 0, 0))
        out.append((("QReadDiscreteInputs", n), "read-bits", 0, 0))
    for n in regs:
        out.append((("QReadHolding", n), "read-regs", 0, 0))
        out.append((("QReadInput", n), "read-regs", 0, 0))
        out.append((("QReadWriteRegs", n), "read-write-regs", 0, r.choice([0x1234, 0x0001, 0xfffe])))
    for n in (1, 3):
        out.append((("QWriteCoils", n), "write", 0, 0))
        out.append((("QWriteRegisters", n), "write", 0, r.choice([0x1234, 0x0001])))
    out += [(("QWriteCoil",), "write", 0, 0), (("QWriteRegister",), "write", 0, 0x0102),
            (("QMaskWrite",), "mask-write", 0, 0)]
    for s in sorted(diag_classes_of_module()):
        if s not in (0, 4, 21):
            out.append((("QDiagSimple", s), "diag", 0, 0))
    out.append((("QDiagEcho", 1, False), "diag", 0, 0x0a0b))
    out += [(("QDiagListenOnly",), "diag-listen-only", 0, 0), (("QPlusGet",), "modbus-plus", 0, 0),
            (("QPlusClear",), "modbus-plus", 0, 0)]
    # exception replies: the address range is not in the datastore / the quantity is illegal
    for k, n in (("QReadCoils", 1), ("QReadCoils", 2000), ("QReadDiscreteInputs", 9), ("QReadHolding", 1),
                 ("QReadHolding", 125), ("QReadInput", 62), ("QReadWriteRegs", 3), ("QReadHolding", 126),
                 ("QReadCoils", 2001), ("QWriteRegisters", 2), ("QWriteCoils", 1)):
        out.append(((k, n), "exception", 60000, 1))
    out += [(("QWriteCoil",), "exception", 60000, 0), (("QWriteRegister",), "exception", 60000, 1)]
    # a reply whose CRC-16 (not its body) contains a byte equal to one of the binary framer's delimiters: the sender
    # must not lengthen the frame for it (independent bitwise CRC; unit 5, FC 6 echo at address 0)
    def _crc(bs):
        c = 0xFFFF
        for b in bs:
            c ^= b
            for _ in range(8):
                c = (c >> 1) ^ 0xA001 if c & 1 else c >> 1
        return c
    found = 0
    for v in range(1, 4096):
        body = bytes([5, 6, 0, 0, v >> 8, v & 255])
        c = _crc(body)
        if ({c & 255, c >> 8} & {0x7B, 0x7D}) and not ({0x7B, 0x7D} & set(body)):
            out.append((("QWriteRegister",), "brace-crc", 0, v))
            found += 1
            if found == 4:
                break
    # data bytes equal to the binary framer's delimiters
    out += [(("QWriteRegister",), "brace-data", 0, 0x7B7D), (("QDiagEcho", 1, False), "brace-data", 0, 0x007D),
            (("QWriteRegister",), "brace-data", 1, 0x017B)]
    return out


def silent_unit_on_another_client(fname, unit=5):
    """ANOTHER client object of the same process whose request to the same unit id goes unanswered: that client's
    bookkeeping (its list of units that did not respond, which switches `_recv` to one read of the full predicted
    length) belongs to it alone and must not change how the fresh clients of the cases read their replies"""
    cli = scripted_client(fname)
    _, req = build(("QReadHolding", 1), 0, 0)
    req.unit_id = unit
    cli.reply = b""
    try:
        cli.execute(req)
    except Exception:  # noqa: BLE001 — only the side effect on process-wide state is of interest
        pass
    return list(getattr(cli.transaction, "_no_response_devices", []))


def suite_recv(tier):
    r = common.rng("C14.recv")
    ctx = mk_context()
    reqs = recv_requests(r, tier)
    cases = []
    for fname in FRAMINGS:
        for q, label, addr, fill in reqs:
            if label == "exception" or not cases:
                silent_unit_on_another_client(fname)       # (before every exception-reply case: see its docstring)
            cases.append(recv_case(fname, q, ctx, label, addr, fill))
        # ONE client object through a history: its unit stays silent once, answers the next request normally (which
        # takes it off the list of silent units again), and then replies — normally or with an exception — to the
        # request of the case: that reply must be read like any first reply (function-code probe, then the rest)
        for q, label, addr, fill in (reqs[:2] + [x for x in reqs if x[1] == "exception"][:4] + [x for x in reqs if x[1] == "read-regs"][:2]):
            cli = scripted_client(fname)
            _, rq = build(("QReadHolding", 1), 0, 0)
            rq.unit_id = 5
            cli.reply = b""
            try:
                cli.execute(rq)                     # silent
            except Exception:  # noqa: BLE001
                pass
            run_transaction(fname, ("QReadHolding", 2), ctx, 0, 0, cli=cli)      # answered normally
            cases.append(recv_case(fname, q, ctx, "after-silent-then-answered:" + label, addr, fill, cli=cli))
    return Suite("recv", IMPORTS, "chk_recv", cases, shard=300)


# ----------------------------------------------------------------------------- real ModbusTcpClient

def tcp_transaction(q, ctx, addr=0, fill=0x1234, unit=5):
    """the real ModbusTcpClient (its own _send/_recv with select + socket.recv) over a socketpair whose
    peer end already holds the reply frame the server side built; only the sizes are recorded"""
    import socket
    from pymodbus.client.sync import ModbusTcpClient
    from pymodbus.factory import ServerDecoder
    from pymodbus.framer.socket_framer import ModbusSocketFramer

    class Recording(ModbusTcpClient):
        asked = None
        pair = None

        def connect(self):           # never dial 127.0.0.1:502; re-attach the scripted socket after a close()
            if not self.socket:
                self.socket = self.pair[0]
            return True

        def close(self):
            self.socket = None

        def _recv(self, size):
            self.asked.append(size)
            return ModbusTcpClient._recv(self, size)

    _, sreq = build(q, addr, fill)
    sreq.unit_id, sreq.transaction_id = unit, 1
    rsp = server_response(sreq, ctx)
    reset_globals()
    rsp.transaction_id = 1
    body = rsp.encode()
    frame = ModbusSocketFramer(ServerDecoder(), None).buildPacket(rsp) if rsp.should_respond else b""
    _, req = build(q, addr, fill)
    req.unit_id = unit
    pred = req.get_response_pdu_size() if hasattr(req, "get_response_pdu_size") else None
    a, b = socket.socketpair()
    cli = Recording(timeout=0.05, retries=0)
    cli.asked, cli.pair = [], (a, b)
    try:
        b.sendall(frame)
        _, req2 = build(q, addr, fill)
        req2.unit_id = unit
        try:
            out = cli.execute(req2)
            outcome = type(out).__name__
        except Exception as e:  # noqa: BLE001
            outcome = "raised " + type(e).__name__
        sent = b""
        b.setblocking(False)
        try:
            sent = b.recv(4096)
        except (BlockingIOError, OSError):
            pass
        a.setblocking(False)
        try:
            left = len(a.recv(65536))
        except (BlockingIOError, OSError):
            left = 0
    finally:
        a.close()
        b.close()
    return {"pred": pred, "frame": len(frame), "pdu": (1 + len(body)) if rsp.should_respond else 0, "esc": 0,
            "fc": frame[7] if len(frame) > 7 else -1, "mbap": struct.unpack(">H", frame[4:6])[0] if len(frame) > 5 else 0,
            "asked": list(cli.asked), "left": left, "outcome": outcome, "cls": type(req).__name__,
            "exception": type(rsp).__name__ == "ExceptionResponse", "frame_hex": frame[:24].hex(),
            "request_sent": len(sent)}


def tcp_case(q, ctx, label, addr=0, fill=0x1234, unit=5):
    o = tcp_transaction(q, ctx, addr, fill, unit)
    term = ("{| rc_f := FSocket; rc_pred := %s; rc_frame := %s; rc_pdu := %s; rc_esc := 0; rc_fc := %s; "
            "rc_mbap := %s; rc_asked := %s; rc_left := %s |}"
            % (optz(o["pred"]), z(o["frame"]), z(o["pdu"]), z(o["fc"]), z(o["mbap"]),
               lst(optz(x) for x in o["asked"]), z(o["left"])))
    desc = dict(o, framing="FSocket", q=list(q), addr=addr, fill=fill, tcp_client=True, unit=unit)
    return Case(term, desc, kind="tcp:%s" % label, nontrivial=o["frame"] > 0)


def suite_tcp(tier):
    r = common.rng("C14.tcp")
    ctx = mk_context()
    cases = [tcp_case(q, ctx, label, addr, fill) for q, label, addr, fill in recv_requests(r, tier)]
    # unit ids >= 0x80: the byte before the function code must not be mistaken for it
    for q, label, addr, fill in recv_requests(r, tier)[:40:3]:
        cases.append(tcp_case(q, ctx, label + "-unit200", addr, fill, unit=200))
    return Suite("tcp", IMPORTS, "chk_recv", cases, shard=300)


def suites(tier):
    return [suite_pdu(tier), suite_recv(tier), suite_tcp(tier)]


# ----------------------------------------------------------------------------- findings / replay

def classify(suite, desc):
    if desc.get("cls") == "GetClearModbusPlusRequest":
        return F_PLUS
    if desc.get("cls") == "ForceListenOnlyModeRequest":
        return F_LISTEN
    if suite in ("recv", "tcp"):
        if desc.get("framing") == "FTls" and desc.get("exception"):
            return F_TLSEXC
        # the open finding: '{' / '}' bytes of the reply BODY are doubled by the sender (overhead 5 + one byte each);
        # a frame that is longer for any other reason (e.g. doubled CRC bytes) is a different violation
        if desc.get("framing") == "FBinary" and desc.get("esc", 0) > 0 and \
                desc.get("frame") == 5 + desc.get("pdu", 0) + desc.get("esc", 0):
            return F_BINESC
    return None


def replay_finding(f):
    """True when the witness still fails on the implementation."""
    w = f.get("witness", {})
    ctx = mk_context()
    if f["id"] in (F_PLUS, F_LISTEN):
        q = tuple(w["q"])
        _, req = build(q)
        pred = req.get_response_pdu_size()
        rsp = server_response(req, ctx)
        reset_globals()
        actual = (1 + len(rsp.encode())) if rsp.should_respond else None
        return pred != actual
    if f["id"] in (F_TLSEXC, F_BINESC):
        o = run_transaction(w["framing"], tuple(w["q"]), ctx, w.get("addr", 0), w.get("fill", 0))
        asked = None if any(a is None for a in o["asked"]) else sum(o["asked"])
        return not (asked == o["frame"] and o["left"] == 0)
    if f.get("status") == "note":
        return None
    return None


def replay_case(suite, desc):
    import json
    from lib import coqrun
    print(json.dumps(desc)[:1500])
    ctx = mk_context()
    if suite == "pdu":
        ci = desc.get("context")
        c = pdu_case(tuple(desc["q"]), mk_based_context(ci["base"], ci["size"]) if ci else ctx, "replay",
                     desc.get("addr", 0), ci)
        r = coqrun.eval_cases("C14_replay", IMPORTS, "chk_pdu", [c.term])
    elif desc.get("tcp_client"):
        c = tcp_case(tuple(desc["q"]), ctx, "replay", desc.get("addr", 0), desc.get("fill", 0), desc.get("unit", 5))
        r = coqrun.eval_cases("C14_replay", IMPORTS, "chk_recv", [c.term])
    else:
        c = recv_case(desc["framing"], tuple(desc["q"]), ctx, "replay", desc.get("addr", 0), desc.get("fill", 0))
        r = coqrun.eval_cases("C14_replay", IMPORTS, "chk_recv", [c.term])
    print("now:", json.dumps(c.desc)[:1500], r)
    return bool(r["propfail"] or r["errors"])


MANIFEST = {
    "text": ("Coq theorems (Props/C14.v), closed under the global context, about the expression trees regenerated "
             "from every get_response_pdu_size body and from transaction.py on every run: for every predicting request "
             "class and EVERY quantity (unbounded Z, ceil(n/8) by linear arithmetic with div/mod, no sweep) the "
             "prediction equals the spec's normal-response PDU length; per framing the client's expected length and "
             "exception length equal the spec ADU length (ASCII doubling included); the two reads of _recv sum to "
             "the frame length for normal and exception replies on RTU/ASCII/binary (and normal on TLS). Refuted and "
             "delimited: Modbus Plus statistics (117/7 vs 115/5), Force Listen Only (predicts a reply that is never "
             "sent), exception replies over the TLS framing, binary frames whose data contain 0x7B/0x7D. "
             "Also: the TCP path (8-byte read, then length - 2) for normal and exception replies, and every diagnostic "
             "request class enumerated from diag_message.py (a new class fails closed). "
             "Correspondence: all quantities 1..2000 / 1..125 on the real classes through ServerDecoder/execute/encode, the "
             "real ModbusTcpClient over a socketpair, "
             "and the sizes the real transaction manager asks of a scripted transport for all five framers."),
    "note": ("Trusted: Coq kernel; translator shape matching; the hand-written glue (None handling, isinstance chains "
             "as table lookups, byte-stream transport) validated by correspondence evaluated with vm_compute; the "
             "spec-side length tables transcribed from the Modbus documents."),
    "design_ref": "DESIGN.md section 8 (C14)",
}
