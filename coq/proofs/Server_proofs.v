(* Server_proofs.v — lemmas about the server execute/send model interpreted on the
   GENERATED skeletons (Generated/GenServer.v).  [respond_spec] shows that on every
   generated front-end skeleton [Server.respond] computes the direct-style function
   [spec_respond]; a dropped id copy, an inverted ignore test, a reordered except ladder, a
   changed exception code or a missing guard in any one front-end makes its case of that
   lemma fail.  Everything else is proved about [spec_respond]. *)
From PM.theories Require Import Base Server.
From PM.Generated Require Import GenServer.
From Coq Require Import ZifyBool.
Open Scope list_scope.
Open Scope Z_scope.

Definition all_fes : list skel := map snd frontends.
(* front-ends whose configuration has broadcast_enable *)
Definition bcast_fes : list skel := [sync_tcp; sync_udp; sync_serial; aio_tcp; aio_udp].
(* front-ends that have no such option *)
Definition nobcast_fes : list skel := [tw_tcp; tw_udp].
(* front-ends whose send() honours should_respond *)
Definition gated_fes : list skel := [sync_tcp; sync_udp; sync_serial; aio_tcp; aio_udp; tw_tcp].
(* every entry point gives the unit list to the framer (Twisted UDP too since /repo b36db33), and every front-end
   that has broadcast_enable appends unit 0 to that list when it is set (sync UDP too since /repo 168efb6) *)

Definition has_bcast (sk : skel) : bool := match sk_bcast sk with Some _ => true | None => false end.
Definition gated (sk : skel) : bool := match sk_send_gate sk with CTrue => false | _ => true end.

Section WithStore.
Variable S : Type.
Notation units := (units S).
Notation dreq := (dreq S).

(* ------------------------------------------------------------------ direct-style spec *)

Definition sp_bcast (hb : bool) (cfg : scfg) (rq : dreq) : bool := hb && cf_bcast cfg && (rq_uid rq =? 0).

Definition the_out (rq : dreq) (r : rsp) : out :=
  {| o_tid := rq_tid rq; o_uid := rq_uid rq; o_fc := rs_fc r; o_code := rs_code r; o_dest := rq_dest rq |}.

Definition exc_of (rq : dreq) (code : Z) : rsp :=
  {| rs_fc := Z.lor (rq_fc rq) 128; rs_respond := true; rs_code := Some code |}.

Definition send_of (gate : bool) (rq : dreq) (r : rsp) : list out :=
  if gate && negb (rs_respond r) then [] else [the_out rq r].

Definition missing_outs (cfg : scfg) (rq : dreq) : list out :=
  if cf_ignore cfg then [] else [the_out rq (exc_of rq 11)].

Definition spec_respond (hb gate : bool) (cfg : scfg) (l : units) (rq : dreq) : units * list out * option pyexn :=
  if sp_bcast hb cfg rq then
    (fst (fst (bcast_loop S code cfg (u_keys S l) l rq None)), [], None)
  else match exec_on S code cfg l (rq_uid rq) rq with
       | None => (l, missing_outs cfg rq, None)
       | Some (l', Ok r) => (l', send_of gate rq r, None)
       | Some (l', Raise e) =>
           (l', if pyexn_eqb e NoSuchSlaveExc then missing_outs cfg rq else [the_out rq (exc_of rq 4)], None)
       end.

Ltac fe_spec :=
  intros cfg l rq;
  unfold respond, spec_respond, sp_bcast, finish, send_of, missing_outs, the_out, exc_of, exc_rsp;
  cbn [sk_bcast sk_ladder sk_send_guard sk_copy_tid sk_copy_uid sk_send_gate has_bcast gated
       sync_tcp sync_udp sync_serial aio_tcp aio_udp tw_tcp tw_udp
       ceval mkenv ce_bcast_enable ce_uid ce_bvar ce_ignore ce_respond run_ladder
       code sc_exc_offset sc_dflt_tid sc_dflt_uid andb negb];
  destruct (cf_bcast cfg); cbn [andb];
  [ destruct (rq_uid rq =? 0) eqn:Eu; cbn [andb negb fst snd] | ];
  try (destruct (bcast_loop S code cfg (u_keys S l) l rq None) as [[l1 resp] [e|]]; cbn [fst snd run_ladder];
       [ destruct (pyexn_eqb e NoSuchSlaveExc); [destruct (cf_ignore cfg)|]; reflexivity | reflexivity ]);
  (destruct (exec_on S code cfg l (rq_uid rq) rq) as [[l' [r|e]]|]; cbn [run_ladder negb andb];
   [ destruct (rs_respond r); reflexivity
   | destruct (pyexn_eqb e NoSuchSlaveExc); [destruct (cf_ignore cfg)|]; reflexivity
   | cbn [pyexn_eqb]; destruct (cf_ignore cfg); reflexivity ]).

Lemma sync_tcp_spec : forall cfg l rq, respond S code sync_tcp cfg l rq = spec_respond true true cfg l rq.
Proof. fe_spec. Qed.
Lemma sync_udp_spec : forall cfg l rq, respond S code sync_udp cfg l rq = spec_respond true true cfg l rq.
Proof. fe_spec. Qed.
Lemma sync_serial_spec : forall cfg l rq, respond S code sync_serial cfg l rq = spec_respond true true cfg l rq.
Proof. fe_spec. Qed.
Lemma aio_tcp_spec : forall cfg l rq, respond S code aio_tcp cfg l rq = spec_respond true true cfg l rq.
Proof. fe_spec. Qed.
Lemma aio_udp_spec : forall cfg l rq, respond S code aio_udp cfg l rq = spec_respond true true cfg l rq.
Proof. fe_spec. Qed.
Lemma tw_tcp_spec : forall cfg l rq, respond S code tw_tcp cfg l rq = spec_respond false true cfg l rq.
Proof. fe_spec. Qed.
Lemma tw_udp_spec : forall cfg l rq, respond S code tw_udp cfg l rq = spec_respond false false cfg l rq.
Proof. fe_spec. Qed.

Lemma respond_spec : forall sk, In sk all_fes -> forall cfg l rq,
  respond S code sk cfg l rq = spec_respond (has_bcast sk) (gated sk) cfg l rq.
Proof.
  intros sk H. cbv [all_fes frontends map snd] in H.
  repeat (destruct H as [<- | H];
          [ first [ exact sync_tcp_spec | exact sync_udp_spec | exact sync_serial_spec | exact aio_tcp_spec
                  | exact aio_udp_spec | exact tw_tcp_spec | exact tw_udp_spec ] | ]).
  destruct H.
Qed.

Lemma bcast_fes_all : forall sk, In sk bcast_fes -> In sk all_fes /\ has_bcast sk = true /\ gated sk = true.
Proof.
  intros sk H. cbv [bcast_fes] in H. cbv [all_fes frontends map snd In].
  repeat (destruct H as [<- | H]; [ split; [ tauto | split; reflexivity ] | ]). destruct H.
Qed.

Lemma nobcast_fes_all : forall sk, In sk nobcast_fes -> In sk all_fes /\ has_bcast sk = false.
Proof.
  intros sk H. cbv [nobcast_fes] in H. cbv [all_fes frontends map snd In].
  repeat (destruct H as [<- | H]; [ split; [ tauto | reflexivity ] | ]). destruct H.
Qed.

Lemma gated_fes_all : forall sk, In sk gated_fes -> In sk all_fes /\ gated sk = true.
Proof.
  intros sk H. cbv [gated_fes] in H. cbv [all_fes frontends map snd In].
  repeat (destruct H as [<- | H]; [ split; [ tauto | reflexivity ] | ]). destruct H.
Qed.

(* every front-end is in exactly one of the two configuration classes *)
Lemma all_fes_split : forall sk, In sk all_fes <-> In sk bcast_fes \/ In sk nobcast_fes.
Proof.
  intros sk. cbv [all_fes bcast_fes nobcast_fes frontends map snd In]. tauto.
Qed.

(* ------------------------------------------------------------------ association lists *)

Lemma u_get_set_same : forall (l : units) k v, u_get S l k <> None -> u_get S (u_set S l k v) k = Some v.
Proof.
  induction l as [|[k' s] t IH]; intros k v H; cbn in *; [congruence|].
  destruct (k' =? k) eqn:E; cbn; rewrite E; [reflexivity|]. apply IH. exact H.
Qed.

Lemma u_get_set_other : forall (l : units) k k' v, k' <> k -> u_get S (u_set S l k v) k' = u_get S l k'.
Proof.
  induction l as [|[k0 s] t IH]; intros k k' v H; cbn; [reflexivity|].
  destruct (k0 =? k) eqn:E; cbn.
  - destruct (k0 =? k') eqn:E'; [lia | reflexivity].
  - destruct (k0 =? k') eqn:E'; [reflexivity | apply IH; exact H].
Qed.

Lemma u_keys_set : forall (l : units) k v, u_keys S (u_set S l k v) = u_keys S l.
Proof.
  induction l as [|[k0 s] t IH]; intros k v; cbn; [reflexivity|].
  destruct (k0 =? k); cbn; [reflexivity|]. f_equal. apply IH.
Qed.

Lemma u_set_absent : forall (l : units) k v, u_get S l k = None -> u_set S l k v = l.
Proof.
  induction l as [|[k0 s] t IH]; intros k v H; cbn in *; [reflexivity|].
  destruct (k0 =? k); [congruence|]. f_equal. apply IH. exact H.
Qed.

Lemma u_get_in_keys : forall (l : units) k, u_get S l k <> None <-> In k (u_keys S l).
Proof.
  induction l as [|[k0 s] t IH]; intros k; cbn; [split; [congruence | tauto]|].
  destruct (k0 =? k) eqn:E.
  - split; [intros _; left; lia | congruence].
  - rewrite IH. split; [tauto | intros [H|H]; [lia | exact H]].
Qed.

(* ------------------------------------------------------------------ exec_on / bcast_loop *)

Lemma exec_on_some : forall cfg (l : units) k (rq : dreq) l' r,
  exec_on S code cfg l k rq = Some (l', r) ->
  exists s, u_get S l (ctx_key code cfg k) = Some s /\
            l' = u_set S l (ctx_key code cfg k) (fst (rq_exec rq s)) /\ r = snd (rq_exec rq s).
Proof.
  intros cfg l k rq l' r H. unfold exec_on in H.
  destruct (u_get S l (ctx_key code cfg k)) as [s|] eqn:E; [|discriminate].
  exists s. destruct (rq_exec rq s) as [s' r']. inversion H; subst. cbn. tauto.
Qed.

Lemma exec_on_none : forall cfg (l : units) k (rq : dreq),
  exec_on S code cfg l k rq = None <-> u_get S l (ctx_key code cfg k) = None.
Proof.
  intros. unfold exec_on. destruct (u_get S l (ctx_key code cfg k)) as [s|]; [|tauto].
  destruct (rq_exec rq s). split; discriminate.
Qed.

Lemma bcast_loop_keys : forall cfg ks (l : units) (rq : dreq) last,
  u_keys S (fst (fst (bcast_loop S code cfg ks l rq last))) = u_keys S l.
Proof.
  intros cfg ks. induction ks as [|k t IH]; intros l rq last; cbn; [reflexivity|].
  destruct (exec_on S code cfg l k rq) as [[l' [r|e]]|] eqn:E; cbn; try reflexivity.
  - rewrite IH. apply exec_on_some in E. destruct E as (s & _ & -> & _). apply u_keys_set.
  - apply exec_on_some in E. destruct E as (s & _ & -> & _). apply u_keys_set.
Qed.

(* ------------------------------------------------------------------ C09 on the spec *)

Lemma spec_no_escape : forall hb gate cfg l rq, snd (spec_respond hb gate cfg l rq) = None.
Proof.
  intros. unfold spec_respond. destruct (sp_bcast hb cfg rq); [reflexivity|].
  destruct (exec_on S code cfg l (rq_uid rq) rq) as [[l' [r|e]]|]; reflexivity.
Qed.

Lemma spec_at_most_one : forall hb gate cfg l rq,
  (length (snd (fst (spec_respond hb gate cfg l rq))) <= 1)%nat.
Proof.
  intros. unfold spec_respond, send_of, missing_outs. destruct (sp_bcast hb cfg rq); [cbn; lia|].
  destruct (exec_on S code cfg l (rq_uid rq) rq) as [[l' [r|e]]|]; cbn.
  - destruct (gate && negb (rs_respond r)); cbn; lia.
  - destruct (pyexn_eqb e NoSuchSlaveExc); [destruct (cf_ignore cfg)|]; cbn; lia.
  - destruct (cf_ignore cfg); cbn; lia.
Qed.

(* every transmitted response echoes the request's ids and sender; its function code is the
   request's with the exception bit, or the one request.execute returned *)
Lemma spec_echo : forall hb gate cfg l rq o,
  In o (snd (fst (spec_respond hb gate cfg l rq))) ->
  o_tid o = rq_tid rq /\ o_uid o = rq_uid rq /\ o_dest o = rq_dest rq /\
  ((o_fc o = Z.lor (rq_fc rq) 128 /\ (o_code o = Some 11 \/ o_code o = Some 4)) \/
   exists s s' r, rq_exec rq s = (s', Ok r) /\ o_fc o = rs_fc r /\ o_code o = rs_code r).
Proof.
  intros hb gate cfg l rq o. unfold spec_respond, send_of, missing_outs.
  destruct (sp_bcast hb cfg rq); [cbn; tauto|].
  destruct (exec_on S code cfg l (rq_uid rq) rq) as [[l' [r|e]]|] eqn:E; cbn.
  - apply exec_on_some in E. destruct E as (s & _ & _ & Hr).
    destruct (gate && negb (rs_respond r)); cbn; [tauto|]. intros [<-|[]]. cbn.
    repeat split. right. exists s, (fst (rq_exec rq s)), r. destruct (rq_exec rq s); cbn in *. subst. tauto.
  - destruct (pyexn_eqb e NoSuchSlaveExc); [destruct (cf_ignore cfg)|]; cbn; try tauto;
      intros [<-|[]]; cbn; tauto.
  - destruct (cf_ignore cfg); cbn; [tauto|]. intros [<-|[]]; cbn; tauto.
Qed.

Lemma spec_silence_broadcast : forall gate cfg l rq,
  cf_bcast cfg = true -> rq_uid rq = 0 -> snd (fst (spec_respond true gate cfg l rq)) = [].
Proof.
  intros gate cfg l rq Hb Hu. unfold spec_respond, sp_bcast. rewrite Hb, Hu. reflexivity.
Qed.

Lemma spec_silence_missing : forall hb gate cfg l rq,
  sp_bcast hb cfg rq = false -> u_get S l (ctx_key code cfg (rq_uid rq)) = None -> cf_ignore cfg = true ->
  spec_respond hb gate cfg l rq = (l, [], None).
Proof.
  intros hb gate cfg l rq Hb Hm Hi. unfold spec_respond. rewrite Hb.
  apply (proj2 (exec_on_none cfg l (rq_uid rq) rq)) in Hm. rewrite Hm. unfold missing_outs. rewrite Hi. reflexivity.
Qed.

Lemma spec_silence_listen_only : forall hb cfg l rq s s' r,
  sp_bcast hb cfg rq = false -> u_get S l (ctx_key code cfg (rq_uid rq)) = Some s ->
  rq_exec rq s = (s', Ok r) -> rs_respond r = false ->
  snd (fst (spec_respond hb true cfg l rq)) = [].
Proof.
  intros hb cfg l rq s s' r Hb Hs He Hr. unfold spec_respond, exec_on. rewrite Hb, Hs, He. cbn.
  unfold send_of. rewrite Hr. reflexivity.
Qed.

(* a hosted unit that answers (or whose datastore fails) gets exactly one response *)
Lemma spec_responds : forall hb gate cfg l rq s,
  sp_bcast hb cfg rq = false -> u_get S l (ctx_key code cfg (rq_uid rq)) = Some s ->
  match snd (rq_exec rq s) with
  | Ok r => rs_respond r = true
  | Raise e => e <> NoSuchSlaveExc
  end ->
  snd (fst (spec_respond hb gate cfg l rq)) =
    [the_out rq (match snd (rq_exec rq s) with Ok r => r | Raise _ => exc_of rq 4 end)].
Proof.
  intros hb gate cfg l rq s Hb Hs Hr. unfold spec_respond, exec_on. rewrite Hb, Hs.
  destruct (rq_exec rq s) as [s' [r|e]]; cbn in *.
  - unfold send_of. rewrite Hr. rewrite andb_false_r. reflexivity.
  - destruct (pyexn_eqb e NoSuchSlaveExc) eqn:E; [|reflexivity]. destruct e; cbn in E; try discriminate. congruence.
Qed.

(* ------------------------------------------------------------------ serve *)

(* the stores before each request of a served list *)
Fixpoint states (sk : skel) (cfg : scfg) (l : units) (rqs : list dreq) : list units :=
  match rqs with
  | [] => []
  | rq :: t => l :: states sk cfg (fst (fst (respond S code sk cfg l rq))) t
  end.

Definition outs_of (sk : skel) (cfg : scfg) (l : units) (rq : dreq) : list out :=
  snd (fst (respond S code sk cfg l rq)).

Lemma serve_concat : forall sk, In sk all_fes -> forall cfg rqs l,
  snd (serve S code sk cfg l rqs) = None /\
  snd (fst (serve S code sk cfg l rqs)) =
    concat (map (fun p => outs_of sk cfg (fst p) (snd p)) (combine (states sk cfg l rqs) rqs)).
Proof.
  intros sk Hin cfg rqs. induction rqs as [|rq t IH]; intros l; cbn; [tauto|].
  pose proof (respond_spec sk Hin cfg l rq) as Hs.
  pose proof (spec_no_escape (has_bcast sk) (gated sk) cfg l rq) as Hn. rewrite <- Hs in Hn.
  unfold outs_of at 1. destruct (respond S code sk cfg l rq) as [[l1 o1] e1]. cbn in Hn. subst e1. cbn [fst snd].
  destruct (IH l1) as [IH1 IH2]. destruct (serve S code sk cfg l1 t) as [[l2 o2] e2]. cbn in *. subst. tauto.
Qed.

Lemma serve_length : forall sk, In sk all_fes -> forall cfg rqs l,
  (length (snd (fst (serve S code sk cfg l rqs))) <= length rqs)%nat.
Proof.
  intros sk Hin cfg rqs. induction rqs as [|rq t IH]; intros l; cbn; [lia|].
  pose proof (respond_spec sk Hin cfg l rq) as Hs.
  pose proof (spec_no_escape (has_bcast sk) (gated sk) cfg l rq) as Hn.
  pose proof (spec_at_most_one (has_bcast sk) (gated sk) cfg l rq) as H1. rewrite <- Hs in Hn, H1.
  destruct (respond S code sk cfg l rq) as [[l1 o1] e1]. cbn in Hn, H1. subst e1.
  specialize (IH l1). destruct (serve S code sk cfg l1 t) as [[l2 o2] e2]. cbn in *.
  rewrite app_length. lia.
Qed.

(* ------------------------------------------------------------------ C09, stated on the generated skeletons *)

Definition is_bcast (sk : skel) (cfg : scfg) (rq : dreq) : bool := sp_bcast (has_bcast sk) cfg rq.

Lemma c09_at_most_one : forall sk, In sk all_fes -> forall cfg l rq,
  snd (respond S code sk cfg l rq) = None /\ (length (outs_of sk cfg l rq) <= 1)%nat.
Proof.
  intros sk H cfg l rq. unfold outs_of. rewrite (respond_spec sk H). split;
    [apply spec_no_escape | apply spec_at_most_one].
Qed.

Lemma c09_echo : forall sk, In sk all_fes -> forall cfg l rq o,
  In o (outs_of sk cfg l rq) ->
  o_tid o = rq_tid rq /\ o_uid o = rq_uid rq /\ o_dest o = rq_dest rq /\
  ((o_fc o = Z.lor (rq_fc rq) 128 /\ (o_code o = Some 11 \/ o_code o = Some 4)) \/
   exists s s' r, rq_exec rq s = (s', Ok r) /\ o_fc o = rs_fc r /\ o_code o = rs_code r).
Proof.
  intros sk H cfg l rq o. unfold outs_of. rewrite (respond_spec sk H). apply spec_echo.
Qed.

Lemma c09_echo_fc : forall sk, In sk all_fes -> forall cfg l rq o,
  (forall s s' r, rq_exec rq s = (s', Ok r) -> rs_fc r = rq_fc rq \/ rs_fc r = Z.lor (rq_fc rq) 128) ->
  In o (outs_of sk cfg l rq) -> o_fc o = rq_fc rq \/ o_fc o = Z.lor (rq_fc rq) 128.
Proof.
  intros sk H cfg l rq o Hwf Hin. destruct (c09_echo sk H cfg l rq o Hin) as (_ & _ & _ & [[Hf _]|(s & s' & r & He & Hf & _)]).
  - right. exact Hf.
  - rewrite Hf. eapply Hwf. exact He.
Qed.

Lemma c09_silence_broadcast : forall sk, In sk bcast_fes -> forall cfg l rq,
  cf_bcast cfg = true -> rq_uid rq = 0 -> outs_of sk cfg l rq = [].
Proof.
  intros sk H cfg l rq Hb Hu. destruct (bcast_fes_all sk H) as (Ha & Hh & _).
  unfold outs_of. rewrite (respond_spec sk Ha), Hh. apply spec_silence_broadcast; assumption.
Qed.

Lemma c09_silence_missing : forall sk, In sk all_fes -> forall cfg l rq,
  is_bcast sk cfg rq = false -> u_get S l (ctx_key code cfg (rq_uid rq)) = None -> cf_ignore cfg = true ->
  respond S code sk cfg l rq = (l, [], None).
Proof.
  intros sk H cfg l rq Hb Hm Hi. rewrite (respond_spec sk H). apply spec_silence_missing; assumption.
Qed.

Lemma c09_silence_listen_only : forall sk, In sk gated_fes -> forall cfg l rq s s' r,
  is_bcast sk cfg rq = false -> u_get S l (ctx_key code cfg (rq_uid rq)) = Some s ->
  rq_exec rq s = (s', Ok r) -> rs_respond r = false -> outs_of sk cfg l rq = [].
Proof.
  intros sk H cfg l rq s s' r Hb Hs He Hr. destruct (gated_fes_all sk H) as (Ha & Hg).
  unfold outs_of. rewrite (respond_spec sk Ha), Hg. eapply spec_silence_listen_only; eassumption.
Qed.

Lemma c09_responds : forall sk, In sk all_fes -> forall cfg l rq s,
  is_bcast sk cfg rq = false -> u_get S l (ctx_key code cfg (rq_uid rq)) = Some s ->
  match snd (rq_exec rq s) with Ok r => rs_respond r = true | Raise e => e <> NoSuchSlaveExc end ->
  outs_of sk cfg l rq =
    [the_out rq (match snd (rq_exec rq s) with Ok r => r | Raise _ => exc_of rq 4 end)].
Proof.
  intros sk H cfg l rq s Hb Hs Hr. unfold outs_of. rewrite (respond_spec sk H). apply spec_responds; assumption.
Qed.

Lemma c09_missing_answer : forall sk, In sk all_fes -> forall cfg l rq,
  is_bcast sk cfg rq = false -> u_get S l (ctx_key code cfg (rq_uid rq)) = None -> cf_ignore cfg = false ->
  respond S code sk cfg l rq = (l, [the_out rq (exc_of rq 11)], None).
Proof.
  intros sk H cfg l rq Hb Hm Hi. rewrite (respond_spec sk H). unfold spec_respond, is_bcast in *. rewrite Hb.
  apply (proj2 (exec_on_none cfg l (rq_uid rq) rq)) in Hm. rewrite Hm. unfold missing_outs. rewrite Hi. reflexivity.
Qed.

Lemma c09_no_spontaneous : forall sk cfg (l : units), serve S code sk cfg l [] = (l, [], None).
Proof. reflexivity. Qed.

(* ------------------------------------------------------------------ C10 on the spec *)

Lemma spec_keys : forall hb gate cfg l rq, u_keys S (fst (fst (spec_respond hb gate cfg l rq))) = u_keys S l.
Proof.
  intros. unfold spec_respond. destruct (sp_bcast hb cfg rq); cbn [fst]; [apply bcast_loop_keys|].
  destruct (exec_on S code cfg l (rq_uid rq) rq) as [[l' [r|e]]|] eqn:E; cbn [fst]; try reflexivity;
    apply exec_on_some in E; destruct E as (s & _ & -> & _); apply u_keys_set.
Qed.

(* not a broadcast: only the store under the addressed key can differ *)
Lemma spec_isolation : forall hb gate cfg l rq v,
  sp_bcast hb cfg rq = false -> v <> ctx_key code cfg (rq_uid rq) ->
  u_get S (fst (fst (spec_respond hb gate cfg l rq))) v = u_get S l v.
Proof.
  intros hb gate cfg l rq v Hb Hv. unfold spec_respond. rewrite Hb.
  destruct (exec_on S code cfg l (rq_uid rq) rq) as [[l' [r|e]]|] eqn:E; cbn [fst]; try reflexivity;
    apply exec_on_some in E; destruct E as (s & _ & -> & _); apply u_get_set_other; exact Hv.
Qed.

(* … and that store is the addressed unit's store after request.execute *)
Lemma spec_addressed : forall hb gate cfg l rq s,
  sp_bcast hb cfg rq = false -> u_get S l (ctx_key code cfg (rq_uid rq)) = Some s ->
  u_get S (fst (fst (spec_respond hb gate cfg l rq))) (ctx_key code cfg (rq_uid rq)) = Some (fst (rq_exec rq s)).
Proof.
  intros hb gate cfg l rq s Hb Hs. unfold spec_respond, exec_on. rewrite Hb, Hs.
  destruct (rq_exec rq s) as [s' [r|e]]; cbn [fst]; apply u_get_set_same; congruence.
Qed.

Lemma spec_missing : forall hb gate cfg l rq,
  sp_bcast hb cfg rq = false -> u_get S l (ctx_key code cfg (rq_uid rq)) = None ->
  spec_respond hb gate cfg l rq = (l, if cf_ignore cfg then [] else [the_out rq (exc_of rq 11)], None).
Proof.
  intros hb gate cfg l rq Hb Hm. unfold spec_respond. rewrite Hb.
  apply (proj2 (exec_on_none cfg l (rq_uid rq) rq)) in Hm. rewrite Hm. reflexivity.
Qed.

(* --- broadcast: the loop over context.slaves() *)

Definition apply_all (rq : dreq) (l : units) : units := map (fun p => (fst p, fst (rq_exec rq (snd p)))) l.

Definition apply_in (rq : dreq) (ks : list Z) (l : units) : units :=
  map (fun p => if zmem (fst p) ks then (fst p, fst (rq_exec rq (snd p))) else p) l.

Lemma u_set_as_map : forall (l : units) k (f : S -> S) s,
  NoDup (u_keys S l) -> u_get S l k = Some s ->
  u_set S l k (f s) = map (fun p => if fst p =? k then (fst p, f (snd p)) else p) l.
Proof.
  induction l as [|[k0 s0] t IH]; intros k f s Hnd Hg; cbn in *; [discriminate|].
  inversion Hnd as [|? ? Hnotin Hnd']; subst.
  destruct (k0 =? k) eqn:E.
  - inversion Hg; subst. f_equal.
    assert (k0 = k) by lia. subst k0.
    clear -Hnotin. induction t as [|[k1 s1] t IH]; cbn in *; [reflexivity|].
    destruct (k1 =? k) eqn:E1; [exfalso; apply Hnotin; left; lia|]. f_equal. apply IH. tauto.
  - f_equal. apply IH; assumption.
Qed.

Lemma zmem_cons : forall k a t, zmem k (a :: t) = (k =? a) || zmem k t.
Proof. reflexivity. Qed.

Lemma bcast_loop_all : forall cfg (rq : dreq), cf_single cfg = false ->
  (forall s, exists r, snd (rq_exec rq s) = Ok r) ->
  forall ks (l : units) last, NoDup ks -> NoDup (u_keys S l) -> (forall k, In k ks -> In k (u_keys S l)) ->
  fst (fst (bcast_loop S code cfg ks l rq last)) = apply_in rq ks l /\
  snd (bcast_loop S code cfg ks l rq last) = None.
Proof.
  intros cfg rq Hsingle Hok ks. induction ks as [|k t IH]; intros l last Hnd Hndl Hin.
  - cbn. split; [|reflexivity]. unfold apply_in. cbn. symmetry. rewrite <- (map_id l) at 2.
    apply map_ext. intros p. reflexivity.
  - cbn [bcast_loop]. unfold exec_on, ctx_key. rewrite Hsingle.
    assert (Hk : u_get S l k <> None) by (apply u_get_in_keys; apply Hin; left; reflexivity).
    destruct (u_get S l k) as [s|] eqn:Es; [|congruence].
    destruct (Hok s) as [r Hr]. destruct (rq_exec rq s) as [s' r'] eqn:Ex. cbn in Hr. subst r'.
    inversion Hnd as [|? ? Hnotin Hnd']; subst.
    assert (Hset : u_set S l k s' = map (fun p => if fst p =? k then (fst p, fst (rq_exec rq (snd p))) else p) l).
    { pose proof (u_set_as_map l k (fun x => fst (rq_exec rq x)) s Hndl Es) as P. cbn beta in P.
      rewrite Ex in P. exact P. }
    destruct (IH (u_set S l k s') (Some r) Hnd') as [IH1 IH2].
    + rewrite u_keys_set. exact Hndl.
    + intros k' Hk'. rewrite u_keys_set. apply Hin. right. exact Hk'.
    + split; [|exact IH2]. rewrite IH1. rewrite Hset. unfold apply_in. rewrite map_map.
      apply map_ext. intros [k1 s1]. cbn [fst snd]. rewrite zmem_cons.
      destruct (k1 =? k) eqn:E1; cbn [fst snd orb].
      * assert (k1 = k) by lia. subst k1.
        assert (Hz : zmem k t = false).
        { destruct (zmem k t) eqn:Ez; [|reflexivity]. exfalso. apply Hnotin.
          unfold zmem in Ez. apply existsb_exists in Ez. destruct Ez as (x & Hx & Hxe). replace k with x by lia. exact Hx. }
        rewrite Hz. reflexivity.
      * reflexivity.
Qed.

Lemma apply_in_keys : forall rq (l : units), apply_in rq (u_keys S l) l = apply_all rq l.
Proof.
  intros rq l. unfold apply_in, apply_all. apply map_ext_in. intros [k s] Hin. cbn [fst snd].
  assert (Hz : zmem k (u_keys S l) = true).
  { unfold zmem. apply existsb_exists. exists k. split; [|lia]. unfold u_keys. apply in_map_iff. exists (k, s). tauto. }
  rewrite Hz. reflexivity.
Qed.

(* multi-unit context, broadcast: request.execute applied exactly once to every hosted unit, nothing sent *)
Lemma spec_broadcast : forall gate cfg l rq,
  cf_bcast cfg = true -> rq_uid rq = 0 -> cf_single cfg = false -> NoDup (u_keys S l) ->
  (forall s, exists r, snd (rq_exec rq s) = Ok r) ->
  spec_respond true gate cfg l rq = (apply_all rq l, [], None).
Proof.
  intros gate cfg l rq Hb Hu Hs Hnd Hok. unfold spec_respond, sp_bcast. rewrite Hb, Hu. cbn [andb Z.eqb].
  destruct (bcast_loop_all cfg rq Hs Hok (u_keys S l) l None Hnd Hnd (fun k H => H)) as [H1 _].
  rewrite H1, apply_in_keys. reflexivity.
Qed.

(* --- the exact behaviour of the broadcast loop, raising datastores included: units are visited in
   dict order, each exactly once, and the first failure ends the loop *)

Fixpoint bcast_walk (rq : dreq) (l : units) : units :=
  match l with
  | [] => []
  | (k, s) :: t =>
      match snd (rq_exec rq s) with
      | Ok _ => (k, fst (rq_exec rq s)) :: bcast_walk rq t
      | Raise _ => (k, fst (rq_exec rq s)) :: t
      end
  end.

Lemma u_get_app_notin : forall (pre t : units) k, ~ In k (u_keys S pre) -> u_get S (pre ++ t) k = u_get S t k.
Proof.
  induction pre as [|[k0 s0] pre IH]; intros t k H; cbn in *; [reflexivity|].
  destruct (k0 =? k) eqn:E; [exfalso; apply H; left; lia|]. apply IH. tauto.
Qed.

Lemma u_set_app_notin : forall (pre t : units) k v, ~ In k (u_keys S pre) -> u_set S (pre ++ t) k v = pre ++ u_set S t k v.
Proof.
  induction pre as [|[k0 s0] pre IH]; intros t k v H; cbn in *; [reflexivity|].
  destruct (k0 =? k) eqn:E; [exfalso; apply H; left; lia|]. f_equal. apply IH. tauto.
Qed.

Lemma bcast_loop_walk : forall cfg (rq : dreq), cf_single cfg = false ->
  forall (t pre : units) last, NoDup (u_keys S (pre ++ t)) ->
  fst (fst (bcast_loop S code cfg (u_keys S t) (pre ++ t) rq last)) = pre ++ bcast_walk rq t.
Proof.
  intros cfg rq Hs t. induction t as [|[k s] t IH]; intros pre last Hnd; [reflexivity|].
  cbn [u_keys map fst bcast_loop bcast_walk]. unfold exec_on, ctx_key. rewrite Hs.
  assert (Hk : ~ In k (u_keys S pre)).
  { unfold u_keys in *. rewrite map_app in Hnd. cbn in Hnd. apply NoDup_remove_2 in Hnd.
    intros Hin. apply Hnd. apply in_or_app. left. exact Hin. }
  rewrite (u_get_app_notin pre ((k, s) :: t) k Hk). cbn [u_get]. rewrite Z.eqb_refl.
  destruct (rq_exec rq s) as [s' [r|e]]; cbn [fst snd];
    rewrite (u_set_app_notin pre ((k, s) :: t) k s' Hk); cbn [u_set]; rewrite Z.eqb_refl.
  - replace (pre ++ (k, s') :: t) with ((pre ++ [(k, s')]) ++ t) by (rewrite <- app_assoc; reflexivity).
    fold (u_keys S t). rewrite IH.
    + rewrite <- app_assoc. reflexivity.
    + rewrite <- app_assoc. cbn [app]. unfold u_keys in *. rewrite map_app in *. cbn [map fst] in *. exact Hnd.
  - reflexivity.
Qed.

Lemma spec_broadcast_exact : forall gate cfg l rq,
  cf_bcast cfg = true -> rq_uid rq = 0 -> cf_single cfg = false -> NoDup (u_keys S l) ->
  spec_respond true gate cfg l rq = (bcast_walk rq l, [], None).
Proof.
  intros gate cfg l rq Hb Hu Hs Hnd. unfold spec_respond, sp_bcast. rewrite Hb, Hu. cbn [andb Z.eqb].
  pose proof (bcast_loop_walk cfg rq Hs l [] None Hnd) as P. cbn [app] in P. rewrite P. reflexivity.
Qed.

(* single-context mode, broadcast: once on the one context *)
Lemma spec_broadcast_single : forall gate cfg s rq,
  cf_bcast cfg = true -> rq_uid rq = 0 -> cf_single cfg = true ->
  spec_respond true gate cfg [(sc_single_key code, s)] rq = ([(sc_single_key code, fst (rq_exec rq s))], [], None).
Proof.
  intros gate cfg s rq Hb Hu Hs. unfold spec_respond, sp_bcast. rewrite Hb, Hu. cbn [andb Z.eqb].
  cbn [u_keys map fst bcast_loop]. unfold exec_on, ctx_key. rewrite Hs. cbn [u_get sc_single_key code].
  cbn [Z.eqb]. destruct (rq_exec rq s) as [s' [r|e]]; reflexivity.
Qed.

(* single-context mode: every unit id reaches the one context *)
Lemma spec_single : forall hb gate cfg s rq,
  cf_single cfg = true -> sp_bcast hb cfg rq = false ->
  fst (fst (spec_respond hb gate cfg [(sc_single_key code, s)] rq)) = [(sc_single_key code, fst (rq_exec rq s))].
Proof.
  intros hb gate cfg s rq Hs Hb. unfold spec_respond. rewrite Hb. unfold exec_on, ctx_key. rewrite Hs.
  cbn [u_get sc_single_key code Z.eqb]. destruct (rq_exec rq s) as [s' [r|e]]; reflexivity.
Qed.

(* ------------------------------------------------------------------ C10, stated on the generated skeletons *)

Lemma c10_keys : forall sk, In sk all_fes -> forall cfg l rq,
  u_keys S (fst (fst (respond S code sk cfg l rq))) = u_keys S l.
Proof. intros sk H cfg l rq. rewrite (respond_spec sk H). apply spec_keys. Qed.

Lemma c10_isolation : forall sk, In sk all_fes -> forall cfg l rq v,
  cf_single cfg = false -> is_bcast sk cfg rq = false -> v <> rq_uid rq ->
  u_get S (fst (fst (respond S code sk cfg l rq))) v = u_get S l v.
Proof.
  intros sk H cfg l rq v Hs Hb Hv. rewrite (respond_spec sk H). apply spec_isolation; [exact Hb|].
  unfold ctx_key. rewrite Hs. exact Hv.
Qed.

Lemma c10_addressed : forall sk, In sk all_fes -> forall cfg l rq s,
  cf_single cfg = false -> is_bcast sk cfg rq = false -> u_get S l (rq_uid rq) = Some s ->
  u_get S (fst (fst (respond S code sk cfg l rq))) (rq_uid rq) = Some (fst (rq_exec rq s)).
Proof.
  intros sk H cfg l rq s Hs Hb Hg. rewrite (respond_spec sk H).
  pose proof (spec_addressed (has_bcast sk) (gated sk) cfg l rq s Hb) as P. unfold ctx_key in P. rewrite Hs in P.
  apply P. exact Hg.
Qed.

Lemma c10_missing : forall sk, In sk all_fes -> forall cfg l rq,
  cf_single cfg = false -> is_bcast sk cfg rq = false -> u_get S l (rq_uid rq) = None ->
  respond S code sk cfg l rq = (l, if cf_ignore cfg then [] else [the_out rq (exc_of rq 11)], None).
Proof.
  intros sk H cfg l rq Hs Hb Hg. rewrite (respond_spec sk H). apply spec_missing; [exact Hb|].
  unfold ctx_key. rewrite Hs. exact Hg.
Qed.

Lemma c10_broadcast : forall sk, In sk bcast_fes -> forall cfg l rq,
  cf_bcast cfg = true -> rq_uid rq = 0 -> cf_single cfg = false -> NoDup (u_keys S l) ->
  (forall s, exists r, snd (rq_exec rq s) = Ok r) ->
  respond S code sk cfg l rq = (apply_all rq l, [], None).
Proof.
  intros sk H cfg l rq Hb Hu Hs Hnd Hok. destruct (bcast_fes_all sk H) as (Ha & Hh & _).
  rewrite (respond_spec sk Ha), Hh. apply spec_broadcast; assumption.
Qed.

Lemma c10_broadcast_exact : forall sk, In sk bcast_fes -> forall cfg l rq,
  cf_bcast cfg = true -> rq_uid rq = 0 -> cf_single cfg = false -> NoDup (u_keys S l) ->
  respond S code sk cfg l rq = (bcast_walk rq l, [], None).
Proof.
  intros sk H cfg l rq Hb Hu Hs Hnd. destruct (bcast_fes_all sk H) as (Ha & Hh & _).
  rewrite (respond_spec sk Ha), Hh. apply spec_broadcast_exact; assumption.
Qed.

Lemma c10_broadcast_single : forall sk, In sk bcast_fes -> forall cfg s rq,
  cf_bcast cfg = true -> rq_uid rq = 0 -> cf_single cfg = true ->
  respond S code sk cfg [(0, s)] rq = ([(0, fst (rq_exec rq s))], [], None).
Proof.
  intros sk H cfg s rq Hb Hu Hs. destruct (bcast_fes_all sk H) as (Ha & Hh & _).
  rewrite (respond_spec sk Ha), Hh. apply (spec_broadcast_single (gated sk) cfg s rq); assumption.
Qed.

(* broadcast disabled (or a front-end without the option): unit 0 is an ordinary address *)
Lemma c10_unit0_ordinary : forall sk cfg rq,
  cf_bcast cfg = false \/ In sk nobcast_fes -> is_bcast sk cfg rq = false.
Proof.
  intros sk cfg rq [Hb|Hn]; unfold is_bcast, sp_bcast.
  - rewrite Hb. rewrite andb_false_r. reflexivity.
  - destruct (nobcast_fes_all sk Hn) as (_ & Hh). rewrite Hh. reflexivity.
Qed.

Lemma c10_nonzero_ordinary : forall sk cfg rq, rq_uid rq <> 0 -> is_bcast sk cfg rq = false.
Proof.
  intros sk cfg rq Hu. unfold is_bcast, sp_bcast. destruct (rq_uid rq =? 0) eqn:E; [lia|]. apply andb_false_r.
Qed.

Lemma c10_single : forall sk, In sk all_fes -> forall cfg s rq,
  cf_single cfg = true -> is_bcast sk cfg rq = false ->
  fst (fst (respond S code sk cfg [(0, s)] rq)) = [(0, fst (rq_exec rq s))].
Proof.
  intros sk H cfg s rq Hs Hb. rewrite (respond_spec sk H). apply (spec_single (has_bcast sk) (gated sk) cfg s rq); assumption.
Qed.

(* histories: a unit that no request of a served list addresses keeps its store *)
Lemma c10_serve_isolation : forall sk, In sk all_fes -> forall cfg v, cf_single cfg = false ->
  forall rqs l, (forall rq, In rq rqs -> is_bcast sk cfg rq = false /\ rq_uid rq <> v) ->
  u_get S (fst (fst (serve S code sk cfg l rqs))) v = u_get S l v.
Proof.
  intros sk Hin cfg v Hs rqs. induction rqs as [|rq t IH]; intros l Hall; cbn; [reflexivity|].
  destruct (Hall rq (or_introl eq_refl)) as [Hb Hv].
  pose proof (c10_isolation sk Hin cfg l rq v Hs Hb (fun E => Hv (eq_sym E))) as H1.
  pose proof (proj1 (c09_at_most_one sk Hin cfg l rq)) as Hn.
  destruct (respond S code sk cfg l rq) as [[l1 o1] e1]. cbn in Hn, H1. subst e1.
  specialize (IH l1 (fun rq' H' => Hall rq' (or_intror H'))).
  destruct (serve S code sk cfg l1 t) as [[l2 o2] e2]. cbn [fst snd] in *. rewrite IH. exact H1.
Qed.

(* histories: the hosted set is stable over a served list *)
Lemma c10_serve_keys : forall sk, In sk all_fes -> forall cfg rqs l,
  u_keys S (fst (fst (serve S code sk cfg l rqs))) = u_keys S l.
Proof.
  intros sk Hin cfg rqs. induction rqs as [|rq t IH]; intros l; cbn; [reflexivity|].
  pose proof (c10_keys sk Hin cfg l rq) as H1.
  pose proof (proj1 (c09_at_most_one sk Hin cfg l rq)) as Hn.
  destruct (respond S code sk cfg l rq) as [[l1 o1] e1]. cbn in Hn, H1. subst e1.
  specialize (IH l1). destruct (serve S code sk cfg l1 t) as [[l2 o2] e2]. cbn [fst snd] in *. rewrite IH. exact H1.
Qed.

End WithStore.

(* ------------------------------------------------------------------ refutations by witness *)

Definition listen_rq : dreq unit :=
  {| rq_tid := 1; rq_uid := 1; rq_fc := 8; rq_dest := 1;
     rq_exec := fun s => (s, Ok {| rs_fc := 8; rs_respond := false; rs_code := None |}) |}.

Lemma c09_silence_refuted :
  ~ (forall S sk, In sk all_fes -> forall cfg (l : units S) (rq : dreq S) s s' r,
     is_bcast S sk cfg rq = false -> u_get S l (ctx_key code cfg (rq_uid rq)) = Some s ->
     rq_exec rq s = (s', Ok r) -> rs_respond r = false -> outs_of S sk cfg l rq = []).
Proof.
  intros H.
  specialize (H unit tw_udp ltac:(cbv [all_fes frontends map snd In]; tauto)
                {| cf_single := false; cf_bcast := false; cf_ignore := false |} [(1, tt)] listen_rq tt tt
                {| rs_fc := 8; rs_respond := false; rs_code := None |}
                eq_refl eq_refl eq_refl eq_refl).
  vm_compute in H. discriminate H.
Qed.

Definition failing_rq : dreq Z :=
  {| rq_tid := 1; rq_uid := 0; rq_fc := 6; rq_dest := 0;
     rq_exec := fun s => if s =? 1 then (s, Raise OtherExc)
                         else (s + 10, Ok {| rs_fc := 6; rs_respond := true; rs_code := None |}) |}.

(* a datastore failure on one unit ends the broadcast loop: later units never see the write *)
Lemma c10_broadcast_refuted :
  ~ (forall S sk, In sk bcast_fes -> forall cfg (l : units S) (rq : dreq S),
     cf_bcast cfg = true -> rq_uid rq = 0 -> cf_single cfg = false -> NoDup (u_keys S l) ->
     fst (fst (respond S code sk cfg l rq)) = apply_all S rq l).
Proof.
  intros H.
  specialize (H Z sync_tcp ltac:(cbv [bcast_fes In]; tauto)
                {| cf_single := false; cf_bcast := true; cf_ignore := false |} [(1, 1); (2, 2)] failing_rq
                eq_refl eq_refl eq_refl).
  assert (Hnd : NoDup (u_keys Z [(1, 1); (2, 2)])).
  { cbn. constructor; [cbn; intros [E|[]]; discriminate E|]. constructor; [cbn; tauto|]. constructor. }
  specialize (H Hnd). vm_compute in H. discriminate H.
Qed.

(* ------------------------------------------------------------------ the framer's unit filter *)

Lemma unit_filter_spec : forall us single uid,
  unit_filter code us single uid = single || zmem 0 us || zmem 255 us || zmem uid us.
Proof.
  intros. unfold unit_filter.
  cbn [ceval code sc_unit_filter ce_single ce_units ce_uid]. destruct single; cbn [orb]; [reflexivity|].
  destruct (zmem 0 us), (zmem 255 us); reflexivity.
Qed.

Lemma zmem_app : forall k a b, zmem k (a ++ b) = zmem k a || zmem k b.
Proof. intros. unfold zmem. apply existsb_app. Qed.

Lemma zmem_in : forall k l, In k l -> zmem k l = true.
Proof. intros k l H. unfold zmem. apply existsb_exists. exists k. split; [exact H | lia]. Qed.

Lemma c10_accepts_spec : forall sk, In sk all_fes -> forall cfg hosted uid,
  accepts code sk cfg hosted uid =
    let ul := unit_list sk cfg hosted in
    Ok (cf_single cfg || zmem 0 ul || zmem 255 ul || zmem uid ul).
Proof.
  intros sk H cfg hosted uid. cbv [all_fes frontends map snd In] in H.
  repeat (destruct H as [<- | H]; [ unfold accepts; cbn [sk_passes_units sync_tcp sync_udp sync_serial aio_tcp aio_udp tw_tcp tw_udp];
                                    rewrite unit_filter_spec; reflexivity | ]).
  destruct H.
Qed.

Lemma c10_hosted_accepted : forall sk, In sk all_fes -> forall cfg hosted uid,
  cf_single cfg = true \/ In uid hosted -> accepts code sk cfg hosted uid = Ok true.
Proof.
  intros sk H cfg hosted uid Hh. rewrite (c10_accepts_spec sk H). cbv zeta. f_equal.
  destruct Hh as [Hs|Hi]; [rewrite Hs; reflexivity|].
  assert (Hz : zmem uid (unit_list sk cfg hosted) = true).
  { unfold unit_list. destruct (ceval _ _); [rewrite zmem_app|]; rewrite (zmem_in _ _ Hi); reflexivity. }
  rewrite Hz. rewrite !orb_true_r. reflexivity.
Qed.

(* broadcast enabled: frames for unit 0 are handed to the server even when unit 0 is not hosted — on EVERY front-end that
   has the option *)
Lemma c10_broadcast_accepted : forall sk, In sk bcast_fes -> forall cfg hosted,
  cf_bcast cfg = true -> accepts code sk cfg hosted 0 = Ok true.
Proof.
  intros sk H cfg hosted Hb.
  assert (Hf : In sk all_fes) by (apply bcast_fes_all; exact H).
  rewrite (c10_accepts_spec sk Hf). cbv zeta. f_equal.
  assert (Hz : zmem 0 (unit_list sk cfg hosted) = true).
  { cbv [bcast_fes In] in H.
    repeat (destruct H as [<- | H];
            [ unfold unit_list; cbn [sk_append0 sync_tcp sync_udp sync_serial aio_tcp aio_udp ceval mkenv ce_bcast_enable ce_units];
              rewrite Hb; cbn [andb]; destruct (zmem 0 hosted) eqn:E; cbn [negb];
              [ exact E | rewrite zmem_app; cbn; apply orb_true_r ] | ]).
    destruct H. }
  rewrite Hz. rewrite orb_true_r. reflexivity.
Qed.

(* the Twisted front-ends (no broadcast option) give the framer exactly the hosted ids: unit 0 is filtered like any id *)
Lemma c10_twisted_unit_list : forall sk, In sk nobcast_fes -> forall cfg hosted, unit_list sk cfg hosted = hosted.
Proof.
  intros sk H cfg hosted. cbv [nobcast_fes In] in H.
  repeat (destruct H as [<- | H]; [ reflexivity | ]). destruct H.
Qed.

Lemma c10_twisted_accepts : forall sk, In sk nobcast_fes -> forall cfg hosted uid,
  accepts code sk cfg hosted uid = Ok (cf_single cfg || zmem 0 hosted || zmem 255 hosted || zmem uid hosted).
Proof.
  intros sk H cfg hosted uid. rewrite (c10_accepts_spec sk (proj1 (nobcast_fes_all sk H))). cbv zeta.
  rewrite (c10_twisted_unit_list sk H). reflexivity.
Qed.

(* the Twisted UDP entry point now filters exactly like the asyncio datagram handler with broadcast off *)
Lemma c10_tw_udp_accepts_like_aio_udp : forall cfg hosted uid,
  cf_bcast cfg = false -> accepts code tw_udp cfg hosted uid = accepts code aio_udp cfg hosted uid.
Proof.
  intros cfg hosted uid Hb. unfold accepts, unit_list.
  cbn [sk_passes_units sk_append0 tw_udp aio_udp ceval mkenv ce_bcast_enable]. rewrite Hb. reflexivity.
Qed.

(* … and answers a delivered request exactly like it, unless request.execute returns a listen-only response
   (Twisted UDP's _send has no should_respond test) *)
Lemma c09_tw_udp_like_aio_udp : forall S cfg (l : units S) (rq : dreq S),
  cf_bcast cfg = false ->
  (forall s, match snd (rq_exec rq s) with Ok r => rs_respond r = true | Raise _ => True end) ->
  respond S code tw_udp cfg l rq = respond S code aio_udp cfg l rq.
Proof.
  intros S cfg l rq Hb Hr. rewrite tw_udp_spec, aio_udp_spec. unfold spec_respond, sp_bcast. rewrite Hb. cbn [andb].
  destruct (exec_on S code cfg l (rq_uid rq) rq) as [[l' [r|e]]|] eqn:E; try reflexivity.
  apply exec_on_some in E. destruct E as (s & _ & _ & Hs). specialize (Hr s). rewrite <- Hs in Hr.
  unfold send_of. rewrite Hr. reflexivity.
Qed.

(* a frame for a unit outside the list is dropped unless the list contains 0 or 255 *)
Lemma c10_foreign_dropped : forall sk, In sk all_fes -> forall cfg hosted uid,
  cf_single cfg = false ->
  let ul := unit_list sk cfg hosted in
  zmem 0 ul = false -> zmem 255 ul = false -> zmem uid ul = false ->
  accepts code sk cfg hosted uid = Ok false.
Proof.
  intros sk H cfg hosted uid Hs ul H0 H255 Hu. rewrite (c10_accepts_spec sk H). cbv zeta.
  fold ul. rewrite Hs, H0, H255, Hu. reflexivity.
Qed.
