(* StoreHist_proofs.v — refinement over whole operation histories: for EVERY block (any
   start/size, any key set without duplicates) and EVERY sequence of validate / get / set /
   reset / iterate operations, what the model (instantiated with the generated code) returns
   satisfies the abstract-map oracle [prop_block] that the correspondence check applies to the
   real classes.  Hence: the executable oracle is a consequence of the model for all histories,
   not only for the sampled ones. *)
From PM.theories Require Import Base Expr Store CorrStore.
From PM.Generated Require Import GenStore.
From PM.proofs Require Import Store_proofs.
From Coq Require Import ZifyBool.
Open Scope list_scope.
Open Scope Z_scope.

Lemma bool_eq_iff (a b : bool) : (a = true <-> b = true) -> a = b.
Proof. destruct a, b; intros [H1 H2]; try reflexivity; [symmetry; apply H1 | apply H2]; reflexivity. Qed.

Lemma zlist_eqb_refl l : list_eqb Z.eqb l l = true.
Proof. induction l as [|x l IH]; cbn; [reflexivity|]. rewrite Z.eqb_refl, IH. reflexivity. Qed.

(* ------------------------------------------------------------------ association lists over zrange *)

Lemma d_get_combine_zrange vals lo k :
  d_get (combine (zrange lo (length vals)) vals) k =
    if (lo <=? k) && (k <? lo + Z.of_nat (length vals))
    then nth_error vals (Z.to_nat (k - lo)) else None.
Proof.
  revert lo. induction vals as [|v vals IH]; intros lo.
  - cbn. destruct ((lo <=? k) && (k <? lo + 0)) eqn:E; [lia|reflexivity].
  - cbn [length zrange combine d_get]. destruct (lo =? k) eqn:E.
    + replace ((lo <=? k) && (k <? lo + Z.of_nat (S (length vals)))) with true by lia.
      replace (Z.to_nat (k - lo)) with O by lia. reflexivity.
    + rewrite IH.
      destruct ((lo + 1 <=? k) && (k <? lo + 1 + Z.of_nat (length vals))) eqn:E2.
      * replace ((lo <=? k) && (k <? lo + Z.of_nat (S (length vals)))) with true by lia.
        replace (Z.to_nat (k - lo)) with (S (Z.to_nat (k - (lo + 1)))) by lia. reflexivity.
      * replace ((lo <=? k) && (k <? lo + Z.of_nat (S (length vals)))) with false by lia. reflexivity.
Qed.

Lemma seq_iter_get b k : d_get (seq_iter b) k = seq_cell b k.
Proof. unfold seq_iter, seq_cell, seq_len. apply d_get_combine_zrange. Qed.

Lemma seq_iter_mem b k :
  d_mem (seq_iter b) k = (sb_addr b <=? k) && (k <? sb_addr b + seq_len b).
Proof.
  unfold d_mem. rewrite seq_iter_get. unfold seq_cell.
  destruct ((sb_addr b <=? k) && (k <? sb_addr b + seq_len b)) eqn:E; [|reflexivity].
  destruct (nth_error (sb_vals b) (Z.to_nat (k - sb_addr b))) eqn:En; [reflexivity|].
  apply nth_error_None in En. unfold seq_len in E. lia.
Qed.

Lemma set_nth_length {A} (l : list A) i v : length (set_nth l i v) = length l.
Proof. revert i. induction l as [|x l IH]; intros [|i]; cbn; try reflexivity. now rewrite IH. Qed.

Lemma d_set_combine_zrange vals lo i v :
  (i < length vals)%nat ->
  d_set (combine (zrange lo (length vals)) vals) (lo + Z.of_nat i) v =
    combine (zrange lo (length vals)) (set_nth vals i v).
Proof.
  revert lo i. induction vals as [|x vals IH]; intros lo i Hi; [cbn in Hi; lia|].
  cbn [length zrange combine d_set]. destruct i as [|i].
  - replace (lo =? lo + Z.of_nat 0) with true by lia. reflexivity.
  - replace (lo =? lo + Z.of_nat (S i)) with false by lia. cbn [set_nth combine]. f_equal.
    replace (lo + Z.of_nat (S i)) with (lo + 1 + Z.of_nat i) by lia. apply IH. cbn in Hi. lia.
Qed.

Lemma firstn_S_set_nth {A} (l : list A) i v :
  (i < length l)%nat -> firstn (S i) (set_nth l i v) = firstn i l ++ [v].
Proof.
  revert i. induction l as [|x l IH]; intros i Hi; [cbn in Hi; lia|].
  destruct i as [|i]; [reflexivity|]. cbn [set_nth firstn app]. f_equal.
  apply IH. cbn in Hi. lia.
Qed.

Lemma skipn_set_nth {A} (l : list A) i v n :
  (i < n)%nat -> skipn n (set_nth l i v) = skipn n l.
Proof.
  revert i n. induction l as [|x l IH]; intros i n Hi; [destruct n, i; reflexivity|].
  destruct n as [|n]; [lia|]. destruct i as [|i]; [reflexivity|].
  cbn [set_nth skipn]. apply IH. lia.
Qed.

Lemma spec_set_combine vs : forall vals lo i,
  (i + length vs <= length vals)%nat ->
  spec_set (combine (zrange lo (length vals)) vals) (lo + Z.of_nat i) vs =
    combine (zrange lo (length vals)) (firstn i vals ++ vs ++ skipn (i + length vs) vals).
Proof.
  induction vs as [|v vs IH]; intros vals lo i Hl.
  - cbn [spec_set length app]. rewrite Nat.add_0_r, firstn_skipn. reflexivity.
  - cbn [spec_set length] in *.
    rewrite d_set_combine_zrange by lia.
    rewrite <- (set_nth_length vals i v) at 1.
    replace (lo + Z.of_nat i + 1) with (lo + Z.of_nat (S i)) by lia.
    rewrite IH by (rewrite set_nth_length; lia).
    rewrite set_nth_length. f_equal.
    rewrite firstn_S_set_nth by lia.
    rewrite skipn_set_nth by lia.
    rewrite <- app_assoc. cbn [app]. replace (S i + length vs)%nat with (i + S (length vs))%nat by lia. reflexivity.
Qed.

Lemma combine_map_r {A B C} (f : B -> C) (l : list A) (vals : list B) :
  combine l (map f vals) = map (fun kv => (fst kv, f (snd kv))) (combine l vals).
Proof.
  revert vals. induction l as [|x l IH]; intros [|v vals]; cbn; try reflexivity. now rewrite IH.
Qed.

(* ------------------------------------------------------------------ spec functions on present keys *)

Lemma skipn_nth_cons {A} (l : list A) i x : nth_error l i = Some x -> skipn i l = x :: skipn (S i) l.
Proof.
  revert i. induction l as [|y l IH]; intros [|i] H; cbn in *; try discriminate.
  - injection H as ->. reflexivity.
  - apply IH, H.
Qed.

Lemma spec_get_combine vals lo n : forall a,
  lo <= a -> a + Z.of_nat n <= lo + Z.of_nat (length vals) ->
  spec_get (combine (zrange lo (length vals)) vals) (zrange a n) =
    firstn n (skipn (Z.to_nat (a - lo)) vals).
Proof.
  induction n as [|n IH]; intros a H1 H2; [reflexivity|].
  cbn [zrange spec_get]. rewrite d_get_combine_zrange.
  replace ((lo <=? a) && (a <? lo + Z.of_nat (length vals))) with true by lia.
  destruct (nth_error vals (Z.to_nat (a - lo))) as [x|] eqn:En.
  - rewrite (skipn_nth_cons _ _ _ En). cbn [firstn]. f_equal.
    rewrite IH by lia. do 2 f_equal. lia.
  - apply nth_error_None in En. lia.
Qed.

Lemma d_get_all_present d ks :
  forallb (d_mem d) ks = true -> d_get_all d ks = Ok (spec_get d ks).
Proof.
  induction ks as [|k ks IH]; intros H; [reflexivity|].
  cbn [forallb] in H. apply andb_true_iff in H as [Hk Hr]. cbn [d_get_all spec_get].
  unfold d_mem in Hk. destruct (d_get d k); [|discriminate]. rewrite (IH Hr). reflexivity.
Qed.

Lemma sp_set_from_spec d a idx vs :
  sp_set_from code d a idx vs = spec_set d (a + idx) vs.
Proof.
  revert d idx. induction vs as [|v vs IH]; intros d idx; [reflexivity|].
  cbn [sp_set_from spec_set]. rewrite IH. expr_simpl.
  replace (a + (idx + 1)) with (a + idx + 1) by lia. reflexivity.
Qed.

(* ------------------------------------------------------------------ NoDup keys *)

Lemma d_get_in_nodup (d : dict) k v :
  NoDup (map fst d) -> In (k, v) d -> d_get d k = Some v.
Proof.
  induction d as [|[k0 v0] d IH]; intros Hn Hin; [destruct Hin|].
  cbn [map fst] in Hn. inversion Hn as [|? ? Hnot Hn']; subst.
  cbn [d_get]. destruct Hin as [Heq|Hin].
  - injection Heq as -> ->. rewrite Z.eqb_refl. reflexivity.
  - destruct (k0 =? k) eqn:E.
    + apply Z.eqb_eq in E. subst. exfalso. apply Hnot.
      change k with (fst (k, v)). apply in_map, Hin.
    + apply IH; assumption.
Qed.

Lemma same_cells_refl (s : dict) : NoDup (map fst s) -> same_cells s s = true.
Proof.
  intros Hn. unfold same_cells. rewrite Nat.eqb_refl. cbn [andb].
  apply forallb_forall. intros [k v] Hin. cbn [fst snd].
  rewrite (d_get_in_nodup s k v Hn Hin). cbn. apply Z.eqb_refl.
Qed.

Lemma zrange_fst_combine (vals : list Z) lo :
  map fst (combine (zrange lo (length vals)) vals) = zrange lo (length vals).
Proof.
  revert lo. induction vals as [|v vals IH]; intros lo; [reflexivity|]. cbn. now rewrite IH.
Qed.

Lemma zrange_nodup lo n : NoDup (zrange lo n).
Proof.
  revert lo. induction n as [|n IH]; intros lo; [constructor|].
  cbn [zrange]. constructor; [|apply IH].
  intros Hin. apply in_zrange in Hin. lia.
Qed.

Lemma seq_iter_nodup b : NoDup (map fst (seq_iter b)).
Proof. unfold seq_iter. rewrite zrange_fst_combine. apply zrange_nodup. Qed.

Lemma spec_set_keys s a vs :
  forallb (d_mem s) (zrange a (length vs)) = true -> map fst (spec_set s a vs) = map fst s.
Proof.
  revert s a. induction vs as [|v vs IH]; intros s a H; [reflexivity|].
  cbn [length zrange forallb] in H. apply andb_true_iff in H as [Hk Hr].
  cbn [spec_set]. rewrite IH.
  - apply d_set_keys_mem. unfold d_mem in Hk.
    destruct (d_get s a); [intros Hc; discriminate Hc | discriminate Hk].
  - apply forallb_forall. intros k Hin. rewrite forallb_forall in Hr. specialize (Hr k Hin).
    unfold d_mem in *. rewrite d_get_set. destruct (a =? k); [reflexivity|exact Hr].
Qed.

(* ------------------------------------------------------------------ one block, one operation *)

Definition keys_ok (b : block) : Prop := NoDup (map fst (blk_iter b)).

Lemma validate_is_accepts b a c : 1 <= c ->
  blk_validate code b a c = spec_accepts (blk_iter b) a c.
Proof.
  intros Hc. unfold spec_accepts. replace (1 <=? c) with true by lia. cbn [andb].
  apply bool_eq_iff. rewrite forallb_zrange. destruct b as [s|s]; cbn [blk_validate blk_iter].
  - rewrite (seq_validate_cells s a c Hc). unfold seq_populated.
    split; intros H i Hi; specialize (H i ltac:(lia)).
    + rewrite seq_iter_mem. lia.
    + rewrite seq_iter_mem in H. lia.
  - rewrite (sp_validate_cells s a c Hc). unfold sp_cell, d_mem, sp_iter.
    split; intros H i Hi; specialize (H i ltac:(lia)); destruct (d_get (sp_vals s) (a + i)); congruence.
Qed.

Lemma accepts_ge1 s a c : spec_accepts s a c = true -> 1 <= c.
Proof. unfold spec_accepts. intros H. apply andb_true_iff in H as [H _]. lia. Qed.

Lemma get_is_spec b a c : spec_accepts (blk_iter b) a c = true ->
  blk_get code b a c = Ok (spec_get (blk_iter b) (zrange a (Z.to_nat c))).
Proof.
  intros Hacc. pose proof (accepts_ge1 _ _ _ Hacc) as Hc.
  pose proof Hacc as Hv. rewrite <- validate_is_accepts in Hv by exact Hc.
  destruct b as [s|s]; cbn [blk_get blk_iter blk_validate] in *.
  - f_equal. rewrite seq_get_slice by (assumption || lia).
    rewrite seq_validate_arith in Hv. unfold seq_len in Hv.
    unfold seq_iter. rewrite spec_get_combine by lia. reflexivity.
  - unfold sp_get. expr_simpl. unfold py_range. replace (a + c - a) with c by lia.
    apply d_get_all_present. unfold spec_accepts in Hacc. apply andb_true_iff in Hacc as [_ H]. exact H.
Qed.

Lemma set_is_spec b a vs : spec_accepts (blk_iter b) a (Z.of_nat (length vs)) = true ->
  blk_iter (blk_set code b a vs) = spec_set (blk_iter b) a vs.
Proof.
  intros Hacc. pose proof (accepts_ge1 _ _ _ Hacc) as Hc.
  pose proof Hacc as Hv. rewrite <- validate_is_accepts in Hv by exact Hc.
  destruct b as [s|s]; cbn [blk_set blk_iter blk_validate] in *.
  - pose proof (seq_set_extent s a vs Hv) as (Ha & Hl & _).
    unfold seq_iter. rewrite Ha, Hl. rewrite seq_set_vals by exact Hv.
    rewrite seq_validate_arith in Hv. unfold seq_len in Hv.
    pose proof (spec_set_combine vs (sb_vals s) (sb_addr s) (Z.to_nat (a - sb_addr s)) ltac:(lia)) as H.
    replace (sb_addr s + Z.of_nat (Z.to_nat (a - sb_addr s))) with a in H by lia.
    rewrite H. reflexivity.
  - unfold sp_iter, sp_set. cbn [sp_vals]. rewrite sp_set_from_spec. f_equal. lia.
Qed.

Lemma reset_is_spec b :
  blk_iter (blk_reset b) = map (fun kv => (fst kv, blk_default b)) (blk_iter b).
Proof.
  destruct b as [s|s]; cbn [blk_reset blk_iter blk_default].
  - unfold seq_iter, seq_reset. cbn [sb_addr sb_vals sb_def]. rewrite map_length.
    rewrite combine_map_r. reflexivity.
  - reflexivity.
Qed.

Lemma default_set b a vs : blk_default (blk_set code b a vs) = blk_default b.
Proof. destruct b; reflexivity. Qed.
Lemma default_reset b : blk_default (blk_reset b) = blk_default b.
Proof. destruct b; reflexivity. Qed.

Lemma keys_ok_set b a vs : keys_ok b -> spec_accepts (blk_iter b) a (Z.of_nat (length vs)) = true ->
  keys_ok (blk_set code b a vs).
Proof.
  unfold keys_ok. intros Hk Hacc. rewrite set_is_spec by exact Hacc.
  rewrite spec_set_keys; [exact Hk|].
  unfold spec_accepts in Hacc. apply andb_true_iff in Hacc as [_ H].
  rewrite Nat2Z.id in H. exact H.
Qed.

Lemma keys_ok_reset b : keys_ok b -> keys_ok (blk_reset b).
Proof.
  unfold keys_ok. intros Hk. rewrite reset_is_spec, map_map. cbn [fst]. exact Hk.
Qed.

(* ------------------------------------------------------------------ dictionary-form writes *)

Definition dset_all (kvs : list (Z * Z)) (d : dict) : dict :=
  fold_left (fun d kv => d_set d (fst kv) (snd kv)) kvs d.

Lemma dset_all_keys kvs : forall d,
  forallb (fun kv => d_mem d (fst kv)) kvs = true -> map fst (dset_all kvs d) = map fst d.
Proof.
  induction kvs as [|[k v] kvs IH]; intros d H; [reflexivity|].
  cbn [forallb fst] in H. apply andb_true_iff in H as [Hk Hr].
  unfold dset_all. cbn [fold_left fst snd]. fold (dset_all kvs (d_set d k v)).
  rewrite IH.
  - apply d_set_keys_mem. unfold d_mem in Hk.
    destruct (d_get d k); [intros Hc; discriminate Hc | discriminate Hk].
  - apply forallb_forall. intros [k' v'] Hin. rewrite forallb_forall in Hr.
    specialize (Hr (k', v') Hin). cbn [fst] in *. unfold d_mem in *. rewrite d_get_set.
    destruct (k =? k'); [reflexivity|exact Hr].
Qed.

(* the dictionary form of setValues is only meaningful (and only generated) for sparse blocks *)
Definition is_dict_op (o : bop) : bool := match o with BSetDict _ => true | _ => false end.
Definition dict_ok (b : block) (ops : list bop) : bool :=
  match b with BSp _ => true | BSeq _ => forallb (fun o => negb (is_dict_op o)) ops end.

Lemma dict_ok_tail b b' o ops :
  (match b, b' with BSeq _, BSeq _ | BSp _, BSp _ => True | _, _ => False end) ->
  dict_ok b (o :: ops) = true -> dict_ok b' ops = true.
Proof.
  destruct b, b'; intros Hk H; try contradiction; cbn [dict_ok forallb] in *; [|reflexivity].
  apply andb_true_iff in H as [_ H]. exact H.
Qed.

(* ------------------------------------------------------------------ all histories *)

Theorem model_satisfies_oracle ops : forall b,
  keys_ok b -> dict_ok b ops = true ->
  prop_block (blk_default b) (blk_iter b) ops (run_block code b ops) = true.
Proof.
  induction ops as [|o ops IH]; intros b Hk Hd; [reflexivity|].
  destruct o as [a c|a c|a vs| | |a v|kvs]; cbn [run_block step_block prop_block].
  - (* validate *)
    rewrite IH by (assumption || (eapply dict_ok_tail; [|exact Hd]; destruct b; exact I)).
    rewrite andb_true_r.
    destruct (1 <=? c) eqn:Ec; [|reflexivity].
    rewrite validate_is_accepts by lia. cbn. apply eqb_reflx.
  - (* get *)
    rewrite IH by (assumption || (eapply dict_ok_tail; [|exact Hd]; destruct b; exact I)).
    rewrite andb_true_r.
    destruct (spec_accepts (blk_iter b) a c) eqn:Eacc; [|reflexivity].
    rewrite get_is_spec by exact Eacc. cbn. apply zlist_eqb_refl.
  - (* set *)
    destruct (spec_accepts (blk_iter b) a (Z.of_nat (length vs))) eqn:Eacc; [|reflexivity].
    cbn [bout_eqb andb]. rewrite <- set_is_spec by exact Eacc.
    rewrite <- (default_set b a vs). apply IH; [apply keys_ok_set; assumption|].
    eapply dict_ok_tail; [|exact Hd]. destruct b; exact I.
  - (* reset *)
    cbn [bout_eqb andb]. rewrite <- reset_is_spec.
    rewrite <- (default_reset b) at 1. apply IH; [apply keys_ok_reset, Hk|].
    eapply dict_ok_tail; [|exact Hd]. destruct b; exact I.
  - (* iter *)
    rewrite IH by (assumption || (eapply dict_ok_tail; [|exact Hd]; destruct b; exact I)).
    rewrite andb_true_r. apply same_cells_refl, Hk.
  - (* scalar set = set of a one-element list *)
    change 1 with (Z.of_nat (length [v])).
    destruct (spec_accepts (blk_iter b) a (Z.of_nat (length [v]))) eqn:Eacc; [|reflexivity].
    cbn [bout_eqb andb]. rewrite <- set_is_spec by exact Eacc.
    rewrite <- (default_set b a [v]). apply IH; [apply keys_ok_set; assumption|].
    eapply dict_ok_tail; [|exact Hd]. destruct b; exact I.
  - (* dictionary-form set: sparse blocks only *)
    destruct b as [sq|sp].
    + cbn [dict_ok forallb is_dict_op negb andb] in Hd. discriminate Hd.
    + cbn [blk_iter blk_default]. unfold sp_iter.
      destruct (forallb (fun kv => d_mem (sp_vals sp) (fst kv)) kvs) eqn:Eall; [|reflexivity].
      cbn [bout_eqb andb].
      change (fold_left (fun d kv => d_set d (fst kv) (snd kv)) kvs (sp_vals sp)) with (dset_all kvs (sp_vals sp)).
      apply (IH (BSp {| sp_vals := dset_all kvs (sp_vals sp); sp_def := sp_def sp |})); [|reflexivity].
      unfold keys_ok in *. cbn [blk_iter sp_iter sp_vals] in *. rewrite dset_all_keys by exact Eall. exact Hk.
Qed.

Corollary model_satisfies_oracle_seq ops s :
  forallb (fun o => negb (is_dict_op o)) ops = true ->
  prop_block (sb_def s) (seq_iter s) ops (run_block code (BSeq s) ops) = true.
Proof. intros H. apply (model_satisfies_oracle ops (BSeq s)); [apply seq_iter_nodup | exact H]. Qed.
