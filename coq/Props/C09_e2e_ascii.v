(* Props/C09_e2e_ascii.v — END-TO-END composition for the SERIAL server path with ASCII framing.
   ONLY statements; proofs in proofs/EndToEndSerial_proofs.v (on top of proofs/EndToEnd_*_proofs.v).

   Model side — [ascii_server_run sk cfg l chunks] (theories/EndToEndSerial.v): the loop of the threaded
   serial handler (ModbusSingleRequestHandler.handle: an empty read is skipped, the unit list and
   `single` are read from the live context at every read, an exception escaping the framer resets the
   frame and the loop goes on) around FrAscii.a_recv (decoder := the Pdu model's ServerDecoder), the
   framing-independent callback of EndToEnd.v (Pdu.py_decode, Exec.serve GenExec.code, Server.respond on
   the GENERATED skeleton [sync_serial]) and FrAscii.a_build for the response.
   Spec side — the character stream is the concatenation of [req_adu_ascii q] =
   ':' , upper-case hex of unit, PDU, LRC , CR LF  (FrSpecA.spec_adu_ascii of PduSpec.spec_pdu);
   [spec_run_g ascii_adu] answers every request to a served unit with the ASCII ADU of the response of
   ExecSpec.spec_exec on that unit's abstract state, and ignores every other frame.

   [item_ok]: an item of the stream is a request FC 1-6/15/16/22/23 (or an unassigned function code)
   to a served unit, or ANY well-formed frame the framer's unit filter rejects (traffic for other
   stations on the bus: it must be skipped whatever its PDU is).  EVERY division of the character
   stream into reads, empty reads and one-character reads included. *)
From PM.theories Require Import Base Expr Struct FrBaseA FrSpecA Lrc FrAscii PduCls PduSpec Pdu Store Exec ExecSpec Server
                                EndToEnd EndToEndSerial CorrE2E CorrE2ESerial.
From PM.Generated Require Import GenFramerA.
From PM.Generated Require GenStore GenExec GenServer.
From PM.proofs Require Import Exec_proofs Server_proofs EndToEnd_adapt_proofs EndToEnd_spec_proofs EndToEnd_proofs EndToEndSerial_proofs.
From PM.Props Require C09_e2e.
Open Scope string_scope.
Open Scope list_scope.
Open Scope Z_scope.

Theorem C09_e2e_ascii : forall sk cfg (l : units slavectx) (su : sunits) (qs : list e2e_req) (chunks : list bytes),
  In sk serial_fes ->                                     (* the generated skeleton sync_serial *)
  units_rel l su ->                                       (* stores abstract to su; C04 invariant; 16-bit cells *)
  Forall (item_ok KAscii sk cfg (u_keys slavectx l) (framer_cfg sk cfg l)) qs ->
  concat chunks = concat (map req_adu_ascii qs) ->        (* ANY division of the character stream into reads *)
  exists l' st',
    ascii_server_run sk cfg l chunks = result l' (snd (spec_run_g ascii_adu (cf_single cfg) su qs)) st' /\
    units_rel l' (fst (spec_run_g ascii_adu (cf_single cfg) su qs)).
Proof. exact e2e_ascii. Qed.
Print Assumptions C09_e2e_ascii.

(* the framing-independent core: the reference deliveries of C06 (served frames, in order) are handled
   exactly as the abstract server prescribes; rejected frames change nothing *)
Theorem C09_e2e_stream : forall k pk adu, pk_ok pk adu (fun q => spec_delivery k (frame_of q)) ->
  forall sk cfg, fe_ok sk -> forall qs, k <> KTls -> forall l su l0,
  u_keys slavectx l = u_keys slavectx l0 -> units_rel l su ->
  Forall (item_ok k sk cfg (u_keys slavectx l0) (framer_cfg sk cfg l0)) qs ->
  exists l', handle_all pk sk cfg l (ref_deliveries k (framer_cfg sk cfg l0) (map frame_of qs))
               = (l', snd (spec_run_g adu (cf_single cfg) su qs), None) /\
             units_rel l' (fst (spec_run_g adu (cf_single cfg) su qs)) /\ u_keys slavectx l' = u_keys slavectx l0.
Proof. exact stream_spec_g. Qed.
Print Assumptions C09_e2e_stream.

(* response packet: C01_encode_conforms + C03_build_ascii *)
Theorem C09_e2e_ascii_packet : pk_ok packet_ascii ascii_adu (fun q => spec_delivery KAscii (frame_of q)).
Proof. exact ascii_pk_ok. Qed.
Print Assumptions C09_e2e_ascii_packet.

(* ---- non-vacuity: unit 1 hosted (multi-unit context), four frames — write register 2 := 0x1234 to
   unit 1, a frame for unit 9 (not served: ignored), read registers 1..3 of unit 1, read coils 8..10
   (outside the table: exception 02) — delivered as two one-character reads, an empty read, 20
   characters, the rest. *)
Definition nva_cfg : scfg := {| cf_single := false; cf_bcast := false; cf_ignore := false |}.
Definition nva_reqs : list e2e_req :=
  [{| q_tid := 0; q_pid := 0; q_uid := 1; q_body := QMsg (MWriteRegReq 2 4660) |};
   {| q_tid := 0; q_pid := 0; q_uid := 9; q_body := QMsg (MWriteRegReq 2 7) |};
   {| q_tid := 0; q_pid := 0; q_uid := 1; q_body := QMsg (MReadHoldingReq 1 3) |};
   {| q_tid := 0; q_pid := 0; q_uid := 1; q_body := QMsg (MReadCoilsReq 8 3) |}].
Definition nva_stream : bytes := concat (map req_adu_ascii nva_reqs).
Definition nva_chunks : list bytes :=
  [firstn 1 nva_stream; firstn 1 (skipn 1 nva_stream); []; firstn 20 (skipn 2 nva_stream); skipn 22 nva_stream].
Definition nva_units : units slavectx := [(1, C09_e2e.nv_ctx)].

Example C09_e2e_ascii_nonvacuous :
  In GenServer.sync_serial serial_fes /\
  Forall (fun p => store_ok (snd p)) nva_units /\
  Forall (item_ok KAscii GenServer.sync_serial nva_cfg (u_keys slavectx nva_units)
                  (framer_cfg GenServer.sync_serial nva_cfg nva_units)) nva_reqs /\
  concat nva_chunks = concat (map req_adu_ascii nva_reqs) /\
  e_out (ascii_server_run GenServer.sync_serial nva_cfg nva_units nva_chunks) =
    [58; 48; 49; 48; 54; 48; 48; 48; 50; 49; 50; 51; 52; 66; 49; 13; 10;                      (* :010600021234B1 *)
     58; 48; 49; 48; 51; 48; 54; 48; 48; 48; 48; 49; 50; 51; 52; 48; 48; 48; 48; 66; 48; 13; 10;   (* :010306000012340000B0 *)
     58; 48; 49; 56; 49; 48; 50; 55; 67; 13; 10]%N /\                                        (* :0181027C *)
  snd (spec_run_g ascii_adu false (abs_units nva_units) nva_reqs) =
    e_out (ascii_server_run GenServer.sync_serial nva_cfg nva_units nva_chunks).
Proof.
  split; [cbv [serial_fes]; cbn [In]; tauto|].
  split. { constructor; [|constructor]. split.
           - intros t; destruct t; eexists; (split; [reflexivity|cbn; lia]).
           - repeat constructor; unfold u16v; lia. }
  split. { unfold nva_reqs. repeat (apply Forall_cons || apply Forall_nil).
           - left. split; [|reflexivity]. repeat split; cbn; try lia; try tauto. eexists; cbn; repeat split; reflexivity.
           - right. split; [|reflexivity]. cbn. unfold ascii_wf. cbn. repeat split; lia.
           - left. split; [|reflexivity]. repeat split; cbn; try lia; try tauto. eexists; cbn; repeat split; reflexivity.
           - left. split; [|reflexivity]. repeat split; cbn; try lia; try tauto. eexists; cbn; repeat split; reflexivity. }
  split; vm_compute; [reflexivity|split; reflexivity].
Qed.
