(* FrTls.v — code-shaped model of pymodbus/framer/tls_framer.py (ModbusTlsFramer).
   The header dict is always empty ({}), so the state is the buffer; with single=False and
   no 0/0xFF in the unit list _validate_unit_id reads self._header['uid'] -> KeyError
   (known finding #22).  One pass per call (no loop).  No proofs. *)
From PM.theories Require Import Base Expr Struct FrBaseA.
Open Scope string_scope.
Open Scope list_scope.
Open Scope Z_scope.

Record tls_code := {
  s_hsize : Z;                               (* 0x0 *)
  s_hdr_keys : list string;                  (* keys of the header dict literal: [] *)
  s_ready : expr;                            (* len(self._buffer) > self._hsize *)
  s_cf_complete : expr;                      (* len(self._buffer) - self._hsize >= 1 *)
  s_get_lo : expr;                           (* self._buffer[self._hsize:] *)
  s_populate : list (string * string);       (* populateResult: nothing *)
  s_skel : pskel;
  s_build_big : bool; s_build_fmt : list fmtc;     (* TLS_FRAME_HEADER *)
  s_build_args : list expr;
  s_single_default : bool                    (* kwargs.get("single", True) *)
}.

Definition tls_skel_expected : pskel :=
  {| sk_loop := LOnce;
     sk_body := [PIf PReady [PIf PCheck [PIf PUnit [PProcess false] [PReset]] [PReset]] []] |}.

Section WithCode.
Variable B : base_code.
Variable C : tls_code.
Variable dec : bytes -> dres.

Definition senv (buf : bytes) : env :=
  env_of [("self._hsize", s_hsize C); ("len(self._buffer)", Z.of_nat (length buf))].

Definition s_isready (buf : bytes) : bool := beval (senv buf) (s_ready C).
Definition s_check (buf : bytes) : bool := s_isready buf && beval (senv buf) (s_cf_complete C).
Definition s_uid : option Z := if existsb (String.eqb "uid") (s_hdr_keys C) then Some 0 else None.

Definition s_recv (c : cfg) (buf : bytes) (data : bytes) : bytes * list delivery * outc :=
  let buf := buf ++ data in
  if s_isready buf then
    if s_check buf then
      match validate_unit B (c_units c) (single_of (s_single_default C) c) s_uid with
      | Raise e => (buf, [], Exc e)
      | Ok true =>
          let frame := pyfrom buf (eval (senv buf) (s_get_lo C)) in
          match dec frame with
          | DNone => (buf, [], Exc ModbusIOExc)
          | DRaise e => (buf, [], Exc e)
          | DMsg _ => ([], [{| d_pdu := frame; d_tid := 0; d_pid := 0; d_uid := 0 |}], Done)
          end
      | Ok false => ([], [], Done)
      end
    else ([], [], Done)
  else (buf, [], Done).

Definition s_build (fc : Z) (data : bytes) : res bytes :=
  let rho := env_of [("message.function_code", fc)] in
  do h <- pack (s_build_big C) (s_build_fmt C) (map (eval rho) (s_build_args C));
  Ok (h ++ data).
End WithCode.
