(* AsyncGen_proofs.v — facts about the record regenerated from the source (Generated/GenAsync.v):
   it has everything [good_code] asks for, and the refutations of the parts of C16 that the
   unmodified code does not satisfy, each by running the model on a concrete history. *)
From PM.theories Require Import Base AsyncClient.
From PM.Generated Require Import GenAsync.
From PM.proofs Require Import Async_proofs.
Open Scope list_scope.
Open Scope N_scope.

Lemma gen_good : good_code code.
Proof. unfold good_code. repeat split; vm_compute; reflexivity. Qed.

(* a request outstanding across a full wrap of the 16-bit counter *)
Definition wrap_history : list aop := [Made; Execute; Skip 65535; Execute].

Lemma wrap_same_tid :
  let σ := arun code VDict wrap_history (init_state code) in
  In 1 (outstanding σ) /\ In 65537 (outstanding σ) /\
  sent_tid (a_sent σ) 1 = Some 1 /\ sent_tid (a_sent σ) 65537 = Some 1 /\ a_lost σ = [1].
Proof. vm_compute. repeat split; auto. Qed.

(* ... its deferred never fires, not even when the connection is lost *)
Lemma wrap_never_fires :
  let σ := arun code VDict (wrap_history ++ [Reply 1 7; Lost]) (init_state code) in
  In 1 (issued σ) /\ ~ In 1 (fired_dids σ) /\ a_pending σ = [] /\ a_fired σ = [(65537, OCb 1 7)].
Proof. vm_compute. repeat split; auto. intros [H|[]]. discriminate. Qed.

(* one window short of the wrap everything is still fine *)
Lemma wrap_window_ok :
  safe_run code VDict [Made; Execute; Skip 65534; Execute] (init_state code) = true /\
  safe_run code VDict wrap_history (init_state code) = false.
Proof. vm_compute. split; reflexivity. Qed.

(* replies for two units in one segment: the second one is thrown away with the buffer *)
Lemma mixed_unit_dropped :
  let σ := arun code VDict [Made; Execute; Execute; Segment [(1, 1, 11); (2, 2, 12)]] (init_state code) in
  a_fired σ = [(1, OCb 1 11)] /\ a_pending σ = [(2, 2)].
Proof. vm_compute. split; reflexivity. Qed.

(* the same two replies in two segments are both delivered *)
Lemma mixed_unit_separate_ok :
  let σ := arun code VDict [Made; Execute; Execute; Segment [(1, 1, 11)]; Segment [(2, 2, 12)]] (init_state code) in
  a_fired σ = [(1, OCb 1 11); (2, OCb 2 12)] /\ a_pending σ = [].
Proof. vm_compute. split; reflexivity. Qed.

(* FIFO (serial) variant: no id on the wire, so an unsolicited frame is handed to the oldest request *)
Lemma fifo_unsolicited :
  let σ := arun code VFifo [Made; Execute; Execute; Segment [(1, 999, 5)]] (init_state code) in
  a_fired σ = [(1, OCb 999 5)] /\ a_pending σ = [(2, 2)].
Proof. vm_compute. split; reflexivity. Qed.

(* a concrete history on which every hypothesis used in Props/C16.v is satisfied and something fires *)
Lemma nonvacuous_history :
  let ops := [Made; Execute; Execute; Execute; Reply 3 30; Reply 1 10; Reply 9 90; Reply 1 11; Lost; Execute] in
  let σ := arun code VDict ops (init_state code) in
  safe_run code VDict ops (init_state code) = true /\
  a_fired σ = [(3, OCb 3 30); (1, OCb 1 10); (2, OErr ConnectionExc); (4, OErr ConnectionExc)] /\
  a_pending σ = [] /\ a_lost σ = [].
Proof. vm_compute. repeat split; reflexivity. Qed.
