"""GenStore.v — datastore blocks and contexts (store.py, context.py, interfaces.py, constants.py).

Arithmetic and comparisons are translated into Expr terms; the list/dict glue around
them must match the exact statement shapes written below (fail closed otherwise).
"""
import ast
from . import core
from .core import Src, ExprTr, TranslatorFail, coq_z, coq_str, coq_list


def norm(code):
    """normal form of a python snippet: parse + unparse, docstrings and logging dropped"""
    return strip(ast.parse(code).body)


def strip(stmts):
    out = []
    for s in stmts:
        if core.is_docstring(s) or core.is_log_call(s):
            continue
        out.append(ast.unparse(s))
    return "\n".join(out)


def body(fn):
    return [s for s in fn.body if not (core.is_docstring(s) or core.is_log_call(s))]


def expect(src, fn, code):
    got = strip(fn.body)
    if got != norm(code):
        src.fail(fn, "body of %s has an unrecognised shape:\n%s\n-- expected --\n%s" % (fn.name, got, norm(code)))


def generate():
    st = Src("pymodbus/datastore/store.py")
    cx = Src("pymodbus/datastore/context.py")
    itf = Src("pymodbus/interfaces.py")
    cst = Src("pymodbus/constants.py")
    D = {}

    # ---- sequential block
    SEQ = "ModbusSequentialDataBlock"
    tr = ExprTr(st, {"self.address", "address", "count", "len(self.values)", "len(values)"})
    fn = st.func(SEQ, "validate")
    txt, isb = tr.straightline(fn.body)
    if not isb:
        st.fail(fn, "validate does not return a boolean expression")
    D["c_seq_validate"] = txt

    fn = st.func(SEQ, "getValues")
    b = body(fn)
    subst = {}
    for s in b[:-1]:
        if not (isinstance(s, ast.Assign) and len(s.targets) == 1 and isinstance(s.targets[0], ast.Name)):
            st.fail(s, "getValues: unsupported statement")
        subst[s.targets[0].id] = tr._tr(s.value, subst)
    r = b[-1]
    if not (isinstance(r, ast.Return) and isinstance(r.value, ast.Subscript)
            and ast.unparse(r.value.value) == "self.values" and isinstance(r.value.slice, ast.Slice)
            and r.value.slice.step is None and r.value.slice.lower is not None
            and r.value.slice.upper is not None):
        st.fail(r, "getValues: expected `return self.values[lo:hi]`")
    D["c_seq_get_lo"] = tr.tr(r.value.slice.lower, subst)
    D["c_seq_get_hi"] = tr.tr(r.value.slice.upper, subst)

    fn = st.func(SEQ, "setValues")
    b = body(fn)
    if not b or ast.unparse(b[0]) != norm("if not isinstance(values, list):\n    values = [values]"):
        st.fail(fn, "setValues: expected the scalar-to-list coercion first")
    subst = {}
    for s in b[1:-1]:
        if not (isinstance(s, ast.Assign) and len(s.targets) == 1 and isinstance(s.targets[0], ast.Name)):
            st.fail(s, "setValues: unsupported statement")
        subst[s.targets[0].id] = tr._tr(s.value, subst)
    a = b[-1]
    if not (isinstance(a, ast.Assign) and len(a.targets) == 1 and isinstance(a.targets[0], ast.Subscript)
            and ast.unparse(a.targets[0].value) == "self.values"
            and isinstance(a.targets[0].slice, ast.Slice) and a.targets[0].slice.step is None
            and a.targets[0].slice.lower is not None and a.targets[0].slice.upper is not None
            and ast.unparse(a.value) == "values"):
        st.fail(a, "setValues: expected `self.values[lo:hi] = values`")
    D["c_seq_set_lo"] = tr.tr(a.targets[0].slice.lower, subst)
    D["c_seq_set_hi"] = tr.tr(a.targets[0].slice.upper, subst)

    expect(st, st.func("BaseModbusDataBlock", "reset"),
           "self.values = [self.default_value] * len(self.values)")
    expect(st, st.func("BaseModbusDataBlock", "__iter__"),
           "if isinstance(self.values, dict):\n    return iteritems(self.values)\n"
           "return enumerate(self.values, self.address)")
    if st.has_func(SEQ, "reset") or st.has_func(SEQ, "__iter__"):
        st.fail(st.cls(SEQ), "sequential block overrides reset/__iter__")

    # ---- sparse block
    SP = "ModbusSparseDataBlock"
    tr = ExprTr(st, {"address", "count", "idx"})
    fn = st.func(SP, "validate")
    b = body(fn)
    if len(b) != 3:
        st.fail(fn, "sparse validate: expected 3 statements")
    g = b[0]
    if not (isinstance(g, ast.If) and not g.orelse and len(g.body) == 1
            and ast.unparse(g.body[0]) == "return False"):
        st.fail(g, "sparse validate: expected `if <test>: return False`")
    D["c_sp_validate_reject"] = tr.tr_bool(g.test)
    h = b[1]
    if not (isinstance(h, ast.Assign) and ast.unparse(h.targets[0]) == "handle"
            and isinstance(h.value, ast.Call) and ast.unparse(h.value.func) == "set"
            and len(h.value.args) == 1 and isinstance(h.value.args[0], ast.Call)
            and ast.unparse(h.value.args[0].func) == "range" and len(h.value.args[0].args) == 2):
        st.fail(h, "sparse validate: expected `handle = set(range(lo, hi))`")
    D["c_sp_validate_lo"] = tr.tr(h.value.args[0].args[0])
    D["c_sp_validate_hi"] = tr.tr(h.value.args[0].args[1])
    if ast.unparse(b[2]) != "return handle.issubset(set(iterkeys(self.values)))":
        st.fail(b[2], "sparse validate: expected `return handle.issubset(set(iterkeys(self.values)))`")

    fn = st.func(SP, "getValues")
    b = body(fn)
    ok = False
    if len(b) == 1 and isinstance(b[0], ast.Return) and isinstance(b[0].value, ast.ListComp):
        lc = b[0].value
        if ast.unparse(lc.elt) == "self.values[i]" and len(lc.generators) == 1:
            g = lc.generators[0]
            if ast.unparse(g.target) == "i" and not g.ifs and isinstance(g.iter, ast.Call) \
                    and ast.unparse(g.iter.func) == "range" and len(g.iter.args) == 2:
                D["c_sp_get_lo"] = tr.tr(g.iter.args[0])
                D["c_sp_get_hi"] = tr.tr(g.iter.args[1])
                ok = True
    if not ok:
        st.fail(fn, "sparse getValues: expected `return [self.values[i] for i in range(lo, hi)]`")

    fn = st.func(SP, "setValues")
    b = body(fn)
    ok = False
    if len(b) == 1 and isinstance(b[0], ast.If) and ast.unparse(b[0].test) == "isinstance(values, dict)" \
            and strip(b[0].body) == norm("for idx, val in iteritems(values):\n    self.values[idx] = val") \
            and len(b[0].orelse) == 2 \
            and ast.unparse(b[0].orelse[0]) == norm("if not isinstance(values, list):\n    values = [values]"):
        loop = b[0].orelse[1]
        if isinstance(loop, ast.For) and ast.unparse(loop.target) == "(idx, val)" \
                and ast.unparse(loop.iter) == "enumerate(values)" and not loop.orelse \
                and len(loop.body) == 1 and isinstance(loop.body[0], ast.Assign) \
                and isinstance(loop.body[0].targets[0], ast.Subscript) \
                and ast.unparse(loop.body[0].targets[0].value) == "self.values" \
                and ast.unparse(loop.body[0].value) == "val":
            D["c_sp_set_key"] = tr.tr(loop.body[0].targets[0].slice)
            ok = True
    if not ok:
        st.fail(fn, "sparse setValues: unrecognised shape")
    expect(st, st.func(SP, "reset"), "self.values = dict.fromkeys(self.values, self.default_value)")

    # ---- slave context
    CX = "ModbusSlaveContext"
    trc = ExprTr(cx, {"self.zero_mode", "address"}, bool_atoms={"self.zero_mode"})
    for meth, key, call in (("validate", "c_ctx_validate_addr", "return self.store[self.decode(fx)].validate(address, count)"),
                            ("getValues", "c_ctx_get_addr", "return self.store[self.decode(fx)].getValues(address, count)"),
                            ("setValues", "c_ctx_set_addr", "self.store[self.decode(fx)].setValues(address, values)")):
        fn = cx.func(CX, meth)
        b = body(fn)
        if not b or ast.unparse(b[-1]) != call:
            cx.fail(fn, "%s: expected final `%s`" % (meth, call))
        subst = {"address": ('(EAtom "address")', False)}
        r = trc.straightline(b[:-1], subst, allow_no_return=True, want_subst=True)
        D[key] = r["address"][0]
    expect(cx, cx.func(CX, "reset"), "for datastore in itervalues(self.store):\n    datastore.reset()")

    # ---- fx mapper (interfaces.py)
    mapper = {}
    seen = False
    for s in itf.cls("IModbusSlaveContext").body:
        t = ast.unparse(s)
        if isinstance(s, ast.Assign) and ast.unparse(s.targets[0]) == "__fx_mapper":
            try:
                mapper.update(ast.literal_eval(s.value))
            except Exception:
                itf.fail(s, "__fx_mapper: not a literal dict")
            seen = True
        elif isinstance(s, ast.Expr) and isinstance(s.value, ast.Call) \
                and ast.unparse(s.value.func) == "__fx_mapper.update":
            lc = s.value.args[0] if len(s.value.args) == 1 else None
            if not (isinstance(lc, ast.ListComp) and isinstance(lc.elt, ast.Tuple) and len(lc.elt.elts) == 2
                    and ast.unparse(lc.elt.elts[0]) == "i" and isinstance(lc.elt.elts[1], ast.Constant)
                    and len(lc.generators) == 1 and ast.unparse(lc.generators[0].target) == "i"
                    and not lc.generators[0].ifs):
                itf.fail(s, "__fx_mapper.update: unrecognised shape")
            try:
                keys = ast.literal_eval(lc.generators[0].iter)
            except Exception:
                itf.fail(s, "__fx_mapper.update: iterable not literal")
            for k in keys:
                mapper[k] = lc.elt.elts[1].value
        elif "__fx_mapper" in t and not isinstance(s, ast.FunctionDef):
            itf.fail(s, "unrecognised statement touching __fx_mapper")
    if not seen:
        itf.fail(itf.cls("IModbusSlaveContext"), "__fx_mapper not found")
    expect(itf, itf.func("IModbusSlaveContext", "decode"), "return self.__fx_mapper[fx]")
    for k, v in mapper.items():
        if not (isinstance(k, int) and isinstance(v, str)):
            itf.fail(itf.cls("IModbusSlaveContext"), "__fx_mapper entry of unexpected type")
    D["c_fx_mapper"] = coq_list("(%s, %s)" % (coq_z(k), coq_str(v)) for k, v in sorted(mapper.items()))

    # ---- server context
    SV = "ModbusServerContext"
    unit = cst.class_attr("Defaults", "UnitId")
    if unit is None:
        cst.fail(cst.cls("Defaults"), "Defaults.UnitId not found")
    unit_id = core.const_int(cst, unit)
    D["c_srv_default_unit"] = coq_z(unit_id)
    trs = ExprTr(cx, {"slave", "self.single"}, bool_atoms={"self.single"})
    fn = cx.func(SV, "__init__")
    expect(cx, fn, "self.single = single\nself._slaves = slaves or {}\n"
                   "if self.single:\n    self._slaves = {Defaults.UnitId: self._slaves}")
    fn = cx.func(SV, "__setitem__")
    b = body(fn)
    if not (len(b) == 2 and ast.unparse(b[0]) == norm("if self.single:\n    slave = Defaults.UnitId")
            and isinstance(b[1], ast.If) and strip(b[1].body) == "self._slaves[slave] = context"
            and len(b[1].orelse) == 1 and isinstance(b[1].orelse[0], ast.Raise)
            and "NoSuchSlaveException" in ast.unparse(b[1].orelse[0])):
        cx.fail(fn, "__setitem__: unrecognised shape")
    D["c_srv_set_ok"] = trs.tr_bool(b[1].test)
    fn = cx.func(SV, "__delitem__")
    b = body(fn)
    if not (len(b) == 1 and isinstance(b[0], ast.If) and strip(b[0].body) == "del self._slaves[slave]"
            and len(b[0].orelse) == 1 and isinstance(b[0].orelse[0], ast.Raise)
            and "NoSuchSlaveException" in ast.unparse(b[0].orelse[0])):
        cx.fail(fn, "__delitem__: unrecognised shape")
    D["c_srv_del_ok"] = trs.tr_bool(b[0].test)
    fn = cx.func(SV, "__getitem__")
    b = body(fn)
    if not (len(b) == 2 and ast.unparse(b[0]) == norm("if self.single:\n    slave = Defaults.UnitId")
            and isinstance(b[1], ast.If) and ast.unparse(b[1].test) == "slave in self._slaves"
            and strip(b[1].body) == "return self._slaves.get(slave)"
            and len(b[1].orelse) == 1 and isinstance(b[1].orelse[0], ast.Raise)
            and "NoSuchSlaveException" in ast.unparse(b[1].orelse[0])):
        cx.fail(fn, "__getitem__: unrecognised shape")
    expect(cx, cx.func(SV, "__contains__"),
           "if self.single and self._slaves:\n    return True\nelse:\n    return slave in self._slaves")
    expect(cx, cx.func(SV, "slaves"), "return list(self._slaves.keys())")

    # ---- defaults: Defaults.ZeroMode, ModbusSlaveContext.__init__, the create() factories
    zm = cst.class_attr("Defaults", "ZeroMode")
    if zm is None or not isinstance(zm, ast.Constant) or not isinstance(zm.value, bool):
        cst.fail(cst.cls("Defaults"), "Defaults.ZeroMode is not a boolean literal")
    D["c_ctx_default_zero"] = coq_z(int(zm.value))
    expect(cx, cx.func(CX, "__init__"),
           "self.store = dict()\n"
           "self.store['d'] = kwargs.get('di', ModbusSequentialDataBlock.create())\n"
           "self.store['c'] = kwargs.get('co', ModbusSequentialDataBlock.create())\n"
           "self.store['i'] = kwargs.get('ir', ModbusSequentialDataBlock.create())\n"
           "self.store['h'] = kwargs.get('hr', ModbusSequentialDataBlock.create())\n"
           "self.zero_mode = kwargs.get('zero_mode', Defaults.ZeroMode)")
    fn = st.func(SEQ, "create")
    b = body(fn)
    ok = False
    if len(b) == 1 and isinstance(b[0], ast.Return) and isinstance(b[0].value, ast.Call) \
            and ast.unparse(b[0].value.func) == "klass" and len(b[0].value.args) == 2:
        a0, a1 = b[0].value.args
        if isinstance(a1, ast.BinOp) and isinstance(a1.op, ast.Mult) and ast.unparse(a1.left) in ("[0]", "[0x00]"):
            D["c_create_addr"] = coq_z(core.const_int(st, a0))
            D["c_create_size"] = coq_z(core.const_int(st, a1.right))
            ok = True
    if not ok:
        st.fail(fn, "sequential create(): expected `return klass(<addr>, [0x00] * <n>)`")
    fn = st.func(SP, "create")
    b = body(fn)
    if not (len(b) == 1 and ast.unparse(b[0]) == "return klass([0] * %s)" % D["c_create_size"].strip("()")):
        st.fail(fn, "sparse create(): expected `return klass([0x00] * <same n>)`")
    expect(st, st.func(SEQ, "__init__"),
           "self.address = address\n"
           "if hasattr(values, '__iter__'):\n    self.values = list(values)\nelse:\n    self.values = [values]\n"
           "self.default_value = self.values[0].__class__()")

    out = [core.HEADER, "From PM.theories Require Import Store.\n",
           "Definition code : store_code := {|"]
    fields = ["c_seq_validate", "c_seq_get_lo", "c_seq_get_hi", "c_seq_set_lo", "c_seq_set_hi",
              "c_sp_validate_reject", "c_sp_validate_lo", "c_sp_validate_hi", "c_sp_get_lo", "c_sp_get_hi",
              "c_sp_set_key", "c_ctx_validate_addr", "c_ctx_get_addr", "c_ctx_set_addr", "c_fx_mapper",
              "c_srv_default_unit", "c_srv_set_ok", "c_srv_del_ok",
              "c_ctx_default_zero", "c_create_addr", "c_create_size"]
    out.append(";\n".join("  %s := %s" % (f, D[f]) for f in fields))
    out.append("|}.\n")
    return {"GenStore.v": "\n".join(out)}
