From PM.theories Require Import Base AsyncClient.
From PM.Generated Require Import GenAsync.
Open Scope N_scope.
Example C16_generated_good : good_code GenAsync.code.
Proof. repeat split; reflexivity. Qed.
Print Assumptions C16_generated_good.
