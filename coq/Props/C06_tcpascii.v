(* Props/C06_tcpascii.v — C06 (framing is independent of the chunking), half for the socket
   and ASCII framers.  [feed recv s chunks] = (final state, all deliveries, true iff no call
   raised or ran out of fuel).  Frames, chunk lists and the decoder are universally
   quantified; empty chunks are ordinary elements of the list.
   [stream_frame k dec c f]: f is well-formed and, IF its unit is accepted by the filter c, its
   PDU is decodable — so a stream may mix frames for served and for foreign units;
   [ref_deliveries k c frames] = the frames of the accepted units, in order (one-frame-per-read
   reference of the property). *)
From PM.theories Require Import Base Expr Struct FrBaseA Lrc FrTcp FrAscii FrSpecA.
From PM.Generated Require Import GenFramerA.
From PM.proofs Require Import FrA_tcp_proofs FrA_ascii_proofs.
Open Scope list_scope.
Open Scope Z_scope.

(* ASCII: for every stream of frames and EVERY division of it into reads, exactly the frames of
   the accepted units are delivered, in order, and no call raises *)
Theorem C06_ascii : forall (dec : bytes -> dres) (c : cfg) (frames : list frame) (chunks : list bytes),
  Forall (stream_frame KAscii dec c) frames ->
  concat chunks = concat (map (spec_adu KAscii) frames) ->
  exists s', feed (a_recv base lrc ascii dec c) (a_init ascii) chunks
             = (s', ref_deliveries KAscii c frames, true).
Proof. exact ascii_chunking. Qed.
Print Assumptions C06_ascii.

(* TCP: the FULL statement (no hypothesis on the cut points) — holds since the socket framer waits
   for a complete MBAP header (repair 9) and skips foreign-unit frames with advanceFrame (repair 11) *)
Theorem C06_tcp : forall (dec : bytes -> dres) (c : cfg) (frames : list frame) (chunks : list bytes),
  Forall (stream_frame KTcp dec c) frames ->
  concat chunks = concat (map (spec_adu KTcp) frames) ->
  exists s', feed (t_recv base tcp dec c) (t_init tcp) chunks = (s', ref_deliveries KTcp c frames, true).
Proof. exact tcp_chunking. Qed.
Print Assumptions C06_tcp.

(* the witness that used to refute the TCP statement (a read ending 7 bytes into a frame) now passes *)
Theorem C06_tcp_fixed_witness :
  feed (t_recv base tcp tcp_refute_dec tcp_refute_cfg) (t_init tcp) tcp_refute_chunks =
  (t_init tcp, [spec_delivery KTcp tcp_refute_frame], true).
Proof. exact tcp_old_witness_passes. Qed.
Print Assumptions C06_tcp_fixed_witness.

(* the hypotheses are satisfiable: a served frame, a foreign-unit frame with an undecodable PDU and
   another served frame, cut 3 bytes into the first header, with an empty read, and inside the third *)
Example C06_nonvacuous :
  let f1 := {| f_tid := 1; f_pid := 0; f_uid := 1; f_pdu := [3%N; 0%N; 0%N; 0%N; 1%N] |} in
  let f2 := {| f_tid := 2; f_pid := 0; f_uid := 9; f_pdu := [99%N] |} in
  let f3 := {| f_tid := 3; f_pid := 0; f_uid := 1; f_pdu := [3%N; 0%N; 0%N; 0%N; 2%N] |} in
  let c := {| c_units := [1]; c_single := None |} in
  let dec := fun p : bytes => match p with [99%N] => DNone | _ => DMsg 3 end in
  let s := spec_adu KTcp f1 ++ spec_adu KTcp f2 ++ spec_adu KTcp f3 in
  Forall (stream_frame KTcp dec c) [f1; f2; f3] /\
  feed (t_recv base tcp dec c) (t_init tcp) [firstn 3 s; []; firstn 22 (skipn 3 s); skipn 25 s]
    = (t_init tcp, [spec_delivery KTcp f1; spec_delivery KTcp f3], true).
Proof.
  split; [|vm_compute; reflexivity].
  repeat constructor; cbn; try lia; try discriminate; reflexivity.
Qed.
