#!/bin/bash
# tools/seed2.sh Cxx [extra props]  — verify + run + keep the two round-2 seeds of Cxx (stored as Cxx-3, Cxx-4)
p="$1"; shift
for n in 1 2; do
  t=$((n+2))
  echo "=== $p round-2 seed $n -> $p-$t"
  /verif/tools/seedverify.sh /tmp/seed2_$p/out/$n 2>&1 | tr '\n' ' '; echo
  SEEDROOT=/tmp/seed2 SEEDTAG=$t /verif/tools/seedrun.sh $p $n $p "$@" | grep -v "^exit"
  SEEDROOT=/tmp/seed2 SEEDTAG=$t /verif/tools/seedkeep.py $p $n
done
