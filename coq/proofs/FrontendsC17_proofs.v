(* FrontendsC17_proofs.v — C17 lemmas about the GENERATED execute / loop skeletons. *)
From PM.theories Require Import Base Ladder Frontends.
From PM.Generated Require Import GenFrontends.
From PM.proofs Require Import Frontends_proofs.
Open Scope list_scope.
Open Scope Z_scope.
Arguments step_action : simpl never.
Arguments apply_action : simpl never.

(* ------------------------------------------------------------------------------------- *)
(* Part 3 — C17: the three stream front-ends against each other                            *)
(* ------------------------------------------------------------------------------------- *)

Definition exec_agree (X Y : exec_skel) : Prop :=
  xs_ladder X = xs_ladder Y /\ xs_copy_tid X = xs_copy_tid Y /\ xs_copy_uid X = xs_copy_uid Y /\
  xs_send_checks_respond X = xs_send_checks_respond Y.

Definition stream_fe (fe : frontend) : Prop := fe = SyncTcp \/ fe = AioTcp \/ fe = TwTcp.

Lemma generated_exec_agree : forall a b, stream_fe a -> stream_fe b -> exec_agree (fc_exec code a) (fc_exec code b).
Proof.
  intros a b [Ha|[Ha|Ha]] [Hb|[Hb|Hb]]; subst; repeat split; reflexivity.
Qed.

Section Equiv.
  Variables FS Req Resp World : Type.
  Variable E : env FS Req Resp World.
  Notation serve_step := (serve_step FS Req Resp World code E).
  Notation serve_data := (serve_data FS Req Resp World code E).
  Notation deliver := (deliver FS Req Resp World E).
  Notation callback := (callback FS Req Resp World E).
  Notation tail := (tail FS Req Resp World E).
  Notation send := (send FS Req Resp World E).
  Notation fargs_for := (fargs_for FS Req Resp World E).
  Notation run_conn := (run_conn FS Req Resp World code E).

  (* the features the three front-ends have in common: no broadcast option (Twisted has none),
     listen-only mode never entered (only Twisted honours it), and a world abstraction that does
     not observe the bus-message counter (only Twisted increments it) *)
  Record common_features (c : cfg) : Prop := {
    cf_no_broadcast : cfg_broadcast c = false;
    cf_no_listen_only : forall w, e_listen_only _ _ _ _ E w = false;
    cf_bus_blind : forall w, e_count_bus _ _ _ _ E w = w }.

  Lemma send_equiv : forall X Y w p, exec_agree X Y -> (forall w, e_count_bus _ _ _ _ E w = w) ->
    send X w p = send Y w p.
  Proof.
    intros X Y w p (_ & _ & _ & Hr) Hbus. unfold Frontends.send. rewrite Hr, !Hbus.
    destruct (xs_counts_bus X), (xs_counts_bus Y); reflexivity.
  Qed.

  Lemma tail_equiv : forall X Y w r p, exec_agree X Y -> (forall w, e_count_bus _ _ _ _ E w = w) ->
    tail X false w r p = tail Y false w r p.
  Proof.
    intros X Y w r p HA Hbus. pose proof HA as (_ & Ht & Hu & _). unfold Frontends.tail.
    rewrite !Bool.andb_false_r. destruct p as [p|]; [|reflexivity].
    rewrite Ht, Hu. apply send_equiv; assumption.
  Qed.

  Lemma callback_equiv : forall X Y c w r, exec_agree X Y -> cfg_broadcast c = false ->
    (forall w, e_count_bus _ _ _ _ E w = w) -> callback X c w r = callback Y c w r.
  Proof.
    intros X Y c w r HA Hb Hbus. pose proof HA as (Hl & _). unfold Frontends.callback.
    rewrite Hb, !Bool.andb_false_r. cbn [andb].
    destruct (e_run _ _ _ _ E w (e_uid _ _ _ _ E r) r) as [w1 [p|e]].
    - apply tail_equiv; assumption.
    - rewrite Hl. destruct (first_match (xs_ladder Y) (RPy e)) as [[code|code]|]; [| |reflexivity].
      + destruct (cfg_ignore_missing c); [reflexivity|apply tail_equiv; assumption].
      + apply tail_equiv; assumption.
  Qed.

  Lemma deliver_equiv : forall X Y c ds w ff exn acc, exec_agree X Y -> cfg_broadcast c = false ->
    (forall w, e_count_bus _ _ _ _ E w = w) ->
    deliver X c w ds ff exn acc = deliver Y c w ds ff exn acc.
  Proof.
    induction ds as [|[f r] t IH]; intros; cbn; [reflexivity|].
    rewrite (callback_equiv X Y) by assumption.
    destruct (callback Y c w r); [apply IH; assumption|reflexivity].
  Qed.

  Lemma prep_units_no_broadcast : forall c us, cfg_broadcast c = false -> prep_units c us = us.
  Proof. intros c us H. unfold prep_units. rewrite H. reflexivity. Qed.

  Lemma fargs_equiv : forall a b c w e, stream_fe a -> stream_fe b -> cfg_broadcast c = false ->
    fargs_for (fc_loop code a) c w e = fargs_for (fc_loop code b) c w e.
  Proof.
    intros a b c w e Ha Hb Hc. unfold Frontends.fargs_for, Frontends.units_for.
    destruct Ha as [Ha|[Ha|Ha]], Hb as [Hb|[Hb|Hb]]; subst; cbn;
      rewrite ?prep_units_no_broadcast by assumption; destruct e; reflexivity.
  Qed.

  (* the part of an activation that does not depend on the ladder *)
  Definition data_core (fe : frontend) (c : cfg) (w : World) (f : FS) (bs : bytes) :=
    let '(ds, ffinal, exn) := e_recv _ _ _ _ E (fargs_for (fc_loop code fe) c w (is_empty bs)) f bs in
    deliver (fc_exec code fe) c w ds ffinal exn [].

  Lemma data_core_equiv : forall a b c w f bs, stream_fe a -> stream_fe b -> common_features c ->
    data_core a c w f bs = data_core b c w f bs.
  Proof.
    intros a b c w f bs Ha Hb [Hc _ Hbus]. unfold data_core.
    rewrite (fargs_equiv a b) by assumption.
    destruct (e_recv _ _ _ _ E _ f bs) as [[ds ff] exn].
    apply deliver_equiv; [apply generated_exec_agree| |]; assumption.
  Qed.

  Lemma serve_step_core : forall fe c w cs bs, stream_fe fe -> common_features c -> bs <> [] ->
    serve_step fe c w cs (IData bs) =
    let '(w', f', outs, exn') := data_core fe c w (cs_f _ cs) bs in
    let a := step_action (fc_loop code fe) false (option_map RPy exn') in
    (w', apply_action _ _ _ _ E (fc_loop code fe) a f' cs, outs, a).
  Proof.
    intros fe c w cs bs Hfe [Hc Hl Hbus] Hbs.
    assert (He : is_empty bs = false) by (destruct bs; [congruence|reflexivity]).
    unfold Frontends.serve_step, Frontends.serve_data, data_core. rewrite Hl, He.
    destruct Hfe as [H|[H|H]]; subst fe; cbn [pre_raise fc_loop code loop_of loop_SyncTcp loop_AioTcp loop_TwTcp
      ls_addr_fmt ls_listen_gate ls_units andb];
      destruct (e_recv _ _ _ _ E _ (cs_f _ cs) bs) as [[ds ff] exn]; reflexivity.
  Qed.

  (* one chunk: same world, same bytes sent, same framer state before the ladder acts *)
  Lemma step_equiv : forall a b c w cs bs, stream_fe a -> stream_fe b -> common_features c -> bs <> [] ->
    let ra := serve_step a c w cs (IData bs) in
    let rb := serve_step b c w cs (IData bs) in
    fst (fst (fst ra)) = fst (fst (fst rb)) /\ snd (fst ra) = snd (fst rb) /\
    (snd ra = Continue -> ra = rb).
  Proof.
    intros a b c w cs bs Ha Hb Hc Hbs. cbn zeta.
    rewrite (serve_step_core a), (serve_step_core b) by assumption.
    rewrite (data_core_equiv a b) by assumption.
    destruct (data_core b c w (cs_f _ cs) bs) as [[[w' f'] outs] exn']. cbn [fst snd].
    repeat split.
    intro Hcont. destruct exn' as [e|]; cbn [option_map] in *.
    - exfalso. destruct Ha as [H|[H|H]]; subst a; destruct e; vm_compute in Hcont; discriminate.
    - destruct Ha as [H|[H|H]], Hb as [H'|[H'|H']]; subst; reflexivity.
  Qed.

  (* a whole connection: as long as nothing is raised the three front-ends are the same function
     of (world, chunk list) *)
  Fixpoint clean (fe : frontend) (c : cfg) (w : World) (cs : connstate FS) (chunks : list bytes) : bool :=
    match chunks with
    | [] => true
    | b :: t => let '(w', cs', _, a) := serve_step fe c w cs (IData b) in
                action_eqb a Continue && clean fe c w' cs' t
    end.

  Lemma action_eqb_continue : forall a, action_eqb a Continue = true -> a = Continue.
  Proof. intros a; destruct a; cbn; congruence. Qed.

  Lemma conn_equiv : forall a b c chunks w cs, stream_fe a -> stream_fe b -> common_features c ->
    Forall (fun bs => bs <> []) chunks -> clean a c w cs chunks = true ->
    run_conn a c w cs chunks = run_conn b c w cs chunks.
  Proof.
    intros a b c chunks. induction chunks as [|bs t IH]; intros w cs Ha Hb Hc Hne Hcl; [reflexivity|].
    inversion Hne as [|? ? Hbs Ht]; subst.
    destruct (step_equiv a b c w cs bs Ha Hb Hc Hbs) as (_ & _ & Heq).
    cbn [clean Frontends.run_conn] in *.
    destruct (serve_step a c w cs (IData bs)) as [[[w1 cs1] o1] a1].
    apply andb_prop in Hcl. destruct Hcl as [Hc1 Hcl]. apply action_eqb_continue in Hc1. subst a1.
    rewrite <- (Heq eq_refl). rewrite (IH w1 cs1) by assumption. reflexivity.
  Qed.
End Equiv.

(* ------------------------------------------------------------------------------------- *)
(* Datagram front-ends: threaded (a handler and a framer per datagram) vs asyncio (one     *)
(* framer for everything), on datagrams that carry whole frames                            *)
(* ------------------------------------------------------------------------------------- *)

Section Dgram.
  Variables FS Req Resp World : Type.
  Variable E : env FS Req Resp World.
  Notation serve_step := (serve_step FS Req Resp World code E).
  Notation serve_data := (serve_data FS Req Resp World code E).
  Notation serve_activation := (serve_activation FS Req Resp World code E).
  Notation serve_event := (serve_event FS Req Resp World code E).
  Notation run_events := (run_events FS Req Resp World code E).
  Notation deliver := (deliver FS Req Resp World E).
  Notation fargs_for := (fargs_for FS Req Resp World E).
  Notation fresh_conn := (fresh_conn FS Req Resp World E).
  Notation finit := (e_finit FS Req Resp World E).

  (* a datagram of whole frames: from the initial framer state the framer raises nothing and is
     back in its initial state afterwards (nothing is left in the buffer) *)
  Definition whole_frames (bs : bytes) : Prop :=
    bs <> [] /\ forall fa, exists ds, e_recv _ _ _ _ E fa finit bs = (ds, finit, None).
  (* an empty read does nothing to an empty framer *)
  Definition empty_read_idle : Prop := forall fa, e_recv _ _ _ _ E fa finit [] = ([], finit, None).

  Lemma deliver_none : forall X c ds w ff exn acc w' f' o,
    deliver X c w ds ff exn acc = (w', f', o, None) -> f' = ff /\ exn = None.
  Proof.
    induction ds as [|[f r] t IH]; intros w ff exn acc w' f' o H; cbn in H.
    - inversion H; subst. split; reflexivity.
    - destruct (callback _ _ _ _ E X c w r); [eapply IH; exact H|discriminate].
  Qed.

  (* since /repo 168efb6 the threaded datagram handler prepares the unit list like asyncio does *)
  Lemma dgram_fargs : forall c w e,
    fargs_for (fc_loop code SyncUdp) c w e = fargs_for (fc_loop code AioUdp) c w false.
  Proof. intros c w e. reflexivity. Qed.

  (* asyncio: one datagram of whole frames on which nothing is raised *)
  Lemma aio_dgram_step : forall c w bs, whole_frames bs ->
    snd (serve_step AioUdp c w fresh_conn (IData bs)) = Continue ->
    exists w' o, serve_step AioUdp c w fresh_conn (IData bs) = (w', fresh_conn, o, Continue) /\
      (let '(ds, ff, exn) := e_recv _ _ _ _ E (fargs_for (fc_loop code AioUdp) c w false) finit bs in
       deliver (fc_exec code AioUdp) c w ds ff exn []) = (w', finit, o, None).
  Proof.
    intros c w bs [Hne Hw] Ha.
    assert (He : is_empty bs = false) by (destruct bs; [congruence|reflexivity]).
    unfold Frontends.serve_step, Frontends.serve_data in *.
    cbn [pre_raise fc_loop code loop_of loop_AioUdp ls_addr_fmt ls_listen_gate ls_units andb] in *.
    rewrite He in *. cbn [andb] in *.
    change (cs_f FS fresh_conn) with finit in *.
    destruct (Hw (fargs_for loop_AioUdp c w false)) as [ds Hr]. rewrite Hr in *.
    destruct (deliver (fc_exec code AioUdp) c w ds finit None []) as [[[w' f'] o] exn'] eqn:Hd.
    cbn [snd] in Ha. destruct exn' as [e|].
    - exfalso. destruct e; vm_compute in Ha; discriminate.
    - destruct (deliver_none _ _ _ _ _ _ _ _ _ _ Hd) as [Hf _]. subst f'.
      exists w', o. split; reflexivity.
  Qed.

  (* threaded: the same datagram; the handler then reads the None it left in self.request *)
  Lemma sync_dgram_activation : forall c w bs w' o, whole_frames bs -> empty_read_idle ->
    (let '(ds, ff, exn) := e_recv _ _ _ _ E (fargs_for (fc_loop code AioUdp) c w false) finit bs in
     deliver (fc_exec code AioUdp) c w ds ff exn []) = (w', finit, o, None) ->
    exists cs', serve_activation SyncUdp c w fresh_conn (IData bs) = (w', cs', o, Stop).
  Proof.
    intros c w bs w' o [Hne Hw] Hidle Hd.
    assert (He : is_empty bs = false) by (destruct bs; [congruence|reflexivity]).
    assert (H1 : serve_step SyncUdp c w fresh_conn (IData bs) = (w', fresh_conn, o, Continue)).
    { unfold Frontends.serve_step, Frontends.serve_data.
      cbn [pre_raise fc_loop code loop_of loop_SyncUdp ls_addr_fmt ls_listen_gate ls_units andb].
      rewrite He. cbn [andb].
      pose proof (dgram_fargs c w false) as Hf.
      cbn [fc_loop fc_exec code loop_of exec_of] in Hf, Hd |- *. rewrite Hf.
      change (cs_f FS fresh_conn) with finit.
      change exec_SyncUdp with exec_AioUdp.
      destruct (e_recv _ _ _ _ E (fargs_for loop_AioUdp c w false) finit bs) as [[ds ff] exn].
      rewrite Hd. reflexivity. }
    assert (H2 : serve_step SyncUdp c w' fresh_conn (IData []) =
                 (w', {| cs_f := finit; cs_running := false; cs_closed := false |}, [], Stop)).
    { unfold Frontends.serve_step, Frontends.serve_data.
      cbn [pre_raise fc_loop code loop_of loop_SyncUdp ls_addr_fmt ls_listen_gate ls_units andb is_empty empty_skips ls_empty].
      change (cs_f FS fresh_conn) with finit.
      rewrite Hidle. reflexivity. }
    unfold Frontends.serve_activation.
    change (ls_site (fc_loop code SyncUdp)) with PerDatagram. cbv iota.
    rewrite H1. cbn [continues]. rewrite H2. rewrite app_nil_r. eexists. reflexivity.
  Qed.

  (* a history of datagrams (peer, bytes) *)
  Definition dgram_events (dgs : list (nat * bytes)) : list (nat * input) :=
    map (fun kb => (fst kb, IData (snd kb))) dgs.

  Fixpoint dgram_clean (c : cfg) (w : World) (dgs : list (nat * bytes)) : bool :=
    match dgs with
    | [] => true
    | (_, b) :: t => let '(w', _, _, a) := serve_step AioUdp c w fresh_conn (IData b) in
                     action_eqb a Continue && dgram_clean c w' t
    end.

  Definition outs_of (lg : list (logrec World)) : list (nat * list bytes) :=
    map (fun r => (lg_conn _ r, lg_out _ r)) lg.

  Lemma action_eqb_continue' : forall a, action_eqb a Continue = true -> a = Continue.
  Proof. intros a; destruct a; cbn; congruence. Qed.

  Lemma dgram_equiv : forall c dgs sva svs,
    empty_read_idle ->
    Forall (fun kb => whole_frames (snd kb)) dgs ->
    sv_world _ _ sva = sv_world _ _ svs -> sv_shared _ _ sva = fresh_conn ->
    dgram_clean c (sv_world _ _ sva) dgs = true ->
    outs_of (snd (run_events SyncUdp c svs (dgram_events dgs))) =
    outs_of (snd (run_events AioUdp c sva (dgram_events dgs))) /\
    sv_world _ _ (fst (run_events SyncUdp c svs (dgram_events dgs))) =
    sv_world _ _ (fst (run_events AioUdp c sva (dgram_events dgs))).
  Proof.
    intros c dgs. induction dgs as [|[k b] t IH]; intros sva svs Hidle Hall Hw Hsh Hcl.
    - cbn. split; [reflexivity|symmetry; exact Hw].
    - inversion Hall as [|? ? Hwb Ht]; subst. cbn [snd] in Hwb.
      cbn [dgram_clean] in Hcl.
      destruct (serve_step AioUdp c (sv_world _ _ sva) fresh_conn (IData b)) as [[[w1 cs1] o1] a1] eqn:Hst.
      apply andb_prop in Hcl. destruct Hcl as [Ha Hcl]. apply action_eqb_continue' in Ha. subst a1.
      assert (Hsnd : snd (serve_step AioUdp c (sv_world _ _ sva) fresh_conn (IData b)) = Continue)
        by (rewrite Hst; reflexivity).
      destruct (aio_dgram_step c (sv_world _ _ sva) b Hwb Hsnd) as (w' & o & Heq & Hd).
      rewrite Hst in Heq. inversion Heq; subst w1 cs1 o1. clear Heq.
      destruct (sync_dgram_activation c (sv_world _ _ sva) b w' o Hwb Hidle Hd) as [cs' Hsy].
      set (sva' := {| sv_world := w'; sv_conns := sv_conns _ _ sva; sv_shared := fresh_conn |}).
      set (svs' := {| sv_world := w'; sv_conns := sv_conns _ _ svs; sv_shared := sv_shared _ _ svs |}).
      assert (HA : serve_event AioUdp c sva k (IData b) = (sva', o, Continue)).
      { unfold Frontends.serve_event, Frontends.conn_state, Frontends.serve_activation.
        change (ls_site (fc_loop code AioUdp)) with PerServer. cbv iota. rewrite Hsh, Hst. reflexivity. }
      assert (HS : serve_event SyncUdp c svs k (IData b) = (svs', o, Stop)).
      { unfold Frontends.serve_event, Frontends.conn_state.
        change (ls_site (fc_loop code SyncUdp)) with PerDatagram. cbv iota. rewrite <- Hw, Hsy. reflexivity. }
      specialize (IH sva' svs' Hidle Ht eq_refl eq_refl Hcl).
      cbn [dgram_events map fst snd Frontends.run_events]. fold (dgram_events t).
      rewrite HA, HS.
      destruct (run_events SyncUdp c svs' (dgram_events t)) as [sfs lgs].
      destruct (run_events AioUdp c sva' (dgram_events t)) as [sfa lga].
      cbn [fst snd outs_of map lg_conn lg_out] in *. destruct IH as [IH1 IH2].
      split; [f_equal; exact IH1|exact IH2].
  Qed.

  (* ---- Twisted datagram protocol vs asyncio datagram handler: both keep one framer for all peers,
     so no whole-frame hypothesis is needed; Twisted does not consult should_respond ---------- *)

  Definition always_responds : Prop := forall p, e_should_respond _ _ _ _ E p = true.

  Lemma send_equiv_resp : forall X Y w p, always_responds -> (forall w, e_count_bus _ _ _ _ E w = w) ->
    send FS Req Resp World E X w p = send FS Req Resp World E Y w p.
  Proof.
    intros X Y w p Hr Hbus. unfold Frontends.send. rewrite Hr, !Hbus, !Bool.andb_false_r.
    destruct (xs_counts_bus X), (xs_counts_bus Y); reflexivity.
  Qed.

  Definition exec_agree_resp (X Y : exec_skel) : Prop :=
    xs_ladder X = xs_ladder Y /\ xs_copy_tid X = xs_copy_tid Y /\ xs_copy_uid X = xs_copy_uid Y.

  Lemma callback_equiv_resp : forall X Y c w r, exec_agree_resp X Y -> cfg_broadcast c = false ->
    always_responds -> (forall w, e_count_bus _ _ _ _ E w = w) ->
    callback FS Req Resp World E X c w r = callback FS Req Resp World E Y c w r.
  Proof.
    intros X Y c w r (Hl & Ht & Hu) Hb Hr Hbus. unfold Frontends.callback.
    rewrite Hb, !Bool.andb_false_r. cbn [andb].
    assert (HT : forall w1 p, tail FS Req Resp World E X false w1 r p = tail FS Req Resp World E Y false w1 r p).
    { intros w1 p. unfold Frontends.tail. rewrite !Bool.andb_false_r. destruct p as [p|]; [|reflexivity].
      rewrite Ht, Hu. apply send_equiv_resp; assumption. }
    destruct (e_run _ _ _ _ E w (e_uid _ _ _ _ E r) r) as [w1 [p|e]]; [apply HT|].
    rewrite Hl. destruct (first_match (xs_ladder Y) (RPy e)) as [[code|code]|]; [| |reflexivity].
    - destruct (cfg_ignore_missing c); [reflexivity|apply HT].
    - apply HT.
  Qed.

  Lemma deliver_equiv_resp : forall X Y c ds w ff exn acc, exec_agree_resp X Y -> cfg_broadcast c = false ->
    always_responds -> (forall w, e_count_bus _ _ _ _ E w = w) ->
    deliver X c w ds ff exn acc = deliver Y c w ds ff exn acc.
  Proof.
    induction ds as [|[f r] t IH]; intros; cbn; [reflexivity|].
    rewrite (callback_equiv_resp X Y) by assumption.
    destruct (callback _ _ _ _ E Y c w r); [apply IH; assumption|reflexivity].
  Qed.

  (* one datagram: same world, same bytes; identical result when nothing is raised *)
  Lemma tw_dgram_step : forall c w cs bs, common_features FS Req Resp World E c -> always_responds -> bs <> [] ->
    let ra := serve_step TwUdp c w cs (IData bs) in
    let rb := serve_step AioUdp c w cs (IData bs) in
    fst (fst (fst ra)) = fst (fst (fst rb)) /\ snd (fst ra) = snd (fst rb) /\
    (snd rb = Continue -> ra = rb).
  Proof.
    intros c w cs bs [Hb Hl Hbus] Hr Hne. cbn zeta.
    assert (He : is_empty bs = false) by (destruct bs; [congruence|reflexivity]).
    unfold Frontends.serve_step, Frontends.serve_data.
    cbn [pre_raise fc_loop code loop_of loop_AioUdp loop_TwUdp ls_addr_fmt ls_listen_gate ls_units andb].
    rewrite Hl, He. cbn [andb].
    assert (Hf : fargs_for loop_TwUdp c w false = fargs_for loop_AioUdp c w false).
    { unfold Frontends.fargs_for, Frontends.units_for. cbn. unfold prep_units. rewrite Hb. reflexivity. }
    rewrite Hf.
    destruct (e_recv _ _ _ _ E (fargs_for loop_AioUdp c w false) (cs_f _ cs) bs) as [[ds ff] exn].
    rewrite (deliver_equiv_resp (fc_exec code TwUdp) (fc_exec code AioUdp)) by
      (try assumption; repeat split; reflexivity).
    destruct (deliver (fc_exec code AioUdp) c w ds ff exn []) as [[[w' f'] outs] exn']. cbn [fst snd].
    repeat split. intro Hc. destruct exn' as [e|]; cbn [option_map] in *.
    - exfalso. destruct e; vm_compute in Hc; discriminate.
    - reflexivity.
  Qed.

  (* no datagram of the history makes the asyncio handler see an exception *)
  Fixpoint events_clean (c : cfg) (sv : server FS World) (l : list (nat * bytes)) : bool :=
    match l with
    | [] => true
    | (k, b) :: t => let '(sv', _, a) := serve_event AioUdp c sv k (IData b) in
                     action_eqb a Continue && events_clean c sv' t
    end.

  Lemma tw_dgram_equiv : forall c dgs sv,
    common_features FS Req Resp World E c -> always_responds ->
    Forall (fun kb => snd kb <> []) dgs ->
    events_clean c sv dgs = true ->
    run_events TwUdp c sv (dgram_events dgs) = run_events AioUdp c sv (dgram_events dgs).
  Proof.
    intros c dgs. induction dgs as [|[k b] t IH]; intros sv Hc Hr Hall Hcl; [reflexivity|].
    inversion Hall as [|? ? Hb Ht]; subst. cbn [snd] in Hb. cbn [events_clean] in Hcl.
    cbn [dgram_events map fst snd Frontends.run_events]. fold (dgram_events t).
    assert (Hev : serve_event AioUdp c sv k (IData b) = serve_event TwUdp c sv k (IData b) \/
                  snd (serve_event AioUdp c sv k (IData b)) <> Continue).
    { destruct (tw_dgram_step c (sv_world _ _ sv) (sv_shared _ _ sv) b Hc Hr Hb) as (_ & _ & Heq).
      unfold Frontends.serve_event, Frontends.conn_state, Frontends.serve_activation.
      change (ls_site (fc_loop code AioUdp)) with PerServer. change (ls_site (fc_loop code TwUdp)) with PerServer.
      cbv iota.
      destruct (serve_step AioUdp c (sv_world _ _ sv) (sv_shared _ _ sv) (IData b)) as [[[w1 cs1] o1] a1] eqn:Ha.
      destruct a1; try (right; cbn; discriminate).
      left. rewrite (Heq eq_refl). reflexivity. }
    destruct (serve_event AioUdp c sv k (IData b)) as [[sv' o] a] eqn:Hae.
    apply andb_prop in Hcl. destruct Hcl as [Ha Hcl]. apply action_eqb_continue' in Ha. subst a.
    destruct Hev as [Hev|Hev]; [|exfalso; apply Hev; reflexivity].
    rewrite <- Hev. rewrite (IH sv' Hc Hr Ht Hcl). reflexivity.
  Qed.
End Dgram.
