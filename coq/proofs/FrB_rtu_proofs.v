(* FrB_rtu_proofs.v — lemmas about the RTU framer model (theories/FrRtu.v) instantiated
   with the regenerated constants: closed forms of the generated expressions, Python
   slicing facts, the size oracle's lower bound, buildPacket = spec ADU, the delivery
   gate, whole-frame delivery, chunked delivery and resynchronisation. *)
From Coq Require Import ZifyBool.
From PM.theories Require Import Base Expr Struct FrBCode Crc FrBCommon FrRtu FrSpecB.
From PM.Generated Require Import GenFramerB.
From PM.proofs Require Import Struct_proofs Crc_proofs.
Open Scope list_scope.
Open Scope Z_scope.

Ltac Zify.zify_post_hook ::= Z.to_euclidean_division_equations.

(* ------------------------------------------------------------------ closed forms of the generated data
   (these are the lemmas that stop compiling when rtu_framer.py / utilities.py change a
   slice bound, a comparison or a constant) *)

Lemma rc_ready_closed n :
  beval (env_of [("len(self._buffer)"%string, n); ("self._hsize"%string, rc_hsize rtu)]) (rc_ready rtu) = (n >? 1).
Proof. unfold beval. cbn. destruct (n >? 1); reflexivity. Qed.

Lemma rc_ready2_closed n l :
  beval (env_of [("len(self._buffer)"%string, n); ("self._header['len']"%string, l)]) (rc_ready2 rtu) = (n >=? l).
Proof. unfold beval. cbn. destruct (n >=? l); reflexivity. Qed.

Lemma rc_chk_data_hi_closed f : e1 "frame_size" f (rc_chk_data_hi rtu) = f - 2. Proof. reflexivity. Qed.
Lemma rc_chk_crc_lo_closed f : e1 "frame_size" f (rc_chk_crc_lo rtu) = f - 2. Proof. reflexivity. Qed.
Lemma rc_chk_crc_hi_closed f : e1 "frame_size" f (rc_chk_crc_hi rtu) = f. Proof. reflexivity. Qed.
Lemma rc_chk_crc_val_closed a b :
  eval (env_of [("byte2int(crc[0])"%string, a); ("byte2int(crc[1])"%string, b)]) (rc_chk_crc_val rtu) = Z.shiftl a 8 + b.
Proof. reflexivity. Qed.
Lemma rc_get_start_closed : e1 "self._hsize" (rc_hsize rtu) (rc_get_start rtu) = 1. Proof. reflexivity. Qed.
Lemma rc_get_end_closed l : e1 "self._header['len']" l (rc_get_end rtu) = l - 2. Proof. reflexivity. Qed.
Lemma rc_get_cond_closed e : beval (env_of [("end"%string, e)]) (rc_get_cond rtu) = (e >? 0).
Proof. unfold beval. cbn. destruct (e >? 0); reflexivity. Qed.
Lemma rc_adv_closed l : e1 "self._header['len']" l (rc_adv rtu) = l. Proof. reflexivity. Qed.
Lemma cc_rtu_size_closed b p :
  eval (env_of [("byte2int(data[byte_count_pos])"%string, b); ("byte_count_pos"%string, p)]) (cc_rtu_size GenFramerB.crc) = b + p + 3.
Proof. reflexivity. Qed.
Lemma rc_fmts : rc_hdr_fmt rtu = ">BB"%string /\ rc_crc_fmt rtu = ">H"%string.
Proof. split; reflexivity. Qed.

(* ------------------------------------------------------------------ lists and Python slices *)

Lemma zlen_app {A} (a b : list A) : zlen (a ++ b) = zlen a + zlen b.
Proof. unfold zlen. rewrite app_length. lia. Qed.

Lemma zlen_nonneg {A} (a : list A) : 0 <= zlen a.
Proof. unfold zlen. lia. Qed.

Lemma firstn_app_exact {A} (a b : list A) n : n = length a -> firstn n (a ++ b) = a.
Proof. intros ->. rewrite firstn_app, Nat.sub_diag, firstn_all. cbn. apply app_nil_r. Qed.

Lemma skipn_app_exact {A} (a b : list A) n : n = length a -> skipn n (a ++ b) = b.
Proof. intros ->. rewrite skipn_app, Nat.sub_diag, skipn_all. reflexivity. Qed.

(* l[a:b] of x ++ y ++ z with |x| = a, |x ++ y| = b *)
Lemma pyslice_mid {A} (x y z : list A) a b :
  a = zlen x -> b = zlen x + zlen y ->
  pyslice (x ++ y ++ z) (Some a) (Some b) = y.
Proof.
  intros -> ->. unfold pyslice, norm_idx.
  pose proof (zlen_nonneg x). pose proof (zlen_nonneg y). pose proof (zlen_nonneg z).
  fold (zlen (x ++ y ++ z)). rewrite !zlen_app.
  replace (zlen x <? 0) with false by lia. replace (zlen x + zlen y <? 0) with false by lia.
  rewrite !Z.min_l by lia.
  rewrite skipn_app_exact by (unfold zlen; lia).
  apply firstn_app_exact. unfold zlen. lia.
Qed.

Lemma pyslice_prefix {A} (x z : list A) b : b = zlen x -> pyslice (x ++ z) None (Some b) = x.
Proof.
  intros ->. unfold pyslice, norm_idx. pose proof (zlen_nonneg x). pose proof (zlen_nonneg z).
  fold (zlen (x ++ z)). rewrite zlen_app.
  replace (zlen x <? 0) with false by lia. rewrite Z.min_l by lia.
  cbn [Z.to_nat skipn]. apply firstn_app_exact. unfold zlen. lia.
Qed.

Lemma pyslice_suffix {A} (x z : list A) a : a = zlen x -> pyslice (x ++ z) (Some a) None = z.
Proof.
  intros ->. unfold pyslice, norm_idx. pose proof (zlen_nonneg x). pose proof (zlen_nonneg z).
  fold (zlen (x ++ z)). rewrite zlen_app.
  replace (zlen x <? 0) with false by lia. rewrite Z.min_l by lia.
  rewrite skipn_app_exact by (unfold zlen; lia).
  apply firstn_all2. unfold zlen. lia.
Qed.

(* a slice [a:b] with 0 <= a that has at least b - a elements: the list is long enough and
   splits around the slice *)
Lemma pyslice_full {A} (l : list A) a b :
  0 <= a <= b -> Z.of_nat (length (pyslice l (Some a) (Some b))) >= b - a -> b - a > 0 ->
  exists x y z, l = x ++ y ++ z /\ zlen x = a /\ zlen y = b - a /\ pyslice l (Some a) (Some b) = y.
Proof.
  intros Hab Hlen Hpos.
  assert (Hb : b <= zlen l).
  { unfold pyslice, norm_idx in Hlen. fold (zlen l) in Hlen.
    replace (a <? 0) with false in Hlen by lia. replace (b <? 0) with false in Hlen by lia.
    rewrite firstn_length, skipn_length in Hlen. unfold zlen in *. lia. }
  exists (firstn (Z.to_nat a) l), (firstn (Z.to_nat (b - a)) (skipn (Z.to_nat a) l)),
         (skipn (Z.to_nat (b - a)) (skipn (Z.to_nat a) l)).
  assert (Hx : zlen (firstn (Z.to_nat a) l) = a) by (unfold zlen in *; rewrite firstn_length; lia).
  assert (Hy : zlen (firstn (Z.to_nat (b - a)) (skipn (Z.to_nat a) l)) = b - a)
    by (unfold zlen in *; rewrite firstn_length, skipn_length; lia).
  assert (Hl : l = firstn (Z.to_nat a) l ++ firstn (Z.to_nat (b - a)) (skipn (Z.to_nat a) l)
                   ++ skipn (Z.to_nat (b - a)) (skipn (Z.to_nat a) l))
    by (rewrite (firstn_skipn (Z.to_nat (b - a))), firstn_skipn; reflexivity).
  split; [exact Hl|]. split; [exact Hx|]. split; [exact Hy|].
  rewrite Hl at 1. apply pyslice_mid; lia.
Qed.

Lemma py_index_nth {A} (l : list A) i x : py_index l i = Ok x -> 0 <= i ->
  nth_error l (Z.to_nat i) = Some x /\ i < zlen l.
Proof.
  unfold py_index. intros H Hi. fold (zlen l) in H.
  replace (i <? 0) with false in H by lia.
  destruct ((i <? 0) || (zlen l <=? i))%bool eqn:E; [discriminate|].
  destruct (nth_error l (Z.to_nat i)) eqn:N; [|discriminate]. inversion H. subst. split; [reflexivity|lia].
Qed.

Lemma py_index_app_head {A} (x : A) (t : list A) : py_index (x :: t) 0 = Ok x.
Proof. unfold py_index. cbn [length]. replace (0 <? 0) with false by lia.
  replace ((0 <? 0) || (Z.of_nat (S (length t)) <=? 0))%bool with false by lia. reflexivity. Qed.

Lemma py_index_ok {A} (l : list A) i x : 0 <= i -> nth_error l (Z.to_nat i) = Some x -> py_index l i = Ok x.
Proof.
  intros Hi N. unfold py_index.
  assert (Z.to_nat i < length l)%nat by (apply nth_error_Some; congruence).
  replace (i <? 0) with false by lia.
  replace ((i <? 0) || (Z.of_nat (length l) <=? i))%bool with false by lia.
  rewrite N. reflexivity.
Qed.

Lemma py_index_short {A} (l : list A) i : zlen l <= i -> py_index l i = Raise IndexError.
Proof.
  intros H. unfold py_index. fold (zlen l). pose proof (zlen_nonneg l).
  replace (i <? 0) with false by lia.
  replace ((i <? 0) || (zlen l <=? i))%bool with true by lia. reflexivity.
Qed.

Lemma wfb_app a b : wfb (a ++ b) = wfb a && wfb b.
Proof. unfold wfb. apply forallb_app. Qed.

Lemma nth_error_wfb l i b : wfb l = true -> nth_error l i = Some b -> (b < 256)%N.
Proof.
  intros Hw Hn. apply nth_error_In in Hn. unfold wfb in Hw. rewrite forallb_forall in Hw.
  apply Hw in Hn. unfold byteb in Hn. lia.
Qed.

(* ------------------------------------------------------------------ the size oracle never returns less than 4
   (checked rule by rule on the regenerated tables of both decoders) *)

Definition rule_ge4 (r : size_rule) : bool :=
  match r with
  | RFixed n => 4 <=? n
  | RByteCount p => 1 <=? p
  | RFifo hi lo e => false           (* handled separately below *)
  | RMei start cnt step tail => (4 <=? start + tail) && (0 <=? step)
  | RNone => true
  end.

Lemma parse_BB : parse_fmt ">BB" = Some (true, [FB; FB]). Proof. reflexivity. Qed.
Lemma parse_B : parse_fmt ">B" = Some (true, [FB]). Proof. reflexivity. Qed.
Lemma parse_H : parse_fmt ">H" = Some (true, [FH]). Proof. reflexivity. Qed.

Lemma unpack_BB_nonneg bs l : unpack_s ">BB" bs = Ok l -> Forall (fun v => 0 <= v) l.
Proof.
  unfold unpack_s. rewrite parse_BB. unfold unpack.
  destruct (Nat.eqb (length bs) (fmt_size [FB; FB])) eqn:E; [|discriminate].
  intros H. inversion H. subst. clear H.
  destruct bs as [|a [|b [|c t]]]; cbn in E; try discriminate.
  cbn. repeat constructor; unfold unpack1, of_unsigned; cbn; lia.
Qed.

Lemma mei_loop_ge n : forall buffer size step r, 0 <= step ->
  mei_loop n buffer size step = Ok r -> size <= r.
Proof.
  induction n as [|n IH]; intros buffer size step r Hs H; cbn in H.
  - inversion H. lia.
  - destruct (unpack_s ">BB" (pyslice buffer (Some size) (Some (size + 2)))) as [l|] eqn:U; [|discriminate].
    cbn [bind] in H. apply unpack_BB_nonneg in U.
    destruct l as [|a [|b [|c t]]]; try discriminate.
    inversion U as [|? ? _ U']. inversion U' as [|? ? Hb _]. subst.
    apply IH in H; lia.
Qed.

Lemma frame_size_ge4 r data n : rule_ge4 r = true -> frame_size r data = Ok n -> 4 <= n.
Proof.
  destruct r as [k|p|hi lo e|start cnt step tail|]; cbn [rule_ge4 frame_size]; intros Hr H.
  - inversion H. lia.
  - destruct (py_index data p) as [b|] eqn:E; [|discriminate]. cbn [bind] in H.
    rewrite cc_rtu_size_closed in H. inversion H. unfold zb. lia.
  - discriminate.
  - destruct (py_index data cnt) as [c|]; [|discriminate]. cbn [bind] in H.
    destruct (mei_loop (N.to_nat c) data start step) as [s|] eqn:M; [|discriminate]. cbn [bind] in H.
    inversion H. apply mei_loop_ge in M; lia.
  - discriminate.
Qed.

(* semantic form, so that the one RFifo rule of the client table is covered too *)
Definition rule_sem (r : size_rule) : Prop := forall data n, frame_size r data = Ok n -> 4 <= n.

Lemma rule_sem_of_bool r : rule_ge4 r = true -> rule_sem r.
Proof. intros H data n. apply frame_size_ge4. exact H. Qed.

Lemma rule_sem_fifo hi lo s k : 0 <= s -> 4 <= k ->
  rule_sem (RFifo hi lo (EBin Add (EBin Add (EBin Shl (EAtom "hi_byte") (EInt s)) (EAtom "lo_byte")) (EInt k))).
Proof.
  intros Hs Hk data n H. cbn [frame_size] in H.
  destruct (py_index data hi) as [h|]; [|discriminate]. cbn [bind] in H.
  destruct (py_index data lo) as [l|]; [|discriminate]. cbn [bind] in H.
  cbn in H. inversion H.
  assert (0 <= Z.shiftl (zb h) s) by (apply Z.shiftl_nonneg; unfold zb; lia).
  unfold zb in *. lia.
Qed.

Definition rows_sem (dc : decoder_code) : Prop :=
  Forall (fun r => rule_sem (cr_rule r)) (dc_classes dc) /\ rule_sem (dc_default dc).

Lemma lookup_rows_sem rows fc : forall acc r,
  Forall (fun r => rule_sem (cr_rule r)) rows ->
  (forall a, acc = Some a -> rule_sem a) ->
  lookup_rows rows fc acc = Some r -> rule_sem r.
Proof.
  induction rows as [|row t IH]; intros acc r Hall Hacc H; cbn in *.
  - apply Hacc. exact H.
  - inversion Hall as [|? ? H1 H2]. subst.
    eapply IH; [exact H2| |exact H].
    intros a Ha. destruct (cr_fc row =? fc); [inversion Ha; subst; exact H1 | apply Hacc; exact Ha].
Qed.

Lemma lookup_rule_sem dc fc : rows_sem dc -> rule_sem (lookup_rule dc fc).
Proof.
  unfold rows_sem, lookup_rule. intros [H1 H2].
  destruct (lookup_rows (dc_classes dc) fc None) eqn:E; [|exact H2].
  eapply lookup_rows_sem; [exact H1| |exact E]. intros a Ha. discriminate.
Qed.

Ltac rule_tac := first [ apply rule_sem_of_bool; reflexivity | apply rule_sem_fifo; lia ].

Lemma tables_sem : rows_sem server_decoder /\ rows_sem client_decoder.
Proof. split; (split; [cbn [dc_classes server_decoder client_decoder]; repeat (constructor; [cbn [cr_rule]; rule_tac|]); constructor | cbn; rule_tac]). Qed.

Definition known_rules (dc : decoder_code) : Prop := dc = server_decoder \/ dc = client_decoder.

Lemma size_ge4 dc fc data n : known_rules dc ->
  frame_size (lookup_rule dc fc) data = Ok n -> 4 <= n.
Proof.
  intros [-> | ->] H; eapply lookup_rule_sem; try exact H; apply tables_sem.
Qed.

(* ------------------------------------------------------------------ buildPacket *)

Lemma pack_BB u f : (u < 256)%N -> (f < 256)%N -> pack_s ">BB" [Z.of_N u; Z.of_N f] = Ok [u; f].
Proof.
  intros Hu Hf. unfold pack_s. rewrite parse_BB. cbn [pack].
  unfold pack1. cbn [fsigned fwidth].
  assert (Hr : forall x, (x < 256)%N -> in_range FB (Z.of_N x) = true)
    by (intros x Hx; unfold in_range; cbn; lia).
  rewrite !Hr by assumption. cbn [bind].
  unfold to_unsigned. replace (Z.of_N u <? 0) with false by lia. replace (Z.of_N f <? 0) with false by lia.
  cbn [le_bytes rev app].
  replace (Z.to_N (Z.of_N u mod 256)) with u by lia. replace (Z.to_N (Z.of_N f mod 256)) with f by lia.
  reflexivity.
Qed.

Lemma pack_H_swapped c : (c < 65536)%N ->
  pack_s ">H" [Z.of_N (swap16 c)] = Ok [crc_lo c; crc_hi c].
Proof.
  intros Hc. unfold pack_s. rewrite parse_H.
  rewrite swap16_bytes by exact Hc.
  pose proof (crc_lo_lt c). pose proof (crc_hi_lt c Hc).
  rewrite pack_H_be16 by lia. unfold be16.
  f_equal. f_equal; [|f_equal]; lia.
Qed.

(* buildPacket = unit + PDU + CRC-16 low byte first, for every unit id, function code, payload *)
Theorem rtu_build_spec uid fc data : (uid < 256)%N -> (fc < 256)%N -> wfb data = true ->
  rtu_build (Z.of_N uid) (Z.of_N fc) data = Ok (spec_adu_rtu uid (fc :: data)).
Proof.
  intros Hu Hf Hw. unfold rtu_build. destruct rc_fmts as [-> ->].
  rewrite pack_BB by assumption. cbn [bind app].
  assert (Hw' : wfb (uid :: fc :: data) = true).
  { cbn [wfb forallb]. fold (wfb data). rewrite Hw. unfold byteb. lia. }
  rewrite py_crc_bitwise by exact Hw'. cbn [bind].
  rewrite pack_H_swapped by (apply crc16_lt; exact Hw'). cbn [bind].
  reflexivity.
Qed.

Lemma rtu_build_bad_unit uid fc data : ~ (0 <= uid < 256) -> rtu_build uid fc data = Raise StructError.
Proof.
  intros H. unfold rtu_build. destruct rc_fmts as [-> _].
  unfold pack_s. rewrite parse_BB. cbn [pack]. unfold pack1.
  replace (in_range FB uid) with false by (unfold in_range; cbn; lia). reflexivity.
Qed.

(* ------------------------------------------------------------------ what checkFrame = True means *)

Lemma crc_val_bytes c0 c1 k : (c0 < 256)%N -> (c1 < 256)%N -> (k < 65536)%N ->
  (Z.of_N (swap16 k) =? Z.shiftl (zb c0) 8 + zb c1) = true -> k = (c0 + 256 * c1)%N.
Proof.
  intros H0 H1 Hk H. rewrite swap16_bytes in H by exact Hk.
  pose proof (crc_lo_lt k). pose proof (crc_hi_lt k Hk). pose proof (crc_lo_hi k Hk).
  rewrite Z.shiftl_mul_pow2 in H by lia. unfold zb in H. change (2 ^ 8) with 256 in H. lia.
Qed.

(* populateHeader succeeded *)
Lemma rtu_populate_ok cfg st st1 : rtu_populate cfg st = (st1, None) ->
  exists u fc size, py_index (r_buf st) 0 = Ok u /\ py_index (r_buf st) 1 = Ok fc /\
    frame_size (lookup_rule (cf_rules cfg) (zb fc)) (r_buf st) = Ok size /\
    r_buf st1 = r_buf st /\ h_uid (r_hdr st1) = Some (zb u) /\ h_len (r_hdr st1) = Some size.
Proof.
  unfold rtu_populate. intros H.
  destruct (py_index (r_buf st) 0) as [u|] eqn:E0; [|inversion H].
  destruct (py_index (r_buf st) 1) as [fc|] eqn:E1; [|inversion H].
  destruct (frame_size (lookup_rule (cf_rules cfg) (zb fc)) (r_buf st)) as [size|] eqn:Es; [|inversion H].
  inversion H. subst st1. exists u, fc, size. cbn [r_buf r_hdr h_uid h_len]. repeat split; auto.
Qed.

(* checkFrame returned True: the buffer starts with a frame whose (spec) CRC is right *)
Lemma rtu_check_true cfg st st2 : known_rules (cf_rules cfg) -> wfb (r_buf st) = true ->
  rtu_check cfg st = (st2, Ok true) ->
  exists u body c0 c1 rest,
    r_buf st = (u :: body) ++ [c0; c1] ++ rest /\ r_buf st2 = r_buf st /\
    h_uid (r_hdr st2) = Some (zb u) /\ h_len (r_hdr st2) = Some (zlen (u :: body) + 2) /\
    (1 <= length body)%nat /\
    crc16_bitwise (u :: body) = (c0 + 256 * c1)%N.
Proof.
  intros Hk Hw. unfold rtu_check, rtu_check_body.
  destruct (rtu_populate cfg st) as [st1 [e|]] eqn:P.
  { destruct (caught_by_check e); intros H; inversion H. }
  apply rtu_populate_ok in P. destruct P as (u & fc & size & I0 & I1 & Fs & Hb & Hu & Hl).
  rewrite Hl. rewrite rc_chk_data_hi_closed, rc_chk_crc_lo_closed, rc_chk_crc_hi_closed.
  pose proof (size_ge4 _ _ _ _ Hk Fs) as H4.
  destruct (py_index (pyslice (r_buf st1) (Some (size - 2)) (Some size)) 0) as [c0|] eqn:C0;
    [|destruct (caught_by_check _); intros H; inversion H].
  destruct (py_index (pyslice (r_buf st1) (Some (size - 2)) (Some size)) 1) as [c1|] eqn:C1;
    [|destruct (caught_by_check _); intros H; inversion H].
  rewrite rc_chk_crc_val_closed.
  apply py_index_nth in C1; [|lia]. destruct C1 as [N1 L1].
  apply py_index_nth in C0; [|lia]. destruct C0 as [N0 _].
  destruct (pyslice_full (r_buf st1) (size - 2) size) as (x & y & z & Hsplit & Hx & Hy & Hs);
    [lia | unfold zlen in L1; lia | lia |].
  rewrite Hs in N0, N1.
  destruct y as [|y0 [|y1 [|y2 y']]]; try (unfold zlen in Hy; cbn in Hy; lia).
  cbn in N0, N1. inversion N0. inversion N1. subst y0 y1. clear N0 N1.
  rewrite Hsplit at 1. rewrite (pyslice_prefix x ([c0; c1] ++ z)) by lia.
  rewrite Hb in Hsplit.
  assert (Hwx : wfb x = true /\ (c0 < 256)%N /\ (c1 < 256)%N).
  { rewrite Hsplit in Hw. rewrite wfb_app in Hw. apply andb_prop in Hw. destruct Hw as [Hw1 Hw2].
    cbn in Hw2. unfold byteb in Hw2. split; [exact Hw1|]. lia. }
  destruct Hwx as (Hwx & Hc0 & Hc1).
  rewrite py_check_crc_spec by exact Hwx.
  destruct (Z.of_N (swap16 (crc16_bitwise x)) =? Z.shiftl (zb c0) 8 + zb c1) eqn:K;
    intros H; inversion H. subst st2.
  apply crc_val_bytes in K; try assumption; [|apply crc16_lt; exact Hwx].
  destruct x as [|u' body].
  { unfold zlen in Hx. cbn in Hx. lia. }
  assert (u' = u).
  { rewrite Hsplit in I0. rewrite <- app_comm_cons in I0. rewrite py_index_app_head in I0. congruence. }
  subst u'.
  exists u, body, c0, c1, z. repeat split; try assumption.
  - rewrite Hl. f_equal. lia.
  - unfold zlen in Hx. cbn [length] in Hx. lia.
Qed.

(* ------------------------------------------------------------------ C07: the delivery gate *)

Lemma rtu_ready_buf cfg st : r_buf (fst (rtu_ready cfg st)) = r_buf st.
Proof.
  unfold rtu_ready.
  destruct (beval _ (rc_ready rtu)); [|reflexivity].
  destruct (hdr_is_empty (r_hdr st)).
  - unfold rtu_populate.
    destruct (py_index (r_buf st) 0) as [u|[]]; cbn; try reflexivity;
    try (destruct (h_len _); reflexivity);
    try (destruct (py_index (r_buf st) 1) as [fc|[]]; cbn; try reflexivity;
         try (destruct (frame_size _ _) as [sz|[]]; cbn; try reflexivity;
              try (destruct (hdr_is_empty _); [reflexivity|]; try (destruct (h_len _); reflexivity)))).
    all: try (destruct (hdr_is_empty _); [reflexivity|]; destruct (h_len _); reflexivity).
  - cbn. destruct (hdr_is_empty (r_hdr st)); [reflexivity|]. destruct (h_len (r_hdr st)); reflexivity.
Qed.

Lemma crc_split c0 c1 : (c0 < 256)%N -> (c1 < 256)%N ->
  crc_lo (c0 + 256 * c1) = c0 /\ crc_hi (c0 + 256 * c1) = c1.
Proof.
  intros H0 H1. unfold crc_lo, crc_hi. change 255%N with (N.ones 8).
  rewrite N.land_ones, N.shiftr_div_pow2. change (2 ^ 8)%N with 256%N. split; lia.
Qed.

Lemma crc_ok_app body lo hi : crc16_bitwise body = (lo + 256 * hi)%N -> crc_ok (body ++ [lo; hi]) = true.
Proof.
  intros H. unfold crc_ok. rewrite app_length. cbn [length].
  replace (length body + 2 - 2)%nat with (length body) by lia.
  rewrite skipn_app_exact, firstn_app_exact by reflexivity. rewrite H, N.eqb_refl.
  replace (2 <=? length body + 2)%nat with true by (symmetry; apply Nat.leb_le; lia). reflexivity.
Qed.

Lemma spec_rx_rtu_app u pdu c0 c1 : crc16_bitwise (u :: pdu) = (c0 + 256 * c1)%N -> (1 <= length pdu)%nat ->
  spec_rx_rtu ((u :: pdu) ++ [c0; c1]) = Some (pdu, u).
Proof.
  intros Hc Hl. unfold spec_rx_rtu. cbn [app].
  change (u :: pdu ++ [c0; c1]) with ((u :: pdu) ++ [c0; c1]). rewrite (crc_ok_app _ _ _ Hc).
  cbn [app length]. rewrite app_length. cbn [length].
  replace (4 <=? S (length pdu + 2))%nat with true by (symmetry; apply Nat.leb_le; lia).
  cbn [andb]. replace (length pdu + 2 - 2)%nat with (length pdu) by lia.
  rewrite firstn_app_exact by reflexivity. reflexivity.
Qed.

(* every delivery is justified by a prefix of the buffered bytes that is the spec ADU of the
   delivered (pdu, unit): for EVERY receiver state, header content and chunk *)
Theorem rtu_gate cfg st chunk st' ds x :
  known_rules (cf_rules cfg) -> wfb (r_buf st ++ chunk) = true ->
  rtu_recv cfg st chunk = (st', ds, x) ->
  forall pdu uid, In (pdu, uid) ds ->
    exists u rest, r_buf st ++ chunk = spec_adu_rtu u pdu ++ rest /\ uid = Z.of_N u /\
                   crc_ok (spec_adu_rtu u pdu) = true /\ spec_rx_rtu (spec_adu_rtu u pdu) = Some (pdu, u).
Proof.
  intros Hk Hw. unfold rtu_recv.
  pose proof (rtu_ready_buf cfg {| r_buf := r_buf st ++ chunk; r_hdr := r_hdr st |}) as Hb. cbn [r_buf] in Hb.
  destruct (rtu_ready cfg _) as [st1 [[|]|e]]; cbn [fst] in Hb;
    try (intros H; inversion H; subst; intros ? ? []).
  destruct (rtu_check cfg st1) as [st2 [[|]|e]] eqn:C;
    try (intros H; inversion H; subst; intros ? ? []).
  2: { destruct (r_buf st2); intros H; inversion H; subst; intros ? ? []. }
  apply rtu_check_true in C; [|exact Hk|rewrite Hb; exact Hw].
  destruct C as (u & body & c0 & c1 & rest & Hsplit & Hb2 & Hu & Hl & Hlen & Hcrc).
  destruct (validate_unit cfg (h_uid (r_hdr st2))) as [[|]|e];
    try (intros H; inversion H; subst; intros ? ? []).
  unfold rtu_process, rtu_get_frame. rewrite Hl, rc_get_start_closed, rc_get_end_closed, rc_get_cond_closed.
  replace (zlen (u :: body) + 2 - 2) with (zlen [u] + zlen body) by (unfold zlen; cbn [length]; lia).
  rewrite Hb2, Hsplit.
  change ((u :: body) ++ [c0; c1] ++ rest) with ([u] ++ body ++ ([c0; c1] ++ rest)).
  rewrite pyslice_mid by reflexivity.
  replace (zlen [u] + zlen body >? 0) with true by (unfold zlen; cbn [length]; lia).
  destruct (cf_dec cfg body); try (intros H; inversion H; subst; intros ? ? []).
  rewrite Hu. intros H. inversion H. subst. intros pdu uid [E|[]]. inversion E. subst.
  assert (Hwb : wfb (u :: pdu) = true /\ (c0 < 256)%N /\ (c1 < 256)%N).
  { rewrite <- Hb, Hsplit in Hw.
    change ([u] ++ pdu ++ [c0; c1] ++ rest) with ((u :: pdu) ++ [c0; c1] ++ rest) in Hw.
    rewrite wfb_app in Hw. apply andb_prop in Hw. destruct Hw as [Hw1 Hw2].
    cbn in Hw2. unfold byteb in Hw2. split; [exact Hw1|]. lia. }
  destruct Hwb as (Hwb & H0 & H1).
  destruct (crc_split c0 c1 H0 H1) as [Elo Ehi].
  assert (Espec : spec_adu_rtu u pdu = (u :: pdu) ++ [c0; c1]).
  { unfold spec_adu_rtu, with_crc. rewrite Hcrc, Elo, Ehi. reflexivity. }
  exists u, rest. split.
  { rewrite Hb in Hsplit. rewrite Hsplit, Espec. rewrite <- app_assoc. reflexivity. }
  split; [reflexivity|].
  assert (Hok : crc_ok (spec_adu_rtu u pdu) = true) by (rewrite Espec; apply crc_ok_app; exact Hcrc).
  split; [exact Hok|].
  rewrite Espec. apply spec_rx_rtu_app; assumption.
Qed.

(* ------------------------------------------------------------------ C03 / C06: what one call does on valid traffic *)

(* size rules that depend on the function code and at most one byte-count byte *)
Definition simple_rule (r : size_rule) : bool :=
  match r with RFixed _ => true | RByteCount p => 0 <=? p | _ => false end.

Lemma simple_rule_ext r f n q : simple_rule r = true -> frame_size r f = Ok n -> frame_size r (f ++ q) = Ok n.
Proof.
  destruct r as [k|p| | |]; cbn [simple_rule frame_size]; try discriminate; intros Hs H; [exact H|].
  destruct (py_index f p) as [b|] eqn:E; [|discriminate]. cbn [bind] in H.
  apply py_index_nth in E; [|lia]. destruct E as [N L].
  assert (E2 : py_index (f ++ q) p = Ok b).
  { apply py_index_ok; [lia|]. rewrite nth_error_app1; [exact N | unfold zlen in L; lia]. }
  rewrite E2. exact H.
Qed.

Lemma simple_rule_prefix r f n b q : simple_rule r = true -> frame_size r f = Ok n -> f = b ++ q ->
  frame_size r b = Raise IndexError \/ frame_size r b = Ok n.
Proof.
  destruct r as [k|p| | |]; cbn [simple_rule frame_size]; try discriminate; intros Hs H Hf; [right; exact H|].
  destruct (py_index f p) as [x|] eqn:E; [|discriminate]. cbn [bind] in H.
  apply py_index_nth in E; [|lia]. destruct E as [N L].
  destruct (Z_lt_ge_dec p (zlen b)) as [Hlt|Hge].
  - right. subst f. rewrite nth_error_app1 in N by (unfold zlen in Hlt; lia).
    assert (E2 : py_index b p = Ok x) by (apply py_index_ok; [lia | exact N]).
    rewrite E2. exact H.
  - left. rewrite py_index_short by lia. reflexivity.
Qed.

Record valid_frame (cfg : fcfg) (u : N) (pdu : bytes) : Prop := {
  vf_wfb : wfb (u :: pdu) = true;
  vf_dec : cf_dec cfg pdu = DMsg;
  vf_unit : validate_unit cfg (Some (zb u)) = Ok true;
  vf_fc : exists fc data, pdu = fc :: data /\
          simple_rule (lookup_rule (cf_rules cfg) (zb fc)) = true /\
          frame_size (lookup_rule (cf_rules cfg) (zb fc)) (spec_adu_rtu u pdu) = Ok (zlen (spec_adu_rtu u pdu))
}.

(* the header is one that lets the receiver wait for frame f: {} , the initial dict, or a
   header already populated with f's length *)
Definition hdr_waiting (f : bytes) (h : rhdr) : Prop :=
  h = hdr_empty \/ h = r_hdr rtu_init \/ (hdr_is_empty h = false /\ h_len h = Some (zlen f)).

Lemma spec_adu_rtu_shape u pdu : wfb (u :: pdu) = true ->
  exists lo hi, spec_adu_rtu u pdu = (u :: pdu) ++ [lo; hi] /\ (lo < 256)%N /\ (hi < 256)%N /\
                crc16_bitwise (u :: pdu) = (lo + 256 * hi)%N.
Proof.
  intros Hw. unfold spec_adu_rtu, with_crc. pose proof (crc16_lt _ Hw) as Hc.
  exists (crc_lo (crc16_bitwise (u :: pdu))), (crc_hi (crc16_bitwise (u :: pdu))).
  split; [reflexivity|]. split; [apply crc_lo_lt|]. split; [apply crc_hi_lt; exact Hc|].
  symmetry. apply crc_lo_hi. exact Hc.
Qed.

Lemma rc_init_hdr : r_hdr rtu_init = {| h_uid := Some 0; h_len := Some 0; h_crc := Some [48; 48; 48; 48]%N |}.
Proof. reflexivity. Qed.

(* populateHeader on a buffer that starts with the valid frame f *)
Lemma rtu_populate_complete cfg u pdu q h : valid_frame cfg u pdu ->
  exists c, rtu_populate cfg {| r_buf := spec_adu_rtu u pdu ++ q; r_hdr := h |} =
    ({| r_buf := spec_adu_rtu u pdu ++ q;
        r_hdr := {| h_uid := Some (zb u); h_len := Some (zlen (spec_adu_rtu u pdu)); h_crc := Some c |} |}, None).
Proof.
  intros [Hw Hd Hu (fc & data & Hp & Hs & Hsz)]. subst pdu.
  destruct (spec_adu_rtu_shape u (fc :: data) Hw) as (lo & hi & Esp & _).
  unfold rtu_populate. cbn [r_buf r_hdr].
  assert (E0 : py_index (spec_adu_rtu u (fc :: data) ++ q) 0 = Ok u) by (rewrite Esp; reflexivity || apply py_index_app_head).
  assert (E1 : py_index (spec_adu_rtu u (fc :: data) ++ q) 1 = Ok fc).
  { rewrite Esp. apply py_index_ok; [lia|reflexivity]. }
  rewrite E0, E1. rewrite (simple_rule_ext _ _ _ q Hs Hsz). eexists. reflexivity.
Qed.

(* LEMMA A: the buffered bytes start with a complete valid frame: exactly that frame is
   delivered and the rest stays buffered with an empty header *)
Lemma rtu_recv_complete cfg st chunk u pdu q :
  valid_frame cfg u pdu -> hdr_waiting (spec_adu_rtu u pdu) (r_hdr st) ->
  r_buf st ++ chunk = spec_adu_rtu u pdu ++ q -> wfb q = true ->
  rtu_recv cfg st chunk = ({| r_buf := q; r_hdr := hdr_empty |}, [(pdu, zb u)], FOk).
Proof.
  intros V Hh Hbuf Hwq.
  pose proof V as [Hw Hd Hu (fc & data & Hp & Hs & Hsz)].
  destruct (spec_adu_rtu_shape u pdu Hw) as (lo & hi & Esp & Hlo & Hhi & Hcrc).
  set (f := spec_adu_rtu u pdu) in *.
  assert (Hlen : zlen f = zlen (u :: pdu) + 2) by (rewrite Esp, zlen_app; reflexivity).
  assert (Hf4 : 4 <= zlen f) by (rewrite Hlen; subst pdu; unfold zlen; cbn [length]; lia).
  unfold rtu_recv. rewrite Hbuf.
  (* isFrameReady *)
  assert (R : exists h1, rtu_ready cfg {| r_buf := f ++ q; r_hdr := r_hdr st |} =
                         ({| r_buf := f ++ q; r_hdr := h1 |}, Ok true)).
  { unfold rtu_ready. cbn [r_buf r_hdr]. rewrite rc_ready_closed.
    pose proof (zlen_nonneg q). rewrite zlen_app.
    replace (zlen f + zlen q >? 1) with true by lia.
    destruct Hh as [Hh | [Hh | [Hne Hl]]].
    - rewrite Hh. cbn [hdr_is_empty hdr_empty h_uid h_len h_crc].
      destruct (rtu_populate_complete cfg u pdu q hdr_empty V) as [c P]. fold f in P. rewrite P.
      cbn [hdr_is_empty h_uid h_len h_crc r_hdr]. eexists. rewrite (rc_ready2_closed (zlen f + zlen q) (zlen f)).
      replace (zlen f + zlen q >=? zlen f) with true by lia. reflexivity.
    - rewrite Hh, rc_init_hdr. cbn [hdr_is_empty h_uid h_len h_crc r_hdr]. eexists. rewrite (rc_ready2_closed (zlen f + zlen q) 0).
      replace (zlen f + zlen q >=? 0) with true by lia. reflexivity.
    - rewrite Hne. destruct (r_hdr st) as [hu hl hc] eqn:Eh. cbn [h_len] in Hl. subst hl.
      cbn [hdr_is_empty h_uid h_len h_crc r_hdr] in *. rewrite Hne. cbn [h_len]. eexists. rewrite (rc_ready2_closed (zlen f + zlen q) (zlen f)).
      replace (zlen f + zlen q >=? zlen f) with true by lia. reflexivity. }
  destruct R as [h1 R]. rewrite R.
  (* checkFrame *)
  assert (C : exists c, rtu_check cfg {| r_buf := f ++ q; r_hdr := h1 |} =
      ({| r_buf := f ++ q; r_hdr := {| h_uid := Some (zb u); h_len := Some (zlen f); h_crc := Some c |} |}, Ok true)).
  { unfold rtu_check, rtu_check_body.
    destruct (rtu_populate_complete cfg u pdu q h1 V) as [c P]. fold f in P. rewrite P.
    cbn [r_hdr h_len r_buf]. rewrite rc_chk_data_hi_closed, rc_chk_crc_lo_closed, rc_chk_crc_hi_closed.
    exists c. rewrite !Hlen. rewrite Esp. rewrite <- !app_assoc.
    rewrite (pyslice_prefix (u :: pdu) ([lo; hi] ++ q)) by lia.
    rewrite (pyslice_mid (u :: pdu) [lo; hi] q) by (unfold zlen; cbn [length]; lia).
    rewrite py_index_app_head.
    assert (E2 : py_index [lo; hi] 1 = Ok hi) by (apply py_index_ok; [lia | reflexivity]). rewrite E2.
    rewrite rc_chk_crc_val_closed, py_check_crc_spec by exact Hw.
    rewrite swap16_bytes by (apply crc16_lt; exact Hw).
    rewrite Hcrc. destruct (crc_split lo hi Hlo Hhi) as [-> ->].
    rewrite Z.shiftl_mul_pow2 by lia. change (2 ^ 8) with 256. unfold zb.
    replace (Z.of_N (256 * lo + hi) =? Z.of_N lo * 256 + Z.of_N hi) with true by lia.
    reflexivity. }
  destruct C as [c C]. rewrite C. cbn [r_hdr h_uid]. rewrite Hu.
  (* _process *)
  unfold rtu_process, rtu_get_frame. cbn [r_hdr h_len h_uid r_buf].
  rewrite rc_get_start_closed, rc_get_end_closed, rc_get_cond_closed.
  rewrite !Hlen. rewrite Esp. rewrite <- !app_assoc.
  change ((u :: pdu) ++ [lo; hi] ++ q) with ([u] ++ pdu ++ ([lo; hi] ++ q)).
  rewrite pyslice_mid by (try reflexivity; unfold zlen; cbn [length]; lia).
  replace (zlen (u :: pdu) + 2 - 2 >? 0) with true by (unfold zlen; cbn [length]; lia). rewrite Hd.
  unfold rtu_advance. cbn [r_hdr h_len r_buf]. rewrite rc_adv_closed.
  change ([u] ++ pdu ++ [lo; hi] ++ q) with ((u :: pdu) ++ [lo; hi] ++ q). rewrite app_assoc.
  rewrite pyslice_suffix by (rewrite zlen_app; reflexivity). reflexivity.
Qed.

(* whole frame to a fresh receiver *)
Theorem rtu_whole_frame cfg u pdu : valid_frame cfg u pdu ->
  rtu_recv cfg rtu_init (spec_adu_rtu u pdu) = ({| r_buf := []; r_hdr := hdr_empty |}, [(pdu, zb u)], FOk).
Proof.
  intros V. apply rtu_recv_complete; try exact V.
  - right. left. reflexivity.
  - cbn [r_buf rtu_init app]. rewrite app_nil_r. reflexivity.
  - reflexivity.
Qed.

(* valid frames, one per read, from any idle state: every one is delivered by its own read *)
Fixpoint rtu_feed_dels (cfg : fcfg) (st : rstate) (chunks : list bytes) : list delivered * list fexit :=
  match chunks with
  | [] => ([], [])
  | c :: t => let '(st1, ds, x) := rtu_recv cfg st c in
              let '(ds', xs) := rtu_feed_dels cfg st1 t in (ds ++ ds', x :: xs)
  end.

Theorem rtu_one_per_read cfg (frames : list (N * bytes)) : forall st,
  r_buf st = [] -> (r_hdr st = hdr_empty \/ r_hdr st = r_hdr rtu_init) ->
  Forall (fun f => valid_frame cfg (fst f) (snd f)) frames ->
  rtu_feed_dels cfg st (map (fun f => spec_adu_rtu (fst f) (snd f)) frames) =
    (map (fun f => (snd f, zb (fst f))) frames, map (fun _ => FOk) frames).
Proof.
  induction frames as [|[u pdu] t IH]; intros st Hb Hh Hall; [reflexivity|].
  inversion Hall as [|? ? V Ht]. subst. cbn [map rtu_feed_dels fst snd] in *.
  rewrite (rtu_recv_complete cfg st (spec_adu_rtu u pdu) u pdu []); try exact V.
  - rewrite (IH {| r_buf := []; r_hdr := hdr_empty |}); [reflexivity|reflexivity|left; reflexivity|exact Ht].
  - destruct Hh as [-> | ->]; [left|right; left]; reflexivity.
  - rewrite Hb, app_nil_r. reflexivity.
  - reflexivity.
Qed.

(* the size oracle of the simple classes is stable under extension and never mistakes a
   strict prefix for a complete frame *)
Theorem simple_rule_oracle r f q : simple_rule r = true -> frame_size r f = Ok (zlen f) ->
  frame_size r (f ++ q) = Ok (zlen f) /\
  (forall b q', f = b ++ q' -> frame_size r b = Raise IndexError \/ frame_size r b = Ok (zlen f)).
Proof.
  intros Hs H. split; [apply simple_rule_ext; assumption|].
  intros b q' Hf. eapply simple_rule_prefix; eassumption.
Qed.

(* any call in which a length-complete candidate fails its CRC leaves the receiver in the
   synchronised state (empty buffer, empty header) *)
Lemma rtu_check_false_resets cfg st st2 : rtu_check cfg st = (st2, Ok false) ->
  (r_buf st2 = [] /\ r_hdr st2 = hdr_empty) \/ r_buf st2 = r_buf st.
Proof.
  unfold rtu_check, rtu_check_body.
  destruct (rtu_populate cfg st) as [st1 [e|]] eqn:P.
  - unfold rtu_populate in P.
    destruct (py_index (r_buf st) 0); [|inversion P; subst; destruct (caught_by_check e); intros H; inversion H; subst; right; reflexivity].
    destruct (py_index (r_buf st) 1); [|inversion P; subst; destruct (caught_by_check e); intros H; inversion H; subst; right; reflexivity].
    destruct (frame_size _ _); inversion P; subst. destruct (caught_by_check e); intros H; inversion H; subst; right; reflexivity.
  - apply rtu_populate_ok in P. destruct P as (u & fc & size & _ & _ & _ & Hb & _ & Hl). rewrite Hl.
    destruct (py_index _ 0); [|destruct (caught_by_check _); intros H; inversion H; subst; right; exact Hb].
    destruct (py_index _ 1); [|destruct (caught_by_check _); intros H; inversion H; subst; right; exact Hb].
    destruct (py_check_crc _ _) as [[|]|e]; [intros H; inversion H| |destruct (caught_by_check _); intros H; inversion H; subst; right; exact Hb].
    intros H. inversion H. subst. left. split; reflexivity.
Qed.

Lemma pyslice_len_le {A} (l : list A) a b : 0 <= a -> Z.of_nat (length (pyslice l (Some a) (Some b))) <= Z.max 0 (zlen l - a).
Proof.
  intros Ha. unfold pyslice, norm_idx. fold (zlen l). replace (a <? 0) with false by lia.
  rewrite firstn_length, skipn_length. unfold zlen. lia.
Qed.

(* LEMMA B: the buffered bytes are a strict prefix of a valid frame: nothing is delivered,
   nothing is raised, the bytes stay buffered and the header still waits for that frame *)
Lemma rtu_recv_incomplete cfg st chunk u pdu b q :
  valid_frame cfg u pdu -> hdr_waiting (spec_adu_rtu u pdu) (r_hdr st) ->
  r_buf st ++ chunk = b -> spec_adu_rtu u pdu = b ++ q -> q <> [] ->
  exists h', rtu_recv cfg st chunk = ({| r_buf := b; r_hdr := h' |}, [], FOk) /\
             hdr_waiting (spec_adu_rtu u pdu) h'.
Proof.
  intros V Hh Hbuf Hf Hq.
  pose proof V as [Hw Hd Hu (fc & data & Hp & Hs & Hsz)].
  destruct (spec_adu_rtu_shape u pdu Hw) as (lo & hi & Esp & _).
  set (f := spec_adu_rtu u pdu) in *.
  assert (Hlt : zlen b < zlen f).
  { rewrite Hf, zlen_app. destruct q; [congruence|]. unfold zlen. cbn [length]. lia. }
  unfold rtu_recv. rewrite Hbuf. unfold rtu_ready. cbn [r_buf r_hdr]. rewrite rc_ready_closed.
  destruct (zlen b >? 1) eqn:Hb1.
  2: { exists (r_hdr st). split; [reflexivity|exact Hh]. }
  (* b = u :: fc :: _ *)
  assert (Hb2 : exists b', b = u :: fc :: b').
  { subst pdu. rewrite Esp in Hf. destruct b as [|x [|y b']]; try (unfold zlen in Hb1; cbn in Hb1; lia).
    cbn in Hf. inversion Hf. subst. eexists. reflexivity. }
  destruct Hb2 as [b' Eb].
  assert (I0 : py_index b 0 = Ok u) by (rewrite Eb; apply py_index_app_head).
  assert (I1 : py_index b 1 = Ok fc) by (rewrite Eb; apply py_index_ok; [lia|reflexivity]).
  pose proof (simple_rule_prefix _ _ _ b q Hs Hsz Hf) as Hsize.
  assert (Pop : forall h, (exists h1, rtu_populate cfg {| r_buf := b; r_hdr := h |} = ({| r_buf := b; r_hdr := h1 |}, Some IndexError))
                       \/ (exists c, rtu_populate cfg {| r_buf := b; r_hdr := h |} =
                             ({| r_buf := b; r_hdr := {| h_uid := Some (zb u); h_len := Some (zlen f); h_crc := Some c |} |}, None))).
  { intros h. unfold rtu_populate. cbn [r_buf r_hdr]. rewrite I0, I1.
    destruct Hsize as [-> | ->]; [left|right]; eexists; reflexivity. }
  destruct Hh as [Hh | [Hh | [Hne Hl]]].
  - (* header {} *)
    rewrite Hh. cbn [hdr_is_empty hdr_empty h_uid h_len h_crc].
    destruct (Pop hdr_empty) as [[h1 P] | [c P]]; rewrite P.
    + exists hdr_empty. split; [reflexivity|left; reflexivity].
    + cbn [hdr_is_empty h_uid h_len h_crc r_hdr]. rewrite (rc_ready2_closed (zlen b) (zlen f)).
      replace (zlen b >=? zlen f) with false by lia.
      eexists. split; [reflexivity|]. right. right. split; reflexivity.
  - (* the initial header: ready (len 0), checkFrame fails with IndexError, header := {} *)
    rewrite Hh, rc_init_hdr. cbn [hdr_is_empty h_uid h_len h_crc r_hdr].
    rewrite (rc_ready2_closed (zlen b) 0). pose proof (zlen_nonneg b).
    replace (zlen b >=? 0) with true by lia.
    unfold rtu_check, rtu_check_body.
    destruct (Pop {| h_uid := Some 0; h_len := Some 0; h_crc := Some [48; 48; 48; 48]%N |}) as [[h1 P] | [c P]]; rewrite P.
    + cbn [caught_by_check r_buf]. rewrite Eb. exists hdr_empty. split; [reflexivity|left; reflexivity].
    + cbn [r_hdr h_len r_buf]. rewrite rc_chk_crc_lo_closed, rc_chk_crc_hi_closed.
      pose proof (pyslice_len_le b (zlen f - 2) (zlen f)) as Hsl.
      assert (H4 : 4 <= zlen f) by (rewrite Esp, zlen_app; subst pdu; unfold zlen; cbn [length]; lia).
      specialize (Hsl ltac:(lia)).
      destruct (py_index (pyslice b (Some (zlen f - 2)) (Some (zlen f))) 0) as [c0|e0] eqn:C0.
      * rewrite (py_index_short _ 1) by (unfold zlen at 1; lia).
        cbn [caught_by_check r_buf]. rewrite Eb. exists hdr_empty. split; [reflexivity|left; reflexivity].
      * assert (e0 = IndexError).
        { unfold py_index in C0. destruct (_ || _)%bool; [congruence|]. destruct (nth_error _ _); congruence. }
        subst e0. cbn [caught_by_check r_buf]. rewrite Eb. exists hdr_empty. split; [reflexivity|left; reflexivity].
  - (* header already populated for this frame *)
    rewrite Hne. destruct (r_hdr st) as [hu hl hc] eqn:Eh. cbn [h_len] in Hl. subst hl.
    cbn [r_hdr hdr_is_empty h_uid h_len h_crc] in *. rewrite Hne. cbn [h_len].
    rewrite (rc_ready2_closed (zlen b) (zlen f)). replace (zlen b >=? zlen f) with false by lia.
    eexists. split; [reflexivity|]. right. right. split; [exact Hne|reflexivity].
Qed.

(* ------------------------------------------------------------------ C06: all chunkings with at most one frame completing per read *)

Definition starts (q : bytes) (fs : list (N * bytes)) : Prop :=
  match fs with
  | [] => q = []
  | (u, p) :: _ => exists q', spec_adu_rtu u p = q ++ q' /\ q' <> []
  end.

(* [opr b frames chunks]: with b already buffered, the chunks deliver the bytes of the frames
   (and nothing else), every read completing at most one frame *)
Fixpoint opr (b : bytes) (frames : list (N * bytes)) (chunks : list bytes) : Prop :=
  match chunks with
  | [] => frames = [] /\ b = []
  | c :: cs =>
      match frames with
      | [] => c = [] /\ b = [] /\ opr [] [] cs
      | (u, pdu) :: fs =>
          (exists q, spec_adu_rtu u pdu = (b ++ c) ++ q /\ q <> [] /\ opr (b ++ c) frames cs)
          \/ (exists q, b ++ c = spec_adu_rtu u pdu ++ q /\ starts q fs /\ opr q fs cs)
      end
  end.

Lemma rtu_recv_idle_empty cfg h : rtu_recv cfg {| r_buf := []; r_hdr := h |} [] = ({| r_buf := []; r_hdr := h |}, [], FOk).
Proof. unfold rtu_recv, rtu_ready. cbn [r_buf r_hdr app]. rewrite rc_ready_closed. reflexivity. Qed.

Lemma starts_wfb cfg q fs : Forall (fun f => valid_frame cfg (fst f) (snd f)) fs -> starts q fs -> wfb q = true.
Proof.
  destruct fs as [|[u p] t]; cbn [starts]; intros Hall Hs; [subst; reflexivity|].
  destruct Hs as (q' & E & _). inversion Hall as [|? ? V _]. subst. cbn [fst snd] in V.
  destruct V as [Hw _ _ _]. destruct (spec_adu_rtu_shape u p Hw) as (lo & hi & Esp & Hlo & Hhi & _).
  assert (W : wfb (spec_adu_rtu u p) = true).
  { rewrite Esp, wfb_app, Hw. cbn. unfold byteb. lia. }
  rewrite E, wfb_app in W. apply andb_prop in W. tauto.
Qed.

Theorem rtu_chunked cfg : forall chunks b frames st,
  r_buf st = b ->
  match frames with [] => True | (u, pdu) :: _ => hdr_waiting (spec_adu_rtu u pdu) (r_hdr st) end ->
  Forall (fun f => valid_frame cfg (fst f) (snd f)) frames ->
  opr b frames chunks ->
  rtu_feed_dels cfg st chunks = (map (fun f => (snd f, zb (fst f))) frames, map (fun _ => FOk) chunks).
Proof.
  induction chunks as [|c cs IH]; intros b frames st Hb Hh Hall Ho.
  - cbn in Ho. destruct Ho as [-> _]. reflexivity.
  - cbn [opr] in Ho. destruct frames as [|[u pdu] fs].
    + destruct Ho as (-> & -> & Ho). cbn [rtu_feed_dels map].
      destruct st as [sb sh]. cbn [r_buf] in Hb. subst sb. rewrite rtu_recv_idle_empty.
      rewrite (IH [] [] {| r_buf := []; r_hdr := sh |}); try reflexivity; assumption.
    + inversion Hall as [|? ? V Hfs]. subst. cbn [fst snd] in V.
      destruct Ho as [(q & Ef & Hq & Ho) | (q & Eb & Hs & Ho)].
      * destruct (rtu_recv_incomplete cfg st c u pdu (r_buf st ++ c) q V Hh eq_refl Ef Hq) as (h' & R & Hh').
        cbn [rtu_feed_dels]. rewrite R.
        rewrite (IH (r_buf st ++ c) ((u, pdu) :: fs) {| r_buf := r_buf st ++ c; r_hdr := h' |});
          [reflexivity | reflexivity | exact Hh' | exact Hall | exact Ho].
      * cbn [rtu_feed_dels].
        rewrite (rtu_recv_complete cfg st c u pdu q V Hh Eb (starts_wfb cfg q fs Hfs Hs)).
        rewrite (IH q fs {| r_buf := q; r_hdr := hdr_empty |});
          [reflexivity | reflexivity | | exact Hfs | exact Ho].
        destruct fs as [|[u' p'] t]; [exact I | left; reflexivity].
Qed.

(* ------------------------------------------------------------------ C03: the size oracle on well-shaped frames *)
Theorem size_oracle_shape r f :
  (r = RFixed (zlen f)) \/
  (exists p b, r = RByteCount p /\ 0 <= p /\ nth_error f (Z.to_nat p) = Some b /\ zb b = zlen f - p - 3) ->
  frame_size r f = Ok (zlen f).
Proof.
  intros [-> | (p & b & -> & Hp & Hn & Hb)]; [reflexivity|].
  cbn [frame_size]. rewrite (py_index_ok f p b Hp Hn). cbn [bind]. rewrite cc_rtu_size_closed. f_equal. lia.
Qed.

Example valid_frame_example :
  let cfg := {| cf_dec := fun _ => DMsg; cf_rules := server_decoder; cf_units := [1]; cf_single := false |} in
  valid_frame cfg 1 [3; 0; 1; 0; 2]%N /\ valid_frame cfg 1 [16; 0; 1; 0; 1; 2; 123; 125]%N.
Proof.
  cbv zeta. split; constructor; try reflexivity.
  - exists 3%N, [0; 1; 0; 2]%N. repeat split; vm_compute; reflexivity.
  - exists 16%N, [0; 1; 0; 1; 2; 123; 125]%N. repeat split; vm_compute; reflexivity.
Qed.

Example opr_example :
  let fa := spec_adu_rtu 1 [3; 0; 1; 0; 2]%N in
  opr [] [(1, [3; 0; 1; 0; 2]); (1, [3; 0; 1; 0; 2])]%N [firstn 3 fa; []; skipn 3 fa ++ firstn 1 fa; skipn 1 fa; []].
Proof.
  cbv zeta. cbn [opr].
  left. exists [1; 0; 2; 149; 203]%N. split; [vm_compute; reflexivity|]. split; [discriminate|].
  left. exists [1; 0; 2; 149; 203]%N. split; [vm_compute; reflexivity|]. split; [discriminate|].
  right. exists [1]%N. split; [vm_compute; reflexivity|]. split.
  { exists [3; 0; 1; 0; 2; 149; 203]%N. split; [vm_compute; reflexivity|discriminate]. }
  right. exists []. split; [vm_compute; reflexivity|]. split; [reflexivity|].
  cbn. repeat split; reflexivity.
Qed.

(* ------------------------------------------------------------------ C07 composition: gate + detection
   a corrupted frame handed to an empty receiver: nothing is delivered whose frame has the
   extent of the original (a delivery can only stem from a span of different length, i.e. when
   the corruption changed the extent computed from function code / byte count) *)
Theorem rtu_no_delivery_same_extent cfg st frame' st' ds x :
  known_rules (cf_rules cfg) -> r_buf st = [] -> wfb frame' = true -> crc_ok frame' = false ->
  rtu_recv cfg st frame' = (st', ds, x) ->
  forall pdu uid, In (pdu, uid) ds -> forall u, uid = Z.of_N u -> length (spec_adu_rtu u pdu) <> length frame'.
Proof.
  intros Hk Hb Hw Hbad R pdu uid Hin u Hu Hlen.
  destruct (rtu_gate cfg st frame' st' ds x Hk) with (pdu := pdu) (uid := uid) as (u' & rest & Hsplit & Hu' & Hok & _);
    [rewrite Hb; exact Hw | exact R | exact Hin |].
  assert (u' = u) by lia. subst u'.
  rewrite Hb in Hsplit. cbn [app] in Hsplit.
  assert (rest = []).
  { apply (f_equal (@length N)) in Hsplit. rewrite app_length in Hsplit. destruct rest; [reflexivity|cbn [length] in Hsplit; lia]. }
  subst rest. rewrite app_nil_r in Hsplit. rewrite <- Hsplit in Hok. congruence.
Qed.

(* ------------------------------------------------------------------ C11: explicit recovery bound, server decoder table *)

(* on the request table every size rule is total once 11 bytes are buffered and never
   returns more than 268 = 255 + 10 + 3 (byte count at position 10: Read/Write Multiple) *)
Definition rule_tot_b (r : size_rule) : bool :=
  match r with
  | RFixed k => (4 <=? k) && (k <=? 268)
  | RByteCount p => (1 <=? p) && (p <=? 10)
  | _ => false
  end.

Definition rule_tot (r : size_rule) : Prop :=
  forall data, wfb data = true -> 11 <= zlen data -> exists n, frame_size r data = Ok n /\ 4 <= n <= 268.

Lemma rule_tot_of_bool r : rule_tot_b r = true -> rule_tot r.
Proof.
  destruct r as [k|p| | |]; cbn [rule_tot_b]; try discriminate; intros Hb data Hw Hl.
  - exists k. split; [reflexivity|lia].
  - cbn [frame_size].
    destruct (nth_error data (Z.to_nat p)) as [b|] eqn:N.
    + rewrite (py_index_ok data p b) by (try lia; exact N). cbn [bind]. rewrite cc_rtu_size_closed.
      pose proof (nth_error_wfb _ _ _ Hw N). eexists. split; [reflexivity|]. unfold zb. lia.
    + apply nth_error_None in N. unfold zlen in Hl. lia.
Qed.

Lemma lookup_rows_P (P : size_rule -> Prop) rows fc : forall acc r,
  Forall (fun row => P (cr_rule row)) rows -> (forall a, acc = Some a -> P a) ->
  lookup_rows rows fc acc = Some r -> P r.
Proof.
  induction rows as [|row t IH]; intros acc r Hall Hacc H; cbn in *.
  - apply Hacc. exact H.
  - inversion Hall as [|? ? H1 H2]. subst.
    eapply IH; [exact H2| |exact H].
    intros a Ha. destruct (cr_fc row =? fc); [inversion Ha; subst; exact H1 | apply Hacc; exact Ha].
Qed.

Lemma lookup_rule_P (P : size_rule -> Prop) dc fc :
  Forall (fun row => P (cr_rule row)) (dc_classes dc) -> P (dc_default dc) -> P (lookup_rule dc fc).
Proof.
  intros H1 H2. unfold lookup_rule.
  destruct (lookup_rows (dc_classes dc) fc None) eqn:E; [|exact H2].
  eapply lookup_rows_P; [exact H1| |exact E]. intros a Ha. discriminate.
Qed.

Lemma server_rules_tot fc : rule_tot (lookup_rule server_decoder fc).
Proof.
  apply lookup_rule_P.
  - assert (H : forallb (fun row => rule_tot_b (cr_rule row)) (dc_classes server_decoder) = true) by (vm_compute; reflexivity).
    rewrite forallb_forall in H. apply Forall_forall. intros row Hin. apply rule_tot_of_bool. apply H. exact Hin.
  - apply rule_tot_of_bool. reflexivity.
Qed.

Definition hdr_bounded (h : rhdr) : Prop :=
  hdr_is_empty h = true \/ exists n, h_len h = Some n /\ n <= 268.

Lemma rtu_populate_total cfg buf h : cf_rules cfg = server_decoder -> wfb buf = true -> 11 <= zlen buf ->
  exists u n c, rtu_populate cfg {| r_buf := buf; r_hdr := h |} =
    ({| r_buf := buf; r_hdr := {| h_uid := Some (zb u); h_len := Some n; h_crc := Some c |} |}, None) /\ 4 <= n <= 268.
Proof.
  intros Hr Hw Hl. unfold rtu_populate. cbn [r_buf r_hdr].
  destruct buf as [|u [|fc t]]; try (unfold zlen in Hl; cbn in Hl; lia).
  rewrite py_index_app_head.
  assert (E1 : py_index (u :: fc :: t) 1 = Ok fc) by (apply py_index_ok; [lia|reflexivity]).
  rewrite E1, Hr.
  destruct (server_rules_tot (zb fc) (u :: fc :: t) Hw Hl) as (n & Hn & Hb). rewrite Hn.
  exists u, n. eexists. split; [reflexivity|exact Hb].
Qed.

Lemma split_at2 {A} (l : list A) a : 0 <= a -> a + 2 <= zlen l ->
  exists x c0 c1 z, l = x ++ [c0; c1] ++ z /\ zlen x = a.
Proof.
  intros Ha Hl.
  pose proof (firstn_skipn (Z.to_nat a) l) as E.
  assert (L : (2 <= length (skipn (Z.to_nat a) l))%nat) by (rewrite skipn_length; unfold zlen in Hl; lia).
  destruct (skipn (Z.to_nat a) l) as [|c0 [|c1 z]]; cbn in L; try lia.
  exists (firstn (Z.to_nat a) l), c0, c1, z. split; [symmetry; exact E|].
  unfold zlen in *. rewrite firstn_length. lia.
Qed.

Lemma pyslice_from_len' {A} (l : list A) k : 0 <= k ->
  Z.of_nat (length (pyslice l (Some k) None)) = Z.max 0 (zlen l - k).
Proof.
  intros Hk. unfold pyslice, norm_idx. fold (zlen l). replace (k <? 0) with false by lia.
  rewrite firstn_length, skipn_length. unfold zlen. lia.
Qed.

(* RECOVERY BOUND (request direction): whatever the buffer holds (any garbage) and whatever
   bounded header is pending, once 268 bytes are buffered a call cannot wait any longer: it
   raises (the serial handlers then reset the framer), or it drops everything and is
   synchronised, or it delivers a message (justified, see the gate) and consumes at least 4
   bytes with an empty header. *)
Theorem rtu_recover_server cfg st chunk st' ds x :
  cf_rules cfg = server_decoder -> wfb (r_buf st ++ chunk) = true -> hdr_bounded (r_hdr st) ->
  268 <= zlen (r_buf st ++ chunk) ->
  rtu_recv cfg st chunk = (st', ds, x) ->
  x <> FOk \/
  (r_buf st' = [] /\ r_hdr st' = hdr_empty /\ ds = []) \/
  (exists d, ds = [d] /\ r_hdr st' = hdr_empty /\ zlen (r_buf st') + 4 <= zlen (r_buf st ++ chunk)).
Proof.
  intros Hr Hw Hh Hl. unfold rtu_recv. set (buf := r_buf st ++ chunk) in *.
  (* isFrameReady is True *)
  assert (R : exists h1, rtu_ready cfg {| r_buf := buf; r_hdr := r_hdr st |} = ({| r_buf := buf; r_hdr := h1 |}, Ok true)).
  { unfold rtu_ready. cbn [r_buf r_hdr]. rewrite rc_ready_closed. replace (zlen buf >? 1) with true by lia.
    destruct Hh as [He | (n & Hn & Hb)].
    - rewrite He. destruct (rtu_populate_total cfg buf (r_hdr st) Hr Hw ltac:(lia)) as (u & n & c & P & Hn). rewrite P.
      cbn [hdr_is_empty h_uid h_len h_crc r_hdr]. eexists. rewrite (rc_ready2_closed (zlen buf) n).
      replace (zlen buf >=? n) with true by lia. reflexivity.
    - assert (Hne : hdr_is_empty (r_hdr st) = false) by (unfold hdr_is_empty; rewrite Hn; destruct (h_uid (r_hdr st)); reflexivity).
      rewrite Hne. cbn [r_hdr]. rewrite Hne, Hn. eexists. rewrite (rc_ready2_closed (zlen buf) n).
      replace (zlen buf >=? n) with true by lia. reflexivity. }
  destruct R as [h1 R]. rewrite R.
  (* checkFrame *)
  unfold rtu_check, rtu_check_body.
  destruct (rtu_populate_total cfg buf h1 Hr Hw ltac:(lia)) as (u & s & c & P & Hs). rewrite P.
  cbn [r_hdr h_len r_buf]. rewrite rc_chk_data_hi_closed, rc_chk_crc_lo_closed, rc_chk_crc_hi_closed.
  destruct (split_at2 buf (s - 2) ltac:(lia) ltac:(lia)) as (xs & c0 & c1 & z & Eb & Hx).
  rewrite Eb. rewrite (pyslice_prefix xs ([c0; c1] ++ z)) by lia.
  rewrite (pyslice_mid xs [c0; c1] z) by (unfold zlen in *; cbn [length]; lia).
  rewrite py_index_app_head.
  assert (E2 : py_index [c0; c1] 1 = Ok c1) by (apply py_index_ok; [lia | reflexivity]). rewrite E2.
  assert (Hwx : wfb xs = true) by (rewrite Eb, wfb_app in Hw; apply andb_prop in Hw; tauto).
  rewrite rc_chk_crc_val_closed, py_check_crc_spec by exact Hwx.
  destruct (Z.of_N (swap16 (crc16_bitwise xs)) =? Z.shiftl (zb c0) 8 + zb c1).
  2: { cbn [caught_by_check rtu_reset r_buf]. intros H. inversion H. right. left. repeat split; reflexivity. }
  cbn [r_hdr h_uid].
  destruct (validate_unit cfg (Some (zb u))) as [[|]|e].
  3: { intros H. inversion H. left. discriminate. }
  2: { intros H. inversion H. right. left. repeat split; reflexivity. }
  unfold rtu_process, rtu_get_frame. cbn [r_hdr h_len h_uid r_buf].
  destruct (cf_dec cfg _); try (intros H; inversion H; left; discriminate).
  intros H. inversion H. right. right. eexists. split; [reflexivity|]. split; [reflexivity|].
  unfold rtu_advance. cbn [r_hdr h_len r_buf]. rewrite rc_adv_closed.
  fold (zlen (pyslice (xs ++ [c0; c1] ++ z) (Some s) None)). unfold zlen at 1.
  change (xs ++ c0 :: c1 :: z) with (xs ++ [c0; c1] ++ z). rewrite <- Eb.
  rewrite pyslice_from_len' by lia. lia.
Qed.


Lemma server_rule_b fc : rule_tot_b (lookup_rule server_decoder fc) = true.
Proof.
  apply (lookup_rule_P (fun r => rule_tot_b r = true)); [|reflexivity].
  assert (H : forallb (fun row => rule_tot_b (cr_rule row)) (dc_classes server_decoder) = true) by (vm_compute; reflexivity).
  rewrite forallb_forall in H. apply Forall_forall. exact H.
Qed.

Lemma rule_max_of_bool r data n : rule_tot_b r = true -> wfb data = true -> frame_size r data = Ok n -> n <= 268.
Proof.
  destruct r as [k|p| | |]; cbn [rule_tot_b frame_size]; try discriminate; intros Hb Hw H.
  - inversion H. lia.
  - destruct (py_index data p) as [b|] eqn:E; [|discriminate]. cbn [bind] in H. rewrite cc_rtu_size_closed in H.
    apply py_index_nth in E; [|lia]. destruct E as [Nn _]. pose proof (nth_error_wfb _ _ _ Hw Nn).
    inversion H. unfold zb. lia.
Qed.

(* the header bound is an invariant of the request-direction receiver: it holds initially and
   after every call that returns normally (after an exception the handlers reset the framer) *)
Lemma hdr_bounded_init : hdr_bounded (r_hdr rtu_init).
Proof. right. exists 0. split; [reflexivity|lia]. Qed.

Lemma hdr_bounded_empty : hdr_bounded hdr_empty.
Proof. left. reflexivity. Qed.

Theorem rtu_recv_hdr_bounded cfg st chunk st' ds :
  cf_rules cfg = server_decoder -> wfb (r_buf st ++ chunk) = true -> hdr_bounded (r_hdr st) ->
  rtu_recv cfg st chunk = (st', ds, FOk) -> hdr_bounded (r_hdr st').
Proof.
  intros Hr Hw Hh. unfold rtu_recv. set (st0 := {| r_buf := r_buf st ++ chunk; r_hdr := r_hdr st |}).
  destruct (rtu_ready cfg st0) as [st1 [[|]|e]] eqn:R; try (intros H; discriminate H).
  - (* ready: every normal outcome ends with an empty header *)
    destruct (rtu_check cfg st1) as [st2 [[|]|e]]; try (intros H; discriminate H).
    + destruct (validate_unit cfg _) as [[|]|e]; try (intros H; discriminate H).
      * unfold rtu_process. destruct (rtu_get_frame st2); try (intros H; discriminate H).
        destruct (cf_dec cfg _); try (intros H; discriminate H).
        destruct (h_uid (r_hdr st2)); try (intros H; discriminate H).
        intros H. inversion H. unfold rtu_advance. destruct (h_len (r_hdr st2)); apply hdr_bounded_empty.
      * intros H. inversion H. apply hdr_bounded_empty.
    + destruct (r_buf st2); intros H; inversion H; apply hdr_bounded_empty.
  - (* not ready: header unchanged, {} , or freshly populated from the oracle *)
    intros H. inversion H. subst st1. clear H. revert R. unfold rtu_ready.
    destruct (beval _ (rc_ready rtu)); [|intros R; inversion R; exact Hh].
    cbn [st0 r_hdr].
    destruct (hdr_is_empty (r_hdr st)) eqn:He.
    + destruct (rtu_populate cfg st0) as [sp [e|]] eqn:P.
      * destruct e; intros R; inversion R; subst; try apply hdr_bounded_empty.
      * pose proof P as P'. apply rtu_populate_ok in P'. destruct P' as (u & fc & size & _ & _ & Fs & _ & _ & Hl).
        rewrite Hr in Fs. cbn [st0 r_buf] in Fs.
        pose proof (rule_max_of_bool _ _ _ (server_rule_b (zb fc)) Hw Fs) as Hm.
        destruct (hdr_is_empty (r_hdr sp)); [intros R; inversion R; subst; right; exists size; split; assumption|].
        rewrite Hl. intros R. inversion R. subst. right. exists size. split; assumption.
    + unfold st0. cbn [r_hdr]. rewrite He. destruct (h_len (r_hdr st)); intros R; inversion R; subst; exact Hh.
Qed.
