(* CorrWaitData.v — correspondence cases for WaitData.v: the REAL ModbusSerialClient._wait_for_data
   on a fake serial port whose in_waiting follows a script, under a virtual clock (time.time /
   time.sleep of the module patched); observed = the size it returned and how many polls it made,
   or that it was still polling after the poll budget (hang). *)
From Coq Require Import List.
From PM.theories Require Import Base WaitData.
Import ListNotations.
Open Scope Z_scope.

Record wcase := {
  wt_timeout_us : option Z;     (* None: timeout None or 0 *)
  wt_script : list Z;           (* in_waiting per poll; afterwards the last value repeats (0 if empty) *)
  wt_budget : nat;              (* polls after which the harness gives up *)
  wt_result : option (Z * nat)  (* Some (size, polls) | None = still polling at the budget *)
}.

Definition obs_of (l : list Z) (k : nat) : Z := nth k l (last l 0).

Definition in_script (l : list Z) (s : Z) : bool := (s =? 0) || existsb (Z.eqb s) l.

Definition chk_wait (C : waitcode) (c : wcase) : bool * bool :=
  let model := wait_for_data C (S (wt_budget c)) (wt_timeout_us c) (obs_of (wt_script c)) in
  let model_obs := match model with
                   | Some (s, n) => if Nat.leb n (wt_budget c) then Some (s, n) else None
                   | None => None
                   end in
  (match model_obs, wt_result c with
   | Some (s, n), Some (s', n') => (s =? s') && Nat.eqb n n'
   | None, None => true
   | _, _ => false
   end,
   (* PROPERTY (C13): with a timeout set the wait ends within timeout/sleep + 1 polls, whatever the line
      does, and the size read is 0 or a value in_waiting really showed; without a timeout the wait must
      end once data has arrived and stopped growing (a silent line is the known finding) *)
   match wt_timeout_us c, wt_result c with
   | Some t, Some (s, n) => (Z.of_nat n <=? t / 10000 + 1) && in_script (wt_script c) s
   | Some _, None => false
   | None, Some (s, _) => in_script (wt_script c) s
   | None, None => forallb (Z.eqb 0) (wt_script c) || negb (Nat.ltb (length (wt_script c) + 2) (wt_budget c))
   end).
