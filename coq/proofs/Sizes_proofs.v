(* Sizes_proofs.v — lemmas about the reply-size model instantiated with the GENERATED
   expression trees of Generated/GenSizes.v (i.e. what /repo's source says now).  A changed
   constant or operator in a get_response_pdu_size body or in transaction.py makes the
   [sz_simpl; lia] steps below fail. *)
From PM.theories Require Import Base Expr Sizes.
From PM.Generated Require Import GenSizes.
From Coq Require Import ZifyBool.
Open Scope string_scope.
Open Scope list_scope.
Open Scope Z_scope.

Ltac Zify.zify_post_hook ::= Z.to_euclidean_division_equations.

(* unfold everything down to integer arithmetic over the variables *)
Lemma z2b_b2z b : z2b (b2z b) = b.
Proof. destruct b; reflexivity. Qed.

(* evaluate comparisons between closed numerals only *)
Ltac closed_cmp :=
  repeat match goal with
  | |- context [Z.eqb ?a ?b] =>
      let v := eval vm_compute in (Z.eqb a b) in
      first [constr_eq v true | constr_eq v false]; change (Z.eqb a b) with v
  | |- context [Z.ltb ?a ?b] =>
      let v := eval vm_compute in (Z.ltb a b) in
      first [constr_eq v true | constr_eq v false]; change (Z.ltb a b) with v
  | |- context [Z.leb ?a ?b] =>
      let v := eval vm_compute in (Z.leb a b) in
      first [constr_eq v true | constr_eq v false]; change (Z.leb a b) with v
  end.

(* unfold everything down to integer arithmetic over the variables *)
Ltac sz_simpl :=
  cbv -[Z.add Z.sub Z.mul Z.div Z.modulo Z.opp Z.eqb Z.leb Z.ltb Z.geb Z.gtb Z.min Z.max
        b2z z2b negb];
  rewrite ?z2b_b2z; closed_cmp; cbn [negb]; cbv beta iota.

(* ------------------------------------------------------------------ PDU sizes *)

Lemma ceil8_floor n : n / 8 + (if negb (n mod 8 =? 0) then 1 else 0) = ceil8 n.
Proof. unfold ceil8. destruct (n mod 8 =? 0) eqn:E; cbn [negb]; lia. Qed.

Lemma read_bits_size cls n :
  cls = "ReadCoilsRequest" \/ cls = "ReadDiscreteInputsRequest" ->
  predicted_pdu_size cls (attrs n 0 MNone) = Some (1 + 1 + ceil8 n).
Proof.
  intros [-> | ->]; sz_simpl; f_equal; unfold ceil8;
    destruct (n mod 8 =? 0) eqn:E; cbn [negb]; lia.
Qed.

Lemma read_regs_size cls n :
  cls = "ReadHoldingRegistersRequest" \/ cls = "ReadInputRegistersRequest" ->
  predicted_pdu_size cls (attrs n 0 MNone) = Some (1 + 1 + 2 * n).
Proof. intros [-> | ->]; sz_simpl; f_equal; lia. Qed.

Lemma read_write_regs_size n :
  predicted_pdu_size "ReadWriteMultipleRegistersRequest" (attrs 0 n MNone) = Some (1 + 1 + 2 * n).
Proof. sz_simpl; f_equal; lia. Qed.

Lemma diag_echo_size k :
  predicted_pdu_size "ReturnQueryDataRequest" (attrs 0 0 (MList k)) = Some (1 + 2 + 2 * k).
Proof. sz_simpl; f_equal; lia. Qed.

(* the requests of the property's quantifier on which the code is right *)
Definition predicting (q : request) : bool :=
  match q with QMaskWrite => false | _ => true end.

Definition known_defect (q : request) : bool :=
  match q with QPlusGet | QPlusClear | QDiagListenOnly => true | _ => false end.

Lemma pdu_size_all q :
  request_ok q = true -> known_defect q = false -> predicting q = true ->
  predicted_pdu_size (class_of q) (attrs_of q) = spec_response_pdu_len q.
Proof.
  intros Hok Hd Hp. destruct q; try discriminate Hd; try discriminate Hp.
  - apply read_bits_size; auto.
  - apply read_bits_size; auto.
  - apply read_regs_size; auto.
  - apply read_regs_size; auto.
  - reflexivity.
  - reflexivity.
  - reflexivity.
  - reflexivity.
  - apply read_write_regs_size.
  - apply diag_echo_size.
  - cbn [request_ok simple_subs existsb] in Hok.
    assert (H : sub = 1 \/ sub = 2 \/ sub = 3 \/ sub = 10 \/ sub = 11 \/ sub = 12 \/ sub = 13 \/ sub = 14
                \/ sub = 15 \/ sub = 16 \/ sub = 17 \/ sub = 18 \/ sub = 19 \/ sub = 20) by lia.
    repeat (destruct H as [-> | H]; [reflexivity|]). subst; reflexivity.
Qed.

Lemma mask_write_does_not_predict a : predicted_pdu_size (class_of QMaskWrite) a = None.
Proof. reflexivity. Qed.

(* known defects, pinned *)
Lemma plus_get_refuted :
  predicted_pdu_size (class_of QPlusGet) (attrs_of QPlusGet) = Some 117 /\ spec_response_pdu_len QPlusGet = Some 115.
Proof. split; reflexivity. Qed.

Lemma plus_clear_refuted :
  predicted_pdu_size (class_of QPlusClear) (attrs_of QPlusClear) = Some 7 /\ spec_response_pdu_len QPlusClear = Some 5.
Proof. split; reflexivity. Qed.

Lemma listen_only_refuted :
  predicted_pdu_size (class_of QDiagListenOnly) (attrs_of QDiagListenOnly) = Some 5
  /\ spec_response_pdu_len QDiagListenOnly = None.
Proof. split; reflexivity. Qed.

Lemma full_statement_refuted :
  ~ (forall q, request_ok q = true -> predicting q = true ->
       predicted_pdu_size (class_of q) (attrs_of q) = spec_response_pdu_len q).
Proof. intro H. specialize (H QPlusGet eq_refl eq_refl). discriminate H. Qed.

(* the prediction's side effect on the request object *)
Lemma diag_prediction_rewrites_message :
  message_after "ReturnDiagnosticRegisterRequest" (MInt 0) = MList 1
  /\ message_after "ReadCoilsRequest" MNone = MNone.
Proof. split; reflexivity. Qed.

(* ------------------------------------------------------------------ ADU overhead *)

Definition serial (f : framing) : bool := match f with FSocket => false | _ => true end.

Lemma adu_overhead f p :
  serial f = true -> p <> 0 ->
  expected_response_length f (Some p) = Some (spec_adu_len f p).
Proof.
  intros Hs Hp. destruct f; try discriminate Hs; sz_simpl.
  - destruct (p =? 0) eqn:E; [lia|]. f_equal; lia.
  - destruct (p * 2 =? 0) eqn:E; [lia|]. f_equal; lia.
  - destruct (p =? 0) eqn:E; [lia|]. f_equal; lia.
  - destruct (p =? 0) eqn:E; [lia|]. f_equal; lia.
Qed.

Lemma socket_not_predicted pred : expected_response_length FSocket pred = None.
Proof. reflexivity. Qed.

Lemma response_length_all f p : calc_response_length f p = Some (base_adu_size f + p).
Proof. destruct f; reflexivity. Qed.

Lemma base_adu_identity f p :
  calc_response_length f p = Some (base_adu_size f + p) /\
  base_adu_size f = spec_adu_len f 0.
Proof. destruct f; split; reflexivity. Qed.

Lemma base_sizes :
  base_adu_size FSocket = 7 /\ base_adu_size FRtu = 3 /\ base_adu_size FAscii = 7
  /\ base_adu_size FBinary = 5 /\ base_adu_size FTls = 0.
Proof. repeat split. Qed.

Lemma exception_len f : calc_exception_length f = Some (spec_adu_len f exception_pdu_len).
Proof. destruct f; reflexivity. Qed.

(* ------------------------------------------------------------------ the two reads of _recv *)

Definition stream_framing (f : framing) : bool :=
  match f with FRtu | FAscii | FBinary => true | _ => false end.

Lemma plan_eq (a b c a' b' c' : Z) :
  a = a' -> b = b' -> c = c' ->
  ([Some a; Some b], RecvDone (Some c)) = ([Some a'; Some b'], RecvDone (Some c')).
Proof. intros; subst; reflexivity. Qed.

(* normal reply of a p-byte PDU, the client expecting exactly that *)
Lemma reads_exactly_normal f p fc mbap :
  stream_framing f = true -> 1 <= p -> 0 <= fc < 128 ->
  exists m r,
    recv_plan f (expected_response_length f (Some p)) (spec_adu_len f p) fc mbap
      = ([Some m; Some r], RecvDone (Some (spec_adu_len f p)))
    /\ 0 < m /\ 0 <= r /\ m + r = spec_adu_len f p.
Proof.
  intros Hs Hp Hfc. rewrite adu_overhead by (destruct f; try discriminate; auto; lia).
  destruct f; try discriminate Hs.
  - exists 2, (p + 1). split; [|unfold spec_adu_len, exception_pdu_len; lia]. sz_simpl.
    replace (Z.min (Z.max 2 0) (1 + p + 2)) with 2 by lia. closed_cmp; cbn [negb]; cbv beta iota.
    replace (fc <? 128) with true by lia.
    apply plan_eq; lia.
  - exists 5, (2 * p + 2). split; [|unfold spec_adu_len, exception_pdu_len; lia]. sz_simpl.
    replace (Z.min (Z.max 5 0) (1 + 2 * (1 + p + 1) + 2)) with 5 by lia. closed_cmp; cbn [negb]; cbv beta iota.
    replace (fc <? 128) with true by lia.
    apply plan_eq; lia.
  - exists 3, (p + 2). split; [|unfold spec_adu_len, exception_pdu_len; lia]. sz_simpl.
    replace (Z.min (Z.max 3 0) (1 + 1 + p + 2 + 1)) with 3 by lia. closed_cmp; cbn [negb]; cbv beta iota.
    replace (fc <? 128) with true by lia.
    apply plan_eq; lia.
Qed.

(* exception reply (2-byte PDU), whatever normal length the client was expecting *)
Lemma reads_exactly_exception f p fc mbap :
  stream_framing f = true -> 1 <= p -> 128 <= fc ->
  exists m r,
    recv_plan f (expected_response_length f (Some p)) (spec_adu_len f exception_pdu_len) fc mbap
      = ([Some m; Some r], RecvDone (Some (spec_adu_len f exception_pdu_len)))
    /\ 0 < m /\ 0 <= r /\ m + r = spec_adu_len f exception_pdu_len.
Proof.
  intros Hs Hp Hfc. rewrite adu_overhead by (destruct f; try discriminate; auto; lia).
  destruct f; try discriminate Hs.
  - exists 2, 3. split; [|unfold spec_adu_len, exception_pdu_len; lia]. sz_simpl. replace (fc <? 128) with false by lia. reflexivity.
  - exists 5, 6. split; [|unfold spec_adu_len, exception_pdu_len; lia]. sz_simpl. replace (fc <? 128) with false by lia. reflexivity.
  - exists 3, 4. split; [|unfold spec_adu_len, exception_pdu_len; lia]. sz_simpl. replace (fc <? 128) with false by lia. reflexivity.
Qed.

(* ------------------------------------------------------------------ TLS framing *)

(* normal reply: the whole frame in the first read, then a read of 0 bytes *)
Lemma tls_reads_exactly p fc mbap :
  1 <= p ->
  recv_plan FTls (expected_response_length FTls (Some p)) (spec_adu_len FTls p) fc mbap
  = ([Some p; Some 0], RecvDone (Some p)).
Proof.
  intros Hp. rewrite adu_overhead by (auto; lia). sz_simpl.
  replace (Z.min (Z.max p 0) p) with p by lia.
  replace (p =? p) with true by lia. cbn [negb]. cbv beta iota.
  replace (p =? 0) with false by lia. apply plan_eq; lia.
Qed.

(* exception reply (2 bytes) while a p-byte normal reply was predicted: the client asks for p
   bytes at once and then rejects the short read *)
Lemma tls_exception_refuted p fc mbap :
  2 < p ->
  recv_plan FTls (expected_response_length FTls (Some p)) (spec_adu_len FTls exception_pdu_len) fc mbap
  = ([Some p], RecvRaises InvalidMessageExc)
  /\ spec_adu_len FTls exception_pdu_len < p.
Proof.
  intros Hp. split; [|unfold spec_adu_len, exception_pdu_len; lia].
  rewrite adu_overhead by (auto; lia). sz_simpl.
  replace (Z.min (Z.max p 0) 2) with 2 by lia.
  replace (2 =? p) with false by lia. reflexivity.
Qed.

(* ------------------------------------------------------------------ binary framing with escapes *)

Lemma binary_escape_refuted p esc fc mbap :
  1 <= p -> 0 < esc -> 0 <= fc < 128 ->
  asked_sum (fst (recv_plan FBinary (expected_response_length FBinary (Some p))
                            (spec_adu_len FBinary p + esc) fc mbap))
  = Some (spec_adu_len FBinary p)
  /\ spec_adu_len FBinary p < spec_adu_len FBinary p + esc.
Proof.
  intros Hp He Hfc. split; [|lia]. rewrite adu_overhead by (auto; lia). sz_simpl.
  replace (Z.min (Z.max 3 0) (1 + 1 + p + 2 + 1 + esc)) with 3 by lia. closed_cmp; cbn [negb]; cbv beta iota.
  replace (fc <? 128) with true by lia. cbn [fst asked_sum]. f_equal. lia.
Qed.

(* ------------------------------------------------------------------ end to end *)

Lemma spec_len_pos q p : request_ok q = true -> spec_response_pdu_len q = Some p -> 1 <= p.
Proof.
  intros Hok H.
  assert (Hinj : forall a : Z, Some a = Some p -> a = p) by (intros a E; congruence).
  destruct q; unfold spec_response_pdu_len, request_ok in *; try discriminate;
    apply Hinj in H; subst p; unfold ceil8; lia.
Qed.

(* a request of the quantifier (outside the delimited defects), a stream framing, the server's
   normal reply as the spec defines it: the client asks for exactly that frame *)
Lemma end_to_end q f fc mbap p :
  request_ok q = true -> known_defect q = false -> predicting q = true ->
  stream_framing f = true -> 0 <= fc < 128 -> spec_response_pdu_len q = Some p ->
  exists m r,
    recv_plan f (expected_response_length f (predicted_pdu_size (class_of q) (attrs_of q)))
              (spec_adu_len f p) fc mbap
      = ([Some m; Some r], RecvDone (Some (spec_adu_len f p)))
    /\ 0 < m /\ 0 <= r /\ m + r = spec_adu_len f p.
Proof.
  intros Hok Hd Hp Hs Hfc Hspec. rewrite (pdu_size_all q Hok Hd Hp), Hspec.
  apply reads_exactly_normal; auto. eapply spec_len_pos; eauto.
Qed.

(* ------------------------------------------------------------------ every diagnostic class of the source *)

(* one row of GenSizes.diag_table: the class is the one the model names for that sub-function,
   it is a sub-function of the spec, and (outside the delimited defects) its prediction is right *)
Definition diag_row_ok (row : Z * string) : bool :=
  let q := diag_request (fst row) in
  String.eqb (class_of q) (snd row)
  && option_eqb String.eqb (diag_class (fst row)) (Some (snd row))
  && request_ok q
  && (known_defect q
      || option_eqb Z.eqb (predicted_pdu_size (snd row) (attrs_of q)) (spec_response_pdu_len q)).

Lemma diag_table_checked : forallb diag_row_ok diag_table = true /\ map fst diag_table = spec_diag_subs.
Proof. split; vm_compute; reflexivity. Qed.

Lemma option_eqb_Z a b : option_eqb Z.eqb a b = true -> a = b.
Proof. destruct a, b; cbn; intros H; try discriminate; [f_equal; lia | reflexivity]. Qed.

Lemma diag_all_classes sub cls :
  In (sub, cls) diag_table ->
  class_of (diag_request sub) = cls /\ In sub spec_diag_subs /\
  (known_defect (diag_request sub) = false ->
   predicted_pdu_size cls (attrs_of (diag_request sub)) = spec_response_pdu_len (diag_request sub)).
Proof.
  intros Hin. destruct diag_table_checked as [Hall Hsubs].
  rewrite forallb_forall in Hall. specialize (Hall _ Hin). unfold diag_row_ok in Hall. cbn [fst snd] in Hall.
  apply andb_prop in Hall as [Hall Hpred]. apply andb_prop in Hall as [Hall _]. apply andb_prop in Hall as [Hcls _].
  split; [apply String.eqb_eq; exact Hcls|]. split.
  - rewrite <- Hsubs. apply (in_map fst) in Hin. exact Hin.
  - intros Hd. rewrite Hd in Hpred. cbn [orb] in Hpred. apply option_eqb_Z. exact Hpred.
Qed.

(* ------------------------------------------------------------------ TCP (socket framer) *)

(* the client reads the 7-byte MBAP header plus the function code, then length - 2 more bytes;
   the request's prediction is not used on this path *)
Lemma tcp_reads_exactly p fc pred :
  1 <= p -> 0 <= fc < 128 ->
  recv_plan FSocket (expected_response_length FSocket pred) (spec_adu_len FSocket p) fc (1 + p)
  = ([Some 8; Some (p - 1)], RecvDone (Some (spec_adu_len FSocket p))).
Proof.
  intros Hp Hfc. rewrite socket_not_predicted. sz_simpl.
  replace (Z.min (Z.max 8 0) (7 + p)) with 8 by lia. closed_cmp; cbn [negb]; cbv beta iota.
  replace (fc <? 128) with true by lia. apply plan_eq; lia.
Qed.

Lemma tcp_reads_exactly_exception fc pred mbap :
  128 <= fc ->
  recv_plan FSocket (expected_response_length FSocket pred) (spec_adu_len FSocket exception_pdu_len) fc mbap
  = ([Some 8; Some 1], RecvDone (Some (spec_adu_len FSocket exception_pdu_len))).
Proof.
  intros Hfc. rewrite socket_not_predicted. sz_simpl.
  replace (fc <? 128) with false by lia. reflexivity.
Qed.
