(* LockSerial_proofs.v — C15: every execution of well-bracketed calls is SERIAL.
   On top of the lock-discipline invariant of Lock_proofs.v: whenever the lock is free the
   shared client state is quiescent (no reply unread, table and framer buffer empty) and the
   transport log is a concatenation of whole per-call blocks; while a thread owns the lock, the
   shared state is what that thread alone made of a quiescent state; hence every call returns
   what it returns when run alone — its own reply, for calls that are [own_ok]. *)
From PM.theories Require Import Base Lock.
From PM.proofs Require Import Lock_proofs.
From Coq Require Import Arith PeanoNat Lia.
Open Scope list_scope.
Open Scope nat_scope.

Definition quiescent (s : shared) : Prop :=
  sh_lock s = None /\ sh_table s = [] /\ sh_fbuf s = [] /\ sh_peer s = [].

Definition own_result (t k : nat) (r : option frame) : Prop :=
  exists f, r = Some f /\ f_thr f = t /\ f_k f = k.

(* run alone against the in-order responsive peer, from ANY quiescent state and ANY values of the
   caller's locals, the call leaves the client quiescent and returns the reply to its own request *)
Definition own_ok (call : list lop) : Prop :=
  forall re t k s l s' l', quiescent s -> run_ops re t k s l call = Some (s', l') ->
  quiescent s' /\ own_result t k (lo_result l').

Lemma run_ops_snoc : forall re t k ops s l o,
  run_ops re t k s l (ops ++ [o]) =
  match run_ops re t k s l ops with Some (s', l') => exec_op re t k s' l' o | None => None end.
Proof.
  induction ops as [|a r IH]; intros s l o; cbn.
  - destruct (exec_op re t k s l o) as [[s1 l1]|]; reflexivity.
  - destruct (exec_op re t k s l a) as [[s1 l1]|]; auto.
Qed.

Lemma run_ops_cc : forall re t k ops s l, Forall (eq ConnectCheck) ops -> run_ops re t k s l ops = Some (s, l).
Proof. induction ops as [|a r IH]; intros s l H; cbn; auto. inversion H; subst. cbn. auto. Qed.

Lemma block_cons : forall t k o r, block t k (o :: r) = block t k [o] ++ block t k r.
Proof. intros t k o r. destruct o; reflexivity. Qed.

Lemma block_app : forall t k a b, block t k (a ++ b) = block t k a ++ block t k b.
Proof.
  induction a as [|o r IH]; intros b; [reflexivity|].
  change ((o :: r) ++ b) with (o :: (r ++ b)). rewrite block_cons, (block_cons t k o r), IH, app_assoc. reflexivity.
Qed.

Lemma exec_log : forall re t k s l o s' l',
  exec_op re t k s l o = Some (s', l') -> sh_log s' = sh_log s ++ block t k [o].
Proof.
  intros re t k s l o s' l' H. destruct o; cbn in H;
    try (inversion H; subst; cbn; rewrite ?app_nil_r; reflexivity).
  - destruct (lock_acquire re t (sh_lock s)); inversion H; subst. cbn. rewrite app_nil_r. reflexivity.
  - destruct (lock_release t (sh_lock s)); inversion H; subst. cbn. rewrite app_nil_r. reflexivity.
  - destruct (tpop (sh_table s) (lo_tid l)) as [[f tb]|].
    + inversion H; subst. cbn. rewrite app_nil_r. reflexivity.
    + destruct (sh_table s) as [|p q]; [inversion H; subst; cbn; rewrite app_nil_r; reflexivity|].
      destruct (tpop (p :: q) 0) as [[f tb]|]; inversion H; subst; cbn; rewrite app_nil_r; reflexivity.
Qed.

Lemma run_ops_log : forall re t k ops s l s' l',
  run_ops re t k s l ops = Some (s', l') -> sh_log s' = sh_log s ++ block t k ops.
Proof.
  induction ops as [|o r IH]; intros s l s' l' H; cbn in H.
  - inversion H; subst. cbn. rewrite app_nil_r. reflexivity.
  - destruct (exec_op re t k s l o) as [[s1 l1]|] eqn:E; [|discriminate].
    rewrite (IH _ _ _ _ H), (exec_log _ _ _ _ _ _ _ _ E). rewrite (block_cons t k o r), app_assoc. reflexivity.
Qed.

Lemma local_of_with_local : forall th prog o l, local_of (with_local th prog o l) = l.
Proof. intros th prog o l. destruct l; reflexivity. Qed.

Definition centry := (nat * nat * list lop)%type.
Definition cblk (e : centry) : list event := block (fst (fst e)) (snd (fst e)) (snd e).
Definition ctag (e : centry) : nat * nat := fst e.

Definition is_owner (s : shared) (t : nat) : bool :=
  match sh_lock s with Some (o, _) => Nat.eqb o t | None => false end.

Lemma NoDup_snoc' : forall (A : Type) (l : list A) x, NoDup l -> ~ In x l -> NoDup (l ++ [x]).
Proof.
  induction l as [|y l IH]; intros x Hn Hx; cbn.
  - constructor; auto.
  - inversion Hn; subst. constructor.
    + intro Hin. apply in_app_or in Hin. destruct Hin as [|[<-|[]]]; auto. apply Hx. left; auto.
    + apply IH; auto. intro. apply Hx. right; auto.
Qed.

Section WithQ.
Variable Q : list lop -> Prop.
Hypothesis Q_own : forall c, Q c -> own_ok c.
Variable re : bool.

Definition idle (t : nat) (th : thread) : Prop :=
  match th_prog th with
  | [] :: _ => own_result t (th_k th) (th_result th)
  | (_ :: _) :: _ => Forall (eq ConnectCheck) (th_done th)
  | [] => True
  end.

Definition owner_run (s : shared) (closed : list centry) (t : nat) (th : thread) : Prop :=
  exists s0 l0, quiescent s0 /\ sh_log s0 = concat (map cblk closed) /\
                run_ops re t (th_k th) s0 l0 (th_done th) = Some (s, local_of th).

Record tinv (s : shared) (closed : list centry) (t : nat) (th : thread) : Prop := {
  t_calls : match th_prog th with
            | [] => th_done th = []
            | h :: rest => Q (th_done th ++ h) /\ Forall Q rest
            end;
  t_res : Forall (fun kr => own_result t (fst kr) (snd kr)) (th_results th) /\
          map fst (th_results th) = seq 0 (th_k th);
  t_closed : forall k' c, In (t, k', c) closed ->
             k' < th_k th \/ (k' = th_k th /\ exists rest, th_prog th = [] :: rest);
  t_state : if is_owner s t then owner_run s closed t th else idle t th }.

Definition sinv (σ : state) : Prop :=
  exists closed, NoDup (map ctag closed) /\ Forall (fun e => Q (snd e)) closed /\
    (sh_lock (st_sh σ) = None -> quiescent (st_sh σ) /\ sh_log (st_sh σ) = concat (map cblk closed)) /\
    (forall t th, nth_error (st_thr σ) t = Some th -> tinv (st_sh σ) closed t th).

(* an empty call, or one made of connection checks only, cannot be own_ok: it returns whatever
   the locals held; so under Q such a call yields any conclusion about the result *)
Lemma q_cc_result : forall c t k r, Q c -> Forall (eq ConnectCheck) c -> own_result t k r.
Proof.
  intros c t k r Hq Hcc.
  set (l := {| lo_tid := 0%N; lo_resp := []; lo_result := r; lo_inflight := false |}).
  destruct (Q_own c Hq re t k (init_shared 0) l (init_shared 0) l) as [_ H].
  - repeat split.
  - apply run_ops_cc; auto.
  - exact H.
Qed.

Lemma tinv_other : forall s s' closed closed' t th,
  tinv s closed t th -> is_owner s t = false -> is_owner s' t = false ->
  (forall k c, In (t, k, c) closed' -> In (t, k, c) closed) ->
  tinv s' closed' t th.
Proof.
  intros s s' closed closed' t th [H1 H2 H3 H4] Ho Ho' Hc. constructor.
  - exact H1.
  - exact H2.
  - intros k' c Hin. apply (H3 k' c). apply Hc. exact Hin.
  - rewrite Ho'. rewrite Ho in H4. exact H4.
Qed.

Lemma sinv_init : forall tid0 P, Forall (Forall Q) P -> sinv (init tid0 P).
Proof.
  intros tid0 P HP. exists []. split; [constructor|]. split; [constructor|]. split.
  - intros _. split; [repeat split|reflexivity].
  - intros t th H. cbn in H. rewrite nth_error_map in H.
    destruct (nth_error P t) as [p|] eqn:E; cbn in H; [|discriminate]. inversion H; subst.
    assert (Hp : Forall Q p). { rewrite Forall_forall in HP. apply HP. eapply nth_error_In; eauto. }
    constructor; cbn.
    + destruct p as [|h rest]; auto. inversion Hp; auto.
    + split; [constructor|reflexivity].
    + intros k' c [].
    + unfold idle. cbn. destruct p as [|[|o r] rest]; auto.
      inversion Hp; subst. apply (q_cc_result []); auto.
Qed.

(* what an operation of the lock owner does to the lock *)
Lemma owner_step_lock : forall t k d s l o r s' l',
  sh_lock s = Some (t, d) -> closes d (o :: r) = true -> 1 <= d ->
  exec_op re t k s l o = Some (s', l') ->
  (sh_lock s' = None /\ r = []) \/ (exists d', sh_lock s' = Some (t, d')).
Proof.
  intros t k d s l o r s' l' El Hc Hd Ex.
  destruct (is_lock_op o) eqn:Elo.
  - destruct o; cbn in Elo; try discriminate; cbn in Ex; rewrite El in Ex; cbn in Ex.
    + rewrite Nat.eqb_refl in Ex. destruct re; [|discriminate]. inversion Ex; subst. right. eexists. reflexivity.
    + destruct d as [|d0]; [inversion Hd|]. rewrite Nat.eqb_refl in Ex. inversion Ex; subst. cbn.
      destruct d0 as [|d1].
      * left. split; auto. cbn in Hc. destruct r; [reflexivity|discriminate].
      * right. eexists. reflexivity.
  - right. exists d. rewrite (exec_other_lock _ _ _ _ _ _ _ _ Elo Ex). exact El.
Qed.

Lemma not_owner_of_other : forall s t t' d, sh_lock s = Some (t, d) -> t' <> t -> is_owner s t' = false.
Proof.
  intros s t t' d El Hne. unfold is_owner. rewrite El. apply Nat.eqb_neq. congruence.
Qed.

Lemma not_owner_free : forall s t, sh_lock s = None -> is_owner s t = false.
Proof. intros s t El. unfold is_owner. rewrite El. reflexivity. Qed.

Lemma sinv_step : forall σ t σ', inv σ -> sinv σ -> step re σ t = Some σ' -> sinv σ'.
Proof.
  intros σ t σ' [Hth Hlk] (closed & Hnd & Hq & Hfree & Htin) Hs. unfold step in Hs.
  destruct (nth_error (st_thr σ) t) as [th|] eqn:Et; [|discriminate].
  destruct (th_prog th) as [|h rest] eqn:Ep; [discriminate|].
  pose proof (Hth t th Et) as Hok. pose proof (Htin t th Et) as [T1 T2 T3 T4].
  rewrite Ep in T1. destruct T1 as [Tq Trest].
  destruct h as [|o r].
  - (* return *)
    inversion Hs; subst σ'; clear Hs.
    assert (Hno : is_owner (st_sh σ) t = false).
    { unfold is_owner. destruct (sh_lock (st_sh σ)) as [[ow d]|] eqn:El; auto.
      destruct (Nat.eqb ow t) eqn:Eo; auto. exfalso.
      unfold thread_ok in Hok. rewrite Eo in Hok. destruct Hok as (h & rs & Hp & Hc & _).
      rewrite Ep in Hp. inversion Hp; subst h rs.
      destruct (Hlk ow d eq_refl) as [Hd _]. destruct d; [inversion Hd|]. cbn in Hc. discriminate. }
    rewrite Hno in T4. unfold idle in T4. rewrite Ep in T4.
    exists closed. split; auto. split; auto. split; [exact Hfree|].
    intros t' th' H'. cbn [st_thr st_sh] in *.
    destruct (nth_upd_inv _ _ _ _ _ _ _ Et H') as [[-> ->]|[Hne Hold]]; [|apply Htin; auto].
    constructor; cbn [do_return th_prog th_done th_k th_results th_result].
    + destruct rest as [|h2 r2]; auto. inversion Trest; auto.
    + destruct T2 as [Ta Tb]. split.
      * apply Forall_app. split; auto.
      * rewrite map_app, Tb, seq_S. reflexivity.
    + intros k' c Hin. destruct (T3 k' c Hin) as [|[-> _]]; left; lia.
    + rewrite Hno. unfold idle. cbn. destruct rest as [|[|o2 r2] r3]; auto.
      inversion Trest; subst. apply (q_cc_result []); auto.
  - (* an operation *)
    destruct (exec_op re t (th_k th) (st_sh σ) (local_of th) o) as [[s' l']|] eqn:Ex; [|discriminate].
    inversion Hs; subst σ'; clear Hs. unfold sinv. cbn [st_thr st_sh].
    set (th' := with_local th (r :: rest) o l').
    assert (Tq' : Q (th_done th' ++ r)).
    { unfold th'. cbn. rewrite <- app_assoc. exact Tq. }
    assert (T3' : forall k' c, In (t, k', c) closed -> k' < th_k th).
    { intros k' c Hin. destruct (T3 k' c Hin) as [|[_ [rs Hrs]]]; auto. rewrite Ep in Hrs. discriminate. }
    destruct (is_owner (st_sh σ) t) eqn:Eown.
    + (* t owns the lock *)
      unfold is_owner in Eown. destruct (sh_lock (st_sh σ)) as [[ow d]|] eqn:El; [|discriminate].
      apply Nat.eqb_eq in Eown. subst ow.
      destruct (Hlk t d eq_refl) as [Hd _].
      unfold thread_ok in Hok. rewrite Nat.eqb_refl in Hok.
      destruct Hok as (h & rs & Hp & Hc & _). rewrite Ep in Hp. inversion Hp; subst h rs. clear Hp.
      destruct T4 as (s0 & l0 & Hq0 & Hlog0 & Hrun).
      assert (Hrun' : run_ops re t (th_k th) s0 l0 (th_done th ++ [o]) = Some (s', l')).
      { rewrite run_ops_snoc, Hrun. exact Ex. }
      destruct (owner_step_lock _ _ _ _ _ _ _ _ _ El Hc Hd Ex) as [[El' ->]|[d' El']].
      * (* the bracket closes: the call's block joins the closed blocks *)
        destruct (Q_own _ Tq' re t (th_k th) s0 l0 s' l') as [Hq' Hres]; auto.
        { unfold th'. cbn. rewrite app_nil_r. exact Hrun'. }
        exists (closed ++ [(t, th_k th, th_done th ++ [o])]). split; [|split; [|split]].
        -- rewrite map_app. cbn. apply NoDup_snoc'; auto.
           intro Hin. apply in_map_iff in Hin. destruct Hin as ([[t1 k1] c1] & Htag & Hin).
           unfold ctag in Htag. cbn in Htag. inversion Htag; subst. pose proof (T3' _ _ Hin). lia.
        -- apply Forall_app. split; [exact Hq|]. apply Forall_cons; [|apply Forall_nil]. cbn.
           unfold th' in Tq'. cbn in Tq'. rewrite app_nil_r in Tq'. exact Tq'.
        -- intros _. split; auto. rewrite map_app, concat_app. cbn. rewrite app_nil_r.
           rewrite (run_ops_log _ _ _ _ _ _ _ _ Hrun'), Hlog0. reflexivity.
        -- intros t' th2 H'. destruct (nth_upd_inv _ _ _ _ _ _ _ Et H') as [[-> ->]|[Hne Hold]].
           ++ constructor.
              ** unfold th'. cbn. unfold th' in Tq'. cbn in Tq'. auto.
              ** exact T2.
              ** intros k' c Hin. apply in_app_or in Hin. destruct Hin as [Hin|[Heq|[]]].
                 --- left. eapply T3'; eauto.
                 --- inversion Heq; subst. right. split; auto. exists rest. reflexivity.
              ** rewrite (not_owner_free _ _ El'). unfold idle, th'. cbn. exact Hres.
           ++ apply (tinv_other (st_sh σ) _ closed); auto.
              ** apply (not_owner_of_other _ t _ d); auto.
              ** apply not_owner_free; auto.
              ** intros k c Hin. apply in_app_or in Hin. destruct Hin as [|[Heq|[]]]; auto.
                 inversion Heq; subst. congruence.
      * (* still inside the bracket *)
        exists closed. split; auto. split; auto. split; [intro Hx; rewrite El' in Hx; discriminate|].
        intros t' th2 H'. destruct (nth_upd_inv _ _ _ _ _ _ _ Et H') as [[-> ->]|[Hne Hold]].
        -- constructor.
           ++ unfold th'. cbn. unfold th' in Tq'. cbn in Tq'. auto.
           ++ exact T2.
           ++ intros k' c Hin. left. eapply T3'; eauto.
           ++ unfold is_owner. rewrite El', Nat.eqb_refl. exists s0, l0. split; auto. split; auto.
              unfold th'. cbn [with_local th_done th_k]. rewrite local_of_with_local. exact Hrun'.
        -- apply (tinv_other (st_sh σ) _ closed); auto.
           ++ apply (not_owner_of_other _ t _ d); auto.
           ++ apply (not_owner_of_other _ t _ d'); auto.
    + (* t does not own the lock: a connection check, or the acquisition of the free lock *)
      assert (Hw : well_bracketed (o :: r) = true).
      { unfold thread_ok in Hok. unfold is_owner in Eown.
        destruct (sh_lock (st_sh σ)) as [[ow d]|]; [rewrite Eown in Hok|];
          destruct Hok as [Hw _]; rewrite Ep in Hw; inversion Hw; auto. }
      unfold idle in T4. rewrite Ep in T4.
      destruct (wb_step_shape _ _ Hw) as [[-> Hr]|[-> Hr]].
      * cbn in Ex. inversion Ex; subst s' l'.
        exists closed. split; auto. split; auto. split; [exact Hfree|].
        intros t' th2 H'. destruct (nth_upd_inv _ _ _ _ _ _ _ Et H') as [[-> ->]|[Hne Hold]]; [|apply Htin; auto].
        assert (Hcc : Forall (eq ConnectCheck) (th_done th ++ [ConnectCheck])).
        { apply Forall_app. split; auto. }
        constructor.
        -- unfold th'. cbn. unfold th' in Tq'. cbn in Tq'. auto.
        -- exact T2.
        -- intros k' c Hin. left. eapply T3'; eauto.
        -- rewrite Eown. unfold idle, th'. cbn. destruct r as [|o2 r2]; auto.
           unfold th' in Tq'. cbn in Tq'. rewrite app_nil_r in Tq'.
           apply (q_cc_result _ t (th_k th) (th_result th)) in Tq'; auto.
      * cbn in Ex. destruct (sh_lock (st_sh σ)) as [[ow d]|] eqn:El.
        { cbn in Ex. unfold is_owner in Eown. rewrite El in Eown. rewrite Eown in Ex. discriminate. }
        cbn in Ex. inversion Ex; subst s' l'. destruct (Hfree eq_refl) as [Hq0 Hlog0].
        exists closed. split; auto. split; auto. split; [intro Hx; cbn in Hx; discriminate|].
        intros t' th2 H'. destruct (nth_upd_inv _ _ _ _ _ _ _ Et H') as [[-> ->]|[Hne Hold]].
        -- constructor.
           ++ unfold th'. cbn. unfold th' in Tq'. cbn in Tq'. auto.
           ++ exact T2.
           ++ intros k' c Hin. left. eapply T3'; eauto.
           ++ unfold is_owner. cbn. rewrite Nat.eqb_refl.
              exists (st_sh σ), (local_of th). split; auto. split; auto.
              unfold th'. cbn [with_local th_done th_k]. rewrite local_of_with_local.
              rewrite run_ops_snoc, run_ops_cc by auto. cbn. rewrite El. reflexivity.
        -- apply (tinv_other (st_sh σ) _ closed); auto.
           ++ apply not_owner_free; auto.
           ++ unfold is_owner. cbn. apply Nat.eqb_neq. congruence.
Qed.

Lemma sinv_reachable : forall σ0 σ, inv σ0 -> sinv σ0 -> reachable re σ0 σ -> sinv σ.
Proof.
  intros σ0 σ Hi Hs Hr. induction Hr; auto. apply (sinv_step σ t σ'); auto. apply (inv_reachable re σ0); auto.
Qed.

End WithQ.

(* ---- theorems for arbitrary programs and every schedule ------------------------------------ *)

(* every call of the program: one bracket, and own_ok *)
Definition good_program (P : list (list (list lop))) : Prop :=
  Forall (Forall (fun c => well_bracketed c = true /\ own_ok c)) P.

Definition QP (P : list (list (list lop))) (c : list lop) : Prop :=
  own_ok c /\ exists calls, In calls P /\ In c calls.

Lemma good_program_sinv : forall re tid0 P σ, good_program P -> reachable re (init tid0 P) σ ->
  inv σ /\ sinv (QP P) re σ.
Proof.
  intros re tid0 P σ HP Hr.
  assert (Hwb : wb_program P).
  { unfold wb_program, progs_wb. rewrite Forall_forall. intros p Hp. rewrite Forall_forall. intros c Hc.
    unfold good_program in HP. rewrite Forall_forall in HP. pose proof (HP p Hp) as H. rewrite Forall_forall in H.
    apply H; auto. }
  assert (Hq : Forall (Forall (QP P)) P).
  { rewrite Forall_forall. intros p Hp. rewrite Forall_forall. intros c Hc. split.
    - unfold good_program in HP. rewrite Forall_forall in HP. pose proof (HP p Hp) as H. rewrite Forall_forall in H.
      apply H; auto.
    - exists p. auto. }
  split.
  - eapply inv_reachable; eauto. apply inv_init; auto.
  - apply (sinv_reachable (QP P) (fun c H => proj1 H) re (init tid0 P)); auto.
    + apply inv_init; auto.
    + apply sinv_init; auto. intros c H. exact (proj1 H).
Qed.

(* every value returned by every call of every thread is the reply to that call's own request,
   and the calls of a thread have returned in order, one value each *)
Theorem own_reply_all_schedules : forall re tid0 P σ t th,
  good_program P -> reachable re (init tid0 P) σ -> nth_error (st_thr σ) t = Some th ->
  map fst (th_results th) = seq 0 (th_k th) /\
  forall k r, In (k, r) (th_results th) -> own_result t k r.
Proof.
  intros re tid0 P σ t th HP Hr Ht. destruct (good_program_sinv re tid0 P σ HP Hr) as [_ (closed & _ & _ & _ & Htin)].
  destruct (Htin t th Ht) as [_ [Ha Hb] _ _]. split; auto.
  intros k r Hin. rewrite Forall_forall in Ha. exact (Ha (k, r) Hin).
Qed.

(* whenever the lock is free, nothing is in flight: no unread reply, empty table, empty buffer *)
Theorem quiescent_when_free : forall re tid0 P σ,
  good_program P -> reachable re (init tid0 P) σ -> sh_lock (st_sh σ) = None -> quiescent (st_sh σ).
Proof.
  intros re tid0 P σ HP Hr El. destruct (good_program_sinv re tid0 P σ HP Hr) as [_ (closed & _ & _ & Hfree & _)].
  apply Hfree; auto.
Qed.

(* the transport log is a concatenation of WHOLE blocks, one per finished bracket, each the
   complete transport projection of one call of the program, no two for the same call; followed
   only by the block-so-far of the thread that holds the lock *)
Theorem contiguous_all_schedules : forall re tid0 P σ,
  good_program P -> reachable re (init tid0 P) σ ->
  exists closed cur,
    sh_log (st_sh σ) = concat (map cblk closed) ++ cur /\
    NoDup (map ctag closed) /\
    Forall (fun e => exists calls, In calls P /\ In (snd e) calls) closed /\
    match sh_lock (st_sh σ) with
    | None => cur = []
    | Some (o, _) => exists th, nth_error (st_thr σ) o = Some th /\
                     cur = block o (th_k th) (th_done th) /\ ~ In (o, th_k th) (map ctag closed)
    end.
Proof.
  intros re tid0 P σ HP Hr. destruct (good_program_sinv re tid0 P σ HP Hr) as [[Hth Hlk] (closed & Hnd & Hq & Hfree & Htin)].
  exists closed.
  assert (Hq' : Forall (fun e => exists calls, In calls P /\ In (snd e) calls) closed).
  { rewrite Forall_forall in *. intros e He. exact (proj2 (Hq e He)). }
  destruct (sh_lock (st_sh σ)) as [[o d]|] eqn:El.
  - destruct (Hlk o d eq_refl) as [Hd Hn]. destruct (nth_error (st_thr σ) o) as [th|] eqn:Eo; [|congruence].
    destruct (Htin o th Eo) as [_ _ T3 T4]. unfold is_owner in T4. rewrite El, Nat.eqb_refl in T4.
    destruct T4 as (s0 & l0 & _ & Hlog0 & Hrun).
    exists (block o (th_k th) (th_done th)). split; [|split; [|split]]; auto.
    + rewrite (run_ops_log _ _ _ _ _ _ _ _ Hrun), Hlog0. reflexivity.
    + exists th. split; auto. split; auto. intro Hin. apply in_map_iff in Hin.
      destruct Hin as ([[t1 k1] c1] & Htag & Hin). unfold ctag in Htag. cbn in Htag. inversion Htag; subst.
      destruct (T3 _ _ Hin) as [Hlt|[_ [rs Hrs]]]; [lia|].
      pose proof (Hth o th Eo) as Hok. unfold thread_ok in Hok. rewrite Nat.eqb_refl in Hok.
      destruct Hok as (h & rs' & Hp & Hc & _). rewrite Hrs in Hp. inversion Hp; subst.
      destruct d; [inversion Hd|]. cbn in Hc. discriminate.
  - exists []. destruct (Hfree eq_refl) as [_ Hlog]. rewrite app_nil_r. auto.
Qed.

(* without the single bracket the conclusion fails: with the reply picked up under a SECOND
   acquisition two threads get each other's replies *)
Lemma split_bracket_swaps_replies :
  let bad := [Acquire; TidAlloc; Connect; Send; Release; Acquire; Recv; Process; Pickup; Release] in
  let σ := run true [0;0;0;0;0; 1;1;1;1;1;1;1;1;1;1;1; 0;0;0;0;0;0] (init 0 [[bad]; [bad]]) in
  well_bracketed bad = false /\
  map th_results (st_thr σ) =
    [[(0, Some {| f_tid := 2; f_thr := 1; f_k := 0 |})];
     [(0, Some {| f_tid := 1; f_thr := 0; f_k := 0 |})]].
Proof. vm_compute. split; reflexivity. Qed.
