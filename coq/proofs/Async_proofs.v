(* Async_proofs.v — proofs about theories/AsyncClient.v (C16): invariants by induction over
   arbitrary operation lists, for any [async_code] that has what the unmodified source has
   ([good_code]); Props/C16.v instantiates them with Generated/GenAsync.code. *)
From PM.theories Require Import Base AsyncClient.
From Coq Require Import Permutation.
Open Scope list_scope.
Open Scope N_scope.

(* ---- the two table implementations ---------------------------------------------------------- *)

Lemma NoDup_snoc : forall (A : Type) (l : list A) x, NoDup l -> ~ In x l -> NoDup (l ++ [x]).
Proof.
  intros A l x Hn Hx. apply (@Permutation_NoDup A (x :: l)); [apply Permutation_cons_append|constructor; auto].
Qed.

Lemma perm_exec : forall (l p p' f ol : list N) d iss,
  Permutation (p' ++ ol) (d :: p) -> Permutation (l ++ p ++ f) iss ->
  Permutation ((l ++ ol) ++ p' ++ f) (iss ++ [d]).
Proof.
  intros l p p' f ol d iss H1 H2.
  rewrite <- Permutation_cons_append. rewrite <- H2. rewrite <- app_assoc.
  rewrite (Permutation_middle l (p ++ f) d). apply Permutation_app_head.
  rewrite app_assoc. change (d :: p ++ f) with ((d :: p) ++ f). apply Permutation_app_tail.
  rewrite <- H1. apply Permutation_app_comm.
Qed.

Definition olist (o : option N) : list N := match o with Some x => [x] | None => [] end.

Lemma dset_perm : forall p k d p' o, dset p k d = (p', o) ->
  Permutation (map snd p' ++ olist o) (d :: map snd p).
Proof.
  induction p as [|[k' d'] r IH]; intros k d p' o H; cbn in H.
  - inversion H; subst. cbn. apply Permutation_refl.
  - destruct (N.eqb k' k).
    + inversion H; subst. cbn. rewrite <- Permutation_cons_append. apply Permutation_refl.
    + destruct (dset r k d) as [r' o'] eqn:E. inversion H; subst. cbn.
      rewrite (IH _ _ _ _ E). apply perm_swap.
Qed.

Lemma dpop_perm : forall p k d p', dpop p k = Some (d, p') ->
  Permutation (d :: map snd p') (map snd p).
Proof.
  induction p as [|[k' d'] r IH]; intros k d p' H; cbn in H; [discriminate|].
  destruct (N.eqb k' k).
  - inversion H; subst. apply Permutation_refl.
  - destruct (dpop r k) as [[x r']|] eqn:E; [|discriminate]. inversion H; subst. cbn.
    rewrite perm_swap. rewrite (IH _ _ _ E). apply Permutation_refl.
Qed.

Lemma add_tx_perm : forall v p k d p' o, add_tx v p k d = (p', o) ->
  Permutation (map snd p' ++ olist o) (d :: map snd p).
Proof.
  intros [|] p k d p' o H; cbn in H.
  - eapply dset_perm; eauto.
  - inversion H; subst. cbn. rewrite app_nil_r, map_app. cbn.
    rewrite <- Permutation_cons_append. apply Permutation_refl.
Qed.

Lemma get_tx_perm : forall v p k d p', get_tx v p k = Some (d, p') ->
  Permutation (d :: map snd p') (map snd p).
Proof.
  intros [|] p k d p' H; cbn in H.
  - eapply dpop_perm; eauto.
  - destruct p as [|[k' d'] r]; [discriminate|]. inversion H; subst. apply Permutation_refl.
Qed.

Lemma dset_in : forall p k d p' o x, dset p k d = (p', o) -> In x p' -> x = (k, d) \/ In x p.
Proof.
  induction p as [|[k' d'] r IH]; intros k d p' o x H Hin; cbn in H.
  - inversion H; subst. destruct Hin as [<-|[]]; auto.
  - destruct (N.eqb k' k).
    + inversion H; subst. destruct Hin as [<-|Hin]; auto. right; right; auto.
    + destruct (dset r k d) as [r' o'] eqn:E. inversion H; subst. destruct Hin as [<-|Hin].
      * right; left; auto.
      * destruct (IH _ _ _ _ _ E Hin); auto. right; right; auto.
Qed.

Lemma add_tx_in : forall v p k d p' o x, add_tx v p k d = (p', o) -> In x p' -> x = (k, d) \/ In x p.
Proof.
  intros [|] p k d p' o x H Hin; cbn in H.
  - eapply dset_in; eauto.
  - inversion H; subst. apply in_app_or in Hin. destruct Hin as [|[<-|[]]]; auto.
Qed.

Lemma dpop_in : forall p k d p', dpop p k = Some (d, p') -> In (k, d) p /\ forall x, In x p' -> In x p.
Proof.
  induction p as [|[k' d'] r IH]; intros k d p' H; cbn in H; [discriminate|].
  destruct (N.eqb k' k) eqn:Ek.
  - apply N.eqb_eq in Ek. inversion H; subst. split; [left; auto|intros; right; auto].
  - destruct (dpop r k) as [[x r']|] eqn:E; [|discriminate]. inversion H; subst.
    destruct (IH _ _ _ E) as [H1 H2]. split; [right; auto|].
    intros y [<-|Hy]; [left; auto|right; auto].
Qed.

Lemma get_tx_sub : forall v p k d p', get_tx v p k = Some (d, p') ->
  (exists k', In (k', d) p) /\ forall x, In x p' -> In x p.
Proof.
  intros [|] p k d p' H; cbn in H.
  - destruct (dpop_in _ _ _ _ H) as [H1 H2]. split; eauto.
  - destruct p as [|[k' d'] r]; [discriminate|]. inversion H; subst.
    split; [exists k'; left; auto|intros; right; auto].
Qed.

Lemma dset_fresh : forall p k d, (forall x, In x p -> fst x <> k) -> dset p k d = (p ++ [(k, d)], None).
Proof.
  induction p as [|[k' d'] r IH]; intros k d H; cbn; auto.
  destruct (N.eqb k' k) eqn:Ek.
  - apply N.eqb_eq in Ek. exfalso. apply (H (k', d')); [left; auto|auto].
  - rewrite IH; auto. intros x Hx. apply H. right; auto.
Qed.

Lemma dset_keys : forall p k d p' o, dset p k d = (p', o) -> NoDup (map fst p) -> NoDup (map fst p').
Proof.
  induction p as [|[k' d'] r IH]; intros k d p' o H Hn; cbn in H.
  - inversion H; subst. cbn. constructor; [intros []|constructor].
  - destruct (N.eqb k' k) eqn:Ek.
    + apply N.eqb_eq in Ek. inversion H; subst. exact Hn.
    + destruct (dset r k d) as [r' o'] eqn:E. inversion H; subst. cbn in *.
      inversion Hn as [|? ? Hnot Hr]; subst. constructor; [|eapply IH; eauto].
      intro Hin. apply in_map_iff in Hin. destruct Hin as ([k2 d2] & Hk & Hin). cbn in Hk. subst k2.
      destruct (dset_in _ _ _ _ _ _ E Hin) as [Heq|Hold].
      * inversion Heq; subst. apply N.eqb_neq in Ek. congruence.
      * apply Hnot. apply in_map_iff. exists (k', d2). auto.
Qed.

Lemma dpop_keys : forall p k d p', dpop p k = Some (d, p') -> NoDup (map fst p) ->
  NoDup (map fst p') /\ ~ In k (map fst p').
Proof.
  induction p as [|[k' d'] r IH]; intros k d p' H Hn; cbn in H; [discriminate|].
  cbn in Hn. inversion Hn as [|? ? Hnot Hr]; subst.
  destruct (N.eqb k' k) eqn:Ek.
  - apply N.eqb_eq in Ek. inversion H; subst. auto.
  - destruct (dpop r k) as [[x r']|] eqn:E; [|discriminate]. inversion H; subst.
    destruct (IH _ _ _ E Hr) as [H1 H2]. destruct (dpop_in _ _ _ _ E) as [_ Hsub]. cbn. split.
    + constructor; auto. intro Hin. apply in_map_iff in Hin. destruct Hin as ([k2 d2] & Hk & Hin).
      cbn in Hk; subst k2. apply Hnot. apply in_map_iff. exists (k', d2). split; auto.
    + intros [Heq|Hin]; [apply N.eqb_neq in Ek; congruence|auto].
Qed.

Lemma dpop_none : forall p k, ~ In k (map fst p) -> dpop p k = None.
Proof.
  induction p as [|[k' d'] r IH]; intros k H; cbn; auto.
  destruct (N.eqb k' k) eqn:Ek.
  - apply N.eqb_eq in Ek. exfalso. apply H. left; auto.
  - rewrite IH; auto. intro Hin. apply H. right; auto.
Qed.

(* ---- arithmetic of the counter ---------------------------------------------------------------- *)

Lemma land_ffff : forall x, N.land x 65535 = x mod 65536.
Proof. intro x. change 65535 with (N.ones 16). rewrite N.land_ones. reflexivity. Qed.

Lemma mod_succ : forall i a, ((i + a) mod 65536 + 1) mod 65536 = (i + (a + 1)) mod 65536.
Proof.
  intros i a. rewrite N.add_mod_idemp_l by discriminate. f_equal. lia.
Qed.

Lemma tid_distinct : forall i d1 d2, d1 <> d2 -> d1 < d2 + 65536 -> d2 < d1 + 65536 ->
  (i + d1) mod 65536 <> (i + d2) mod 65536.
Proof.
  intros i d1 d2 Hne H1 H2 Heq.
  pose proof (N.div_mod (i + d1) 65536 ltac:(discriminate)) as E1.
  pose proof (N.div_mod (i + d2) 65536 ltac:(discriminate)) as E2.
  pose proof (N.mod_lt (i + d1) 65536 ltac:(discriminate)).
  pose proof (N.mod_lt (i + d2) 65536 ltac:(discriminate)).
  rewrite Heq in E1. nia.
Qed.

Section WithGood.
Variable C : async_code.
Hypothesis HC : good_code C.

Lemma next_tid_eq : forall x, next_tid C x = (x + 1) mod 65536.
Proof.
  intro x. unfold next_tid. destruct HC as (Hi & Hm & _). rewrite Hi, Hm. apply land_ffff.
Qed.

Lemma iter_tid : forall n i a, N.iter n (next_tid C) ((i + a) mod 65536) = (i + (a + n)) mod 65536.
Proof.
  intros n i a. induction n as [|n IH] using N.peano_ind.
  - cbn. f_equal. lia.
  - rewrite N.iter_succ, IH, next_tid_eq, mod_succ. f_equal. lia.
Qed.

(* ---- the main invariant ------------------------------------------------------------------------- *)

Definition Lst (σ : astate) : list N := a_lost σ ++ map snd (a_pending σ) ++ map fst (a_fired σ).

Record ainv (σ : astate) : Prop := {
  i_perm : Permutation (Lst σ) (issued σ);
  i_nodup : NoDup (issued σ);
  i_range : forall d t, In (d, t) (a_sent σ) ->
            1 <= d <= a_alloc σ /\ t = (ac_tid_init C + d) mod 65536;
  i_tid : a_tid σ = (ac_tid_init C + a_alloc σ) mod 65536;
  i_pend : forall k d, In (k, d) (a_pending σ) -> In (d, k) (a_sent σ) }.

(* the invariant only looks at these six fields *)
Lemma ainv_ext : forall σ σ',
  a_tid σ' = a_tid σ -> a_alloc σ' = a_alloc σ -> a_pending σ' = a_pending σ -> a_fired σ' = a_fired σ ->
  a_sent σ' = a_sent σ -> a_lost σ' = a_lost σ -> ainv σ -> ainv σ'.
Proof.
  intros σ σ' H1 H2 H3 H4 H5 H6 [I1 I2 I3 I4 I5].
  constructor; unfold Lst, issued in *; rewrite ?H1, ?H2, ?H3, ?H4, ?H5, ?H6; auto.
Qed.

Lemma ainv_init : ainv (init_state C).
Proof.
  destruct HC as (_ & _ & Hlt & _).
  constructor; cbn.
  - constructor.
  - constructor.
  - intros d t [].
  - rewrite N.add_0_r. symmetry. apply N.mod_small. exact Hlt.
  - intros k d [].
Qed.

Lemma issued_fresh : forall σ, ainv σ -> ~ In (a_alloc σ + 1) (issued σ).
Proof.
  intros σ I Hin. unfold issued in Hin. apply in_map_iff in Hin. destruct Hin as ([d t] & Hd & Hin).
  cbn in Hd. subst d. destruct (i_range σ I _ _ Hin). lia.
Qed.

Lemma sent_range_snoc : forall σ, ainv σ ->
  forall d0 t0, In (d0, t0) (a_sent σ ++ [(a_alloc σ + 1, (ac_tid_init C + (a_alloc σ + 1)) mod 65536)]) ->
  1 <= d0 <= a_alloc σ + 1 /\ t0 = (ac_tid_init C + d0) mod 65536.
Proof.
  intros σ I d0 t0 Hin. apply in_app_or in Hin. destruct Hin as [Hin|[Heq|[]]].
  - destruct (i_range σ I _ _ Hin). split; auto; lia.
  - inversion Heq; subst. split; auto; lia.
Qed.

Lemma ainv_issue_failed : forall σ, ainv σ -> ainv (issue_failed C σ).
Proof.
  intros σ I. pose proof (issued_fresh σ I) as Hfresh. unfold issue_failed.
  rewrite next_tid_eq, (i_tid σ I), mod_succ.
  constructor; cbn.
  - unfold Lst, issued. cbn. rewrite !map_app. cbn. rewrite !app_assoc.
    apply Permutation_app_tail. rewrite <- !app_assoc. exact (i_perm σ I).
  - unfold issued. cbn. rewrite map_app. apply NoDup_snoc; [apply (i_nodup σ I)|exact Hfresh].
  - apply sent_range_snoc; auto.
  - reflexivity.
  - intros k d0 Hin. apply in_or_app. left. apply (i_pend σ I); auto.
Qed.

Lemma ainv_issue_pending : forall v σ, ainv σ -> ainv (issue_pending C v σ).
Proof.
  intros v σ I. pose proof (issued_fresh σ I) as Hfresh. unfold issue_pending.
  rewrite next_tid_eq, (i_tid σ I), mod_succ.
  set (d := a_alloc σ + 1). set (t := (ac_tid_init C + d) mod 65536).
  destruct (add_tx v (a_pending σ) t d) as [p' o] eqn:Ea. constructor; cbn.
  - unfold Lst, issued. cbn. rewrite map_app. cbn.
    replace (match o with Some x => a_lost σ ++ [x] | None => a_lost σ end) with (a_lost σ ++ olist o)
      by (destruct o; cbn; auto using app_nil_r).
    apply perm_exec with (p := map snd (a_pending σ)).
    + eapply add_tx_perm; eauto.
    + exact (i_perm σ I).
  - unfold issued. cbn. rewrite map_app. apply NoDup_snoc; [apply (i_nodup σ I)|exact Hfresh].
  - apply sent_range_snoc; auto.
  - reflexivity.
  - intros k d0 Hin. apply in_or_app. destruct (add_tx_in _ _ _ _ _ _ _ Ea Hin) as [Heq|Hold].
    + inversion Heq; subst. right. left. reflexivity.
    + left. apply (i_pend σ I); auto.
Qed.

Lemma ainv_execute : forall v σ, ainv σ -> ainv (do_execute C v σ).
Proof.
  intros v σ I. unfold do_execute. destruct (guard_fails C σ); [apply ainv_issue_failed|apply ainv_issue_pending]; auto.
Qed.

Lemma ainv_react : forall v σ d o, ainv σ -> ainv (react C v σ d o).
Proof.
  intros v σ d o I. unfold react.
  destruct (match o with OErr _ => memN d (a_rerr σ) | OCb _ _ => memN d (a_rcb σ) end); auto using ainv_execute.
Qed.

Lemma ainv_move_fired : forall v σ k d p' o, ainv σ -> get_tx v (a_pending σ) k = Some (d, p') ->
  ainv (move_fired σ p' d o).
Proof.
  intros v σ k d p' o I E. destruct (get_tx_sub _ _ _ _ _ E) as [_ Hs].
  constructor; cbn; auto using (i_nodup σ I), (i_range σ I), (i_tid σ I).
  - unfold Lst, issued. cbn. rewrite <- (i_perm σ I). unfold Lst. apply Permutation_app_head.
    rewrite map_app. cbn. rewrite <- (get_tx_perm _ _ _ _ _ E).
    rewrite app_assoc. rewrite <- Permutation_cons_append. cbn. apply Permutation_refl.
  - intros k0 d0 Hin. apply (i_pend σ I). apply Hs. exact Hin.
Qed.

Lemma ainv_handle : forall v σ tid rid, ainv σ -> ainv (handle C v σ tid rid).
Proof.
  intros v σ tid rid I. unfold handle.
  destruct (get_tx v (a_pending σ) _) as [[d p']|] eqn:E; auto.
  apply ainv_react. eapply ainv_move_fired; eauto.
Qed.

Lemma ainv_seg_loop : forall v u0 frames σ, ainv σ -> ainv (seg_loop C v u0 frames σ).
Proof.
  induction frames as [|[[u tid] rid] r IH]; intros σ I; cbn; auto.
  apply IH. destruct (unit_ok C u0 u); auto using ainv_handle.
Qed.

Lemma ainv_lost_loop : forall v keys σ, ainv σ -> ainv (lost_loop C v keys σ).
Proof.
  induction keys as [|k r IH]; intros σ I; cbn; auto.
  destruct (get_tx v (a_pending σ) k) as [[d p']|] eqn:E; auto.
  apply IH. apply ainv_react. eapply ainv_move_fired; eauto.
Qed.

Lemma ainv_set_conn : forall σ b, ainv σ -> ainv (set_conn σ b).
Proof. intros σ b I. apply (ainv_ext σ); auto. Qed.

Lemma ainv_register : forall σ d re rc, ainv σ -> ainv (register σ d re rc).
Proof. intros σ d re rc I. apply (ainv_ext σ); auto. Qed.

Lemma ainv_execute_k : forall v σ re rc, ainv σ -> ainv (do_execute_k C v σ re rc).
Proof.
  intros v σ re rc I. unfold do_execute_k.
  pose proof (ainv_register σ (a_alloc σ + 1) re rc I) as I1.
  destruct (guard_fails C (register σ (a_alloc σ + 1) re rc)).
  - apply ainv_react. apply ainv_issue_failed. exact I1.
  - apply ainv_issue_pending. exact I1.
Qed.

Lemma ainv_step : forall v σ o, ainv σ -> ainv (astep C v σ o).
Proof.
  intros v σ o I. destruct o as [| | |frames| | | |n]; cbn [astep].
  - apply ainv_execute; auto.
  - apply ainv_execute_k; auto.
  - apply ainv_execute_k; auto.
  - unfold do_segment. apply ainv_seg_loop; auto.
  - unfold do_lost.
    assert (I0 : ainv (if ac_lost_clears C && ac_lost_clear_first C then set_conn σ false else σ))
      by (destruct (ac_lost_clears C && ac_lost_clear_first C); auto using ainv_set_conn).
    set (σ0 := if ac_lost_clears C && ac_lost_clear_first C then set_conn σ false else σ) in *.
    assert (I1 : ainv (if ac_lost_loop C then lost_loop C v (map fst (a_pending σ0)) σ0 else σ0))
      by (destruct (ac_lost_loop C); auto using ainv_lost_loop).
    destruct (ac_lost_clears C && negb (ac_lost_clear_first C)); auto using ainv_set_conn.
  - unfold do_made. destruct (ac_made_connected C); auto using ainv_set_conn.
  - unfold do_close. destruct (ac_close_clears C); auto using ainv_set_conn.
  - unfold do_skip. constructor; cbn; auto using (i_perm σ I), (i_nodup σ I), (i_pend σ I).
    + intros d t Hin. destruct (i_range σ I _ _ Hin). split; auto; lia.
    + rewrite (i_tid σ I). apply iter_tid.
Qed.

Lemma ainv_run : forall v ops σ, ainv σ -> ainv (arun C v ops σ).
Proof.
  induction ops as [|o r IH]; intros σ I; cbn; auto. apply IH. apply ainv_step; auto.
Qed.

(* ---- consequences ------------------------------------------------------------------------------ *)

(* every deferred ever returned is in exactly one place, once: displaced, pending, or fired *)
Theorem partition_all_histories : forall v ops,
  let σ := arun C v ops (init_state C) in
  Permutation (a_lost σ ++ pending_dids σ ++ fired_dids σ) (issued σ) /\ NoDup (issued σ).
Proof.
  intros v ops σ. pose proof (ainv_run v ops _ ainv_init) as I. split; [apply (i_perm _ I)|apply (i_nodup _ I)].
Qed.

Lemma NoDup_app_r : forall (A : Type) (l1 l2 : list A), NoDup (l1 ++ l2) -> NoDup l2.
Proof. induction l1; cbn; intros l2 H; auto. inversion H; auto. Qed.

Theorem once_all_histories : forall v ops, NoDup (fired_dids (arun C v ops (init_state C))).
Proof.
  intros v ops. destruct (partition_all_histories v ops) as [Hp Hn].
  apply (Permutation_NoDup (Permutation_sym Hp)) in Hn.
  apply NoDup_app_r in Hn. apply NoDup_app_r in Hn. exact Hn.
Qed.

(* when nothing is pending and nothing was displaced, everything issued has fired exactly once *)
Theorem exactly_once_when_drained : forall v ops,
  let σ := arun C v ops (init_state C) in
  a_pending σ = [] -> a_lost σ = [] -> Permutation (fired_dids σ) (issued σ) /\ NoDup (fired_dids σ).
Proof.
  intros v ops σ Hp Hl. destruct (partition_all_histories v ops) as [Hperm Hn]. fold σ in Hperm.
  unfold pending_dids in Hperm. rewrite Hp, Hl in Hperm. cbn in Hperm. split; auto.
  apply once_all_histories.
Qed.

(* tids on the wire: the d-th allocation carries (init + d) mod 65536 *)
Theorem sent_tid_formula : forall v ops d t,
  In (d, t) (a_sent (arun C v ops (init_state C))) -> t = (ac_tid_init C + d) mod 65536 /\ t < 65536.
Proof.
  intros v ops d t Hin. pose proof (ainv_run v ops _ ainv_init) as I.
  destruct (i_range _ I _ _ Hin) as [_ ->]. split; auto. apply N.mod_lt. discriminate.
Qed.

(* outstanding requests carry pairwise distinct tids while fewer than 65536 tids have been handed
   out since the oldest of them *)
Theorem distinct_in_window : forall v ops d1 d2 t1 t2,
  let σ := arun C v ops (init_state C) in
  (forall d, In d (outstanding σ) -> a_alloc σ - d < 65536) ->
  In d1 (outstanding σ) -> In d2 (outstanding σ) -> d1 <> d2 ->
  In (d1, t1) (a_sent σ) -> In (d2, t2) (a_sent σ) -> t1 <> t2.
Proof.
  intros v ops d1 d2 t1 t2 σ Hw H1 H2 Hne S1 S2.
  pose proof (ainv_run v ops _ ainv_init) as I. fold σ in I.
  destruct (i_range σ I _ _ S1) as [R1 ->]. destruct (i_range σ I _ _ S2) as [R2 ->].
  pose proof (Hw _ H1). pose proof (Hw _ H2).
  apply tid_distinct; auto; lia.
Qed.

(* ---- plain histories: nobody re-enters the protocol ------------------------------------------------ *)

Definition noreact (σ : astate) : Prop := a_rerr σ = [] /\ a_rcb σ = [].

Lemma react_noreact : forall v σ d o, noreact σ -> react C v σ d o = σ.
Proof. intros v σ d o [H1 H2]. unfold react. rewrite H1, H2. destruct o; reflexivity. Qed.

Lemma noreact_move : forall σ p d o, noreact σ -> noreact (move_fired σ p d o).
Proof. intros σ p d o H. exact H. Qed.

Lemma noreact_execute : forall v σ, noreact σ -> noreact (do_execute C v σ).
Proof.
  intros v σ H. unfold do_execute, issue_failed, issue_pending. destruct (guard_fails C σ); [exact H|].
  destruct (add_tx v (a_pending σ) _ _); exact H.
Qed.

Lemma noreact_handle : forall v σ tid rid, noreact σ -> noreact (handle C v σ tid rid).
Proof.
  intros v σ tid rid H. unfold handle. destruct (get_tx v (a_pending σ) _) as [[d p']|]; auto.
  rewrite react_noreact; auto.
Qed.

Lemma noreact_seg : forall v u0 frames σ, noreact σ -> noreact (seg_loop C v u0 frames σ).
Proof.
  induction frames as [|[[u tid] rid] r IH]; intros σ H; cbn; auto.
  apply IH. destruct (unit_ok C u0 u); auto using noreact_handle.
Qed.

Lemma noreact_lost_loop : forall v keys σ, noreact σ -> noreact (lost_loop C v keys σ).
Proof.
  induction keys as [|k r IH]; intros σ H; cbn; auto.
  destruct (get_tx v (a_pending σ) k) as [[d p']|]; auto. apply IH. rewrite react_noreact; auto.
Qed.

Lemma noreact_step : forall v σ o, noreact σ ->
  match o with ExecuteE | ExecuteC => False | _ => True end -> noreact (astep C v σ o).
Proof.
  intros v σ o H Ho. destruct o; try contradiction; cbn [astep].
  - apply noreact_execute; auto.
  - apply noreact_seg; auto.
  - unfold do_lost.
    assert (H0 : noreact (if ac_lost_clears C && ac_lost_clear_first C then set_conn σ false else σ))
      by (destruct (ac_lost_clears C && ac_lost_clear_first C); auto).
    set (σ0 := if ac_lost_clears C && ac_lost_clear_first C then set_conn σ false else σ) in *.
    assert (H1 : noreact (if ac_lost_loop C then lost_loop C v (map fst (a_pending σ0)) σ0 else σ0))
      by (destruct (ac_lost_loop C); auto using noreact_lost_loop).
    destruct (ac_lost_clears C && negb (ac_lost_clear_first C)); auto.
  - unfold do_made. destruct (ac_made_connected C); auto.
  - unfold do_close. destruct (ac_close_clears C); auto.
  - exact H.
Qed.

Lemma lost_of_handle_noreact : forall v σ tid rid, noreact σ -> a_lost (handle C v σ tid rid) = a_lost σ.
Proof.
  intros v σ tid rid H. unfold handle. destruct (get_tx v (a_pending σ) _) as [[d p']|]; auto.
  rewrite react_noreact; auto.
Qed.

(* under the window hypothesis checked along a plain history no table slot is ever overwritten *)
Lemma execute_safe_no_overwrite : forall v σ, ainv σ -> exec_safe σ = true ->
  a_lost (do_execute C v σ) = a_lost σ.
Proof.
  intros v σ I Hs. unfold do_execute. destruct (guard_fails C σ); [reflexivity|]. unfold issue_pending.
  destruct v; cbn [add_tx].
  - rewrite dset_fresh; [reflexivity|].
    intros [k d] Hin. cbn. rewrite next_tid_eq, (i_tid σ I), mod_succ.
    pose proof (i_pend σ I _ _ Hin) as Hsent. destruct (i_range σ I _ _ Hsent) as [Hr ->].
    unfold exec_safe in Hs. rewrite forallb_forall in Hs. pose proof (Hs _ Hin) as Hw. cbn in Hw.
    apply N.ltb_lt in Hw. apply tid_distinct; lia.
  - reflexivity.
Qed.

Lemma lost_step_plain : forall v σ o, ainv σ -> noreact σ ->
  match o with ExecuteE | ExecuteC => False | _ => True end ->
  (match o with Execute => exec_safe σ | _ => true end) = true ->
  a_lost (astep C v σ o) = a_lost σ.
Proof.
  intros v σ o I H Ho Hs. destruct o; try contradiction; cbn [astep].
  - apply execute_safe_no_overwrite; auto.
  - unfold do_segment. generalize (match frames with (u, _, _) :: _ => u | [] => ac_unit_default C end). intro u0.
    revert σ I H Hs. induction frames as [|[[u tid] rid] r IH]; intros σ I H Hs; cbn; auto.
    destruct (unit_ok C u0 u); [|apply IH; auto].
    rewrite IH; auto using ainv_handle, noreact_handle, lost_of_handle_noreact.
  - unfold do_lost.
    assert (E : forall keys σ1, noreact σ1 -> a_lost (lost_loop C v keys σ1) = a_lost σ1).
    { induction keys as [|k r IH]; intros σ1 H1; cbn; auto.
      destruct (get_tx v (a_pending σ1) k) as [[d p']|]; auto.
      rewrite IH; rewrite react_noreact; auto. }
    destruct (ac_lost_clears C && ac_lost_clear_first C); destruct (ac_lost_loop C);
      destruct (ac_lost_clears C && negb (ac_lost_clear_first C)); cbn; rewrite ?E; auto.
  - unfold do_made. destruct (ac_made_connected C); reflexivity.
  - unfold do_close. destruct (ac_close_clears C); reflexivity.
  - reflexivity.
Qed.

Lemma plain_cons : forall o r, plain (o :: r) = true ->
  match o with ExecuteE | ExecuteC => False | _ => True end /\ plain r = true.
Proof. intros o r H. cbn in H. apply andb_prop in H. destruct H as [Ho Hr]. split; auto. destruct o; auto; discriminate. Qed.

Theorem no_overwrite_in_window : forall v ops σ, ainv σ -> noreact σ -> plain ops = true ->
  safe_run C v ops σ = true -> a_lost (arun C v ops σ) = a_lost σ.
Proof.
  induction ops as [|o r IH]; intros σ I H Hp Hs; [reflexivity|].
  change (arun C v (o :: r) σ) with (arun C v r (astep C v σ o)).
  cbn [safe_run] in Hs. apply andb_prop in Hs. destruct Hs as [Ho Hr].
  destruct (plain_cons _ _ Hp) as [Hpo Hpr].
  rewrite IH; auto using ainv_step, noreact_step. apply lost_step_plain; auto.
Qed.

Theorem no_overwrite_from_init : forall v ops, plain ops = true -> safe_run C v ops (init_state C) = true ->
  a_lost (arun C v ops (init_state C)) = [].
Proof. intros v ops Hp H. rewrite no_overwrite_in_window; auto using ainv_init. split; reflexivity. Qed.

(* ---- connection loss ---------------------------------------------------------------------------- *)

Lemma fired_mono_execute : forall v σ x, In x (a_fired σ) -> In x (a_fired (do_execute C v σ)).
Proof.
  intros v σ x H. unfold do_execute, issue_failed, issue_pending. destruct (guard_fails C σ); cbn.
  - apply in_or_app. auto.
  - destruct (add_tx v (a_pending σ) _ _); exact H.
Qed.

Lemma fired_mono_react : forall v σ d o x, In x (a_fired σ) -> In x (a_fired (react C v σ d o)).
Proof.
  intros v σ d o x H. unfold react.
  destruct (match o with OErr _ => memN d (a_rerr σ) | OCb _ _ => memN d (a_rcb σ) end); auto using fired_mono_execute.
Qed.

(* while not connected a (nested) execute leaves the table and the flag alone *)
Lemma execute_disconnected : forall v σ, a_conn σ = false ->
  a_pending (do_execute C v σ) = a_pending σ /\ a_conn (do_execute C v σ) = false /\
  a_fired (do_execute C v σ) = a_fired σ ++ [(a_alloc σ + 1, OErr ConnectionExc)].
Proof.
  intros v σ Hc. unfold do_execute, guard_fails. destruct HC as (_ & _ & _ & _ & _ & Hg & Hex & _).
  rewrite Hg, Hc. cbn. rewrite Hex. auto.
Qed.

Lemma react_disconnected : forall v σ d o, a_conn σ = false ->
  a_pending (react C v σ d o) = a_pending σ /\ a_conn (react C v σ d o) = false.
Proof.
  intros v σ d o Hc. unfold react.
  destruct (match o with OErr _ => memN d (a_rerr σ) | OCb _ _ => memN d (a_rcb σ) end); auto.
  destruct (execute_disconnected v σ Hc) as (H1 & H2 & _). auto.
Qed.

Lemma lost_loop_drains : forall v p σ, a_conn σ = false -> a_pending σ = p ->
  let σ' := lost_loop C v (map fst p) σ in
  a_pending σ' = [] /\ a_conn σ' = false /\
  (forall x, In x (a_fired σ) -> In x (a_fired σ')) /\
  (forall k d, In (k, d) p -> In (d, OErr (ac_lost_exn C)) (a_fired σ')).
Proof.
  intros v p. induction p as [|[k d] r IH]; intros σ Hc Hp; cbn.
  - repeat split; auto. intros k d [].
  - assert (E : get_tx v (a_pending σ) k = Some (d, r)).
    { rewrite Hp. destruct v; cbn; [rewrite N.eqb_refl|]; reflexivity. }
    rewrite E.
    set (σ1 := react C v (move_fired σ r d (OErr (ac_lost_exn C))) d (OErr (ac_lost_exn C))).
    destruct (react_disconnected v (move_fired σ r d (OErr (ac_lost_exn C))) d (OErr (ac_lost_exn C)) Hc) as [Hp1 Hc1].
    destruct (IH σ1 Hc1 Hp1) as (A & B & M & F).
    assert (Hd : In (d, OErr (ac_lost_exn C)) (a_fired σ1)).
    { apply fired_mono_react. cbn. apply in_or_app. right. left. reflexivity. }
    repeat split; auto.
    + intros x Hx. apply M. apply fired_mono_react. cbn. apply in_or_app. auto.
    + intros k0 d0 [Heq|Hin]; [inversion Heq; subst; apply M; exact Hd|eapply F; eauto].
Qed.

(* connectionLost: the table is emptied, the flag cleared, every pending deferred gets its errback
   with ConnectionException — also when errbacks call execute() again while the loop is running *)
Theorem lost_errbacks_all : forall v σ,
  let σ' := astep C v σ Lost in
  a_pending σ' = [] /\ a_conn σ' = false /\
  (forall x, In x (a_fired σ) -> In x (a_fired σ')) /\
  (forall k d, In (k, d) (a_pending σ) -> In (d, OErr ConnectionExc) (a_fired σ')).
Proof.
  intros v σ. cbn. unfold do_lost. destruct HC as (_ & _ & _ & _ & _ & _ & _ & _ & Hcl & Hlp & Hex & Hcf & _).
  rewrite Hlp, Hcl, Hcf. cbn. rewrite <- Hex.
  apply (lost_loop_drains v (a_pending σ) (set_conn σ false)); reflexivity.
Qed.

(* close(): the flag is cleared at once, nothing else changes — so a request issued after close()
   fails at once even before the loss of the transport is reported *)
Theorem close_disconnects : forall v σ,
  let σ' := astep C v σ Close in
  a_conn σ' = false /\ a_pending σ' = a_pending σ /\ a_fired σ' = a_fired σ /\ a_sent σ' = a_sent σ.
Proof.
  intros v σ. cbn. unfold do_close.
  destruct HC as (_ & _ & _ & _ & _ & _ & _ & _ & _ & _ & _ & _ & _ & _ & Hc & _). rewrite Hc. cbn. auto.
Qed.

Theorem execute_when_disconnected : forall v σ, a_conn σ = false ->
  let σ' := astep C v σ Execute in
  a_pending σ' = a_pending σ /\ a_conn σ' = false /\
  a_fired σ' = a_fired σ ++ [(a_alloc σ + 1, OErr ConnectionExc)].
Proof. intros v σ Hc. cbn. apply execute_disconnected; auto. Qed.

(* disconnected stays disconnected (and the table untouched by executes) until connectionMade *)
Fixpoint no_made (ops : list aop) : bool :=
  match ops with [] => true | Made :: _ => false | _ :: r => no_made r end.

Lemma conn_handle : forall v σ tid rid, a_conn σ = false -> a_conn (handle C v σ tid rid) = false.
Proof.
  intros v σ tid rid Hc. unfold handle. destruct (get_tx v (a_pending σ) _) as [[d p']|]; auto.
  apply react_disconnected. exact Hc.
Qed.

Lemma conn_step : forall v σ o, a_conn σ = false -> match o with Made => False | _ => True end ->
  a_conn (astep C v σ o) = false.
Proof.
  intros v σ o Hc Ho. destruct o; try contradiction; cbn [astep].
  - apply execute_disconnected; auto.
  - unfold do_execute_k. unfold guard_fails. cbn. destruct HC as (_ & _ & _ & _ & _ & Hg & _). rewrite Hg, Hc. cbn.
    apply react_disconnected. exact Hc.
  - unfold do_execute_k. unfold guard_fails. cbn. destruct HC as (_ & _ & _ & _ & _ & Hg & _). rewrite Hg, Hc. cbn.
    apply react_disconnected. exact Hc.
  - unfold do_segment. generalize (match frames with (u, _, _) :: _ => u | [] => ac_unit_default C end). intro u0.
    revert σ Hc. induction frames as [|[[u tid] rid] r IH]; intros σ Hc; cbn; auto.
    apply IH. destruct (unit_ok C u0 u); auto using conn_handle.
  - destruct (lost_errbacks_all v σ) as (_ & H & _). exact H.
  - unfold do_close. destruct (ac_close_clears C); auto.
  - exact Hc.
Qed.

Lemma disconnected_stays : forall v ops σ, a_conn σ = false -> no_made ops = true ->
  a_conn (arun C v ops σ) = false.
Proof.
  induction ops as [|o r IH]; intros σ Hc Hn; [exact Hc|].
  change (arun C v (o :: r) σ) with (arun C v r (astep C v σ o)).
  apply IH; [apply conn_step; auto; destruct o; auto; discriminate|destruct o; auto; discriminate].
Qed.

(* ---- dictionary variant: keys, right reply, unsolicited / duplicate replies ------------------------ *)

Record dinv (σ : astate) : Prop := {
  d_keys : NoDup (map fst (a_pending σ));
  d_cb : forall d tid rid, In (d, OCb tid rid) (a_fired σ) -> In (d, tid) (a_sent σ);
  d_pend : forall k d, In (k, d) (a_pending σ) -> In (d, k) (a_sent σ) }.

Lemma dinv_ext : forall σ σ', a_pending σ' = a_pending σ -> a_fired σ' = a_fired σ -> a_sent σ' = a_sent σ ->
  dinv σ -> dinv σ'.
Proof. intros σ σ' H1 H2 H3 [D1 D2 D3]. constructor; rewrite ?H1, ?H2, ?H3; auto. Qed.

Lemma dinv_issue_failed : forall σ, dinv σ -> dinv (issue_failed C σ).
Proof.
  intros σ D. unfold issue_failed. constructor; cbn.
  - apply (d_keys σ D).
  - intros d tid rid Hin. apply in_app_or in Hin. apply in_or_app. destruct Hin as [Hin|[Heq|[]]].
    + left. eapply (d_cb σ D); eauto.
    + inversion Heq.
  - intros k d Hin. apply in_or_app. left. apply (d_pend σ D); auto.
Qed.

Lemma dinv_issue_pending : forall σ, dinv σ -> dinv (issue_pending C VDict σ).
Proof.
  intros σ D. unfold issue_pending. cbn [add_tx].
  destruct (dset (a_pending σ) _ _) as [p' o] eqn:Ea. constructor; cbn.
  - eapply dset_keys; eauto. apply (d_keys σ D).
  - intros d tid rid Hin. apply in_or_app. left. eapply (d_cb σ D); eauto.
  - intros k d Hin. apply in_or_app. destruct (dset_in _ _ _ _ _ _ Ea Hin) as [Heq|Hold].
    + inversion Heq; subst. right; left; reflexivity.
    + left. apply (d_pend σ D); auto.
Qed.

Lemma dinv_execute : forall σ, dinv σ -> dinv (do_execute C VDict σ).
Proof.
  intros σ D. unfold do_execute. destruct (guard_fails C σ); auto using dinv_issue_failed, dinv_issue_pending.
Qed.

Lemma dinv_react : forall σ d o, dinv σ -> dinv (react C VDict σ d o).
Proof.
  intros σ d o D. unfold react.
  destruct (match o with OErr _ => memN d (a_rerr σ) | OCb _ _ => memN d (a_rcb σ) end); auto using dinv_execute.
Qed.

Lemma dinv_move_cb : forall σ tid rid d p', dinv σ -> dpop (a_pending σ) tid = Some (d, p') ->
  dinv (move_fired σ p' d (OCb tid rid)).
Proof.
  intros σ tid rid d p' D E. destruct (dpop_keys _ _ _ _ E (d_keys σ D)) as [H1 _].
  destruct (dpop_in _ _ _ _ E) as [H2 H3]. constructor; cbn; auto.
  - intros d0 t0 r0 Hin. apply in_app_or in Hin. destruct Hin as [Hin|[Heq|[]]].
    + eapply (d_cb σ D); eauto.
    + inversion Heq; subst. apply (d_pend σ D); auto.
  - intros k d0 Hin. apply (d_pend σ D). auto.
Qed.

Lemma dinv_move_err : forall σ k e d p', dinv σ -> dpop (a_pending σ) k = Some (d, p') ->
  dinv (move_fired σ p' d (OErr e)).
Proof.
  intros σ k e d p' D E. destruct (dpop_keys _ _ _ _ E (d_keys σ D)) as [H1 _].
  destruct (dpop_in _ _ _ _ E) as [H2 H3]. constructor; cbn; auto.
  - intros d0 t0 r0 Hin. apply in_app_or in Hin. destruct Hin as [Hin|[Heq|[]]].
    + eapply (d_cb σ D); eauto.
    + inversion Heq.
  - intros k0 d0 Hin. apply (d_pend σ D). auto.
Qed.

Lemma dinv_handle : forall σ tid rid, dinv σ -> dinv (handle C VDict σ tid rid).
Proof.
  intros σ tid rid D. unfold handle. destruct HC as (_ & _ & _ & _ & _ & _ & _ & Hk & _). rewrite Hk. cbn [get_tx].
  destruct (dpop (a_pending σ) tid) as [[d p']|] eqn:E; auto.
  apply dinv_react. apply dinv_move_cb; auto.
Qed.

Lemma dinv_execute_k : forall σ re rc, dinv σ -> dinv (do_execute_k C VDict σ re rc).
Proof.
  intros σ re rc D. unfold do_execute_k. set (σ1 := register σ (a_alloc σ + 1) re rc).
  assert (D1 : dinv σ1) by (apply (dinv_ext σ); auto).
  destruct (guard_fails C σ1).
  - apply dinv_react. apply dinv_issue_failed. exact D1.
  - apply dinv_issue_pending. exact D1.
Qed.

Lemma dinv_lost_loop : forall keys σ, dinv σ -> dinv (lost_loop C VDict keys σ).
Proof.
  induction keys as [|k r IH]; intros σ D; cbn [lost_loop get_tx]; auto.
  destruct (dpop (a_pending σ) k) as [[d p']|] eqn:E; auto.
  apply IH. apply dinv_react. eapply dinv_move_err; eauto.
Qed.

Lemma dinv_step : forall σ o, dinv σ -> dinv (astep C VDict σ o).
Proof.
  intros σ o D. destruct o as [| | |frames| | | |n]; cbn [astep].
  - apply dinv_execute; auto.
  - apply dinv_execute_k; auto.
  - apply dinv_execute_k; auto.
  - unfold do_segment. generalize (match frames with (u, _, _) :: _ => u | [] => ac_unit_default C end). intro u0.
    revert σ D. induction frames as [|[[u tid] rid] r IH]; intros σ D; cbn; auto.
    apply IH. destruct (unit_ok C u0 u); auto using dinv_handle.
  - unfold do_lost.
    assert (D0 : dinv (if ac_lost_clears C && ac_lost_clear_first C then set_conn σ false else σ))
      by (destruct (ac_lost_clears C && ac_lost_clear_first C); auto; apply (dinv_ext σ); auto).
    set (σ0 := if ac_lost_clears C && ac_lost_clear_first C then set_conn σ false else σ) in *.
    assert (D1 : dinv (if ac_lost_loop C then lost_loop C VDict (map fst (a_pending σ0)) σ0 else σ0))
      by (destruct (ac_lost_loop C); auto using dinv_lost_loop).
    destruct (ac_lost_clears C && negb (ac_lost_clear_first C)); auto. eapply dinv_ext; [| | |exact D1]; auto.
  - unfold do_made. destruct (ac_made_connected C); auto. apply (dinv_ext σ); auto.
  - unfold do_close. destruct (ac_close_clears C); auto. apply (dinv_ext σ); auto.
  - unfold do_skip. apply (dinv_ext σ); auto.
Qed.

Lemma dinv_init : dinv (init_state C).
Proof. constructor; cbn; [constructor|intros ? ? ? []|intros ? ? []]. Qed.

Lemma dinv_run : forall ops σ, dinv σ -> dinv (arun C VDict ops σ).
Proof. induction ops as [|o r IH]; intros σ D; cbn; auto. apply IH. apply dinv_step; auto. Qed.

(* a callback carries the reply whose transaction id was written for that very deferred — also
   when callbacks / errbacks re-enter the protocol *)
Theorem right_reply_all_histories : forall ops d tid rid,
  let σ := arun C VDict ops (init_state C) in
  In (d, OCb tid rid) (a_fired σ) -> In (d, tid) (a_sent σ).
Proof. intros ops d tid rid σ. apply (d_cb _ (dinv_run ops _ dinv_init)). Qed.

Lemma segment1 : forall σ u tid rid,
  astep C VDict σ (Segment [(u, tid, rid)]) = handle C VDict σ tid rid.
Proof.
  intros σ u tid rid. cbn. unfold do_segment. cbn. unfold unit_ok. rewrite N.eqb_refl, orb_true_r. reflexivity.
Qed.

Lemma reply_unknown_noop : forall σ u tid rid,
  dpop (a_pending σ) tid = None -> astep C VDict σ (Segment [(u, tid, rid)]) = σ.
Proof.
  intros σ u tid rid Hn. rewrite segment1. unfold handle.
  destruct HC as (_ & _ & _ & _ & _ & _ & _ & Hk & _). rewrite Hk. cbn [get_tx]. rewrite Hn. reflexivity.
Qed.

(* a reply whose tid is not in the table changes nothing *)
Theorem unsolicited_dropped : forall ops u tid rid,
  let σ := arun C VDict ops (init_state C) in
  ~ In tid (map fst (a_pending σ)) -> astep C VDict σ (Segment [(u, tid, rid)]) = σ.
Proof. intros ops u tid rid σ Hn. apply reply_unknown_noop. apply dpop_none; auto. Qed.

(* a reply for a pending tid fires exactly that deferred, with that reply; then the user's callback runs *)
Theorem solicited_delivered : forall σ u tid rid d p',
  dpop (a_pending σ) tid = Some (d, p') ->
  astep C VDict σ (Segment [(u, tid, rid)]) =
  react C VDict (move_fired σ p' d (OCb tid rid)) d (OCb tid rid).
Proof.
  intros σ u tid rid d p' E. rewrite segment1. unfold handle.
  destruct HC as (_ & _ & _ & _ & _ & _ & _ & Hk & _). rewrite Hk. cbn [get_tx]. rewrite E. reflexivity.
Qed.

(* a second copy of a reply changes nothing (callbacks that do not re-enter the protocol) *)
Theorem duplicate_dropped : forall ops u tid rid u' rid', plain ops = true ->
  let σ := arun C VDict ops (init_state C) in
  let σ1 := astep C VDict σ (Segment [(u, tid, rid)]) in
  astep C VDict σ1 (Segment [(u', tid, rid')]) = σ1.
Proof.
  intros ops u tid rid u' rid' Hp σ σ1. apply reply_unknown_noop.
  pose proof (dinv_run ops _ dinv_init) as D. fold σ in D.
  assert (Hnr : noreact σ).
  { unfold σ. clear - Hp HC. assert (G : forall ops σ0, noreact σ0 -> plain ops = true -> noreact (arun C VDict ops σ0)).
    { induction ops0 as [|o r IH]; intros σ0 H0 Hp0; [exact H0|].
      change (arun C VDict (o :: r) σ0) with (arun C VDict r (astep C VDict σ0 o)).
      destruct (plain_cons _ _ Hp0). apply IH; auto using noreact_step. }
    apply G; auto. split; reflexivity. }
  unfold σ1. rewrite segment1. unfold handle.
  destruct HC as (_ & _ & _ & _ & _ & _ & _ & Hk & _). rewrite Hk. cbn [get_tx].
  destruct (dpop (a_pending σ) tid) as [[d p']|] eqn:E.
  - rewrite react_noreact by exact Hnr. cbn.
    destruct (dpop_keys _ _ _ _ E (d_keys σ D)) as [_ Hnot]. apply dpop_none; auto.
  - exact E.
Qed.

End WithGood.
