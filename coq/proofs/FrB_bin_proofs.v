(* FrB_bin_proofs.v — lemmas about the binary framer model (theories/FrBin.v) instantiated
   with the regenerated constants: closed forms, bytes.find, the while loop never runs out
   of fuel, whole delimiter-free frames, frame-aligned chunkings, and the delivery gate
   (which holds only when the examined buffer starts with '{': the stale `start`). *)
From Coq Require Import ZifyBool.
From PM.theories Require Import Base Expr Struct FrBCode Crc FrBCommon FrBin FrSpecB.
From PM.Generated Require Import GenFramerB.
From PM.proofs Require Import Struct_proofs Crc_proofs FrB_rtu_proofs.
Open Scope list_scope.
Open Scope Z_scope.

Ltac Zify.zify_post_hook ::= Z.to_euclidean_division_equations.

(* ------------------------------------------------------------------ closed forms *)
Lemma bc_ready_closed n : beval (env_of [("len(self._buffer)"%string, n)]) (bc_ready bin) = (n >? 1).
Proof. unfold beval. cbn. destruct (n >? 1); reflexivity. Qed.
Lemma bc_crc_lo_closed s e : eval (env_se s e) (bc_crc_lo bin) = e - 2. Proof. reflexivity. Qed.
Lemma bc_crc_hi_closed s e : eval (env_se s e) (bc_crc_hi bin) = e. Proof. reflexivity. Qed.
Lemma bc_data_lo_closed s e : eval (env_se s e) (bc_data_lo bin) = s + 1. Proof. reflexivity. Qed.
Lemma bc_data_hi_closed s e : eval (env_se s e) (bc_data_hi bin) = e - 2. Proof. reflexivity. Qed.
Lemma bc_uid_closed : bc_uid_lo bin = 1 /\ bc_uid_hi bin = 2. Proof. split; reflexivity. Qed.
Lemma bc_get_start_closed : e1 "self._hsize" (bc_hsize bin) (bc_get_start bin) = 2. Proof. reflexivity. Qed.
Lemma bc_get_end_closed l : e1 "self._header['len']" l (bc_get_end bin) = l - 2. Proof. reflexivity. Qed.
Lemma bc_get_cond_closed e : beval (env_of [("end"%string, e)]) (bc_get_cond bin) = (e >? 0).
Proof. unfold beval. cbn. destruct (e >? 0); reflexivity. Qed.
Lemma bc_adv_closed l : e1 "self._header['len']" l (bc_adv bin) = l + 2. Proof. reflexivity. Qed.
Lemma bin_delims : bin_start = 123%N /\ bin_end = 125%N. Proof. split; reflexivity. Qed.
Lemma bc_fmts : bc_hdr_fmt bin = ">BB"%string /\ bc_crc_fmt bin = ">H"%string. Proof. split; reflexivity. Qed.
Lemma bc_repeat_closed : bc_repeat bin = [125; 123]. Proof. reflexivity. Qed.

(* ------------------------------------------------------------------ bytes.find *)
Lemma find_byte_ge b l : -1 <= find_byte b l.
Proof. induction l as [|x t IH]; cbn; [lia|]. destruct (N.eqb x b); [lia|]. destruct (find_byte b t <? 0); lia. Qed.

Lemma find_byte_lt b l : find_byte b l < zlen l.
Proof.
  induction l as [|x t IH]; unfold zlen in *; cbn [find_byte length]; [lia|].
  destruct (N.eqb x b); [lia|]. destruct (find_byte b t <? 0) eqn:E; lia.
Qed.

Lemma find_byte_notin b l : ~ In b l -> find_byte b l = -1.
Proof.
  induction l as [|x t IH]; intros H; cbn; [reflexivity|].
  destruct (N.eqb x b) eqn:E; [apply N.eqb_eq in E; subst; exfalso; apply H; left; reflexivity|].
  rewrite IH by (intro; apply H; right; assumption). reflexivity.
Qed.

Lemma find_byte_hit b pre post : ~ In b pre -> find_byte b (pre ++ b :: post) = zlen pre.
Proof.
  induction pre as [|x t IH]; intros H; cbn [app find_byte].
  - rewrite N.eqb_refl. reflexivity.
  - destruct (N.eqb x b) eqn:E; [apply N.eqb_eq in E; subst; exfalso; apply H; left; reflexivity|].
    rewrite IH by (intro; apply H; right; assumption).
    pose proof (zlen_nonneg t). replace (zlen t <? 0) with false by lia. unfold zlen. cbn [length]. lia.
Qed.

Lemma find_byte_spec b l k : find_byte b l = k -> 0 <= k ->
  exists pre post, l = pre ++ b :: post /\ zlen pre = k /\ ~ In b pre.
Proof.
  revert k. induction l as [|x t IH]; intros k H Hk; cbn in H; [lia|].
  destruct (N.eqb x b) eqn:E.
  - apply N.eqb_eq in E. subst. exists [], t. repeat split; auto.
  - destruct (find_byte b t <? 0) eqn:F; [lia|].
    destruct (IH (find_byte b t) eq_refl ltac:(lia)) as (pre & post & -> & Hl & Hn).
    exists (x :: pre), post. split; [reflexivity|]. split; [unfold zlen in *; cbn [length]; lia|].
    intros [->|Hin]; [rewrite N.eqb_refl in E; discriminate | exact (Hn Hin)].
Qed.

Lemma no_delim_notin l : no_delim l = true -> ~ In 123%N l /\ ~ In 125%N l.
Proof.
  unfold no_delim. rewrite forallb_forall. intros H.
  split; intros Hin; apply H in Hin; vm_compute in Hin; discriminate.
Qed.

Lemma escape_no_delim l : no_delim l = true -> escape l = l.
Proof.
  induction l as [|x t IH]; intros H; [reflexivity|]. cbn in H. apply andb_prop in H. destruct H as [Hx Ht].
  cbn [escape]. destruct (is_delim x); [discriminate|]. rewrite IH by exact Ht. reflexivity.
Qed.

Lemma no_delim_app a b : no_delim (a ++ b) = no_delim a && no_delim b.
Proof. unfold no_delim. apply forallb_app. Qed.

(* ------------------------------------------------------------------ struct '>B', '>H' *)
Lemma unpack_B x : unpack_s ">B" [x] = Ok [Z.of_N x].
Proof. unfold unpack_s. rewrite parse_B. unfold unpack. cbn. unfold unpack1, of_unsigned. cbn. apply f_equal. apply (f_equal (fun z => [z])). lia. Qed.

Lemma unpack_H a b : unpack_s ">H" [a; b] = Ok [Z.of_N a * 256 + Z.of_N b].
Proof.
  unfold unpack_s. rewrite parse_H. unfold unpack. cbn -[Z.mul Z.add]. unfold unpack1, of_unsigned.
  cbn -[Z.mul Z.add]. apply f_equal. apply (f_equal (fun z => [z])). lia.
Qed.

Lemma unpack_H_len bs l : unpack_s ">H" bs = Ok l -> length bs = 2%nat.
Proof.
  unfold unpack_s. rewrite parse_H. unfold unpack.
  destruct (Nat.eqb (length bs) (fmt_size [FH])) eqn:E; [|discriminate]. intros _. apply Nat.eqb_eq in E. exact E.
Qed.

Lemma unpack_B_len bs l : unpack_s ">B" bs = Ok l -> length bs = 1%nat.
Proof.
  unfold unpack_s. rewrite parse_B. unfold unpack.
  destruct (Nat.eqb (length bs) (fmt_size [FB])) eqn:E; [|discriminate]. intros _. apply Nat.eqb_eq in E. exact E.
Qed.

(* ------------------------------------------------------------------ the while loop has enough fuel *)
Lemma pyslice_from_len {A} (l : list A) k : 0 <= k ->
  Z.of_nat (length (pyslice l (Some k) None)) = Z.max 0 (zlen l - k).
Proof.
  intros Hk. unfold pyslice, norm_idx. fold (zlen l). replace (k <? 0) with false by lia.
  rewrite firstn_length, skipn_length. unfold zlen. lia.
Qed.

Lemma bin_check_len st st1 r : bin_check st = (st1, r) -> (length (b_buf st1) <= length (b_buf st))%nat.
Proof.
  unfold bin_check.
  destruct (find_byte bin_start (b_buf st) =? -1) eqn:S; [intros HH; inversion HH; lia|].
  pose proof (find_byte_ge bin_start (b_buf st)).
  assert (L : (length (if find_byte bin_start (b_buf st) >? 0
                       then pyslice (b_buf st) (Some (find_byte bin_start (b_buf st))) None else b_buf st)
               <= length (b_buf st))%nat).
  { destruct (find_byte bin_start (b_buf st) >? 0); [|lia].
    pose proof (pyslice_from_len (b_buf st) (find_byte bin_start (b_buf st)) ltac:(lia)). unfold zlen in *. lia. }
  set (buf := if find_byte bin_start (b_buf st) >? 0 then _ else _) in *.
  destruct (negb (find_byte bin_end buf =? -1)); [|intros HH; inversion HH; exact L].
  destruct (unpack_s ">B" _) as [[|u [|? ?]]|]; try (intros HH; inversion HH; exact L).
  destruct (unpack_s ">H" _) as [[|c [|? ?]]|]; try (intros HH; inversion HH; exact L).
  destruct (py_check_crc _ _); intros HH; inversion HH; exact L.
Qed.

Lemma bin_check_true_len st st1 : bin_check st = (st1, Ok true) -> 0 <= b_len (b_hdr st1).
Proof.
  unfold bin_check.
  destruct (find_byte bin_start (b_buf st) =? -1); [intros HH; discriminate HH|].
  set (buf := if find_byte bin_start (b_buf st) >? 0 then _ else _).
  pose proof (find_byte_ge bin_end buf).
  destruct (negb (find_byte bin_end buf =? -1)) eqn:E; [|intros HH; discriminate HH].
  destruct (unpack_s ">B" _) as [[|u [|? ?]]|]; try (intros HH; discriminate HH).
  destruct (unpack_s ">H" _) as [[|c [|? ?]]|]; try (intros HH; discriminate HH).
  destruct (py_check_crc _ _) as [[|]|]; intros HH; try discriminate HH.
  inversion HH. subst. cbn [b_hdr b_len]. lia.
Qed.

Lemma bin_loop_fuel cfg : forall fuel st acc, (length (b_buf st) < fuel)%nat ->
  snd (bin_loop fuel cfg st acc) <> FOutOfFuel.
Proof.
  induction fuel as [|k IH]; intros st acc Hf; [lia|]. cbn [bin_loop].
  unfold bin_ready. rewrite bc_ready_closed.
  destruct (zlen (b_buf st) >? 1) eqn:R; [|cbn; discriminate].
  destruct (bin_check st) as [st1 [[|]|e]] eqn:C; try (cbn; discriminate).
  destruct (validate_unit cfg _) as [[|]|e]; try (cbn; discriminate).
  destruct (cf_dec cfg _); try (cbn; discriminate).
  apply IH. pose proof (bin_check_len _ _ _ C). pose proof (bin_check_true_len _ _ C).
  unfold bin_advance. cbn [b_buf]. rewrite bc_adv_closed.
  pose proof (pyslice_from_len (b_buf st1) (b_len (b_hdr st1) + 2) ltac:(lia)). unfold zlen in *. lia.
Qed.

(* processIncomingPacket always terminates within the fuel it is given *)
Theorem bin_recv_no_fuel_out cfg st chunk : snd (bin_recv cfg st chunk) <> FOutOfFuel.
Proof. unfold bin_recv. apply bin_loop_fuel. cbn [b_buf]. lia. Qed.

(* ------------------------------------------------------------------ buildPacket and whole frames, delimiter-free *)
Lemma bin_preflight_no_delim data : no_delim data = true -> bin_preflight data = data.
Proof.
  induction data as [|d t IH]; intros H; [reflexivity|]. cbn in H. apply andb_prop in H. destruct H as [Hd Ht].
  cbn [bin_preflight]. rewrite bc_repeat_closed.
  replace (existsb (Z.eqb (zb d)) [125; 123]) with false.
  - rewrite IH by exact Ht. reflexivity.
  - cbn. unfold is_delim, LBRACE, RBRACE, zb in *. lia.
Qed.

(* buildPacket = '{' unit PDU CRC '}' (nothing to escape) *)
Theorem bin_build_spec uid fc data : (uid < 256)%N -> (fc < 256)%N -> wfb data = true ->
  no_delim (with_crc (uid :: fc :: data)) = true ->
  bin_build (Z.of_N uid) (Z.of_N fc) data = Ok (spec_adu_binary uid (fc :: data)).
Proof.
  intros Hu Hf Hw Hn. unfold bin_build. destruct bc_fmts as [-> ->].
  assert (Hnd : no_delim data = true).
  { unfold with_crc in Hn. rewrite no_delim_app in Hn. apply andb_prop in Hn. destruct Hn as [Hn _].
    cbn in Hn. apply andb_prop in Hn. destruct Hn as [_ Hn]. apply andb_prop in Hn. tauto. }
  rewrite bin_preflight_no_delim by exact Hnd.
  rewrite pack_BB by assumption. cbn [bind app].
  assert (Hw' : wfb (uid :: fc :: data) = true).
  { cbn [wfb forallb]. fold (wfb data). rewrite Hw. unfold byteb. lia. }
  rewrite py_crc_bitwise by exact Hw'. cbn [bind].
  rewrite pack_H_swapped by (apply crc16_lt; exact Hw'). cbn [bind].
  unfold spec_adu_binary. rewrite escape_no_delim by exact Hn.
  destruct bin_delims as [-> ->]. reflexivity.
Qed.

Record valid_bframe (cfg : fcfg) (u : N) (pdu : bytes) : Prop := {
  vb_wfb : wfb (u :: pdu) = true;
  vb_pdu : pdu <> [];
  vb_dec : cf_dec cfg pdu = DMsg;
  vb_unit : validate_unit cfg (Some (zb u)) = Ok true;
  vb_nodelim : no_delim (with_crc (u :: pdu)) = true
}.

(* one call whose buffer is exactly one delimiter-free frame: delivered, receiver back to its
   initial state — whatever the header held *)
Lemma bin_recv_whole cfg st chunk u pdu : valid_bframe cfg u pdu ->
  b_buf st ++ chunk = spec_adu_binary u pdu ->
  bin_recv cfg st chunk = (bin_init, [(pdu, zb u)], FOk).
Proof.
  intros [Hw Hp Hd Hu Hn] Hbuf.
  destruct (spec_adu_rtu_shape u pdu Hw) as (lo & hi & Esp & Hlo & Hhi & Hcrc).
  unfold spec_adu_rtu in Esp.
  assert (Ebuf : b_buf st ++ chunk = [123%N] ++ (u :: pdu) ++ [lo; hi] ++ [125%N]).
  { rewrite Hbuf. unfold spec_adu_binary. rewrite escape_no_delim by exact Hn. rewrite Esp.
    rewrite <- !app_assoc. reflexivity. }
  rewrite Esp in Hn. destruct (no_delim_notin _ Hn) as [Hn123 Hn125].
  set (body := (u :: pdu) ++ [lo; hi]) in *.
  destruct pdu as [|fc data]; [congruence|].
  unfold bin_recv. rewrite Ebuf. clear Hbuf Ebuf.
  set (buf := [123%N] ++ (u :: fc :: data) ++ [lo; hi] ++ [125%N]).
  assert (Lbuf : zlen buf = zlen data + 6) by (unfold buf, zlen; rewrite !app_length; cbn [length]; lia).
  pose proof (zlen_nonneg data) as Hd0.
  cbn [bin_loop]. unfold bin_ready at 1. cbn [b_buf]. rewrite bc_ready_closed.
  replace (zlen buf >? 1) with true by lia.
  (* checkFrame *)
  assert (C : bin_check {| b_buf := buf; b_hdr := b_hdr st |} =
              ({| b_buf := buf; b_hdr := {| b_uid := zb u; b_len := zlen data + 5; b_crc := zb lo * 256 + zb hi |} |}, Ok true)).
  { unfold bin_check. cbn [b_buf b_hdr]. destruct bin_delims as [-> ->].
    assert (F0 : find_byte 123 buf = 0) by (unfold buf; cbn [app find_byte]; rewrite N.eqb_refl; reflexivity).
    rewrite F0. cbn [Z.eqb Z.gtb Z.compare].
    assert (F1 : find_byte 125 buf = zlen data + 5).
    { unfold buf. rewrite !app_assoc. rewrite find_byte_hit.
      - unfold zlen. rewrite !app_length. cbn [length]. lia.
      - rewrite <- app_assoc. fold body. intros [E|Hin]; [discriminate|]. exact (Hn125 Hin). }
    rewrite F1. replace (zlen data + 5 =? -1) with false by lia. cbn [negb].
    destruct bc_uid_closed as [-> ->].
    rewrite bc_crc_lo_closed, bc_crc_hi_closed, bc_data_lo_closed, bc_data_hi_closed.
    replace (pyslice buf (Some 1) (Some 2)) with [u].
    2: { symmetry. unfold buf. change ([123%N] ++ (u :: fc :: data) ++ [lo; hi] ++ [125%N])
           with ([123%N] ++ [u] ++ ((fc :: data) ++ [lo; hi] ++ [125%N])). apply pyslice_mid; reflexivity. }
    rewrite unpack_B.
    replace (pyslice buf (Some (zlen data + 5 - 2)) (Some (zlen data + 5))) with [lo; hi].
    2: { symmetry. unfold buf. rewrite app_assoc. apply pyslice_mid; unfold zlen; rewrite ?app_length; cbn [length]; lia. }
    rewrite unpack_H.
    replace (pyslice buf (Some (0 + 1)) (Some (zlen data + 5 - 2))) with (u :: fc :: data).
    2: { symmetry. unfold buf. apply pyslice_mid; unfold zlen; cbn [length]; lia. }
    rewrite py_check_crc_spec by exact Hw.
    rewrite swap16_bytes by (apply crc16_lt; exact Hw). rewrite Hcrc.
    destruct (crc_split lo hi Hlo Hhi) as [-> ->]. unfold zb.
    replace (Z.of_N (256 * lo + hi) =? Z.of_N lo * 256 + Z.of_N hi) with true by lia. reflexivity. }
  rewrite C. cbn [b_hdr b_uid]. rewrite Hu.
  (* getFrame / decode / advanceFrame *)
  assert (G : bin_get_frame {| b_buf := buf; b_hdr := {| b_uid := zb u; b_len := zlen data + 5; b_crc := zb lo * 256 + zb hi |} |} = fc :: data).
  { unfold bin_get_frame. cbn [b_buf b_hdr b_len]. rewrite bc_get_start_closed, bc_get_end_closed, bc_get_cond_closed.
    replace (zlen data + 5 - 2 >? 0) with true by lia.
    unfold buf. change ([123%N] ++ (u :: fc :: data) ++ [lo; hi] ++ [125%N])
      with ([123%N; u] ++ (fc :: data) ++ ([lo; hi] ++ [125%N])). apply pyslice_mid; unfold zlen; cbn [length]; lia. }
  rewrite G, Hd.
  assert (A : bin_advance {| b_buf := buf; b_hdr := {| b_uid := zb u; b_len := zlen data + 5; b_crc := zb lo * 256 + zb hi |} |} = bin_init).
  { unfold bin_advance, bin_init. cbn [b_buf b_hdr b_len]. rewrite bc_adv_closed. f_equal.
    assert (L0 : Z.of_nat (length (pyslice buf (Some (zlen data + 5 + 2)) None)) = 0)
      by (rewrite pyslice_from_len by lia; lia).
    destruct (pyslice buf (Some (zlen data + 5 + 2)) None); [reflexivity|cbn [length] in L0; lia]. }
  rewrite A. cbn [b_uid app].
  (* second iteration: buffer empty *)
  destruct (length buf) eqn:Lb; [unfold zlen in Lbuf; lia|].
  cbn [bin_loop]. unfold bin_ready. rewrite bc_ready_closed. reflexivity.
Qed.

(* a call that leaves at most one byte buffered does nothing *)
Lemma bin_recv_short cfg st chunk : (length (b_buf st ++ chunk) <= 1)%nat ->
  bin_recv cfg st chunk = ({| b_buf := b_buf st ++ chunk; b_hdr := b_hdr st |}, [], FOk).
Proof.
  intros H. unfold bin_recv. cbn [bin_loop b_buf]. unfold bin_ready. cbn [b_buf]. rewrite bc_ready_closed.
  replace (zlen (b_buf st ++ chunk) >? 1) with false by (unfold zlen; lia). reflexivity.
Qed.

Theorem bin_whole_frame cfg u pdu : valid_bframe cfg u pdu ->
  bin_recv cfg bin_init (spec_adu_binary u pdu) = (bin_init, [(pdu, zb u)], FOk).
Proof. intros V. apply bin_recv_whole; [exact V | reflexivity]. Qed.

(* ------------------------------------------------------------------ C06 partial: frame-aligned reads *)
Fixpoint bin_feed_dels (cfg : fcfg) (st : bstate) (chunks : list bytes) : list delivered * list fexit :=
  match chunks with
  | [] => ([], [])
  | c :: t => let '(st1, ds, x) := bin_recv cfg st c in
              let '(ds', xs) := bin_feed_dels cfg st1 t in (ds ++ ds', x :: xs)
  end.

(* every read either leaves at most one byte of the next frame buffered or completes exactly
   that frame (no byte of a following frame in the same read) *)
Fixpoint bopr (b : bytes) (frames : list (N * bytes)) (chunks : list bytes) : Prop :=
  match chunks with
  | [] => frames = [] /\ b = []
  | c :: cs =>
      match frames with
      | [] => c = [] /\ b = [] /\ bopr [] [] cs
      | (u, pdu) :: fs =>
          ((length (b ++ c) <= 1)%nat /\ bopr (b ++ c) frames cs)
          \/ (b ++ c = spec_adu_binary u pdu /\ bopr [] fs cs)
      end
  end.

Theorem bin_chunked cfg : forall chunks b frames st,
  b_buf st = b ->
  Forall (fun f => valid_bframe cfg (fst f) (snd f)) frames ->
  bopr b frames chunks ->
  bin_feed_dels cfg st chunks = (map (fun f => (snd f, zb (fst f))) frames, map (fun _ => FOk) chunks).
Proof.
  induction chunks as [|c cs IH]; intros b frames st Hb Hall Ho.
  - cbn in Ho. destruct Ho as [-> _]. reflexivity.
  - cbn [bopr] in Ho. destruct frames as [|[u pdu] fs].
    + destruct Ho as (-> & -> & Ho). cbn [bin_feed_dels map].
      rewrite bin_recv_short by (rewrite Hb; cbn; lia).
      rewrite (IH [] [] _); [reflexivity | cbn [b_buf]; rewrite Hb; reflexivity | constructor | exact Ho].
    + inversion Hall as [|? ? V Hfs]. subst. cbn [fst snd] in V.
      destruct Ho as [(Hl & Ho) | (Eb & Ho)]; cbn [bin_feed_dels].
      * rewrite bin_recv_short by exact Hl.
        rewrite (IH (b_buf st ++ c) ((u, pdu) :: fs) _); [reflexivity | reflexivity | exact Hall | exact Ho].
      * rewrite (bin_recv_whole cfg st c u pdu V Eb).
        rewrite (IH [] fs bin_init); [reflexivity | reflexivity | exact Hfs | exact Ho].
Qed.

(* ------------------------------------------------------------------ C07: the delivery gate when the buffer starts with '{' *)

Lemma swap_val_bytes c0 c1 k : (c0 < 256)%N -> (c1 < 256)%N -> (k < 65536)%N ->
  (Z.of_N (swap16 k) =? Z.of_N c0 * 256 + Z.of_N c1) = true -> k = (c0 + 256 * c1)%N.
Proof.
  intros H0 H1 Hk H. rewrite swap16_bytes in H by exact Hk.
  pose proof (crc_lo_lt k). pose proof (crc_hi_lt k Hk). pose proof (crc_lo_hi k Hk). lia.
Qed.

Lemma pyslice_len_hi {A} (l : list A) lo hi : 0 <= hi ->
  Z.of_nat (length (pyslice l lo (Some hi))) <= hi.
Proof.
  intros Hh. unfold pyslice, norm_idx. fold (zlen l). replace (hi <? 0) with false by lia.
  rewrite firstn_length. pose proof (zlen_nonneg l).
  destruct lo as [i|]; [destruct (i <? 0) eqn:Ei|]; lia.
Qed.

Lemma pyslice_empty {A} (l : list A) a b : 0 <= b <= a -> pyslice l (Some a) (Some b) = [].
Proof.
  intros H. unfold pyslice, norm_idx. replace (a <? 0) with false by lia. replace (b <? 0) with false by lia.
  replace (Z.to_nat (Z.min b (Z.of_nat (length l)) - Z.min a (Z.of_nat (length l)))) with 0%nat by lia. reflexivity.
Qed.

Lemma split_last2 {A} (m : list A) : (2 <= length m)%nat ->
  exists d c0 c1, m = d ++ [c0; c1].
Proof.
  intros H. exists (firstn (length m - 2) m).
  pose proof (firstn_skipn (length m - 2) m) as E.
  assert (L : length (skipn (length m - 2) m) = 2%nat) by (rewrite skipn_length; lia).
  destruct (skipn (length m - 2) m) as [|c0 [|c1 [|? ?]]]; cbn in L; try lia.
  exists c0, c1. symmetry. exact E.
Qed.

(* checkFrame = True on a buffer that starts with '{': the buffer is '{' d c0 c1 '}' rest with
   no '}' inside and CRC(d) = c0 + 256 c1 — the check is over exactly the bytes between the
   braces *)
Lemma bin_check_true_start0 st st1 : wfb (b_buf st) = true -> find_byte 123%N (b_buf st) = 0 ->
  bin_check st = (st1, Ok true) ->
  exists d c0 c1 rest,
    b_buf st = [123%N] ++ d ++ [c0; c1] ++ [125%N] ++ rest /\ ~ In 125%N (d ++ [c0; c1]) /\
    crc16_bitwise d = (c0 + 256 * c1)%N /\ b_buf st1 = b_buf st /\ b_len (b_hdr st1) = zlen d + 3 /\
    match d with u :: _ => b_uid (b_hdr st1) = zb u | [] => True end.
Proof.
  intros Hw F0. unfold bin_check. destruct bin_delims as [-> ->]. rewrite F0.
  cbn [Z.eqb Z.gtb Z.compare].
  set (buf := b_buf st) in *.
  destruct (find_byte 125%N buf =? -1) eqn:E1; cbn [negb]; [intros HH; discriminate HH|].
  pose proof (find_byte_ge 125%N buf) as Hge.
  destruct (find_byte_spec 125%N buf _ eq_refl ltac:(lia)) as (pre & post & Ebuf & Hpre & Hnin).
  assert (Hpre1 : exists m, pre = 123%N :: m).
  { destruct pre as [|x m].
    - rewrite Ebuf in F0. cbn in F0. pose proof (find_byte_ge 123%N post). destruct (find_byte 123%N post <? 0) eqn:Ef; lia.
    - rewrite Ebuf in F0. cbn [app find_byte] in F0. destruct (N.eqb x 123) eqn:Ex.
      + apply N.eqb_eq in Ex. subst. eexists. reflexivity.
      + pose proof (find_byte_ge 123%N (m ++ 125%N :: post)). destruct (find_byte 123%N (m ++ 125%N :: post) <? 0) eqn:Ef; lia. }
  destruct Hpre1 as [m ->].
  set (e := find_byte 125%N buf) in *.
  assert (He : e = zlen m + 1) by (rewrite <- Hpre; unfold zlen; cbn [length]; lia).
  destruct bc_uid_closed as [-> ->].
  rewrite bc_crc_lo_closed, bc_crc_hi_closed, bc_data_lo_closed, bc_data_hi_closed.
  destruct (unpack_s ">B" (pyslice buf (Some 1) (Some 2))) as [[|uv [|? ?]]|] eqn:UB; try (intros HH; discriminate HH).
  destruct (unpack_s ">H" (pyslice buf (Some (e - 2)) (Some e))) as [[|c [|? ?]]|] eqn:UH; try (intros HH; discriminate HH).
  pose proof (unpack_H_len _ _ UH) as L2.
  destruct (le_lt_dec 2 (length m)) as [Hm|Hm].
  - (* the normal case: at least two bytes between the braces *)
    destruct (split_last2 m Hm) as (d & c0 & c1 & ->).
    assert (Ebuf' : buf = (123%N :: d) ++ [c0; c1] ++ (125%N :: post)).
    { rewrite Ebuf. cbn [app]. rewrite <- app_assoc. reflexivity. }
    assert (Ed : zlen (d ++ [c0; c1]) = zlen d + 2) by (rewrite zlen_app; reflexivity).
    rewrite Ed in He.
    assert (S1 : pyslice buf (Some (e - 2)) (Some e) = [c0; c1]).
    { rewrite Ebuf'. apply pyslice_mid; unfold zlen in *; cbn [length]; lia. }
    rewrite S1, unpack_H in UH. inversion UH. subst c. clear UH.
    assert (S2 : pyslice buf (Some (0 + 1)) (Some (e - 2)) = d).
    { rewrite Ebuf'. change ((123%N :: d) ++ [c0; c1] ++ 125%N :: post) with ([123%N] ++ d ++ ([c0; c1] ++ 125%N :: post)).
      apply pyslice_mid; unfold zlen in *; cbn [length]; lia. }
    rewrite S2.
    assert (Hws : wfb d = true /\ (c0 < 256)%N /\ (c1 < 256)%N).
    { rewrite Ebuf' in Hw. change ((123%N :: d) ++ [c0; c1] ++ 125%N :: post) with ([123%N] ++ d ++ ([c0; c1] ++ 125%N :: post)) in Hw.
      rewrite !wfb_app in Hw. apply andb_prop in Hw. destruct Hw as [_ Hw]. apply andb_prop in Hw. destruct Hw as [Hd Hw].
      apply andb_prop in Hw. destruct Hw as [Hc _]. cbn in Hc. unfold byteb in Hc. split; [exact Hd|lia]. }
    destruct Hws as (Hwd & H0 & H1).
    rewrite py_check_crc_spec by exact Hwd.
    destruct (Z.of_N (swap16 (crc16_bitwise d)) =? Z.of_N c0 * 256 + Z.of_N c1) eqn:K; intros HH; inversion HH. subst st1.
    apply swap_val_bytes in K; try assumption; [|apply crc16_lt; exact Hwd].
    exists d, c0, c1, post. cbn [b_buf b_hdr b_len b_uid].
    split; [rewrite Ebuf'; reflexivity|].
    split; [intro Hin; apply Hnin; right; exact Hin|].
    split; [exact K|]. split; [reflexivity|]. split; [lia|].
    destruct d as [|u d']; [exact I|].
    assert (S3 : pyslice buf (Some 1) (Some 2) = [u]).
    { rewrite Ebuf'. change ((123%N :: u :: d') ++ [c0; c1] ++ 125%N :: post) with ([123%N] ++ [u] ++ (d' ++ [c0; c1] ++ 125%N :: post)).
      apply pyslice_mid; reflexivity. }
    rewrite S3, unpack_B in UB. inversion UB. reflexivity.
  - (* fewer than two bytes between the braces: the CRC field cannot be read or cannot match *)
    destruct m as [|x [|y m']]; [| |cbn in Hm; lia].
    + (* "{}": buffer[-1:1] *)
      replace e with 1 in L2 by (unfold zlen in He; cbn in He; lia).
      pose proof (pyslice_len_hi buf (Some (1 - 2)) 1 ltac:(lia)). exfalso. lia.
    + (* "{x}": crc = "{x", data empty *)
      replace e with 2 in * by (unfold zlen in He; cbn in He; lia).
      assert (S1 : pyslice buf (Some (2 - 2)) (Some 2) = [123%N; x]).
      { rewrite Ebuf. change ([123%N; x] ++ 125%N :: post) with ([] ++ [123%N; x] ++ 125%N :: post). apply pyslice_mid; reflexivity. }
      rewrite S1, unpack_H in UH.
      apply (f_equal (fun r => match r with Ok (v :: _) => v | _ => 0 end)) in UH. cbn beta iota in UH.
      change (Z.of_N 123) with 123 in UH. rename UH into Hc.
      assert (Hx : (x < 256)%N).
      { rewrite Ebuf in Hw. cbn [app wfb forallb] in Hw. unfold byteb in Hw. lia. }
      assert (Hc' : c = 31488 + Z.of_N x) by lia. clear Hc. subst c.
      assert (S2 : pyslice buf (Some (0 + 1)) (Some (2 - 2)) = []).
      { assert (L : Z.of_nat (length (pyslice buf (Some (0 + 1)) (Some (2 - 2)))) <= 0) by (apply pyslice_len_hi; lia).
        destruct (pyslice buf (Some (0 + 1)) (Some (2 - 2))); [reflexivity|cbn [length] in L; lia]. }
      rewrite S2. rewrite py_check_crc_spec by reflexivity.
      assert (K : (Z.of_N (swap16 (crc16_bitwise [])) =? 31488 + Z.of_N x) = false).
      { replace (Z.of_N (swap16 (crc16_bitwise []))) with 65535 by (vm_compute; reflexivity). lia. }
      rewrite K. intros HH. discriminate HH.
Qed.

Lemma bin_loop_prefix cfg : forall fuel st acc st' ds x,
  bin_loop fuel cfg st acc = (st', ds, x) -> exists t, ds = acc ++ t.
Proof.
  induction fuel as [|k IH]; intros st acc st' ds x H; cbn [bin_loop] in H.
  - inversion H. exists []. rewrite app_nil_r. reflexivity.
  - destruct (bin_ready st); [|inversion H; exists []; rewrite app_nil_r; reflexivity].
    destruct (bin_check st) as [st1 [[|]|e]]; try (inversion H; exists []; rewrite app_nil_r; reflexivity).
    destruct (validate_unit cfg _) as [[|]|e]; try (inversion H; exists []; rewrite app_nil_r; reflexivity).
    destruct (cf_dec cfg _); try (inversion H; exists []; rewrite app_nil_r; reflexivity).
    apply IH in H. destruct H as [t ->]. rewrite <- app_assoc. eexists. reflexivity.
Qed.

(* GATE (first delivery of a call whose buffer starts with '{'): the delivered (pdu, unit) are
   exactly the bytes between the braces, their CRC-16 matches, and no '}' lies inside *)
Theorem bin_gate_first cfg st chunk st' d ds x :
  wfb (b_buf st ++ chunk) = true -> find_byte 123%N (b_buf st ++ chunk) = 0 ->
  cf_dec cfg [] <> DMsg ->
  bin_recv cfg st chunk = (st', d :: ds, x) ->
  exists u pdu c0 c1 rest,
    b_buf st ++ chunk = [123%N] ++ (u :: pdu) ++ [c0; c1] ++ [125%N] ++ rest /\
    d = (pdu, zb u) /\ pdu <> [] /\
    crc16_bitwise (u :: pdu) = (c0 + 256 * c1)%N /\ ~ In 125%N ((u :: pdu) ++ [c0; c1]).
Proof.
  intros Hw F0 Hd0. unfold bin_recv. cbn [bin_loop].
  set (st0 := {| b_buf := b_buf st ++ chunk; b_hdr := b_hdr st |}).
  destruct (bin_ready st0); [|intros HH; discriminate HH].
  destruct (bin_check st0) as [st1 [[|]|e]] eqn:C; try (intros HH; discriminate HH).
  apply bin_check_true_start0 in C; [|exact Hw|exact F0].
  destruct C as (dd & c0 & c1 & rest & Ebuf & Hnin & Hcrc & Hb1 & Hl & Hu). cbn [st0 b_buf] in Ebuf, Hb1.
  destruct (validate_unit cfg _) as [[|]|e]; try (intros HH; discriminate HH).
  assert (G : bin_get_frame st1 = match dd with _ :: pdu => pdu | [] => [] end).
  { unfold bin_get_frame. rewrite bc_get_start_closed, bc_get_end_closed, bc_get_cond_closed, Hl, Hb1, Ebuf.
    pose proof (zlen_nonneg dd). replace (zlen dd + 3 - 2 >? 0) with true by lia.
    destruct dd as [|u pdu].
    - apply pyslice_empty. unfold zlen. cbn [length]. lia.
    - change ([123%N] ++ (u :: pdu) ++ [c0; c1] ++ [125%N] ++ rest) with ([123%N; u] ++ pdu ++ ([c0; c1] ++ [125%N] ++ rest)).
      apply pyslice_mid; unfold zlen; cbn [length]; lia. }
  rewrite G.
  destruct dd as [|u pdu].
  - destruct (cf_dec cfg []) eqn:D; try (intros HH; discriminate HH). congruence.
  - destruct (cf_dec cfg pdu) eqn:D; try (intros HH; discriminate HH).
    intros HH. apply bin_loop_prefix in HH. destruct HH as [t HH]. cbn [app] in HH. injection HH as Hd1 Hds.
    exists u, pdu, c0, c1, rest. split; [exact Ebuf|]. split; [rewrite Hd1, Hu; reflexivity|].
    split; [intro Ep; rewrite Ep in D; congruence|]. split; assumption.
Qed.

(* ... which is the specified frame when the bytes between the braces contain no '{' either *)
Corollary bin_gate_first_spec u pdu c0 c1 : (c0 < 256)%N -> (c1 < 256)%N ->
  crc16_bitwise (u :: pdu) = (c0 + 256 * c1)%N -> no_delim ((u :: pdu) ++ [c0; c1]) = true ->
  [123%N] ++ (u :: pdu) ++ [c0; c1] ++ [125%N] = spec_adu_binary u pdu.
Proof.
  intros H0 H1 Hc Hn. unfold spec_adu_binary, with_crc. rewrite Hc.
  destruct (crc_split c0 c1 H0 H1) as [-> ->]. rewrite escape_no_delim by exact Hn.
  rewrite <- !app_assoc. reflexivity.
Qed.

(* refutation of the unrestricted gate: one noise byte in front, one byte inserted after '{' *)
Lemma bin_gate_refuted_witness :
  let cfg := {| cf_dec := fun _ => DMsg; cf_rules := server_decoder; cf_units := [17]; cf_single := false |} in
  let rx := [0; 123; 17; 3; 43; 14; 1; 0; 9; 183; 125]%N in
  snd (fst (bin_recv cfg bin_init rx)) = [([3; 43; 14; 1; 0]%N, 17)] /\
  justified_binary rx [3; 43; 14; 1; 0]%N 17 = false /\
  is_infix ([123%N] ++ with_crc [17; 3; 43; 14; 1; 0]%N ++ [125%N]) rx = false /\
  spec_rx_binary [123; 3; 43; 14; 1; 0; 9; 183; 125]%N = Some ([43; 14; 1; 0]%N, 3%N).
Proof. cbv zeta. repeat split; vm_compute; reflexivity. Qed.

(* valid delimiter-free frames, one per read, from any state with an empty buffer *)
Theorem bin_one_per_read cfg (frames : list (N * bytes)) : forall st,
  b_buf st = [] ->
  Forall (fun f => valid_bframe cfg (fst f) (snd f)) frames ->
  bin_feed_dels cfg st (map (fun f => spec_adu_binary (fst f) (snd f)) frames) =
    (map (fun f => (snd f, zb (fst f))) frames, map (fun _ => FOk) frames).
Proof.
  induction frames as [|[u pdu] t IH]; intros st Hb Hall; [reflexivity|].
  inversion Hall as [|? ? V Ht]. subst. cbn [map bin_feed_dels fst snd] in *.
  rewrite (bin_recv_whole cfg st (spec_adu_binary u pdu) u pdu V) by (rewrite Hb; reflexivity).
  rewrite (IH bin_init); [reflexivity|reflexivity|exact Ht].
Qed.

Example valid_bframe_example :
  let cfg := {| cf_dec := fun _ => DMsg; cf_rules := server_decoder; cf_units := [1]; cf_single := false |} in
  valid_bframe cfg 1 [3; 0; 1; 0; 2]%N.
Proof. cbv zeta. constructor; try reflexivity. discriminate. Qed.

Example bopr_example :
  let f := spec_adu_binary 1 [3; 0; 1; 0; 2]%N in
  bopr [] [(1, [3; 0; 1; 0; 2]); (1, [3; 0; 1; 0; 2])]%N [[]; firstn 1 f; skipn 1 f; f; []].
Proof.
  cbv zeta. cbn [bopr].
  left. split; [cbn; lia|]. left. split; [cbn; lia|]. right. split; [vm_compute; reflexivity|].
  right. split; [reflexivity|]. cbn. repeat split; reflexivity.
Qed.
