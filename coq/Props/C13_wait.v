(* C13 add-on — ModbusSerialClient._wait_for_data, the polling loop behind every serial read of
   unknown length (size None: a unit that once stayed silent is read "in full").  Until now this
   loop was tied by correspondence only; its tests, comparison operator and sleep constant are now
   generated (Generated/GenWaitData.v) and the theorems below are about the generated code.
   Time is the virtual clock advanced by time.sleep; [obs] — what in_waiting shows at each poll —
   is universally quantified: the line may do anything. *)
From Coq Require Import ZArith List.
From PM.theories Require Import Base WaitData.
From PM.Generated Require Import GenWaitData.
From PM.proofs Require Import WaitData_proofs.
Open Scope Z_scope.

Theorem C13_wait_code_is_spec : GenWaitData.code = spec_code.
Proof. exact code_is_spec. Qed.
Print Assumptions C13_wait_code_is_spec.

(* bounded: with a timeout set, the wait ends after at most timeout/sleep + 1 polls — for EVERY
   behaviour of the line (bytes trickling in for ever included) *)
Theorem C13_wait_terminates : forall (obs : nat -> Z) t, 0 <= t ->
  exists s n, wait_for_data GenWaitData.code (Z.to_nat (t / 10000 + 2)) (Some t) obs = Some (s, n) /\
              Z.of_nat n <= max_polls GenWaitData.code t.
Proof. rewrite code_is_spec. exact wait_terminates. Qed.
Print Assumptions C13_wait_terminates.

(* what is handed to socket.read is 0 or a value in_waiting really showed *)
Theorem C13_wait_result_observed : forall (obs : nat -> Z) fuel timeout s n,
  wait_for_data GenWaitData.code fuel timeout obs = Some (s, n) ->
  s = 0 \/ exists j, (j < n)%nat /\ s = obs j.
Proof. rewrite code_is_spec. exact wait_result_observed. Qed.
Print Assumptions C13_wait_result_observed.

(* a healthy reply (nothing, then n bytes, then still n bytes) is read as n bytes after three polls,
   timeout or not *)
Theorem C13_wait_stable_data_returns : forall timeout n, 0 < n ->
  (match timeout with Some t => 20000 <= t | None => True end) ->
  wait_for_data GenWaitData.code 4 timeout (fun k => match k with O => 0 | _ => n end) = Some (n, 3%nat).
Proof. rewrite code_is_spec. exact wait_stable_data_returns. Qed.
Print Assumptions C13_wait_stable_data_returns.

(* FULL statement: the wait ends for every timeout setting.  Refuted for timeout None / 0 on a silent
   line (finding F-C13-serial-timeout0-wait-for-data-hangs): no amount of fuel lets the loop return *)
Definition C13_wait_full_statement : Prop :=
  forall timeout (obs : nat -> Z), exists fuel r, wait_for_data GenWaitData.code fuel timeout obs = Some r.

Theorem C13_wait_unbounded_refuted : forall fuel,
  wait_for_data GenWaitData.code fuel None (fun _ => 0) = None.
Proof. rewrite code_is_spec. exact wait_unbounded_silent_never_returns. Qed.
Print Assumptions C13_wait_unbounded_refuted.

Example C13_wait_nonvacuous :
  wait_for_data GenWaitData.code 10 (Some 50000) (fun k => Z.of_nat k) = Some (5, 6%nat) /\
  wait_for_data GenWaitData.code 10 (Some 1000000) (fun k => match k with O => 0 | S O => 3 | _ => 8 end) = Some (8, 4%nat).
Proof. split; vm_compute; reflexivity. Qed.
Print Assumptions C13_wait_nonvacuous.
