(* Props/C06_rtubin.v — C06, RTU / binary half: chunking independence.  ONLY statements. *)
From PM.theories Require Import Base Expr Struct FrBCode Crc FrBCommon FrRtu FrBin FrSpecB.
From PM.Generated Require Import GenFramerB.
From PM.proofs Require Import Crc_proofs FrB_witness_proofs FrB_rtu_proofs FrB_bin_proofs FrB_rtu_client_proofs.
Open Scope list_scope.
Open Scope N_scope.

(* the full statement, kept visible: any chunking of a stream of frames the decoder accepts
   delivers all of them, in order.  It holds for the classes with a prefix-stable, correct size
   rule (C06_rtu); it is still refuted for Read Device Identification responses
   (C06_rtu_mei_refuted) and for frames whose size oracle is wrong (C03_rtu_size_oracle_refuted). *)
Definition C06_full_statement_rtu : Prop :=
  forall (dec : bytes -> dres) (frames : list (N * bytes)) (chunks : list bytes),
    (forall u p, In (u, p) frames -> dec p = DMsg /\ wfb (u :: p) = true) ->
    concat chunks = concat (map (fun f => spec_adu_rtu (fst f) (snd f)) frames) ->
    let cfg := {| cf_dec := dec; cf_rules := server_decoder; cf_units := []; cf_single := true |} in
    deliveries (rtu_feed cfg rtu_init chunks) = map (fun f => (snd f, Z.of_N (fst f))) frames.

(* RTU (after the /repo repairs "processes every complete frame in its buffer" and "a frame for
   another unit is skipped"): FULL chunking independence for every class with a prefix-stable
   size rule (fixed size or byte count at a fixed position: all request classes, all responses
   except FIFO and MEI).  However the byte stream of valid frames is cut into reads — any number
   of cuts, any positions, empty reads, several frames per read — exactly the frames of served
   units are delivered ([msgs]), in order, and no call raises.  A frame is (served?, (unit, PDU)). *)
Theorem C06_rtu : forall cfg chunks (R : list frame) st,
  r_buf st = [] -> (r_hdr st = hdr_empty \/ r_hdr st = r_hdr rtu_init) ->
  Forall (vf cfg) R -> concat chunks = stream R ->
  rtu_feed_dels cfg st chunks = (msgs R, map (fun _ => FOk) chunks).
Proof. exact rtu_chunked_sync. Qed.
Print Assumptions C06_rtu.

(* the same from any intermediate state: [b] already buffered is a strict prefix of the next frame *)
Theorem C06_rtu_from_any_point : forall cfg chunks R b st,
  r_buf st = b -> Forall (vf cfg) R -> tail_ok b R -> hdr_for R (r_hdr st) ->
  stream R = b ++ concat chunks ->
  rtu_feed_dels cfg st chunks = (msgs R, map (fun _ => FOk) chunks).
Proof. exact rtu_chunked. Qed.
Print Assumptions C06_rtu_from_any_point.

(* what one call does: it drains every complete frame at the head of the buffer and keeps the
   incomplete tail, silently *)
Theorem C06_rtu_drain : forall cfg fs fuel nxt q h acc,
  Forall (vf cfg) fs -> Forall (vf cfg) nxt -> tail_ok q nxt ->
  hdr_for (fs ++ nxt) h -> (length fs < fuel)%nat ->
  exists h', rtu_loop fuel cfg {| r_buf := stream fs ++ q; r_hdr := h |} acc
             = ({| r_buf := q; r_hdr := h' |}, acc ++ msgs fs, FOk) /\ hdr_for nxt h'.
Proof. exact rtu_loop_drain. Qed.
Print Assumptions C06_rtu_drain.

(* the while loop always terminates: the model's fuel is never exhausted *)
Theorem C06_rtu_loop_terminates : forall cfg st chunk, known_rules (cf_rules cfg) ->
  wfb (r_buf st ++ chunk) = true -> snd (rtu_recv cfg st chunk) <> FOutOfFuel.
Proof. exact rtu_recv_no_fuel_out. Qed.
Print Assumptions C06_rtu_loop_terminates.

(* no exception of the framer escapes: from any state satisfying the reachable-state invariant, on
   ANY chunk (valid, incomplete or garbage), with a table of prefix-stable size rules, a call lets
   escape only ModbusIOException (decoder returned None) or what decoder.decode itself raised; it
   terminates, keeps the invariant and never grows the buffer.  (Excluded: ReadDeviceInformationResponse
   - refuted by C06_rtu_mei_refuted: struct.error then KeyError - and ReadFifoQueueResponse, whose
   rule is not prefix-stable and can ask for 64 KB: C11_rtu_fifo_extent_refuted.) *)
Theorem C06_rtu_raises_only_io : forall cfg st chunk st' ds x,
  table_simple (cf_rules cfg) = true -> wfb (r_buf st ++ chunk) = true -> rtu_inv st ->
  rtu_recv cfg st chunk = (st', ds, x) ->
  exit_ok cfg x /\ x <> FOutOfFuel /\ rtu_inv st' /\ exists pre, r_buf st ++ chunk = pre ++ r_buf st'.
Proof. exact rtu_raises_only_io. Qed.
Print Assumptions C06_rtu_raises_only_io.

(* a raising call that saw at most one CRC-valid frame has delivered nothing *)
Theorem C06_rtu_one_frame_clean : forall cfg st chunk st' ds x,
  table_simple (cf_rules cfg) = true -> wfb (r_buf st ++ chunk) = true -> rtu_inv st ->
  ~ two_frames (r_buf st ++ chunk) ->
  rtu_recv cfg st chunk = (st', ds, x) -> x <> FOk -> ds = [].
Proof. exact rtu_one_frame_clean. Qed.
Print Assumptions C06_rtu_one_frame_clean.

Example C06_nonvacuous :
  let cfg := {| cf_dec := fun _ => DMsg; cf_rules := server_decoder; cf_units := [1%Z]; cf_single := false |} in
  Forall (vf cfg) [(true, (1, [3; 0; 1; 0; 2])); (false, (9, [3; 0; 1; 0; 2])); (true, (1, [16; 0; 1; 0; 1; 2; 123; 125]))].
Proof. cbv zeta. repeat constructor; apply valid_frame_example. Qed.

(* formerly refuted, now FIXED in /repo (finding F-C06-rtu-one-frame-per-call, status fixed): two
   frames in one read, and a frame cut across reads behind a complete one, are all delivered *)
Theorem C06_rtu_pipelined_fixed :
  let fa := spec_adu_rtu 1 pdu_a in let fb := spec_adu_rtu 1 pdu_b in
  deliveries (rtu_feed cfg_server rtu_init [fa; fb]) = [(pdu_a, 1%Z); (pdu_b, 1%Z)] /\
  deliveries (rtu_feed cfg_server rtu_init [fa ++ fb]) = [(pdu_a, 1%Z); (pdu_b, 1%Z)] /\
  deliveries (rtu_feed cfg_server rtu_init [fa ++ firstn 3 fb; skipn 3 fb]) = [(pdu_a, 1%Z); (pdu_b, 1%Z)].
Proof. exact rtu_pipelined_fixed_witness. Qed.
Print Assumptions C06_rtu_pipelined_fixed.

(* formerly finding #19 for RTU, now FIXED in /repo: a frame for a unit not served is skipped *)
Theorem C06_rtu_foreign_unit_skipped :
  let cfg := {| cf_dec := fun _ => DMsg; cf_rules := server_decoder; cf_units := [1%Z]; cf_single := false |} in
  let fa := spec_adu_rtu 1 pdu_a in let ff := spec_adu_rtu 9 pdu_b in
  deliveries (rtu_feed cfg rtu_init [fa ++ ff ++ fa]) = [(pdu_a, 1%Z); (pdu_a, 1%Z)] /\
  exits (rtu_feed cfg rtu_init [fa ++ ff ++ fa]) = [FOk].
Proof. exact rtu_foreign_unit_skipped_witness. Qed.
Print Assumptions C06_rtu_foreign_unit_skipped.

(* RTU, responses: refuted — a Read Device Identification response cut inside its object list
   raises struct.error, then KeyError for ever (finding F-C06-rtu-mei-partial-raises) *)
Theorem C06_rtu_mei_refuted :
  let fa := spec_adu_rtu 1 [3; 2; 0; 7] in
  let mei := spec_adu_rtu 1 [43; 14; 1; 1; 0; 0; 1; 0; 3; 65; 66; 67] in
  rtu_feed cfg_client rtu_init [fa; mei] =
    (rtu_reset rtu_init, [([3; 2; 0; 7], 1%Z); ([43; 14; 1; 1; 0; 0; 1; 0; 3; 65; 66; 67], 1%Z)], [FOk; FOk]) /\
  exits (rtu_feed cfg_client rtu_init [fa; firstn 9 mei; skipn 9 mei; fa; fa]) =
    [FOk; FExn StructError; FExn KeyError; FExn KeyError; FExn KeyError] /\
  deliveries (rtu_feed cfg_client rtu_init [fa; firstn 9 mei; skipn 9 mei; fa; fa]) = [([3; 2; 0; 7], 1%Z)].
Proof. exact rtu_mei_partial_witness. Qed.
Print Assumptions C06_rtu_mei_refuted.

(* binary, strongest true statement (after the /repo repair "advanceFrame drops exactly the frame"):
   for every list of chunks (empty ones included) in which every read completes any number of
   whole frames - none, one or several - and leaves at most one byte of the next frame buffered
   ([bopr]), delimiter-free frames are all delivered, in order, and no call raises.  A read that
   ends two or more bytes into a frame is still refuted below (incomplete-frame reset), as are
   frames containing a delimiter and frames behind a frame for a unit not served. *)
Theorem C06_binary_partial : forall cfg chunks b frames st,
  b_buf st = b ->
  Forall (fun f => valid_bframe cfg (fst f) (snd f)) frames ->
  bopr b frames chunks ->
  bin_feed_dels cfg st chunks = (bmsgs frames, map (fun _ => FOk) chunks).
Proof. exact bin_chunked. Qed.
Print Assumptions C06_binary_partial.

(* one call drains every complete frame of the buffer and keeps at most one trailing byte *)
Theorem C06_binary_drain : forall cfg fs fuel q h acc,
  Forall (fun f => valid_bframe cfg (fst f) (snd f)) fs -> (length q <= 1)%nat -> (length fs < fuel)%nat ->
  exists h', bin_loop fuel cfg {| b_buf := bstream fs ++ q; b_hdr := h |} acc
             = ({| b_buf := q; b_hdr := h' |}, acc ++ bmsgs fs, FOk).
Proof. exact bin_loop_drain. Qed.
Print Assumptions C06_binary_drain.

Example C06_binary_nonvacuous :
  let f := spec_adu_binary 1 [3; 0; 1; 0; 2] in
  bopr [] [(1, [3; 0; 1; 0; 2]); (1, [3; 0; 1; 0; 2]); (1, [3; 0; 1; 0; 2])] [[]; f ++ firstn 1 f; skipn 1 f ++ f; []].
Proof. exact bopr_example. Qed.

(* the while loop of the binary processIncomingPacket always terminates: the model's fuel
   S(|buffer|) is never exhausted, for any state and chunk *)
Theorem C06_binary_loop_terminates : forall cfg st chunk, snd (bin_recv cfg st chunk) <> FOutOfFuel.
Proof. exact bin_recv_no_fuel_out. Qed.
Print Assumptions C06_binary_loop_terminates.

(* binary: refuted — a read ending inside a frame resets the receiver
   (finding F-C06-binary-incomplete-reset) *)
Theorem C06_binary_refuted :
  let f := spec_adu_binary 1 pdu_a in
  no_delim (with_crc (1 :: pdu_a)) = true /\
  deliveries (bin_feed cfg_server bin_init [f]) = [(pdu_a, 1%Z)] /\
  deliveries (bin_feed cfg_server bin_init [firstn 4 f; skipn 4 f]) = [].
Proof. exact binary_incomplete_reset_witness. Qed.
Print Assumptions C06_binary_refuted.

(* formerly refuted, now FIXED in /repo (finding F-C06-binary-advance-skips-byte, status fixed):
   several frames in one read are all delivered *)
Theorem C06_binary_pipelined_fixed :
  let fa := spec_adu_binary 1 pdu_a in let fb := spec_adu_binary 1 pdu_b in
  no_delim (with_crc (1 :: pdu_a)) = true /\ no_delim (with_crc (1 :: pdu_b)) = true /\
  deliveries (bin_feed cfg_server bin_init [fa; fb]) = [(pdu_a, 1%Z); (pdu_b, 1%Z)] /\
  deliveries (bin_feed cfg_server bin_init [fa ++ fb]) = [(pdu_a, 1%Z); (pdu_b, 1%Z)] /\
  deliveries (bin_feed cfg_server bin_init [fa ++ fb ++ firstn 1 fa; skipn 1 fa]) = [(pdu_a, 1%Z); (pdu_b, 1%Z); (pdu_a, 1%Z)].
Proof. exact binary_pipelined_fixed_witness. Qed.
Print Assumptions C06_binary_pipelined_fixed.

(* binary: refuted - a frame for a unit that is not served resets the buffer; the frames behind it
   in the same read are lost (finding F-C06-binary-foreign-unit-resets-read; fixed for RTU only) *)
Theorem C06_binary_foreign_unit_refuted :
  let cfg := {| cf_dec := fun _ => DMsg; cf_rules := server_decoder; cf_units := [1%Z]; cf_single := false |} in
  let fa := spec_adu_binary 1 pdu_a in let ff := spec_adu_binary 9 pdu_b in
  no_delim (with_crc (9 :: pdu_b)) = true /\
  deliveries (bin_feed cfg bin_init [fa ++ ff ++ fa]) = [(pdu_a, 1%Z)] /\
  deliveries (bin_feed cfg bin_init [fa; ff; fa]) = [(pdu_a, 1%Z); (pdu_a, 1%Z)].
Proof. exact binary_foreign_unit_witness. Qed.
Print Assumptions C06_binary_foreign_unit_refuted.
